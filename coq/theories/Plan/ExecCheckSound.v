(* Soundness of the execution oracle of ExecCheck.v: an accepted Consume log satisfies [exec_spec],
   for every commit graph and every log. *)
From Coq Require Import List ZArith Bool Arith Lia.
From Herc Require Import Plan.Syntax Plan.Exec Plan.Graph Plan.Checker Plan.Spec
  Plan.GraphProofs Plan.CheckerLemmas Plan.ExecCheck.
Import ListNotations.
Local Open Scope nat_scope.

Section Sound.
  Variable g : dag.
  Hypothesis T : topob g = true.

  Lemma record_okb_sound r : record_okb g (anc_tab g) r = true -> record_ok g r.
  Proof.
    unfold record_okb, record_ok. rewrite andb_true_iff. intros [Hc H].
    apply Nat.ltb_lt in Hc. split; [exact Hc|].
    destruct (rc_last r) as [q|].
    - apply andb_true_iff in H. destruct H as [Hq Hs]. apply memn_In in Hq.
      split; [exact Hq|]. rewrite seteqn_iff in Hs. intro a. rewrite Hs.
      apply anc_tab_ok; [exact T|]. pose proof (topob_spec g T (rc_commit r) q Hq). lia.
    - destruct (rc_seen r); [|discriminate].
      destruct (parents g (rc_commit r)); [|discriminate]. split; reflexivity.
  Qed.

  Lemma exec_check_sound log : exec_check g (anc_tab g) log = true -> exec_spec g log.
  Proof.
    unfold exec_check. rewrite !andb_true_iff. intros [[Hret Hrec] Hrep].
    rewrite forallb_forall in Hrec, Hrep.
    assert (R : forall r, In r log -> record_ok g r).
    { intros r Hr. apply record_okb_sound. apply Hrec. exact Hr. }
    constructor.
    - apply retainedb_sound. exact Hret.
    - exact R.
    - intros c Hc. apply (lasts_okb_sound g T).
      + unfold consumed in Hc. apply in_map_iff in Hc. destruct Hc as [r [E Hr]].
        subst c. exact (proj1 (R r Hr)).
      + apply Hrep. apply dedupn_In. exact Hc.
  Qed.
End Sound.

Theorem exec_ok_sound g log : exec_ok g log = true -> exec_spec g log.
Proof.
  unfold exec_ok. rewrite andb_true_iff. intros [T H]. apply exec_check_sound; assumption.
Qed.

(* ---------- consequences of [exec_spec], in the words of the property ---------- *)

(* a commit without analysed parents starts a fresh instance: nothing seen before, no last commit *)
Lemma exec_root_fresh g log r :
  exec_spec g log -> In r log -> parents g (rc_commit r) = [] -> rc_seen r = [] /\ rc_last r = None.
Proof.
  intros S Hr P. destruct (ex_records g log S r Hr) as [_ H].
  destruct (rc_last r) as [q|].
  - destruct H as [Hq _]. rewrite P in Hq. destruct Hq.
  - split; [exact (proj1 H) | reflexivity].
Qed.

(* nothing missing, nothing extra: when c is consumed after its parent q, the instance holds the FULL
   ancestry of q (so every merge below q was carried out completely) and nothing outside of it *)
Lemma exec_full_ancestry g log r q :
  exec_spec g log -> In r log -> rc_last r = Some q ->
  In q (parents g (rc_commit r)) /\
  (forall a, Anc g a q -> In a (rc_seen r)) /\ (forall a, In a (rc_seen r) -> Anc g a q).
Proof.
  intros S Hr L. destruct (ex_records g log S r Hr) as [_ H]. rewrite L in H.
  destruct H as [Hq Ha]. split; [exact Hq|]. split; intros a Hx; apply Ha; exact Hx.
Qed.

(* a commit consumed several times is consumed once per non-redundant parent *)
Lemma exec_replay_count g log c :
  exec_spec g log -> In c (consumed log) -> parents g c <> [] ->
  exists qs, lasts_at c log = map Some qs /\ NoDup qs /\ (forall q, In q qs <-> nonredundant g c q) /\
             length (lasts_at c log) = length qs.
Proof.
  intros S Hc P. destruct (ex_replays g log S c Hc) as [[P0 _]|[_ [qs [E [Hnd Hq]]]]].
  - exfalso. apply P. exact P0.
  - exists qs. split; [exact E|]. split; [exact Hnd|]. split; [exact Hq|].
    rewrite E. apply map_length.
Qed.

Lemma exec_ok_full_ancestry g log r q :
  exec_ok g log = true -> In r log -> rc_last r = Some q ->
  In q (parents g (rc_commit r)) /\
  (forall a, Anc g a q -> In a (rc_seen r)) /\ (forall a, In a (rc_seen r) -> Anc g a q).
Proof. intro H. exact (exec_full_ancestry g log r q (exec_ok_sound g log H)). Qed.

Lemma exec_ok_root_fresh g log r :
  exec_ok g log = true -> In r log -> parents g (rc_commit r) = [] -> rc_seen r = [] /\ rc_last r = None.
Proof. intro H. exact (exec_root_fresh g log r (exec_ok_sound g log H)). Qed.

Theorem exec_ok_sound_spelled_out g log :
  exec_ok g log = true ->
  retained g (map rc_commit log) /\
  (forall r, In r log ->
     rc_commit r < length g /\
     match rc_last r with
     | None => rc_seen r = [] /\ parents g (rc_commit r) = []
     | Some q => In q (parents g (rc_commit r)) /\ forall a, In a (rc_seen r) <-> Anc g a q
     end) /\
  (forall c, In c (map rc_commit log) ->
     let ls := map rc_last (filter (fun r => rc_commit r =? c) log) in
     (parents g c = [] /\ ls = [None]) \/
     (parents g c <> [] /\
      exists qs, ls = map Some qs /\ NoDup qs /\
                 forall q, In q qs <-> (In q (parents g c) /\
                                        ~ exists q', In q' (parents g c) /\ q' <> q /\ Anc g q q'))).
Proof.
  intro H. destruct (exec_ok_sound g log H) as [H1 H2 H3].
  split; [exact H1|]. split; [exact H2|]. exact H3.
Qed.
