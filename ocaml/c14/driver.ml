(* C14: replay the harness trace through the extracted Gallina model of Pipeline.Run
   (coq/theories/Pipeline/RunModel.v) and judge the observed call log with the extracted oracles *)
open C14_model
open Conv

let ni = n_of_int
let nn = nat_of_int

(* ---- rendering of the model's events in the notation of the Go log ---- *)
let sx_int i = A (string_of_int i)
let sx_n x = sx_int (int_of_n x)
let sx_nat x = sx_int (int_of_nat x)
let t tag l = L (A tag :: l)

let sx_value = function
  | VCommit c -> sx_n c.c_id
  | VIndex i -> sx_n i
  | VMerge b -> sx_int (if b then 1 else 0)
  | VUser u -> sx_n u

let sx_deps d =
  let l = List.map (fun (k, v) -> (int_of_n k, v)) d in
  let l = List.sort (fun (a, _) (b, _) -> compare a b) l in
  t "deps" (List.map (fun (k, v) -> L [sx_int k; sx_value v]) l)

let sx_call (c : n call) =
  let out = match c.k_out with
    | COk upd -> t "out" (List.map (fun (k, v) -> L [sx_n k; sx_n v]) upd)
    | CErr _ -> t "err" [] in
  t "con" [sx_nat c.k_item; sx_nat c.k_inst; sx_deps c.k_deps; out]

let sx_fcall (FCall (it, inst, n, ids)) =
  t "fork" [sx_nat it; sx_nat inst; sx_nat n; L (List.map sx_nat ids)]
let sx_mcall (MCall (it, inst, os)) = t "merge" [sx_nat it; sx_nat inst; L (List.map sx_nat os)]
let sx_hcall tag (HCall (it, inst, e)) =
  t tag [sx_nat it; sx_nat inst; sx_int (match e with None -> 1 | Some _ -> 0)]

let events_of_rec = function
  | RCommit s -> List.map sx_call s.cs_calls
  | RFork l -> List.map sx_fcall l
  | REmerge l -> List.map sx_fcall l
  | RMerge l -> List.map sx_mcall l
  | RDelete -> []
  | RHib l -> List.map (sx_hcall "hib") l
  | RBoot l -> List.map (sx_hcall "boot") l

(* ---- parsing ---- *)
(* an item: (number provides requires copy hib leaf [alias extras]); alias > 0: Name() = "n<alias>" (shared by several
   items); extras: undeclared keys returned besides the default one (see harness/cmd/c14/main.go).  The model's i_name is
   the unique declared number: Run uses Name() only in messages and for the timing table *)
let item_of_sx s =
  match list_of_sx s with
  | name :: prov :: req :: cp :: hib :: leaf :: rest ->
      let alias, extras = (match rest with [a; e] -> (int_of_sx a, ints_of_sx e) | [] -> (0, []) | _ -> failwith "item") in
      ({ i_name = ni (int_of_sx name); i_provides = List.map ni (ints_of_sx prov);
         i_requires = List.map ni (ints_of_sx req); i_copy = bool_of_sx cp; i_hib = bool_of_sx hib;
         i_leaf = bool_of_sx leaf }, alias, extras)
  | _ -> failwith "item"

(* the twin of the recording items: the extracted rec_sem, wrapped for the behaviours added with the attribute streams
   (undeclared extra keys, a nil result map, an error at the replay of a merge commit).  The interpreter [run] is the
   extracted one; the theorems of C14 hold for every item behaviour *)
let spec_base = 3000000000

let sem2 items inj (xk, xi, xidx) extras (specials : (int * int * int * int) list) : (rst, n) sem =
  let base = rec_sem items inj in
  let consume j s d =
    let (s', r) = base.s_consume j s d in
    match r with
    | CErr _ -> (s', r)
    | COk outs ->
        let jj = int_of_nat j in
        let idx = (match dlookup k_index d with Some (VIndex i) -> int_of_n i | _ -> 0) in
        (* special values: item position p publishes code for its declared entity e at commit index k (-1: always);
           the value is written spec_base + code (code 9 = uint64 0 is the ordinary value 0) *)
        let prov = (try List.map int_of_n (List.nth items jj).i_provides with _ -> []) in
        let outs = List.map (fun (e, v) ->
            let ei = int_of_n e in
            if not (List.mem ei prov) then (e, v) else
            match List.find_opt (fun (p, e', k, _) -> p = jj && e' = ei && (k < 0 || k = idx)) specials with
            | Some (_, _, _, code) -> (e, ni (if code = 9 then 0 else spec_base + code))
            | None -> (e, v)) outs in
        let r = COk outs in
        let mg = (match dlookup k_merge d with Some (VMerge true) -> true | _ -> false) in
        if xk = "errm" && jj = xi && mg && idx >= xidx then (s', CErr (ni 1))
        else if xk = "nil" && jj = xi && idx = xidx then (s', COk [])
        else
          let ex = (try List.nth extras jj with _ -> []) in
          if ex = [] then (s', r) else begin
            (* the last element of outs is the default undeclared key, its value is the digest of the call *)
            let rec split = function [x] -> ([], x) | x :: r -> let (a, l) = split r in (x :: a, l) | [] -> failwith "outs" in
            let (decl, (dk, dig)) = split outs in
            let prov = List.map int_of_n (List.nth items jj).i_provides in
            let nodef = List.mem (-2) ex in
            let start = if nodef then decl else decl @ [(dk, dig)] in
            let rec add acc seen = function
              | [] -> acc
              | e :: r ->
                  if e < 0 || List.mem e prov || List.mem e seen || (not nodef && e = 1000 + jj) then add acc seen r
                  else add (acc @ [(ni e, mix dig (ni (e + 500)))]) (e :: seen) r in
            (s', COk (add start [] ex))
          end in
  { base with s_consume = consume }

let index_of x l =
  let rec go i = function [] -> -1 | y :: r -> if x = y then i else go (i + 1) r in go 0 l

(* one run: [obs] holds order / times / plan / log / res of that run, [inj_args] its injection, [ncommits] the number of
   commits handed to Run, [sel] (re-use cases) their ids, [where] a prefix for the messages *)
let judge id c obs inj_args ncommits (sel : int list option) where =
    let propfail id t = propfail id (where ^ t) and mismatch id t = mismatch id (where ^ t) in
    if field_opt "initfail" obs <> None then count "initfail" else begin
    let declared = List.map item_of_sx (args (field "items" c)) in
    let order = List.map int_of_sx (args (field "order" obs)) in
    let items3 = List.map (fun nm ->
        try List.find (fun (it, _, _) -> int_of_n it.i_name = nm) declared with Not_found -> failwith "order names an unknown item") order in
    let items = List.map (fun (it, _, _) -> it) items3 in
    let extras = List.map (fun (_, _, e) -> e) items3 in
    (* how Run names item number p in "did not return" *)
    let name_atom p = (match List.nth items3 p with (it, a, _) -> if a > 0 then "n" ^ string_of_int a else string_of_int (int_of_n it.i_name)) in
    if List.exists (fun (_, a, _) -> a > 0) items3 then count "runs_with_same_named_items";
    if List.exists (fun (_, _, e) -> e <> []) items3 then count "runs_with_colliding_extra_keys";
    if field_opt "pa" c <> None then count "runs_with_print_actions";
    (* round 4: content of values *)
    if field_opt "abbrev7" obs <> None then count "runs_with_two_commits_sharing_their_7_digit_abbreviation";
    if field_opt "twins" c <> None then count "runs_with_hash_twins_searched_by_the_generator";
    if field_opt "names" c <> None then count "runs_with_styled_item_and_entity_names";
    let now = int_of_float (Unix.time ()) in
    let ext = List.filter_map (fun s -> match list_of_sx s with
        | [_; tm; _; L [at; ctz; atz; _]] -> Some (int_of_sx tm, int_of_sx at, int_of_sx ctz, int_of_sx atz)
        | _ -> None) (args (field "commits" c)) in
    if List.exists (fun (tm, _, _, _) -> tm > now) ext then count "runs_with_a_commit_dated_after_the_wall_clock";
    if ext <> [] && List.for_all (fun (tm, _, _, _) -> tm > now) ext then count "runs_with_every_commit_dated_after_the_wall_clock";
    if List.exists (fun (tm, _, _, _) -> tm < 0) ext then count "runs_with_a_commit_dated_before_1970";
    if List.exists (fun (tm, at, _, _) -> tm <> at) ext then count "runs_with_author_time_different_from_committer_time";
    if List.exists (fun (_, _, ctz, atz) -> ctz <> 0 || atz <> 0) ext then count "runs_with_non_zero_zone_offsets";
    let nitems = List.length items in
    let times = Hashtbl.create 16 in
    (* committer times as the implementation read them *)
    List.iter (fun s -> match list_of_sx s with
        | cid :: tm :: _ -> Hashtbl.replace times (int_of_sx cid) (int_of_sx tm)
        | _ -> failwith "commit") (args (field "times" obs));
    let commit_of cid = { c_id = ni cid; c_time = z_of_int (try Hashtbl.find times cid with Not_found -> 0) } in
    let plan = List.map (fun s -> match list_of_sx s with
        | [A k; cid; its] ->
            let cid = int_of_sx cid and its = List.map ni (ints_of_sx its) in
            let oc = if cid >= 0 then Some (commit_of cid) else None in
            (match k with
             | "C" -> if cid < 0 then failwith "commit action without a commit" else ACommit (commit_of cid, its)
             | "F" -> AOther (KFork, oc, its) | "M" -> AOther (KMerge, oc, its)
             | "E" -> AOther (KEmerge, oc, its) | "D" -> AOther (KDelete, oc, its)
             | "H" -> AOther (KHibernate, oc, its) | "B" -> AOther (KBoot, oc, its)
             | _ -> failwith "plan action kind")
        | _ -> failwith "plan action") (args (field "plan" obs)) in
    let pos_of nm = index_of nm order in
    let specials = (match field_opt "special" c with
      | None -> []
      | Some f -> List.filter_map (fun x -> match ints_of_sx x with
          | [it; e; k; code] -> let p = pos_of it in if p < 0 then None else Some (p, e, k, code)
          | _ -> failwith "special") (args f)) in
    if specials <> [] then count "runs_with_special_values";
    let inj = match inj_args with
      | [A k; it; kk; e] ->
          let p = pos_of (int_of_sx it) in
          if p < 0 then INone else
          (match k with
           | "err" -> IErr (nn p, ni (int_of_sx kk))
           | "miss" -> IMiss (nn p, ni (int_of_sx kk), ni (int_of_sx e))
           | "hib" -> IHib (nn p, ni (int_of_sx kk))
           | "boot" -> IBoot (nn p, ni (int_of_sx kk))
           | _ -> INone)
      | _ -> failwith "inject" in
    let inj2 = match inj_args with
      | [A k; it; kk; _] -> (k, pos_of (int_of_sx it), int_of_sx kk)
      | _ -> failwith "inject" in
    if field_opt "printbad" obs <> None then
      mismatch id ("PrintActions: what Run printed is not the executed prefix of the dumped plan " ^ string_of_sx (field "printbad" obs));
    let glog = args (field "log" obs) in
    let res = field "res" obs in
    if field_opt "noplan" obs <> None then begin
      (* a run without DumpPlan and without any injected failure: the plan is what PrintActions printed, which is
         complete only when Run came to its end *)
      count "runs";
      propfail id ("Run did not complete although no item failed and no declared output was missing (no injection in this run): " ^ string_of_sx res)
    end else begin
    (* re-use: the executed plan may only schedule commits that were handed to this run *)
    (match sel with
     | None -> ()
     | Some ids ->
         let foreign = List.sort_uniq compare (List.filter_map (function
           | ACommit (cm, _) -> let x = int_of_n cm.c_id in if List.mem x ids then None else Some x
           | _ -> None) plan) in
         if foreign <> [] then
           propfail id (Printf.sprintf "the plan Run executed schedules commit steps for the commit(s) %s, which are not among the commits handed to this run (plan: %s)"
                          (String.concat " " (List.map string_of_int foreign))
                          (let p = string_of_sx (field "plan" obs) in if String.length p > 400 then String.sub p 0 400 ^ "..." else p)));

    (* ---- hypotheses of the theorems, evaluated on the real plan ---- *)
    count "plans";
    if plan = [] then count "empty_plan"
    else if not (plan_okb plan) then begin
      let which = String.concat "," (List.filter_map (fun (nm, f) -> if f plan then None else Some nm)
        ["head_emerge", head_emergeb; "head_first", head_firstb; "contiguous", contigb; "distinct", distinctb; "live", liveb]) in
      mismatch id ("a real plan does not satisfy the plan predicates assumed by the C14 theorems: " ^ which)
    end else count "plan_ok";
    if List.exists (function AOther ((KHibernate | KBoot), _, _) -> true | _ -> false) plan then count "plans_with_hibernation";

    (* ---- fine correspondence: the model interpreter on the same plan and items ---- *)
    let prof = (try Sys.getenv "C14_PROF" <> "" with Not_found -> false) in
    let t0 = Unix.gettimeofday () in
    let tick what = if prof then Printf.eprintf "case %d %s %.3f\n%!" id what (Unix.gettimeofday () -. t0) in
    (* the extracted interpreter is cubic in the plan length (is_merge re-reads the plan with List.rev at every commit
       step): on the large plans of the scale family only the oracles judge the run (they are the property); the model is
       still run when one of them fails, to name the first deviating call *)
    let model_limit = (try int_of_string (Sys.getenv "C14_MODEL_LIMIT") with _ -> 450) in
    let with_model = List.length plan <= model_limit in
    let lout = lazy (run (sem2 items inj inj2 extras specials) items plan (ni ncommits)) in
    if not with_model then count "large_runs_judged_by_the_oracles_only";
    if with_model then begin
    let out = Lazy.force lout in
    tick "model-run";
    let mevents = List.map sx_fcall out.ro_pre @ List.concat_map events_of_rec out.ro_recs in
    let mevents, mres = match out.ro_out with
      | Done (fins, s) ->
          let fs = List.map (fun (FinCall (it, inst, v)) -> (int_of_nat it, int_of_nat inst, int_of_n v)) fins in
          (mevents @ List.map (fun (a, b, v) -> t "fin" [sx_int a; sx_int b; sx_int v]) fs,
           t "res" [A "ok"; sx_int (int_of_z s.sm_begin); sx_int (int_of_z s.sm_end); sx_n s.sm_commits;
                    t "fins" (List.map (fun (a, b, v) -> L [sx_int a; sx_int b; sx_int v]) (List.sort compare fs))])
      | Failed (EMissing (it, e)) ->
          (mevents, t "res" [A "err"; A "missing"; A (name_atom (int_of_nat it)); sx_n e])
      | Failed _ -> (mevents, t "res" [A "err"; A "injected"])
      | Panicked -> (mevents, t "res" [A "panic"]) in
    let gs = List.map string_of_sx glog and ms = List.map string_of_sx mevents in
    (match out.ro_out, tag res, args res with
     | Panicked, "res", [A "panic"] -> count "panics"
     | _ ->
       if gs <> ms then begin
         let rec first i a b = match a, b with
           | x :: ar, y :: br -> if x = y then first (i + 1) ar br else Printf.sprintf "event#%d impl=%s model=%s" i x y
           | x :: _, [] -> Printf.sprintf "event#%d impl=%s model=<end>" i x
           | [], y :: _ -> Printf.sprintf "event#%d impl=<end> model=%s" i y
           | [], [] -> "?" in
         mismatch id ("call log differs: " ^ first 0 gs ms)
       end;
       if string_of_sx res <> string_of_sx mres then
         mismatch id ("result differs: impl=" ^ string_of_sx res ^ " model=" ^ string_of_sx mres));
    (* the oracle must accept the model's own log (consistency of oracle and model, every case) *)
    let mcalls = consume_log out.ro_recs in
    let mearly = (match out.ro_out with Failed (EHibernate _ | EBoot _) -> true | _ -> false) in
    tick "events-compared";
    if out.ro_out <> Panicked && not (log_ok N.eqb mearly plan items plan N0 mcalls) then
      mismatch id "the log oracle rejects the model interpreter's own log";
    tick "oracle-on-model-log"
    end;

    (* ---- property oracles on the implementation's own log ---- *)
    let value_of_sx k v : n value =
      match v with
      | A "?" -> VIndex (ni 99999999)
      | _ -> let x = int_of_sx v in
          (match k with 0 -> VCommit (commit_of x) | 1 -> VIndex (ni x) | 2 -> VMerge (x <> 0) | _ -> VUser (ni x)) in
    let calls = List.filter_map (fun e ->
        if tag e <> "con" then None else
        match args e with
        | [it; inst; deps; o] ->
            let p = int_of_sx it in
            if p < 0 || p >= nitems then failwith "log names an unknown item";
            let d = List.map (fun kv -> match list_of_sx kv with
                | [A k; v] ->
                    let k = (try int_of_string k with _ -> 88888888) in (ni k, value_of_sx k v)
                | _ -> failwith "dep") (args deps) in
            let o = if tag o = "err" then CErr (ni 1)
              else COk (List.map (fun kv -> match list_of_sx kv with [k; v] -> (ni (int_of_sx k), ni (int_of_sx v)) | _ -> failwith "out") (args o)) in
            Some { k_item = nn p; k_desc = List.nth items p; k_inst = nn (int_of_sx inst); k_deps = d; k_out = o }
        | _ -> failwith "con") glog in
    count "runs";
    List.iter (fun _ -> count "consume_calls") calls;
    let incomplete = List.filter (fun c -> not (complete c)) calls in
    let is_err = (match args res with A "err" :: _ -> true | _ -> false) in
    let is_ok = (match args res with A "ok" :: _ -> true | _ -> false) in
    (match args res with
     | [A "err-with-result"] -> propfail id "Run returned an error together with a result"
     | [A "nosummary"] -> propfail id "Run returned no CommonAnalysisResult under the nil key"
     | _ -> ());
    (* errors abort *)
    (match incomplete with
     | [] -> ()
     | c0 :: _ ->
         count "runs_with_item_failure";
         let want = (match call_error c0 with
           | Some (EMissing (it, e)) -> t "res" [A "err"; A "missing"; A (name_atom (int_of_nat it)); sx_n e]
           | _ -> t "res" [A "err"; A "injected"]) in
         if is_ok then
           propfail id (Printf.sprintf "item %d failed (error or missing declared output) but Run returned a result: %s"
                          (int_of_nat c0.k_item) (string_of_sx (t "con" [sx_nat c0.k_item; sx_nat c0.k_inst])))
         else if is_err && string_of_sx want <> string_of_sx res then
           propfail id ("Run aborted with a different error than the failing call's: want " ^ string_of_sx want ^ " got " ^ string_of_sx res));
    (* inputs / once / in order / index / merge flag *)
    (* a run may stop between two commit steps only because a Hibernate/Boot call failed (observed in the log) *)
    let hb_failed = List.exists (fun e -> (tag e = "hib" || tag e = "boot") &&
        (match args e with [_; _; A "0"] -> true | _ -> false)) glog in
    let early = is_err && incomplete = [] && hb_failed in
    (* "an item error or a missing declared output aborts the run": nothing else does (but a failing Hibernate / Boot) *)
    if is_err && incomplete = [] && not hb_failed then
      propfail id ("Run aborted although no Consume call failed and every declared output was returned (a value such as nil, \"\", 0 or false is an output): " ^ string_of_sx res);
    List.iter (fun (c : n call) -> match c.k_out with
      | COk upd -> if List.exists (fun (_, v) -> let x = int_of_n v in x = 0 || (x > spec_base && x < spec_base + 100)) upd then count "consume_calls_publishing_a_special_value"
      | _ -> ()) calls;
    if tag res = "res" && args res <> [A "panic"] then begin
      if not (log_ok N.eqb early plan items plan N0 calls) then begin
        (* name the first deviating call with the help of the model's log when that one passes *)
        let mcalls = consume_log (Lazy.force lout).ro_recs in    
        let rec first i a b = match a, b with
          | x :: ar, y :: br -> if string_of_sx (sx_call x) = string_of_sx (sx_call y) then first (i + 1) ar br
              else Printf.sprintf "first deviation from the specified log at consume call #%d: got %s, specified %s" i (string_of_sx (sx_call x)) (string_of_sx (sx_call y))
          | x :: _, [] -> Printf.sprintf "extra consume call #%d %s" i (string_of_sx (sx_call x))
          | [], y :: _ -> Printf.sprintf "missing consume call #%d %s" i (string_of_sx (sx_call y))
          | [], [] -> "" in
        propfail id ("the observed Consume log violates C14 (upstream values / once / resolved order / index / merge flag): " ^ first 0 calls mcalls)
      end else count "log_ok"
    end;
    tick "oracle-on-impl-log";
    if List.exists (fun (c : n call) -> match dlookup k_merge c.k_deps with Some (VMerge true) -> true | _ -> false) calls then count "runs_with_merge_flag";
    (* summary *)
    (match args res with
     | [A "ok"; b; e; n; _] ->
         let s = { sm_begin = z_of_int (int_of_sx b); sm_end = z_of_int (int_of_sx e); sm_commits = ni (int_of_sx n) } in
         if not (summary_ok plan (ni ncommits) s) then
           propfail id ("summary is not (time of the first planned commit, newest committer time, number of input commits): " ^ string_of_sx res)
         else count "summary_ok"
     | _ -> ())
    end
    end

let () =
  iter_cases (fun id c ->
    let obs = field "obs" c in
    match field_opt "runs" c with
    | None -> judge id c obs (args (field "inject" c)) (List.length (args (field "commits" c))) None ""
    | Some runs when field_opt "initfail" obs <> None && args runs = [] -> count "initfail"
    | Some runs ->
        (* one Pipeline object, the same item instances, several runs: each judged like the single run of a fresh pipeline *)
        count "reuse_cases";
        let robs = List.filter (fun x -> tag x = "run") (args obs) in
        if List.length robs <> List.length (args runs) then failwith "reuse: runs and observations differ in length";
        let prev = ref [] in
        List.iteri (fun k (r, o) ->
          match args r with
          | [mode; _; _; dump; inj; sel] ->
              let ids = List.map int_of_sx (args sel) in
              count "reuse_runs";
              if k > 0 then begin
                count ("reuse_runs_mode_" ^ atom mode);
                if atom dump = "0" then count "reuse_runs_plan_from_print_actions";
                let p = !prev in
                if p <> ids && p <> [] && List.length p = List.length ids && List.hd p = List.hd ids
                   && List.nth p (List.length p - 1) = List.nth ids (List.length ids - 1) then
                  count "reuse_runs_same_length_and_ends_other_middle"
              end;
              prev := ids;
              judge id c o (args inj) (List.length ids) (Some ids)
                (Printf.sprintf "run #%d of one Pipeline object (mode %s) over the commits [%s]: " k (atom mode)
                   (String.concat " " (List.map string_of_int ids)))
          | _ -> failwith "run")
          (List.combine (args runs) robs))
