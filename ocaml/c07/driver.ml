(* C07: replay the harness trace through the extracted Gallina model of File.Merge / flatten and of
   BurndownAnalysis.Merge, and judge the implementation's outputs with the extracted specification
   (spec_lines / spec_report_count / wf_nodes_b / no_mark_b). *)
open C07_model
open Conv

let show_ints l = "[" ^ String.concat ";" (List.map string_of_int l) ^ "]"
let ints_of_args s = List.map int_of_sx (args s)
let zs l = List.map z_of_int l
let unzs l = List.map int_of_z l

let nodes_of_sx (s : sx) : (int * int) list =
  List.map (fun n -> match n with L [k; v] -> (int_of_sx k, int_of_sx v) | _ -> failwith "node") (args s)
let znodes l = List.map (fun (k, v) -> (z_of_int k, z_of_int v)) l
let unznodes l = List.map (fun (k, v) -> (int_of_z k, int_of_z v)) l
let show_nodes l = "[" ^ String.concat ";" (List.map (fun (k, v) -> Printf.sprintf "%d:%d" k v) l) ^ "]"

let class_name = function PanicNil -> "nil" | PanicLength -> "length" | PanicPrevMark -> "prevmark"

let u32_max = 4294967295

(* ---- large files: the harness sends run-length encoded lines and an aggregated callback log.  Everything on
   this path is tail recursive; the extracted specification is applied to one-line slices (the per-line rule is
   pointwise: columns are independent of each other), so the stack stays small for 10^6 lines. *)
let expand_rle (s : sx) : int list =
  let rec rep v n acc = if n <= 0 then acc else rep v (n - 1) (v :: acc) in
  List.rev (List.fold_left (fun acc r -> match ints_of_sx r with [v; n] -> rep v n acc | _ -> failwith "rle") [] (args s))
let lines_of (p : sx) : int list =
  match field_opt "flat" p with Some f -> ints_of_args f | None -> expand_rle (field "rle" p)
let rec take_drop n l acc =
  if n = 0 then (List.rev acc, l) else match l with [] -> (List.rev acc, []) | x :: r -> take_drop (n - 1) r (x :: acc)
(* spec_lines / spec_report_count of the extracted specification, applied line by line (one-line slices of all
   copies; the answers are remembered per distinct column).  All copies have the same length here. *)
let spec_by_line (day : int) (self : int list) (others : int list list) : int list * int =
  let zday = z_of_int day in
  let tbl : (int list, int * int) Hashtbl.t = Hashtbl.create 1024 in
  let a = Array.of_list self and os = List.map Array.of_list others in
  let n = Array.length a in
  let out = Array.make n 0 and nrep = ref 0 in
  for i = 0 to n - 1 do
    let col = a.(i) :: List.map (fun o -> o.(i)) os in
    let (v, r) = match Hashtbl.find_opt tbl col with
      | Some x -> x
      | None ->
          let s1 = [z_of_int a.(i)] and o1 = List.map (fun o -> [z_of_int o.(i)]) os in
          let x = ((match spec_lines zday s1 o1 with [v] -> int_of_z v | _ -> failwith "spec_lines on one line"),
                   int_of_nat (spec_report_count s1 o1)) in
          Hashtbl.add tbl col x; x in
    out.(i) <- v; nrep := !nrep + r
  done;
  (Array.to_list out, !nrep)
let no_mark_by_line (l : int list) : bool =
  let tbl : (int, bool) Hashtbl.t = Hashtbl.create 64 in
  List.for_all (fun v -> match Hashtbl.find_opt tbl v with
    | Some b -> b
    | None -> let b = no_mark_b [z_of_int v] in Hashtbl.add tbl v b; b) l
let first_diff (a : int list) (b : int list) : string =
  let rec go i a b = match a, b with
    | x :: a', y :: b' -> if x <> y then Printf.sprintf "line %d of %d: result %d, rule %d" i (i + 1 + List.length a') x y else go (i + 1) a' b'
    | [], [] -> "equal" | _ -> Printf.sprintf "lengths differ from line %d on" i in
  go 0 a b
let show_rle (l : int list) : string =
  let rec go l acc = match l with
    | [] -> List.rev acc
    | x :: _ ->
        let rec run n l = match l with y :: r when y = x -> run (n + 1) r | _ -> (n, l) in
        let (n, r) = run 0 l in
        go r ((if n = 1 then string_of_int x else Printf.sprintf "%dx%d" x n) :: acc) in
  let items = go l [] in
  let k = List.length items in
  if k <= 40 then "[" ^ String.concat ";" items ^ "]"
  else
    let rec drop n l = if n = 0 then l else match l with [] -> [] | _ :: r -> drop (n - 1) r in
    "[" ^ String.concat ";" (fst (take_drop 15 items [])) ^ "; ... ;" ^ String.concat ";" (drop (k - 20) items) ^ "]"

(* long arrays are printed run-length encoded and abbreviated *)
let show_ints l = if List.compare_length_with l 64 > 0 then show_rle l else show_ints l

(* the fine correspondence of a large case is replayed through the model only when it is cheap:
   the model's flatten costs nodes x lines and its recursion depth is the number of lines *)
let fine_ok (len : int) (nnodes : int) = len <= 33000 && nnodes * len <= 1_000_000

(* ------------------------------------------------------------------ file level, large files *)
let big_file_case id c obs day copies =
  count "file_big";
  let (self_nodes, self_flat) = match copies with Some x :: _ -> x | _ -> failwith "no self" in
  let others = List.tl copies in
  let len = List.length self_flat in
  let res = List.hd (args (field "res" obs)) in
  let post = field "post" obs in
  if field_opt "observe-panic" post <> None then mismatch id "the file could not be read back after Merge" else begin
  let pself = field "self" post in
  let post_nodes = nodes_of_sx (field "nodes" pself) in
  let post_flat = lines_of pself in
  let post_len = int_of_sx (List.hd (args (field "len" pself))) in
  let post_count = int_of_sx (List.hd (args (field "count" pself))) in
  (* (updater, current, previous, delta, how often) *)
  let logsum = List.map (fun e -> match ints_of_sx e with [k; cu; pr; d; n] -> (k, cu, pr, d, n) | _ -> failwith "logsum") (args (field "logsum" obs)) in
  let must_refuse = List.exists (fun o -> match o with None -> true | Some (_, fl) -> List.length fl <> len) others in
  if must_refuse then count "file_must_refuse" else count "file_mergeable";
  let in_range = day >= 0 && day < u32_max in
  let day_marked = mark (z_of_int day) in
  let nnodes = List.fold_left (fun a o -> match o with Some (ns, _) -> max a (List.length ns) | None -> a) (List.length post_nodes) copies in
  let fine = fine_ok len nnodes in
  if fine then begin
    count "file_big_fine";
    List.iteri (fun j cp -> match cp with
      | None -> ()
      | Some (ns, fl) ->
          if unzs (flatten (znodes ns)) <> fl then mismatch id (Printf.sprintf "flatten of copy %d differs from the model" j)) copies
  end;
  (match tag res with
   | "panic" when not must_refuse -> propfail id ("Merge panics on copies of equal length: " ^ string_of_sx res)
   | "ok" when must_refuse -> propfail id "Merge accepted a missing copy or copies of different length instead of refusing them"
   | "panic" ->
       count "file_refused";
       if post_nodes <> self_nodes then propfail id "a refused merge changed the file";
       if logsum <> [] then propfail id "a refused merge reported lines"
   | "ok" ->
       count "file_merged";
       let other_flats = List.map (fun o -> match o with Some (_, fl) -> fl | None -> failwith "nil") others in
       if List.length post_flat <> len then
         propfail id (Printf.sprintf "length changed by the merge: %d -> %d" len (List.length post_flat));
       let (spec, nrep) = spec_by_line day self_flat other_flats in
       if in_range then begin
         if spec <> post_flat then
           propfail id (Printf.sprintf "per-line rule violated in a file of %d lines, %s (copies at that line: %s): result=%s oldest-real-tick rule=%s"
                          len (first_diff post_flat spec)
                          (let rec idx i a b = match a, b with x :: a', y :: b' -> if x <> y then i else idx (i + 1) a' b' | _ -> -1 in
                           let i = idx 0 post_flat spec in
                           if i < 0 then "-" else String.concat " " (List.map (fun l -> string_of_int (List.nth l i)) (self_flat :: other_flats)))
                          (show_rle post_flat) (show_rle spec))
       end else count "file_day_out_of_range";
       if not day_marked then begin
         if not (no_mark_by_line post_flat) then propfail id ("a merge mark survives: " ^ show_rle post_flat);
         if nrep > 0 then count "file_with_all_marked_lines";
         List.iter (fun k ->
           let l = List.filter (fun (u, _, _, _, _) -> u = k) logsum in
           let total = List.fold_left (fun a (_, _, _, _, n) -> a + n) 0 l in
           if total <> nrep then
             propfail id (Printf.sprintf "updater %d received %d report(s) for %d line(s) marked in every copy" k total nrep)
           else if List.exists (fun (_, cu, pr, d, _) -> cu <> day || pr <> day || d <> 1) l then
             propfail id "a line marked in every copy was not reported as (day, day, +1)") [0; 1];
         if in_range && not (wf_nodes_b (znodes post_nodes)) then
           propfail id ("the rebuilt node list is not well formed (" ^ string_of_int (List.length post_nodes) ^ " nodes)")
       end else count "file_day_marked";
       (* ---- fine correspondence (cheap cases only) *)
       if post_len <> List.length post_flat then mismatch id "Len() after Merge";
       if post_count <> List.length post_nodes then mismatch id "Nodes() after Merge";
       if fine then begin
         (match file_merge (z_of_int day) (znodes self_nodes)
                  (List.map (fun o -> match o with None -> None | Some (ns, _) -> Some (znodes ns)) others) with
          | Ok (mnodes, mreps) ->
              if unznodes mnodes <> post_nodes then mismatch id "node list after Merge differs from the model";
              if 2 * List.length mreps <> List.fold_left (fun a (_, _, _, _, n) -> a + n) 0 logsum then mismatch id "callback log size differs from the model"
          | Panic cl -> mismatch id ("impl merges, model panics " ^ class_name cl));
         if unzs (flatten (znodes post_nodes)) <> post_flat then mismatch id "flatten of the merged file"
       end
   | _ -> mismatch id ("observation shape " ^ string_of_sx res));
  (match field_opt "others-same" post with
   | Some o -> if int_of_sx (List.hd (args o)) = 0 then mismatch id "another copy was changed by Merge"
   | None -> mismatch id "others-same missing")
  end

(* ------------------------------------------------------------------ file level *)
let file_case id c =
  let obs = field "obs" c in
  (match field_opt "setup-panic" obs with
   | Some s -> failwith ("the harness could not set the case up: " ^ string_of_sx s)
   | None -> ());
  let day = int_of_sx (List.hd (args (field "day" c))) in
  let pre = args (field "pre" obs) in
  let copies = List.map (fun p -> match tag p with
    | "nil" -> None
    | _ -> Some (nodes_of_sx (field "nodes" p), lines_of p)) pre in
  if field_opt "big" obs <> None then big_file_case id c obs day copies else begin
  (* fine: flatten of every input copy *)
  List.iteri (fun j cp -> match cp with
    | None -> ()
    | Some (ns, fl) ->
        let m = unzs (flatten (znodes ns)) in
        if m <> fl then mismatch id (Printf.sprintf "flatten of copy %d: impl=%s model=%s" j (show_ints fl) (show_ints m))) copies;
  let (self_nodes, self_flat) = match copies with Some x :: _ -> x | _ -> failwith "no self" in
  let others = List.tl copies in
  let res = List.hd (args (field "res" obs)) in
  let post = field "post" obs in
  if field_opt "observe-panic" post <> None then mismatch id "the file could not be read back after Merge" else begin
  let pself = field "self" post in
  let post_nodes = nodes_of_sx (field "nodes" pself) in
  let post_flat = ints_of_args (field "flat" pself) in
  let post_len = int_of_sx (List.hd (args (field "len" pself))) in
  let post_count = int_of_sx (List.hd (args (field "count" pself))) in
  let log = List.map (fun e -> match ints_of_sx e with [k; cu; pr; d] -> (k, cu, pr, d) | _ -> failwith "log") (args (field "log" obs)) in
  (* the property's own verdict on whether the merge must be refused, from the observed inputs *)
  let must_refuse = List.exists (fun o -> match o with None -> true | Some (_, fl) -> List.length fl <> List.length self_flat) others in
  if must_refuse then count "file_must_refuse" else count "file_mergeable";
  let model = file_merge (z_of_int day) (znodes self_nodes)
      (List.map (fun o -> match o with None -> None | Some (ns, _) -> Some (znodes ns)) others) in
  let in_range = day >= 0 && day < u32_max in
  let day_marked = mark (z_of_int day) in
  (match tag res, model with
   | "panic", _ when not must_refuse ->
       propfail id ("Merge panics on copies of equal length: " ^ string_of_sx res)
   | "ok", _ when must_refuse ->
       propfail id "Merge accepted a missing copy or copies of different length instead of refusing them"
   | "panic", Panic cl ->
       count "file_refused";
       if class_name cl <> atom (List.hd (args res)) then
         mismatch id (Printf.sprintf "panic class impl=%s model=%s" (string_of_sx res) (class_name cl));
       if post_nodes <> self_nodes then
         propfail id ("a refused merge changed the file: " ^ show_nodes post_nodes);
       if log <> [] then propfail id "a refused merge reported lines"
   | "panic", Ok _ -> mismatch id "impl panics, model merges"
   | "ok", Panic cl -> mismatch id ("impl merges, model panics " ^ class_name cl)
   | "ok", Ok (mnodes, mreps) ->
       count "file_merged";
       let other_flats = List.map (fun o -> match o with Some (_, fl) -> zs fl | None -> failwith "nil") others in
       (* ---- property oracles on the implementation's output *)
       if List.length post_flat <> List.length self_flat then
         propfail id (Printf.sprintf "length changed by the merge: %d -> %d" (List.length self_flat) (List.length post_flat));
       if in_range then begin
         let spec = unzs (spec_lines (z_of_int day) (zs self_flat) other_flats) in
         if spec <> post_flat then
           propfail id (Printf.sprintf "per-line rule violated: result=%s oldest-real-tick rule=%s" (show_ints post_flat) (show_ints spec))
       end else count "file_day_out_of_range";
       if not day_marked then begin
         if not (no_mark_b (zs post_flat)) then propfail id ("a merge mark survives: " ^ show_ints post_flat);
         let n = int_of_nat (spec_report_count (zs self_flat) other_flats) in
         if n > 0 then count "file_with_all_marked_lines";
         let per_updater k = List.filter (fun (u, _, _, _) -> u = k) log in
         List.iter (fun k ->
           let l = per_updater k in
           if List.length l <> n then
             propfail id (Printf.sprintf "updater %d received %d report(s) for %d line(s) marked in every copy" k (List.length l) n)
           else if List.exists (fun (_, cu, pr, d) -> cu <> day || pr <> day || d <> 1) l then
             propfail id (Printf.sprintf "a line marked in every copy was not reported as (day, day, +1): %s"
                            (String.concat " " (List.map (fun (_, a, b, d) -> Printf.sprintf "(%d,%d,%d)" a b d) l)))) [0; 1];
         if in_range && not (wf_nodes_b (znodes post_nodes)) then
           propfail id ("the rebuilt node list is not well formed: " ^ show_nodes post_nodes)
       end else count "file_day_marked";
       (* ---- fine correspondence *)
       let mn = unznodes mnodes in
       if mn <> post_nodes then
         mismatch id (Printf.sprintf "node list after Merge: impl=%s model=%s" (show_nodes post_nodes) (show_nodes mn));
       let mlog = List.concat_map (fun ((cu, pr), d) -> [(0, int_of_z cu, int_of_z pr, int_of_z d); (1, int_of_z cu, int_of_z pr, int_of_z d)]) mreps in
       if mlog <> log then mismatch id (Printf.sprintf "callback log: impl has %d entries, model %d" (List.length log) (List.length mlog));
       if unzs (flatten (znodes post_nodes)) <> post_flat then mismatch id "flatten of the merged file";
       if post_len <> List.length post_flat then mismatch id "Len() after Merge";
       if post_count <> List.length post_nodes then mismatch id "Nodes() after Merge"
   | _ -> mismatch id ("observation shape " ^ string_of_sx res));
  (* the other copies are only read *)
  let pothers = args (field "others" post) in
  List.iteri (fun j (o, po) -> match o, tag po with
    | None, "nil" -> ()
    | Some (_, fl), "flat" -> if ints_of_args po <> fl then mismatch id (Printf.sprintf "other copy %d changed by Merge" (j + 1))
    | _ -> mismatch id "others shape") (List.combine others pothers)
  end
  end

(* ------------------------------------------------------------------ analysis level *)
let files_of_sx s : (int * int list) list =
  List.map (fun f -> match ints_of_sx f with p :: l -> (p, l) | [] -> failwith "file") (args s)

(* judges one observed BurndownAnalysis.Merge: [obs] holds pre / day / hist0 / res / post / hist1 (and, from the
   analysis-level harness, forked / probed); [probe] = (branch, path) of the isolation probe *)
let ana_judge id (people : int) (probe : int list) obs =
  let pre = List.map (fun b ->
      (files_of_sx (field "files" b),
       List.map (fun e -> match ints_of_sx e with [p; v] -> (p, v <> 0) | _ -> failwith "merged") (args (field "merged" b)),
       int_of_sx (List.hd (args (field "tick" b))), int_of_sx (List.hd (args (field "author" b))))) (args (field "pre" obs)) in
  (* Fork: every clone starts with the files of the forked analysis *)
  (match field_opt "forked" obs with
   | Some fk ->
       let base = files_of_sx (field "files" (field "base" fk)) in
       let bs = List.filter (fun x -> tag x = "b") (args fk) in
       let mb = { files = List.map (fun (p, l) -> (z_of_int p, zs l)) base; merged = [] } in
       let mf = fork (nat_of_int (List.length bs)) mb in
       List.iteri (fun j (x, m) ->
         let got = files_of_sx (field "files" x) in
         let want = List.map (fun (p, l) -> (int_of_z p, unzs l)) m.files in
         if got <> want then mismatch id (Printf.sprintf "Fork: branch %d does not start with the files of the forked analysis" j))
         (List.combine bs mf)
   | None -> ());
  let day = int_of_sx (List.hd (args (field "day" obs))) in
  let (_, _, tick0, author0) = List.hd pre in
  let mday = int_of_z (pack (z_of_int people) (z_of_int author0) (z_of_int tick0)) in
  if mday <> day then mismatch id (Printf.sprintf "packPersonWithTick: impl=%d model=%d" day mday);
  let all = List.map (fun (fs, mg, _, _) ->
      { files = List.map (fun (p, l) -> (z_of_int p, zs l)) fs; merged = List.map (fun (p, v) -> (z_of_int p, v)) mg }) pre in
  let keys = List.map (fun (k, v) -> (int_of_z k, v)) (collect_keys all) in
  let holders k = List.filter_map (fun (fs, _, _, _) -> List.assoc_opt k fs) pre in
  (* the property's own verdict on refusal *)
  let must_refuse = List.exists (fun (k, v) -> v &&
      (match holders k with [] -> false | f0 :: r -> List.exists (fun f -> List.length f <> List.length f0) r)) keys in
  let res = List.hd (args (field "res" obs)) in
  let model = analysis_merge (z_of_int people) (z_of_int author0) (z_of_int tick0) all in
  let in_range = day >= 0 && day < u32_max in
  let day_marked = mark (z_of_int day) in
  count (if must_refuse then "ana_must_refuse" else "ana_mergeable");
  match tag res, model with
  | "panic", _ when not must_refuse -> propfail id ("BurndownAnalysis.Merge panics although all copies agree in length: " ^ string_of_sx res)
  | "ok", _ when must_refuse -> propfail id "BurndownAnalysis.Merge merged copies of different length"
  | "panic", Panic cl ->
      count "ana_refused";
      if class_name cl <> atom (List.hd (args res)) then mismatch id "panic class"
  | "panic", Ok _ -> mismatch id "impl panics, model merges"
  | "ok", Panic _ -> mismatch id "impl merges, model panics"
  | "ok", Ok (mall, mreps) ->
      count "ana_merged";
      let post_sx = field "post" obs in
      if field_opt "observe-panic" post_sx <> None then propfail id "a branch cannot be read back after Merge" else begin
      let post = List.map (fun b -> files_of_sx (field "files" b)) (args post_sx) in
      if List.length post <> List.length pre then failwith "post length";
      (* ---- property oracles *)
      let nrep = ref 0 in
      List.iter (fun (k, v) ->
        let vals = List.map (fun fs -> List.assoc_opt k fs) post in
        (match vals with
         | v0 :: r -> if List.exists (fun x -> x <> v0) r then
               propfail id (Printf.sprintf "branches disagree on file %d after Merge: %s" k
                              (String.concat " | " (List.map (fun x -> match x with None -> "nil" | Some l -> show_ints l) vals)))
         | [] -> ());
        if v then begin
          match holders k with
          | [] -> count "ana_key_without_file"
          | f0 :: r ->
              count "ana_key_merged";
              if List.length r >= 1 then count "ana_key_merged_2plus";
              nrep := !nrep + int_of_nat (spec_report_count (zs f0) (List.map zs r));
              if in_range then begin
                let spec = unzs (spec_lines (z_of_int day) (zs f0) (List.map zs r)) in
                List.iteri (fun j x -> match x with
                  | Some l when l = spec -> ()
                  | Some l -> propfail id (Printf.sprintf "per-line rule violated for file %d in branch %d: result=%s rule=%s" k j (show_ints l) (show_ints spec))
                  | None -> propfail id (Printf.sprintf "file %d missing in branch %d after Merge" k j)) vals
              end;
              if not day_marked then
                List.iter (fun x -> match x with
                  | Some l when not (no_mark_b (zs l)) -> propfail id (Printf.sprintf "a merge mark survives in file %d: %s" k (show_ints l))
                  | _ -> ()) vals
        end else begin
          count "ana_key_deleted";
          if List.exists (fun x -> x <> None) vals then propfail id (Printf.sprintf "file %d deleted by the merge commit is still tracked" k)
        end) keys;
      (* reports, through the global history *)
      let hist t = List.map (fun e -> match ints_of_sx e with [a; b; n] -> ((a, b), n) | _ -> failwith "hist") (args (field t obs)) in
      let h0 = hist "hist0" and h1 = hist "hist1" in
      let keys_h = List.sort_uniq compare (List.map fst h0 @ List.map fst h1) in
      let get h k = try List.assoc k h with Not_found -> 0 in
      let delta = List.filter (fun (_, n) -> n <> 0) (List.map (fun k -> (k, get h1 k - get h0 k)) keys_h) in
      let t = if people = 0 then day else int_of_z (tick (z_of_int day)) in
      let expect = if day_marked || !nrep = 0 then [] else [((t, t), !nrep)] in
      if !nrep > 0 then count "ana_with_all_marked_lines";
      if delta <> expect then
        propfail id (Printf.sprintf "lines marked in every copy: %d, but the global history changed by %s" !nrep
                       (String.concat " " (List.map (fun ((a, b), n) -> Printf.sprintf "(%d,%d,%+d)" a b n) delta)));
      if List.length mreps <> (if day_marked then 0 else !nrep) then mismatch id "model report count";
      (* ---- fine correspondence: every path of every branch *)
      let paths = List.sort_uniq compare (List.concat_map (fun fs -> List.map fst fs) post @ List.concat_map (fun (fs, _, _, _) -> List.map fst fs) pre) in
      List.iteri (fun j (mb, fs) ->
        List.iter (fun p ->
          let m = (match lookup (z_of_int p) mb.files with Some l -> Some (unzs l) | None -> None) in
          if m <> List.assoc_opt p fs then
            mismatch id (Printf.sprintf "file %d of branch %d after Merge differs from the model" p j)) paths;
        if List.length fs <> List.length (List.sort_uniq compare (List.map fst fs)) then mismatch id "duplicate path") (List.combine mall post);
      (* ---- isolation probe *)
      (match field_opt "probed" obs, probe with
       | Some pr, [pb; pp] ->
           (match args pr with
            | [L [A "absent"]] -> count "ana_probe_absent"
            | [L [A "probe-panic"]] -> propfail id "updating a file of one branch after Merge panics"
            | l ->
                count "ana_probed";
                List.iteri (fun j (x, fs) ->
                  let before = List.assoc_opt pp fs in
                  let now = (match tag x with "nil" -> None | _ -> Some (ints_of_args x)) in
                  let want = if j = pb then (match before with Some b -> Some (77 :: b) | None -> None) else before in
                  if now <> want then
                    propfail id (Printf.sprintf "after Merge, an Update of file %d in branch %d %s branch %d" pp pb
                                   (if j = pb then "did not take effect as an insertion in" else "is visible in") j)) (List.combine l post))
       | _ -> ())
      end
  | _ -> mismatch id ("observation shape " ^ string_of_sx res)

let ana_case id c =
  let obs = field "obs" c in
  (match field_opt "setup-panic" obs with
   | Some s -> failwith ("the harness could not set the case up: " ^ string_of_sx s)
   | None -> ());
  let people = int_of_sx (List.hd (args (field "people" c))) in
  ana_judge id people (ints_of_args (field "probe" c)) obs

(* ------------------------------------------------------------------ pipeline level *)
(* The history is part of the case: every commit with its complete tree.  A path is TOUCHED by a merge commit
   when its content in the merge commit differs from its content in the commit some participating branch consumed
   before it (present vs absent counts) - the tree that branch replays the merge commit against.  This is computed
   here from the trees alone - not from the mergedFiles flags the implementation keeps. *)
let expand_ids (l : sx list) : int list =
  List.concat_map (fun x -> match x with
    | A _ -> [int_of_sx x]
    | L [A "r"; a; n] -> List.init (int_of_sx n) (fun k -> int_of_sx a + k)
    | _ -> failwith "ids") l

let pipe_case id c =
  let obs = field "obs" c in
  if field_opt "hang" obs <> None then propfail id "the pipeline does not terminate" else begin
  let commits = Array.of_list (List.map (fun cm ->
      (ints_of_args (field "p" cm),
       List.filter_map (fun f -> if tag f = "f" then (match args f with p :: ids -> Some (int_of_sx p, expand_ids ids) | [] -> None) else None) (args cm)))
      (args (field "commits" c))) in
  let snap ci p = List.assoc_opt p (snd commits.(ci)) in
  let run = List.map atom (args (field "run" obs)) in
  (match run with
   | ["ok"] -> count "pipe_run_ok"
   | ["bad-case"] -> count "pipe_bad_case"
   | ["panic"; "prevmark"] -> propfail id "the pipeline panics with \"previousTime cannot be TreeMergeMark\": a merge mark outlived a merge"
   | _ -> mismatch id ("the pipeline run failed: " ^ String.concat " " run));
  let npeople = match field_opt "npeople" obs with Some x -> int_of_sx (List.hd (args x)) | None -> 0 in
  List.iter (fun m -> if tag m = "merge" then begin
    count "pipe_merges";
    (* the oracles and the model correspondence shared with the analysis-level stream (keys = observed mergedFiles) *)
    ana_judge id npeople [] m;
    let lasts = ints_of_args (field "last" m) in
    let mc = List.hd lasts in
    let res = List.hd (args (field "res" m)) in
    if List.exists (fun x -> x <> mc) lasts || mc < 0 || List.length (fst commits.(mc)) < 2
       || List.exists (fun x -> x = 0) (ints_of_args (field "ismerge" m)) then count "pipe_merge_irregular"
    else if tag res = "ok" && field_opt "observe-panic" (field "post" m) = None then begin
      count "pipe_merge_judged";
      let day = int_of_sx (List.hd (args (field "day" m))) in
      let pre = List.map (fun b -> files_of_sx (field "files" b)) (args (field "pre" m)) in
      let post = List.map (fun b -> files_of_sx (field "files" b)) (args (field "post" m)) in
      (* the trees the participating branches compared the merge commit with: their previous commits *)
      let prevs = ints_of_args (field "prev" m) in
      let psnap q p = if q < 0 then None else snap q p in
      let paths = List.sort_uniq compare (List.concat_map (fun ci -> if ci < 0 then [] else List.map fst (snd commits.(ci))) (mc :: prevs)) in
      let touched = List.filter (fun p -> List.exists (fun q -> psnap q p <> snap mc p) prevs) paths in
      if List.exists (fun q -> q >= 0 && not (List.mem q (fst commits.(mc)))) prevs then count "pipe_merge_prev_not_parent";
      let show = function None -> "nil" | Some l -> show_ints l in
      List.iter (fun p ->
        count "pipe_touched_path";
        let vals = List.map (fun fs -> List.assoc_opt p fs) post in
        (match vals with
         | v0 :: r when List.exists (fun x -> x <> v0) r ->
             propfail id (Printf.sprintf "after the merge of commit %d the branches disagree on file %d, which that commit touches: %s"
                            mc p (String.concat " | " (List.map show vals)))
         | _ -> ());
        match snap mc p with
        | None ->
            if List.exists (fun x -> x <> None) vals then
              propfail id (Printf.sprintf "file %d is gone in merge commit %d but still tracked after the merge" p mc)
        | Some text ->
            List.iteri (fun j x -> match x with
              | None -> propfail id (Printf.sprintf "file %d of merge commit %d is not tracked in branch %d after the merge" p mc j)
              | Some l -> if List.length l <> List.length text then
                    propfail id (Printf.sprintf "file %d has %d lines in merge commit %d but %d tracked lines in branch %d" p (List.length text) mc (List.length l) j)) vals;
            (match List.filter_map (fun fs -> List.assoc_opt p fs) pre with
             | f0 :: r when List.for_all (fun f -> List.length f = List.length f0) r && day >= 0 && day < u32_max ->
                 let spec = unzs (spec_lines (z_of_int day) (zs f0) (List.map zs r)) in
                 count "pipe_touched_path_by_rule";
                 List.iteri (fun j x -> match x with
                   | Some l when l <> spec ->
                       propfail id (Printf.sprintf "file %d touched by merge commit %d: branch %d holds %s after the merge, the oldest-real-tick rule over the copies %s gives %s"
                                      p mc j (show_ints l) (String.concat " | " (List.map show_ints (f0 :: r))) (show_ints spec))
                   | _ -> ()) vals
             | _ -> ())) touched;
      (* every participating branch has replayed the merge commit: afterwards it tracks exactly the (text) files of
         that commit, each with as many lines as the blob - also the paths the merge commit does not touch *)
      List.iteri (fun j fs ->
        List.iter (fun (p, text) -> match List.assoc_opt p fs with
          | None -> propfail id (Printf.sprintf "file %d of merge commit %d is not tracked in branch %d after the merge" p mc j)
          | Some l -> if List.length l <> List.length text then
                propfail id (Printf.sprintf "file %d has %d lines in merge commit %d but %d tracked lines in branch %d after the merge" p (List.length text) mc (List.length l) j))
          (snd commits.(mc));
        List.iter (fun (p, _) -> if snap mc p = None then
          propfail id (Printf.sprintf "file %d is not part of merge commit %d but tracked in branch %d after the merge" p mc j)) fs) post;
      if not (mark (z_of_int day)) then
        List.iteri (fun j fs -> List.iter (fun (p, l) ->
          if not (no_mark_b (zs l)) then
            propfail id (Printf.sprintf "a merge mark survives the merge of commit %d in file %d of branch %d: %s" mc p j (show_ints l))) fs) post
    end
  end) (args obs);
  (match field_opt "final" obs with
   | Some f when field_opt "files" f <> None ->
       List.iter (fun (p, l) -> if not (no_mark_b (zs l)) then
         propfail id (Printf.sprintf "a merge mark is left in file %d at the end of the run: %s" p (show_ints l))) (files_of_sx (field "files" f))
   | _ -> ())
  end

let () =
  iter_cases (fun id c ->
    if field_opt "hang" (field "obs" c) <> None then
      propfail id "Merge (or reading the merged files back) does not terminate"
    else
    match field_opt "commits" c, field_opt "people" c with
    | Some _, _ -> count "pipe_cases"; pipe_case id c
    | None, Some _ -> count "ana_cases"; ana_case id c
    | None, None -> count "file_cases"; file_case id c)
