(* C18 - the candidate repair of finding F8 (docs/C18-F8-candidate.patch, model [bd_merge_repaired]):
   for EVERY well-formed identity table - identities may merge, also two of the same result - the history of a
   merged developer is mergeMatrices of the sums of its members' histories, and every interaction cell is the
   specified sum.  Nothing here is about the code of /repo as it is today; props/C18.v does not use this file. *)
From Coq Require Import List ZArith Bool Lia.
From Herc Require Import Combine.Model Combine.Spec Combine.Facts Combine.BurndownProofs Combine.RowsProofs.
Import ListNotations.
Open Scope Z_scope.

Lemma seqZm_seqZ start n : seqZm start n = seqZ start n.
Proof. revert start. induction n as [|n IH]; intros start; simpl; [reflexivity|]. rewrite IH. reflexivity. Qed.

Lemma seqZ_nth start n k : (k < n)%nat -> nth_error (seqZ start n) k = Some (start + Z.of_nat k).
Proof.
  revert start k. induction n as [|n IH]; intros start k Hk; [lia|].
  destruct k as [|k]; cbn [seqZ nth_error]; [f_equal; lia|].
  rewrite IH by lia. f_equal. lia.
Qed.

(* the member lists built by walking the input list are the specification's [members] *)
Lemma members_of_spec people rd : forall l pre acc acc',
  rd = pre ++ l ->
  foldMi (add_member people) l (lenZ pre) acc = Ok acc' ->
  length acc' = length acc /\
  forall w, nthZ acc' w [] =
            nthZ acc w [] ++ filter (fun i => Final (lookup0 people (nthZ rd i [])) =? w) (seqZ (lenZ pre) (length l)).
Proof.
  induction l as [|key r IH]; intros pre acc acc' Hrd H; cbn [foldMi seqZ filter length] in *.
  - inversion H; subst. split; [reflexivity|]. intros w. rewrite app_nil_r. reflexivity.
  - inv_bind H. unfold add_member in Hv. inv_bind Hv.
    destruct (list_set_spec _ _ _ _ Hv) as (L & R & N).
    assert (Hk : nthZ rd (lenZ pre) [] = key) by (rewrite Hrd; apply nthZ_app_at).
    replace (lenZ pre + 1) with (lenZ (pre ++ [key])) in * by (unfold lenZ; rewrite app_length; simpl; lia).
    destruct (IH (pre ++ [key]) _ _ (eq_trans Hrd (eq_sym (app_assoc_reverse pre [key] r))) H) as (L2 & N2).
    split; [congruence|]. intros w. rewrite N2, N, Hk.
    rewrite (Z.eqb_sym (Final (lookup0 people key)) w).
    destruct (w =? Final (lookup0 people key)) eqn:E.
    + apply Z.eqb_eq in E; subst w. rewrite (idx_nthZ _ _ _ [] Hv0). rewrite <- app_assoc. reflexivity.
    + reflexivity.
Qed.

Lemma members_of_members people rd nm mem :
  members_of people rd nm = Ok mem ->
  length mem = nm /\ forall w, nthZ mem w [] = members people rd w.
Proof.
  unfold members_of. intros H.
  destruct (members_of_spec people rd rd [] _ _ eq_refl H) as (L & N).
  split; [rewrite L; apply repeat_length|]. intros w. rewrite N.
  rewrite nthZ_repeat by exact []. reflexivity.
Qed.

Section RepairedTheorems.
  Variable mergeM : matrix -> matrix -> matrix.

  (* histories: for every table whose Final indices are inside the merged list *)
  Theorem repaired_history people merged r1 r2 m :
    bd_merge_repaired mergeM people merged r1 r2 = Ok m ->
    nonempty (br_ph r1) || nonempty (br_ph r2) = true ->
    length (br_ph m) = length merged /\
    forall w, 0 <= w < lenZ merged ->
      exists m1 m2, sum_hist (br_ph r1) (members people (br_people r1) w) = Ok m1 /\
                    sum_hist (br_ph r2) (members people (br_people r2) w) = Ok m2 /\
                    nth_error (br_ph m) (Z.to_nat w) = Some (mergeM m1 m2).
  Proof.
    unfold bd_merge_repaired. destruct (br_ticksize r1 =? br_ticksize r2); simpl; [|discriminate].
    intros H Hne. destruct (nonempty merged) eqn:En.
    - rewrite Hne in H. inv_bind H. inv_bind H. inv_bind H. inv_bind H. inversion H; subst; clear H. simpl.
      destruct (mapM_nth _ _ _ Hv1) as (L & N). rewrite seqZm_seqZ in L, N.
      destruct (members_of_members _ _ _ _ Hv) as (L1 & M1).
      destruct (members_of_members _ _ _ _ Hv0) as (L2 & M2).
      assert (Hlen : length (seqZ 0 (length merged)) = length merged).
      { clear. generalize 0. induction (length merged); intros z; simpl; [reflexivity|]. rewrite IHn. reflexivity. }
      split; [congruence|]. intros w Hw.
      assert (Hnth : nth_error (seqZ 0 (length merged)) (Z.to_nat w) = Some w).
      { unfold lenZ in Hw. rewrite seqZ_nth by lia. f_equal. lia. }
      destruct (N _ _ Hnth) as (b & Hb & Hh). unfold bd_history_repaired in Hh.
      inv_bind Hh. inv_bind Hh. inv_bind Hh. inv_bind Hh. inversion Hh; subst; clear Hh.
      rewrite <- M1, <- M2. rewrite (idx_nthZ _ _ _ [] Hv3), (idx_nthZ _ _ _ [] Hv4). eauto.
    - inversion H; subst; clear H. simpl. destruct merged; [|discriminate].
      split; [reflexivity|]. intros w Hw. unfold lenZ in Hw. simpl in Hw. lia.
  Qed.

  (* interaction matrix: both passes add, no literal hypothesis needed *)
  Theorem repaired_rows people merged r1 r2 out :
    wf_table_b people (br_people r1) (br_people r2) merged = true ->
    nonempty (br_pm r2) = true ->
    rect_b (length (br_people r1)) (br_pm r1) = true -> rect_b (length (br_people r2)) (br_pm r2) = true ->
    bd_people_matrix_repaired people merged r1 r2 = Ok out ->
    length out = length merged /\
    forall w c, cellZ out w c = pm_spec_cell people (br_people r1) (br_people r2) (br_pm r1) (br_pm r2) w c.
  Proof.
    intros WFb Hne R1 R2 H. pose proof (wf_table_b_sound _ _ _ _ WFb) as WF.
    assert (Hpos : forall rd, (forall s, In s rd -> exists m, lookup people s = Some m) ->
                   forall j, 0 <= j < lenZ rd -> 0 <= F people rd j).
    { intros rd Hl j Hj. unfold F. destruct (Hl _ (nthZ_in rd j [] Hj)) as (m & Hm).
      unfold lookup0. rewrite Hm. simpl. destruct (wf_entry _ _ _ _ WF _ _ Hm) as (Hf & _). lia. }
    assert (Hl1 : forall s, In s (br_people r1) -> exists m, lookup people s = Some m).
    { intros s Hs. destruct (wf_first _ _ _ _ WF s Hs) as (m & Hm & _). eauto. }
    assert (Hl2 : forall s, In s (br_people r2) -> exists m, lookup people s = Some m).
    { intros s Hs. destruct (wf_second _ _ _ _ WF s Hs) as (m & Hm & _). eauto. }
    unfold bd_people_matrix_repaired in H. rewrite Hne in H. inv_bind H.
    destruct (pass_add _ _ _ _ _ _ _ Hv) as (La & Ra & Na).
    destruct (pass_add _ _ _ _ _ _ _ H) as (Lb & Rb & Nb).
    split; [rewrite Lb, La, repeat_length; reflexivity|].
    intros w c. rewrite Nb, Na. unfold pm_spec_cell.
    rewrite (pass_sum_spec _ _ _ w c (Hpos _ Hl1) R1), (pass_sum_spec _ _ _ w c (Hpos _ Hl2) R2).
    assert (Hz : cellZ (repeat (zeros (length merged + 2)) (length merged)) w c = 0).
    { unfold cellZ, nthZ. destruct (w <? 0); [destruct (c <? 0); [reflexivity|destruct (Z.to_nat c); reflexivity]|].
      destruct (c <? 0); [reflexivity|].
      assert (Hr : forall n k, nth k (repeat (zeros (length merged + 2)) n) [] = zeros (length merged + 2) \/
                               nth k (repeat (zeros (length merged + 2)) n) [] = []).
      { induction n as [|n IHn]; intros [|k]; simpl; auto. }
      destruct (Hr (length merged) (Z.to_nat w)) as [-> | ->].
      - unfold zeros. generalize (Z.to_nat c). generalize (length merged + 2)%nat.
        induction n as [|n IHn]; intros [|k]; simpl; auto.
      - destruct (Z.to_nat c); reflexivity. }
    rewrite Hz. lia.
  Qed.
End RepairedTheorems.
