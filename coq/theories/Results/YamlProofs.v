(* C17 - the text format prints every matrix with its number of rows and its declared number of columns. *)
From Coq Require Import List ZArith Bool Lia.
From Herc Require Import Results.PB Results.Yaml Results.SparseProofs Results.BurndownProofs.
Import ListNotations.
Open Scope Z_scope.

Lemma print_matrix_ok : forall m fx, m <> [] ->
  print_matrix m fx = Ok (map (fun status => map (print_cell fx status) (seq 0 (length (last m [])))) m).
Proof. intros [|r0 t] fx H; [contradiction | reflexivity]. Qed.

Definition unres {A} (d : A) (x : res A) : A := match x with Ok a => a | _ => d end.

Theorem print_matrix_shape : forall m fx g, print_matrix m fx = Ok g -> shape_okb m g = true.
Proof.
  intros m fx g H. destruct m as [|r0 t]; [discriminate|].
  rewrite print_matrix_ok in H by discriminate.
  apply (f_equal (unres [])) in H. unfold unres in H. subst g.
  unfold shape_okb. rewrite map_length, Nat.eqb_refl. cbn [andb].
  apply forallb_forall. intros row Hrow. apply in_map_iff in Hrow. destruct Hrow as [st [<- _]].
  rewrite map_length, seq_length. apply Nat.eqb_refl.
Qed.

Theorem print_matrix_total : forall m fx, m <> [] -> exists g, print_matrix m fx = Ok g.
Proof. intros [|r0 t] fx H; [contradiction|]. eexists. reflexivity. Qed.

Theorem print_matrix_empty : forall fx, print_matrix [] fx = Panic.
Proof. reflexivity. Qed.

Lemma print_sources_shape : forall srcs gs, mapM print_source srcs = Ok gs -> shapes_okb srcs gs = true.
Proof.
  induction srcs as [|[[m|] fx] srcs IH]; intros gs H; cbn [mapM] in H.
  - injection H as <-. reflexivity.
  - unfold print_source in H at 1. cbn [fst snd] in H.
    destruct (print_matrix m fx) as [g| |] eqn:E; cbn [bind] in H; try discriminate.
    destruct (mapM print_source srcs) as [gs'| |] eqn:E2; cbn [bind] in H; try discriminate.
    injection H as <-. cbn [shapes_okb]. rewrite (print_matrix_shape _ _ _ E). cbn [andb]. apply IH. reflexivity.
  - unfold print_source in H at 1. cbn [fst bind] in H. discriminate.
Qed.

(* every matrix that BurndownAnalysis.serializeText prints has as many lines as rows and on every line
   as many numbers as the last row is long (= NumberOfColumns of the binary format) *)
Theorem text_burndown_shape : forall r gs, text_burndown r = Ok gs -> shapes_okb (text_sources r) gs = true.
Proof.
  intros r gs H. unfold text_burndown in H.
  destruct (length (bd_names r) <? length (bd_people r))%nat; [discriminate|].
  apply print_sources_shape. exact H.
Qed.

Lemma mapM_total {A B} (f : A -> res B) : forall l, (forall x, In x l -> exists y, f x = Ok y) -> exists ys, mapM f l = Ok ys.
Proof.
  induction l as [|x l IH]; intros H; [eexists; reflexivity|].
  destruct (H x (or_introl eq_refl)) as [y Hy]. destruct IH as [ys Hys]; [intros z Hz; apply H; right; exact Hz|].
  exists (y :: ys). cbn [mapM]. rewrite Hy. cbn [bind]. rewrite Hys. reflexivity.
Qed.

(* ... and the text is printed (no panic) for every well-shaped result whose people matrix is present
   whenever there are people histories (as in BurndownAnalysis.Finalize) *)
Theorem text_burndown_total : forall r, shape_burndown r = true ->
  (bd_people r = [] \/ bd_matrix r <> None) -> exists gs, text_burndown r = Ok gs.
Proof.
  intros r Hshape Hpm. destruct (shape_parts r Hshape) as [H1 [H2 [H3 [H4 [_ [_ [_ H9]]]]]]].
  unfold text_burndown. apply Nat.leb_le in H9.
  destruct (length (bd_names r) <? length (bd_people r))%nat eqn:E; [apply Nat.ltb_lt in E; lia|].
  apply mapM_total. intros [src fx] Hin. unfold text_sources in Hin.
  rewrite forallb_forall in H2, H3.
  assert (Hsome : forall m, rect m = true -> exists y, print_source (Some m, fx) = Ok y).
  { intros m Hm. unfold print_source. cbn [fst snd]. apply print_matrix_total. apply rect_nonnil. exact Hm. }
  destruct Hin as [Hin|Hin].
  - injection Hin as <- <-. apply Hsome. exact H1.
  - apply in_app_or in Hin. destruct Hin as [Hin|Hin].
    + apply in_map_iff in Hin. destruct Hin as [f [Hf Hfin]]. injection Hf as <- <-. apply Hsome. apply H2. exact Hfin.
    + destruct (bd_people r) as [|p ps] eqn:Ep; [destruct Hin|]. cbn [is_nil] in Hin.
      apply in_app_or in Hin. destruct Hin as [Hin|Hin].
      * apply in_map_iff in Hin. destruct Hin as [q [Hq Hqin]]. injection Hq as <- <-. apply Hsome. apply H3. exact Hqin.
      * destruct Hin as [Hin|[]]. injection Hin as <- <-.
        destruct (bd_matrix r) as [m|]; [apply Hsome; exact H4|].
        destruct Hpm as [Hpm|Hpm]; [discriminate | contradiction].
Qed.

(* the cells: on a rectangular matrix the text holds the clamped cells (fixNegative) or the cells themselves,
   i.e. the text and the binary format carry the same history matrices *)
Lemma map_print_cells (h : Z -> Z) : forall row pre,
  map (fun i => match nth_error (pre ++ row) i with Some v => h v | None => 0 end) (seq (length pre) (length row)) = map h row.
Proof.
  induction row as [|c t IH]; intros pre; [reflexivity|].
  cbn [length seq map]. f_equal.
  - rewrite nth_error_app2 by lia. rewrite Nat.sub_diag. reflexivity.
  - specialize (IH (pre ++ [c])). rewrite <- app_assoc in IH. cbn [app] in IH.
    rewrite app_length in IH. cbn [length] in IH. rewrite Nat.add_1_r in IH. exact IH.
Qed.

Theorem print_matrix_cells : forall m fx, rect m = true ->
  print_matrix m fx = Ok (if fx then clamp_matrix m else m).
Proof.
  intros m fx Hrect. destruct (rect_inv m Hrect) as [r0 [t [Hm [Hrows _]]]].
  assert (Hne : m <> []) by (rewrite Hm; discriminate).
  assert (Hlast : forall row, In row m -> length (last m []) = length row).
  { intros row Hrow. pose proof (Hrows row Hrow) as H1. pose proof (Hrows _ (last_in [] m Hne)) as H2.
    unfold len in H1, H2. lia. }
  unfold print_matrix. destruct m as [|r1 t1]; [contradiction|]. f_equal.
  transitivity (map (map (fun v => if fx && (v <? 0) then 0 else v)) (r1 :: t1)).
  - apply map_ext_in. intros row Hrow. rewrite (Hlast row Hrow).
    exact (map_print_cells (fun v => if fx && (v <? 0) then 0 else v) row []).
  - destruct fx; cbn [andb].
    + reflexivity.
    + rewrite (map_ext _ (fun row => row)); [apply map_id|]. intros row. apply map_id.
Qed.
