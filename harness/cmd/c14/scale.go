// Scale family of the C14 harness: a handful of LARGE runs (10^3 commits in the quick tier, 10^4 in the thorough
// one; item lists of 1, 2, 10 and 30 items), in the adversarial shapes of a commit history, judged by the log
// oracles over the complete call log at the end of the run (the model interpreter is run on them too):
//
//	lin-asc / lin-desc / lin-eq   linear, committer times ascending / descending (the newest commit is the first) / all equal
//	wide-w                        w branches alive at the same time (forked from the root, extended round-robin), joined by
//	                              one octopus merge (w <= 8) or by a cascade of two-parent merges
//	period-p                      a side branch leaves the trunk and is merged back every p commits (p = 2^k, 2^k+-1, 99..101)
//	ladder-p                      two long-lived branches; every p commits the first merges the second (deep spine of merges
//	                              with the second branch alive all the time)
//	roots-r                       r disjoint chains that are merged at the end (extra roots are cloned from rootClone)
//
// Constants of the anchored code that the sizes straddle: `i > 0` / plan[0] in isMerge (histories of 1, 2 commits and
// merges at plan positions 1, 2 are in the small streams), `index%100 == 0` (FreeOSMemory under hibernation: plans of
// 99, 100, 101 and several thousand actions), hibernation distances 0, 1, 2, 10, 99, 100, 101.
package main

import (
	"fmt"
	"time"

	hercules "gopkg.in/src-d/hercules.v10"
	. "verifharness/lib"
	"verifharness/synth"
)

type timeMode int

const (
	tAsc timeMode = iota
	tDesc
	tEq
	tRand
)

func stamp(c *Config, cs []commitSpec, m timeMode) []commitSpec {
	n := len(cs)
	switch m {
	case tAsc:
		for i := range cs {
			cs[i].Time = baseTime + int64(i)*60
		}
	case tDesc:
		for i := range cs {
			cs[i].Time = baseTime + int64(n-i)*60
		}
	case tEq:
		for i := range cs {
			cs[i].Time = baseTime
		}
	default:
		ts := randomTimes(c, n)
		for i := range cs {
			cs[i].Time = ts[i]
		}
	}
	return cs
}

func linearShape(n int) []commitSpec {
	cs := make([]commitSpec, n)
	for i := range cs {
		cs[i] = commitSpec{ID: i}
		if i > 0 {
			cs[i].Parents = []int{i - 1}
		}
	}
	return cs
}

// wideShape: root, w arms extended round-robin, then the join and a short tail
func wideShape(n, w int) []commitSpec {
	cs := []commitSpec{{ID: 0}}
	tips := make([]int, w)
	add := func(ps ...int) int {
		cs = append(cs, commitSpec{ID: len(cs), Parents: append([]int{}, ps...)})
		return len(cs) - 1
	}
	for i := range tips {
		tips[i] = add(0)
	}
	budget := n - 1 - w - w - 3
	for k := 0; k < budget; k++ {
		tips[k%w] = add(tips[k%w])
	}
	if w <= 8 {
		add(tips...)
	} else {
		for len(tips) > 1 {
			var nt []int
			for i := 0; i+1 < len(tips); i += 2 {
				nt = append(nt, add(tips[i], tips[i+1]))
			}
			if len(tips)%2 == 1 {
				nt = append(nt, tips[len(tips)-1])
			}
			tips = nt
		}
	}
	for len(cs) < n {
		add(len(cs) - 1)
	}
	return cs
}

// periodShape: every p commits a side branch of side commits leaves the trunk; it is merged back p commits later
func periodShape(n, p, side int) []commitSpec {
	cs := []commitSpec{{ID: 0}}
	add := func(ps ...int) int {
		cs = append(cs, commitSpec{ID: len(cs), Parents: append([]int{}, ps...)})
		return len(cs) - 1
	}
	trunk, pending := 0, -1
	for len(cs) < n {
		for k := 0; k < p && len(cs) < n; k++ {
			trunk = add(trunk)
		}
		if pending >= 0 && len(cs) < n {
			trunk = add(trunk, pending)
			pending = -1
		}
		if len(cs)+side < n {
			s := trunk
			for k := 0; k < side; k++ {
				s = add(s)
			}
			pending = s
		}
	}
	return cs
}

// ladderShape: branches a and b; b advances all the time, a merges b every p commits
func ladderShape(n, p int) []commitSpec {
	cs := []commitSpec{{ID: 0}}
	add := func(ps ...int) int {
		cs = append(cs, commitSpec{ID: len(cs), Parents: append([]int{}, ps...)})
		return len(cs) - 1
	}
	a, b := add(0), add(0)
	for len(cs) < n {
		for k := 0; k < p && len(cs) < n; k++ {
			if k%2 == 0 {
				b = add(b)
			} else {
				a = add(a)
			}
		}
		if len(cs) < n {
			a = add(a, b)
		}
	}
	return cs
}

// rootsShape: r disjoint chains, merged pairwise at the end
func rootsShape(n, r int) []commitSpec {
	var cs []commitSpec
	add := func(ps ...int) int {
		cs = append(cs, commitSpec{ID: len(cs), Parents: append([]int{}, ps...)})
		return len(cs) - 1
	}
	tips := make([]int, r)
	for i := range tips {
		tips[i] = add()
	}
	for k := 0; len(cs) < n-r; k++ {
		tips[k%r] = add(tips[k%r])
	}
	t := tips[0]
	for i := 1; i < r; i++ {
		t = add(t, tips[i])
	}
	for len(cs) < n {
		t = add(t)
	}
	return cs
}

func chain3(c *Config) []itemSpec {
	its := fixedPipeline(0, c)
	its[1].Hib = true
	return its
}

// resolvable tells whether Pipeline.Initialize accepts the item list (resolve() rejects some dependency graphs with two
// providers of one entity, depending on the registration order)
func resolvable(its []itemSpec) bool {
	repo, commits := synth.BuildRepo([]synth.CommitSpec{{AuthorName: "u", AuthorEmail: "u@x", AuthorWhen: time.Unix(baseTime, 0),
		Files: []synth.FileSpec{{Path: "f", Data: []byte("x\n")}}}})
	pipeline := hercules.NewPipeline(repo)
	sh := &shared{commitID: map[string]int{}}
	for _, s := range its {
		pipeline.AddItem(newItem(sh, s))
	}
	var err error
	_, p := Catch(func() {
		err = pipeline.Initialize(map[string]interface{}{hercules.ConfigPipelineCommits: commits, hercules.ConfigLogger: nopLogger{}})
	})
	return !p && err == nil
}

func resolvablePipeline(c *Config, gen func() []itemSpec) []itemSpec {
	for i := 0; ; i++ {
		its := gen()
		if i >= 50 || resolvable(its) {
			return its
		}
	}
}

func scaleStreams(c *Config) {
	r := c.Rng
	n := 1000
	big := c.Tier == "thorough" // the search tier (many short rounds after a correspondence break) keeps the quick sizes
	if big {
		n = 10000
	}
	none := injection{Kind: "none"}
	type sc struct {
		name  string
		cs    []commitSpec
		dist  int
		items []itemSpec
		inj   injection
		pa    bool
	}
	periods := []int{2, 3, 4, 5, 7, 8, 9, 15, 16, 17, 31, 32, 33, 63, 64, 65, 99, 100, 101, 127, 128, 129, 255, 256, 257}
	p1, p2, p3 := periods[r.Intn(len(periods))], periods[r.Intn(len(periods))], periods[r.Intn(len(periods))]
	same := func() []itemSpec {
		return resolvablePipeline(c, func() []itemSpec { return shuffled(c, samePipeline(c, r.Intn(8))) })
	}
	rich := func(k int, alias bool) []itemSpec {
		return resolvablePipeline(c, func() []itemSpec { return shuffled(c, richPipeline(c, k, alias)) })
	}
	cases := []sc{
		{"lin-asc", stamp(c, linearShape(n), tAsc), 0, chain3(c), none, false},
		{"lin-desc", stamp(c, linearShape(n), tDesc), 1, shuffled(c, fixedPipeline(3, c)), none, true},
		{"lin-eq", stamp(c, linearShape(n+1), tEq), 100, same(), none, false},
		{"wide-8", stamp(c, wideShape(n-1, 8), tRand), 2, chain3(c), none, false},
		{"wide-33", stamp(c, wideShape(n, 33), tAsc), 10, shuffled(c, fixedPipeline(1, c)), none, false},
		{fmt.Sprintf("period-%d", p1), stamp(c, periodShape(n, p1, 1), tRand), 0, same(), none, false},
		{fmt.Sprintf("period-%d", p2), stamp(c, periodShape(n, p2, 2), tAsc), 1, chain3(c), none, false},
		{fmt.Sprintf("ladder-%d", p3), stamp(c, ladderShape(n, p3), tRand), 99, rich(3, true), none, false},
		{"ladder-2", stamp(c, ladderShape(n, 2), tDesc), 101, chain3(c), none, false},
		{"roots-5", stamp(c, rootsShape(n, 5), tRand), 2, same(), none, false},
	}
	// failures far into a long run: the last commit index of a linear history, the last item, a merge replay
	last := rich(4, false)
	cases = append(cases,
		sc{"lin-err-last", stamp(c, linearShape(n), tAsc), 0, last, injection{Kind: "err", Item: last[len(last)-1].Name, K: n - 1}, false},
		sc{"period-errm", stamp(c, periodShape(n, 64, 1), tAsc), 1, chain3(c), injection{Kind: "errm", Item: 1, K: n / 2}, false},
		sc{"lin-miss-last", stamp(c, linearShape(n), tRand), 2, fixedPipeline(2, c), injection{Kind: "miss", Item: 0, K: n - 1, Ent: 4}, false})
	// the scale of the item list: 1, 2, 10, 30 items
	for _, k := range []int{1, 2, 10, 30} {
		its := rich(k, k >= 10)
		m := n / 5
		if k == 30 {
			m = n / 10
		}
		cs := stamp(c, periodShape(m, periods[r.Intn(9)], 1), tRand)
		cases = append(cases, sc{fmt.Sprintf("items-%d", k), cs, []int{0, 1, 3}[r.Intn(3)], its, none, k == 2})
	}
	// plans of 99, 100, 101 actions under hibernation (index%100 == 0 in Run): linear history = 1 emerge + n commits
	for _, k := range []int{98, 99, 100, 199, 200} {
		cases = append(cases, sc{fmt.Sprintf("plan-%d", k+1), stamp(c, linearShape(k), tAsc), 1 + r.Intn(3), chain3(c), none, false})
	}
	// machine limits 2^7, 2^8, 2^9 of the commit index / plan position (one item: short case lines, cheap to shrink)
	one := func() []itemSpec { return []itemSpec{{Name: 0, Provides: []int{3}, Leaf: true, Copy: r.Intn(2) == 0, Hib: r.Intn(2) == 0}} }
	for _, k := range []int{127, 128, 129, 255, 256, 257, 511, 512, 513} {
		cases = append(cases, sc{fmt.Sprintf("lin-%d", k), stamp(c, linearShape(k), tAsc), r.Intn(2), one(), none, false})
	}
	if big {
		// 2^15 commit steps (the log oracle is quadratic in the plan length: about 100 s here; 2^16+1 would take a quarter of an hour)
		cases = append(cases, sc{"lin-32769", stamp(c, linearShape(32769), tAsc), 1, one(), none, false})
		cases = append(cases,
			sc{"items-30-long", stamp(c, periodShape(3000, 17, 2), tRand), 2, rich(30, true), none, false},
			sc{"wide-200", stamp(c, wideShape(n, 200), tRand), 5, chain3(c), none, false},
			sc{"roots-64", stamp(c, rootsShape(n, 64), tRand), 1, chain3(c), none, false})
		for _, p := range []int{2, 3, 16, 33, 100, 257} {
			cases = append(cases, sc{fmt.Sprintf("period-%d", p), stamp(c, periodShape(n, p, 1+r.Intn(2)), tRand), r.Intn(3), same(), none, false})
		}
	}
	for _, s := range cases {
		emit(c, caseIn{Kind: "scale-" + s.name, Dist: s.dist, Items: s.items, Inj: s.inj, Commits: s.cs, PA: s.pa})
	}
}
