// Harness for C11: drives the real plumbing.FileDiff.Consume, CachedBlob.CountLines, the burndown consumer
// (leaves.BurndownAnalysis.Consume -> handleInsertion / handleModification) and LinesStatsCalculator on
// generated pairs of byte strings and records everything they return.
//
// Case line:
//
//	(case n (kind K) (nt 0|1) [(shape S)] (cleanup 0|1) (ws 0|1) (timeout ms) (text a... 256 b...) (obs ...))
//
// The two blobs share one field (separator 256) so that the generic shrinker of lib/check.py can cut both.
// timeout: > 0 = FileDiff.Timeout option in milliseconds; 0 = option not given; -1 = option given as 0 and
// -2 = option given as -1 (both take the "invalid timeout value" warning and mean "no deadline").
// shape (streams of large cases only): how the pair was built (sizes, positions, id distances); informative.
package c11core

import (
	"fmt"
	"os"
	"strings"
	"unicode/utf8"

	"github.com/sergi/go-diff/diffmatchpatch"
	"gopkg.in/src-d/go-git.v4/plumbing"
	"gopkg.in/src-d/go-git.v4/plumbing/object"
	"gopkg.in/src-d/hercules.v10/leaves"
	api "gopkg.in/src-d/hercules.v10/verifapi/c11"
	. "verifharness/lib"
)

var (
	h1 = plumbing.NewHash("0000000000000000000000000000000000000001")
	h2 = plumbing.NewHash("0000000000000000000000000000000000000002")
)

type input struct {
	kind    string
	shape   string
	a, b    []byte
	cleanup bool
	ws      bool
	timeout int // milliseconds; 0 = FileDiff.Timeout left at zero (no deadline)
}

func modify() *object.Change {
	return &object.Change{
		From: object.ChangeEntry{Name: "f", TreeEntry: object.TreeEntry{Name: "f", Hash: h1}},
		To:   object.ChangeEntry{Name: "f", TreeEntry: object.TreeEntry{Name: "f", Hash: h2}},
	}
}

func insert() *object.Change {
	return &object.Change{
		To: object.ChangeEntry{Name: "f", TreeEntry: object.TreeEntry{Name: "f", Hash: h1}},
	}
}

func blob(h plumbing.Hash, data []byte) *api.CachedBlob {
	return &api.CachedBlob{Blob: object.Blob{Hash: h, Size: int64(len(data))}, Data: data}
}

func countLines(b *api.CachedBlob) Sx {
	n, err := b.CountLines()
	if err == api.ErrorBinary {
		return A("bin")
	}
	if err != nil {
		return A("err")
	}
	return I(n)
}

// lineLens returns the lengths of the lines DiffLinesToRunes cuts the string into (third-party code called the
// way FileDiff.Consume calls it): the fine observation behind split_lines.
func lineLens(s string) []int {
	dmp := diffmatchpatch.New()
	src, _, arr := dmp.DiffLinesToRunes(s, "")
	res := make([]int, len(src))
	for i, r := range src {
		res[i] = len(arr[r])
	}
	return res
}

func opName(t diffmatchpatch.Operation) string {
	switch t {
	case diffmatchpatch.DiffEqual:
		return "e"
	case diffmatchpatch.DiffDelete:
		return "d"
	case diffmatchpatch.DiffInsert:
		return "i"
	}
	return fmt.Sprintf("op%d", int(t))
}

func classifyErr(err error) string {
	if err == nil {
		return "ok"
	}
	m := err.Error()
	switch {
	case strings.Contains(m, "internal integrity error src"):
		return "src"
	case strings.Contains(m, "internal integrity error dst"):
		return "dst"
	case strings.Contains(m, "DiffInsert may not appear after DiffInsert"):
		return "insins"
	case strings.Contains(m, "DiffDelete may not appear after"):
		return "delafter"
	case strings.Contains(m, "diff operation is not supported"):
		return "badop"
	}
	return "other"
}

// lastLineBlank tells whether the part after the last '\n' is non-empty and consists of spaces only: the blobs
// on which FileDiff with WhitespaceIgnore used to count one line less than CountLines (finding F9, repaired).
func lastLineBlank(b []byte) bool {
	i := len(b)
	for i > 0 && b[i-1] == ' ' {
		i--
	}
	return i < len(b) && (i == 0 || b[i-1] == '\n')
}

// distinctLines counts the different lines of the two texts (cheaply bounded: small texts cannot matter)
func distinctLines(a, b string) int {
	if strings.Count(a, "\n")+strings.Count(b, "\n")+2 <= 55295 {
		return 0
	}
	_, _, arr := diffmatchpatch.New().DiffLinesToRunes(a, b)
	return len(arr) - 1
}

// diffObs records what FileDiff.Consume returned for one file (and the fine observations behind the model of the
// line counter / splitter / stripWhitespace on the same two blobs)
func diffObs(data api.FileDiffData, ba, bb *api.CachedBlob, a, b []byte, ws bool) (obs []Sx) {
	runs := make([]Sx, len(data.Diffs))
	for i, d := range data.Diffs {
		runs[i] = T(opName(d.Type), I(utf8.RuneCountInString(d.Text)))
	}
	obs = append(obs, T("diffs", runs...), T("old", I(data.OldLinesOfCode)), T("new", I(data.NewLinesOfCode)),
		T("cla", countLines(ba)), T("clb", countLines(bb)))
	// the text of every run IS the sequence of line identifiers FileDiff.Consume handed to DiffMainRunes, i.e. the
	// identifiers after the shift out of the surrogate range (the engine only cuts and regroups its input; a
	// surrogate would come back as U+FFFD): the only place where the shifted identifiers can be observed
	rt := make([]Sx, len(data.Diffs))
	for i, d := range data.Diffs {
		rs := []rune(d.Text)
		ids := make([]int, len(rs))
		for j, r := range rs {
			ids[j] = int(r)
		}
		rt[i] = T(opName(d.Type), Ints(ids))
	}
	obs = append(obs, T("rt", rt...))
	sa, sb := api.StripWhitespace(string(a), ws), api.StripWhitespace(string(b), ws)
	if ws {
		obs = append(obs, T("sa", Bytes([]byte(sa))), T("sb", Bytes([]byte(sb))))
	}
	obs = append(obs, T("la", Ints(lineLens(sa))), T("lb", Ints(lineLens(sb))))
	if len(sa)+len(sb) <= 400 {
		// small cases: the line ids themselves (one table shared by both texts)
		src, dst, _ := diffmatchpatch.New().DiffLinesToRunes(sa, sb)
		ri := func(rs []rune) []int {
			res := make([]int, len(rs))
			for i, r := range rs {
				res[i] = int(r)
			}
			return res
		}
		obs = append(obs, T("ids", Ints(ri(src)), Ints(ri(dst))))
	}

	return obs
}

func run(in input) (obs []Sx) {
	fd := &api.FileDiff{}
	fd.Initialize(nil)
	facts := map[string]interface{}{
		api.ConfigFileDiffDisableCleanup: !in.cleanup,
		api.ConfigFileWhitespaceIgnore:   in.ws,
	}
	if in.timeout > 0 {
		facts[api.ConfigFileDiffTimeout] = in.timeout
	} else if in.timeout < 0 {
		facts[api.ConfigFileDiffTimeout] = in.timeout + 1
	}
	fd.Configure(facts)
	ba, bb := blob(h1, in.a), blob(h2, in.b)
	cache := map[plumbing.Hash]*api.CachedBlob{h1: ba, h2: bb}
	changes := object.Changes{modify()}
	deps := map[string]interface{}{api.DependencyBlobCache: cache, api.DependencyTreeChanges: changes}
	var data api.FileDiffData
	var fdRes map[string]api.FileDiffData
	var cerr error
	msg, p := Catch(func() {
		res, err := fd.Consume(deps)
		cerr = err
		if err == nil {
			fdRes = res[api.DependencyFileDiff].(map[string]api.FileDiffData)
			data = fdRes["f"]
		}
	})
	if p {
		_ = msg
		return []Sx{T("panic")}
	}
	if cerr != nil {
		return []Sx{T("error")}
	}
	obs = append(obs, diffObs(data, ba, bb, in.a, in.b, in.ws)...)

	// the consumer: a fresh BurndownAnalysis sees the old blob as an insertion (file created with
	// CountLines lines), then the modification with the diff computed above
	burn := "skipped"
	msg, p = Catch(func() {
		an := &leaves.BurndownAnalysis{Granularity: 30, Sampling: 30}
		an.Initialize(nil)
		d1 := map[string]interface{}{
			api.DependencyAuthor: 0, api.DependencyTick: 0, api.DependencyIsMerge: false,
			api.DependencyBlobCache:   map[plumbing.Hash]*api.CachedBlob{h1: ba},
			api.DependencyTreeChanges: object.Changes{insert()},
			api.DependencyFileDiff:    map[string]api.FileDiffData{},
		}
		if _, err := an.Consume(d1); err != nil {
			burn = "insert-" + classifyErr(err)
			return
		}
		d2 := map[string]interface{}{
			api.DependencyAuthor: 0, api.DependencyTick: 1, api.DependencyIsMerge: false,
			api.DependencyBlobCache: cache, api.DependencyTreeChanges: changes,
			api.DependencyFileDiff: fdRes,
		}
		_, err := an.Consume(d2)
		burn = classifyErr(err)
	})
	if p {
		burn = "panic"
	}
	obs = append(obs, T("burn", A(burn)))

	// second consumer: line statistics
	msg, p = Catch(func() {
		lsc := &api.LinesStatsCalculator{}
		lsc.Initialize(nil)
		res, err := lsc.Consume(map[string]interface{}{
			api.DependencyIsMerge: false, api.DependencyTreeChanges: changes,
			api.DependencyBlobCache: cache, api.DependencyFileDiff: fdRes,
		})
		if err != nil {
			obs = append(obs, T("stats", A("error")))
			return
		}
		st := res[api.DependencyLineStats].(map[object.ChangeEntry]api.LineStats)[changes[0].To]
		obs = append(obs, T("stats", I(st.Added), I(st.Removed), I(st.Changed)))
	})
	if p {
		obs = append(obs, T("stats", A("panic")))
	}
	return obs
}

func emit(c *Config, in input) {
	kind := in.kind
	if in.ws && (lastLineBlank(in.a) || lastLineBlank(in.b)) {
		// kind of its own: WhitespaceIgnore and a blob whose last line is non-empty and all spaces (the class of
		// the repaired finding F9)
		kind = "wslastblank"
	}
	if !strings.HasPrefix(kind, "ids-") && !strings.HasPrefix(kind, "scale-") &&
		distinctLines(api.StripWhitespace(string(in.a), in.ws), api.StripWhitespace(string(in.b), in.ws)) > 55295 {
		// kind of its own: the line ids of DiffLinesToRunes reach the UTF-16 surrogate range 0xD800..0xDFFF (the
		// class of the repaired finding F15)
		kind = "surrogate"
	}
	obs := run(in)
	text := make([]Sx, 0, len(in.a)+len(in.b)+2)
	text = append(text, A("text"))
	for _, x := range in.a {
		text = append(text, I(int(x)))
	}
	text = append(text, I(256))
	for _, x := range in.b {
		text = append(text, I(int(x)))
	}
	nt := len(in.a) > 0 && len(in.b) > 0 && string(in.a) != string(in.b)
	fields := []Sx{T("kind", A(kind)), T("nt", B(nt))}
	if in.shape != "" {
		fields = append(fields, T("shape", A(in.shape)))
	}
	fields = append(fields, T("cleanup", B(in.cleanup)), T("ws", B(in.ws)), T("timeout", I(in.timeout)),
		Sx{List: text, IsL: true}, T("obs", obs...))
	c.Emit(fields...)
}

func parseCase(cs Sx) input {
	in := input{kind: "replay", cleanup: true}
	if f, ok := cs.Field("kind"); ok && len(f.Args()) == 1 {
		in.kind = f.Args()[0].Atom
	}
	if f, ok := cs.Field("shape"); ok && len(f.Args()) == 1 {
		in.shape = f.Args()[0].Atom
	}
	if f, ok := cs.Field("cleanup"); ok {
		in.cleanup = f.Args()[0].Int() != 0
	}
	if f, ok := cs.Field("ws"); ok {
		in.ws = f.Args()[0].Int() != 0
	}
	if f, ok := cs.Field("timeout"); ok {
		in.timeout = f.Args()[0].Int()
	}
	if f, ok := cs.Field("text"); ok {
		second := false
		in.a, in.b = []byte{}, []byte{}
		for _, x := range f.Args() {
			v := x.Int()
			if v >= 256 || v < 0 {
				second = true
				continue
			}
			if second {
				in.b = append(in.b, byte(v))
			} else {
				in.a = append(in.a, byte(v))
			}
		}
	}
	return in
}

// the burndown consumer logs integrity errors; keep the log out of the way
func quietStderr() {
	if devnull, err := os.OpenFile(os.DevNull, os.O_WRONLY, 0); err == nil {
		os.Stderr = devnull
	}
}

// Main is the body of both binaries: cmd/c11 (small and medium cases, shrinkable) and cmd/c11big (large cases:
// the id-space family with more than 55 295 distinct lines and the scale family; a stream of its own because
// shrinking megabyte inputs is pointless).
func Main(big bool) {
	c := Setup()
	defer c.Close()
	quietStderr()
	if c.Replay != "" {
		for _, cs := range c.ReplayCases() {
			emit(c, parseCase(cs))
		}
		return
	}
	if big {
		generateBig(c)
	} else {
		generate(c)
	}
}
