(* Reflection of the boolean tests of Checker.v into the propositions of Spec.v / Lifecycle.v. *)
From Coq Require Import List ZArith Bool Arith Lia Permutation.
From Herc Require Import Plan.Syntax Plan.Exec Plan.Graph Plan.Checker Plan.Spec Plan.Lifecycle
  Plan.GraphProofs Plan.ExecProofs.
Import ListNotations.
Local Open Scope nat_scope.

Lemma memz_In x l : memz x l = true <-> In x l.
Proof. exact (memzb_In x l). Qed.

Lemma memz_false x l : memz x l = false <-> ~ In x l.
Proof. exact (memzb_false x l). Qed.

Lemma nodupz_NoDup l : nodupz l = true <-> NoDup l.
Proof.
  induction l as [|x r IH]; simpl.
  - split; [constructor | reflexivity].
  - rewrite andb_true_iff, negb_true_iff, memz_false, IH. split.
    + intros [H1 H2]. constructor; assumption.
    + intro H. inversion H. split; assumption.
Qed.

Lemma nodupn_NoDup l : nodupn l = true <-> NoDup l.
Proof.
  induction l as [|x r IH]; simpl.
  - split; [constructor | reflexivity].
  - rewrite andb_true_iff, negb_true_iff, memn_false, IH. split.
    + intros [H1 H2]. constructor; assumption.
    + intro H. inversion H. split; assumption.
Qed.

Lemma permz_spec l1 l2 : permz l1 l2 = true -> NoDup l1 /\ NoDup l2 /\ Permutation l1 l2.
Proof.
  unfold permz. rewrite !andb_true_iff. intros [[[H1 H2] H3] H4].
  apply nodupz_NoDup in H1. apply nodupz_NoDup in H2. apply Nat.eqb_eq in H3.
  rewrite forallb_forall in H4.
  split; [exact H1|]. split; [exact H2|].
  apply NoDup_Permutation_bis; [exact H1 | lia |].
  intros x Hx. apply memz_In. apply H4. exact Hx.
Qed.

Lemma sequence_spec {A} (ls : list (option A)) qs : sequence ls = Some qs -> ls = map Some qs.
Proof.
  revert qs. induction ls as [|[x|] r IH]; intros qs H; simpl in H.
  - injection H as <-. reflexivity.
  - destruct (sequence r) as [r'|]; [|discriminate]. injection H as <-.
    simpl. f_equal. apply IH. reflexivity.
  - discriminate.
Qed.

Lemma take_block_spec c : forall p bs rest, take_block c p = (bs, rest) -> p = block c bs ++ rest.
Proof.
  induction p as [|a r IH]; intros bs rest H; simpl in H.
  - injection H as <- <-. reflexivity.
  - destruct a as [k co its]. simpl in H.
    destruct k; try (injection H as <- <-; reflexivity).
    destruct co as [c'|]; try (injection H as <- <-; reflexivity).
    destruct its as [|b [|b' its']]; try (injection H as <- <-; reflexivity).
    destruct (c' =? c) eqn:E; try (injection H as <- <-; reflexivity).
    apply Nat.eqb_eq in E. subst c'.
    destruct (take_block c r) as [bs' rest'] eqn:TB. injection H as <- <-.
    simpl. unfold commit_on at 1. f_equal. apply IH. reflexivity.
Qed.

Lemma block_app c bs1 bs2 : block c (bs1 ++ bs2) = block c bs1 ++ block c bs2.
Proof. unfold block. apply map_app. Qed.

Lemma block_decomp c bs p1 a p2 :
  block c bs = p1 ++ a :: p2 ->
  exists bs1 b bs2, bs = bs1 ++ b :: bs2 /\ p1 = block c bs1 /\ a = commit_on c b /\ p2 = block c bs2.
Proof.
  unfold block. intro H. apply map_eq_app in H. destruct H as [bs1 [r [-> [H1 H2]]]].
  apply map_eq_cons in H2. destruct H2 as [b [bs2 [-> [H2 H3]]]].
  exists bs1, b, bs2. repeat split; auto.
Qed.

Lemma Forall_pre_block (F : state -> action -> Prop) s c bs :
  (forall bs1 b bs2, bs = bs1 ++ b :: bs2 -> F (run s (block c bs1)) (commit_on c b)) ->
  Forall_pre F s (block c bs).
Proof.
  intros H p1 a p2 E. apply block_decomp in E. destruct E as [bs1 [b [bs2 [-> [-> [-> _]]]]]].
  eapply H. reflexivity.
Qed.

Lemma analysed_block c bs x : In x (analysed (block c bs)) -> x = c.
Proof.
  induction bs as [|b r IH]; simpl; [intros []|].
  intros [<-|H]; [reflexivity | apply IH; exact H].
Qed.

Lemma analysed_block_in c b bs : In c (analysed (block c (b :: bs))).
Proof. simpl. left. reflexivity. Qed.

Lemma analysed_noncommit a : kind a <> KCommit -> analysed [a] = [].
Proof.
  intro H. unfold analysed. simpl. destruct (kind a); try reflexivity. exfalso. apply H. reflexivity.
Qed.

Section Sound.
  Variable g : dag.
  Hypothesis T : topob g = true.
  Let tab := anc_tab g.

  Lemma commit_okb_sound s c b : commit_okb g tab s c b = true -> replay_ok g s c b.
  Proof.
    unfold commit_okb, replay_ok. rewrite andb_true_iff. intros [Hc H].
    apply Nat.ltb_lt in Hc. split; [exact Hc|].
    destruct (get s b) as [|x|x|]; try discriminate. exists x. split; [reflexivity|].
    destruct (last x) as [q|].
    - apply andb_true_iff in H. destruct H as [Hq Hs]. apply memn_In in Hq.
      split; [exact Hq|]. rewrite seteqn_iff in Hs. intro a. rewrite Hs.
      apply anc_tab_ok; [exact T|]. pose proof (topob_spec g T c q Hq). lia.
    - destruct (inc x); [|discriminate]. destruct (parents g c); [|discriminate]. split; reflexivity.
  Qed.

  Lemma commits_okb_sound c : forall bs s, commits_okb g tab s c bs = true ->
      forall bs1 b bs2, bs = bs1 ++ b :: bs2 -> replay_ok g (run s (block c bs1)) c b.
  Proof.
    induction bs as [|b0 r IH]; intros s H bs1 b bs2 E.
    - destruct bs1; discriminate.
    - simpl in H. apply andb_true_iff in H. destruct H as [H0 Hr].
      destruct bs1 as [|b1 bs1]; simpl in E; injection E as -> ->.
      + simpl. apply commit_okb_sound. exact H0.
      + change (block c (b1 :: bs1)) with (commit_on c b1 :: block c bs1).
        rewrite run_cons. eapply IH; [exact Hr | reflexivity].
  Qed.

  Lemma lasts_okb_sound c ls : c < length g -> lasts_okb g tab c ls = true -> lasts_ok g c ls.
  Proof.
    intros Hc. unfold lasts_okb, lasts_ok. destruct (parents g c) as [|p0 ps] eqn:P.
    - intro H. left. split; [reflexivity|].
      destruct ls as [|[x|] [|y r]]; try discriminate. reflexivity.
    - intro H. right. split; [discriminate|].
      destruct (sequence ls) as [qs|] eqn:S; [|discriminate].
      rewrite !andb_true_iff in H. destruct H as [[H1 H2] H3].
      exists qs. split; [apply sequence_spec; exact S|]. split; [apply nodupn_NoDup; exact H1|].
      rewrite forallb_forall in H2, H3. intro q. split.
      + intro Hq. apply (nonredb_spec g T). apply H2. exact Hq.
      + intro Hq. apply memn_In. apply H3. apply (nonred_list_spec g T). exact Hq.
  Qed.

  Lemma merge_okb_sound s c ms : c < length g -> merge_okb tab s c ms = true ->
      (forall b, In b ms -> exists x, get s b = Live x /\ last x = Some c) /\
      (forall a, In a (flat_map (fun k => inc_of (get s k)) ms) <-> Anc g a c).
  Proof.
    intro Hc. unfold merge_okb. rewrite andb_true_iff. intros [H1 H2].
    rewrite forallb_forall in H1. split.
    - intros b Hb. specialize (H1 b Hb). destruct (get s b) as [|x|x|]; try discriminate.
      exists x. split; [reflexivity|]. destruct (last x) as [q|]; simpl in H1; [|discriminate].
      apply Nat.eqb_eq in H1. subst. reflexivity.
    - rewrite seteqn_iff in H2. intro a. rewrite H2. apply anc_tab_ok; assumption.
  Qed.

  Lemma lasts_ok_merge_commit c ls : lasts_ok g c ls -> 2 <= length ls -> merge_commit g c.
  Proof.
    intros [[_ ->]|[_ [qs [-> [Hnd Hq]]]]] Hl; simpl in Hl; [lia|].
    rewrite map_length in Hl. destruct qs as [|q1 [|q2 r]]; simpl in Hl; try lia.
    exists q1, q2. split.
    - intro E. subst. inversion Hnd as [|? ? Hn _]. apply Hn. left. reflexivity.
    - split; apply Hq; simpl; auto.
  Qed.

  (* ---------- the final test ---------- *)

  Lemma get_in_keys : forall (s : state) b, get s b <> Absent -> In b (map fst s).
  Proof.
    induction s as [|[k v] r IH]; intros b H; simpl in *; [congruence|].
    destruct (Z.eqb k b) eqn:E.
    - left. apply Z.eqb_eq. exact E.
    - right. apply IH. exact H.
  Qed.

  Lemma minz_spec : forall l,
      match minz l with
      | None => l = []
      | Some m => In m l /\ forall x, In x l -> (m <= x)%Z
      end.
  Proof.
    induction l as [|x r IH]; simpl; [reflexivity|].
    destruct (minz r) as [m|].
    - destruct IH as [Hm Hle]. split.
      + destruct (Z.min_spec x m) as [[_ ->]|[_ ->]]; [left; reflexivity | right; exact Hm].
      + intros y [<-|Hy]; [lia|]. specialize (Hle y Hy). lia.
    - subst r. split; [left; reflexivity|]. intros y [<-|[]]. lia.
  Qed.

  Lemma survivingb_spec s b : survivingb s b = true <-> surviving s b.
  Proof.
    unfold survivingb, surviving, awakeb, hibernatedb, awake, hibernated.
    destruct (get s b) as [|x|x|]; simpl; split; intro H; try discriminate; try reflexivity.
    - destruct H as [[y Hy]|[y Hy]]; discriminate.
    - left. exists x. reflexivity.
    - right. exists x. reflexivity.
    - destruct H as [[y Hy]|[y Hy]]; discriminate.
  Qed.

  Lemma master_spec s b : master s = Some b -> master_of s b.
  Proof.
    unfold master, master_of. intro H.
    pose proof (minz_spec (filter (survivingb s) (map fst s))) as M. rewrite H in M.
    destruct M as [Hin Hle]. apply filter_In in Hin. destruct Hin as [_ Hs].
    split; [apply survivingb_spec; exact Hs|].
    intros b' Hb'. apply Hle. apply filter_In. split.
    - apply get_in_keys. destruct Hb' as [[x Hx]|[x Hx]]; rewrite Hx; discriminate.
    - apply survivingb_spec. exact Hb'.
  Qed.

  Lemma nothing_hibernatedb_spec s : nothing_hibernatedb s = true -> nothing_hibernated s.
  Proof.
    unfold nothing_hibernatedb, nothing_hibernated. rewrite forallb_forall.
    intros H b [x Hx].
    assert (Hk : In b (map fst s)) by (apply get_in_keys; rewrite Hx; discriminate).
    specialize (H b Hk). unfold hibernatedb in H. rewrite Hx in H. discriminate.
  Qed.

  Lemma finalb_sound s A : finalb g s A = true ->
      retained g A /\ nothing_hibernated s /\
      (single_head g A -> exists b, master_of s b /\ forall c, In c A -> In c (inc_of (get s b))).
  Proof.
    unfold finalb. rewrite !andb_true_iff. intros [[H1 H2] H3].
    split; [apply retainedb_sound; exact H1|].
    split; [apply nothing_hibernatedb_spec; exact H2|].
    intro SH. apply single_head_length in SH. apply Nat.leb_le in SH. rewrite SH in H3.
    destruct (master s) as [b|] eqn:M; [|discriminate].
    exists b. split; [apply master_spec; exact M|].
    rewrite subsetn_incl in H3. exact H3.
  Qed.
End Sound.
