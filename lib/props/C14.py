CONFIG = dict(
        level='proof',
        streams=[dict(harness='c14', driver='c14', shrink_field='commits')],
        rule='one case = one Pipeline.Initialize + Pipeline.Run of the real code on a synthetic in-memory go-git repository '
             '(facts[ConfigPipelineCommits]) with a pipeline of recording items (chain, diamond, two consumers of a two-output provider, '
             're-provider chain, single leaf, random dependency DAGs of 1-6 items; fork by copy or by sharing, hibernateable or not, leaf '
             'or not; registered in random order) and hibernation distance 0..5, optionally with one injected failure (Consume error at '
             'a commit index, a declared output left out, Hibernate/Boot error). Histories: ex<n> = every parent assignment on n<=4 '
             'commits (thorough: 5), lin = linear, dag = random DAGs up to 14 commits with 2-3 parent merges, several roots, equal and '
             'non-monotone committer times, hist = histories of harness/synth.GenHist, octo = harness/synth.GenOctopusShape: 1-2 octopus merges of '
             '3..7 parents per history (half of the cases aimed at parents = distance+3 / +4, where ONE boot action covers several branches), arms of '
             'different lengths, chains after the merge, 1..3 roots, distance 1..4, at least one hibernateable item. Non-trivial = at least 2 items and at least 2 commit '
             'steps in the executed plan; distinct = distinct (distance, items, injection, commits).',
        exhaustive_note='every parent assignment (each commit chooses any subset of the earlier ones: several roots, octopus and redundant merges, '
                        'disconnected parts) on 1..4 commits (thorough: 5) x 3 fixed pipelines x 2 hibernation distances',
        assumptions=[
            'the plan predicates head_emergeb, head_firstb, contigb, distinctb, liveb (coq/theories/Pipeline/RunModel.v) are hypotheses of '
            'C14_is_merge / C14_once_in_order / C14_summary; they are evaluated on the plan of every real run (a failure is reported as a '
            'correspondence break); the plan validator of C02/C04 implies them - proved in Coq for liveb, contigb, distinctb and "plan[0] is an emerge" '
            '(C14_plan_predicates_composed, coq/theories/Compose/PlanRun.v, docs/COMPOSITION.md); the Commit field of plan[0] (head_firstb / head_carriesb) is '
            'not inspected by the validators and stays a hypothesis',
            'a runActionCommit always carries a commit (appendCommit in generatePlan is its only producer)',
            'item behaviour (Consume, Merge, Hibernate, Boot, Finalize) is an arbitrary function of the state of the Go object it is called on; '
            'Fork is ForkCopyPipelineItem or ForkSamePipelineItem; an item does not modify the deps map it is handed',
        ],
        trusted_base=[
            'hand-written Gallina model coq/theories/Pipeline/RunModel.v of Pipeline.Run, cloneItems, mergeItems, getMasterBranch, '
            'ForkSamePipelineItem, ForkCopyPipelineItem, tied to the code by the replay of every harness case (complete call log and result)',
            'the recording items of harness/cmd/c14 and their Gallina twin rec_sem',
            'verif hook internal/core/verif_c14.go (redirects the sink of the plan dump so that the plan Run executed is observed) and '
            'verifapi/c14/c14.go; the existing verifapi planner exports (InsertHibernateBoot) and Pipeline.VerifItems',
        ],
        level_text='Coq theorems about the Gallina interpreter model of Pipeline.Run, for every item state type, value type, item behaviour '
                   '(Consume/Merge/Hibernate/Boot/Finalize as arbitrary functions), item list and plan: C14_steps (commit records = commit '
                   'actions, with their commit, branch and isMerge value), C14_inputs (every key of the map a call sees = output of the last '
                   'earlier provider of the same step, else the step metadata; no hypothesis), C14_once_in_order (plans with live branches: '
                   'items 0..n-1 once each, in resolved order), C14_index, C14_is_merge_scan / C14_is_merge (flag true iff replayed on >= 2 '
                   'branches, under head_emergeb, contigb, distinctb), C14_errors_abort (failing call is the last one; Run returns its error '
                   'and no result), C14_done / C14_summary (BeginTime, EndTime, CommitsNumber), C14_oracle_accepts_model (the extracted log '
                   'oracle accepts every model log); all closed under the global context. Every run replays the real call log through the '
                   'extracted interpreter (equality) and through the extracted oracles.',
        level_note='Proved about the model, tied to the Go code by correspondence only (complete event log incl. object identities of '
                   'forked items, and the result). The plan is an input: the theorems assume boolean plan predicates that are evaluated '
                   'on the plan of every real run and that the C02/C04 validator implies; the resolved item order is taken as observed '
                   '(C10). Modelled rather than verified: Go map semantics of the state map, reflect-based ForkCopyPipelineItem (copy of '
                   'the object state), the planner (only its output is used; it is non-deterministic, so the executed plan is captured '
                   'from Run\'s own plan dump). Not modelled: RunTime/RunTimePerItem, OnProgress, DryRun, Dispose, items that mutate the '
                   'deps map. Boundaries stated in the theorems: EndTime is max(0, newest committer time) (newestTime starts at int64 0); '
                   'CommitsNumber counts the input commits including those of dropped disjoint components; the commit index counts '
                   'replays (a merge commit replayed on k branches takes k indices). Run panics on an empty commit list (plan[0]); the '
                   'model does too.',
        technique='machine-checked proof in Coq over a Gallina model of the action interpreter + model/implementation correspondence replay of the '
                  'complete call log with extracted oracles',
    )
