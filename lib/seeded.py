#!/usr/bin/env python3
"""Runs the registered checks against the seeded changes under /verif/seeded/<id>/.

  lib/seeded.py [id ...]      (default: all)

For each seed: a scratch copy of /repo is made under /tmp, patch.diff is applied there, the check of the
seed's property (and any others listed in meta.json "also") is run with VERIF_REPO pointing at the copy, the
outcome (VIOLATION line, replay file content) is recorded in seeded/<id>/result.json, and the copy is removed.
/repo itself is never touched."""
import json
import os
import shutil
import subprocess
import sys
import time

ROOT = os.path.dirname(os.path.dirname(os.path.abspath(__file__)))


def run_seed(sid):
    d = os.path.join(ROOT, 'seeded', sid)
    meta = json.load(open(os.path.join(d, 'meta.json')))
    scratch = '/tmp/seedrun-' + sid
    shutil.rmtree(scratch, ignore_errors=True)
    subprocess.run(['cp', '-r', '/repo', scratch], check=True)
    res = dict(id=sid, property=meta['property'], checks={})
    try:
        if meta.get('retired'):
            res['retired'] = meta['retired']
            res['detected'] = None
            json.dump(res, open(os.path.join(d, 'result.json'), 'w'), indent=1)
            return res
        p = subprocess.run(['git', 'apply', '--whitespace=nowarn', os.path.join(d, 'patch.diff')], cwd=scratch, capture_output=True, text=True)
        if p.returncode != 0:
            # later fix commits moved the context: fall back to patch(1) with fuzz
            p = subprocess.run(['patch', '-p1', '--fuzz=3', '--no-backup-if-mismatch', '-i', os.path.join(d, 'patch.diff')], cwd=scratch, capture_output=True, text=True)
            if p.returncode != 0:
                res['error'] = 'patch does not apply: ' + p.stdout + p.stderr
                return res
            res['applied_with'] = 'patch --fuzz=3 (context moved by later fix commits)'
        for pid in [meta['property']] + meta.get('also', []):
            t0 = time.time()
            env = dict(os.environ, VERIF_REPO=scratch, VERIF_NO_COQCHK='1')
            tier = 'quick'
            p = subprocess.run([os.path.join(ROOT, 'check'), pid, '--tier', tier], cwd=ROOT, env=env, capture_output=True, text=True)
            out = p.stdout + p.stderr
            viol = [l for l in out.split('\n') if l.startswith('VIOLATION')]
            if THOROUGH and pid == meta['property'] and (not viol or 'no-failing-input-found' in viol[0]):
                # the quick tier passes or only sees a correspondence break: try the thorough tier
                tier = 'thorough'
                p = subprocess.run([os.path.join(ROOT, 'check'), pid, '--tier', tier], cwd=ROOT, env=env, capture_output=True, text=True)
                out2 = p.stdout + p.stderr
                viol2 = [l for l in out2.split('\n') if l.startswith('VIOLATION')]
                if viol2 and (not viol or 'no-failing-input-found' not in viol2[0]):
                    out, viol = out2, viol2
                else:
                    tier = 'quick'
            r = dict(exit=p.returncode, wall_s=round(time.time() - t0, 1), violation_lines=viol, tail=out[-1500:], tier=tier)
            if viol:
                rp = viol[0].split('replay=')[1].split()[0]
                if os.path.exists(rp):
                    try:
                        j = json.load(open(rp))
                        r['replay_kind'] = j.get('kind')
                        r['replay_detail'] = (j.get('detail') or '')[:600]
                        r['replay_case'] = (j.get('cases') or [''])[0][:1500]
                    except Exception as e:
                        r['replay_error'] = str(e)
                r['concrete_input'] = 'no-failing-input-found' not in viol[0]
            res['checks'][pid] = r
    finally:
        shutil.rmtree(scratch, ignore_errors=True)
        for x in os.listdir(os.path.join(ROOT, 'work')):
            pass
    res['detected'] = any(c.get('violation_lines') for c in res['checks'].values())
    json.dump(res, open(os.path.join(d, 'result.json'), 'w'), indent=1)
    return res


THOROUGH = False


def main():
    global THOROUGH
    if '--thorough-if-missed' in sys.argv:
        THOROUGH = True
        sys.argv.remove('--thorough-if-missed')
    ids = sys.argv[1:] or sorted(os.listdir(os.path.join(ROOT, 'seeded')))
    for sid in ids:
        if not os.path.exists(os.path.join(ROOT, 'seeded', sid, 'meta.json')):
            continue
        r = run_seed(sid)
        print(sid, r.get('property'), 'RETIRED' if r.get('retired') else ('DETECTED' if r.get('detected') else 'missed'), r.get('error', ''),
              ' '.join('%s[%s]:%s' % (k, v.get('tier', 'quick'), 'concrete' if v.get('concrete_input') else ('no-input' if v.get('violation_lines') else 'pass')) for k, v in r.get('checks', {}).items()))


if __name__ == '__main__':
    main()
