Require Extraction.
Require Import ExtrOcamlBasic.
From Herc Require Import Base.Conv Burndown.Base Burndown.Dense Burndown.Lifetimes Burndown.Analysis Burndown.Replay Burndown.Linear Burndown.PlanProofs Burndown.PathDel.
Extraction "c01_model.ml" conv_anchor
  conflict_free single_head has_line ancs last_event
  truth_project truth_file truth_dev truth_ownership paths_with_lines lines_at_head truth_cell keep_all
  group_sparse_history group_sparse_history_old spec_cell
  run_hist master finalize plan_okb master_all changes_of mkCfg linear_rows_ok nonneg_matrix has_text count_lines merge_freeb
  conflict_free_pd pd_okb run_hist_pd changes_of_pd.
