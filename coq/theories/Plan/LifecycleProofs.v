(* Soundness of the executable lifecycle checker and of [c04_ok], the checker of full plans. *)
From Coq Require Import List ZArith Bool Arith Lia Permutation.
From Herc Require Import Plan.Syntax Plan.Exec Plan.Graph Plan.Checker Plan.Spec Plan.Lifecycle
  Plan.GraphProofs Plan.ExecProofs Plan.CheckerLemmas Plan.CheckerSound.
Import ListNotations.
Local Open Scope nat_scope.

(* ---------- lifecycleb ---------- *)

Lemma wf_actionb_spec a : wf_actionb a = true -> wf_action a.
Proof.
  unfold wf_actionb, wf_action. destruct a as [k co its]. cbn [kind commit items].
  destruct k; destruct co as [c|]; destruct its as [|b [|b' r]]; intro H; try discriminate;
    try (eexists; eexists; split; reflexivity); try (eexists; reflexivity);
    try (eexists; eexists; eexists; reflexivity); try discriminate.
Qed.

Lemma step_okb_spec s a : step_okb s a = true -> step_ok s a.
Proof.
  unfold step_okb, step_ok. rewrite !andb_true_iff. intros [[[[W N] U] C] B].
  split; [apply wf_actionb_spec; exact W|]. split; [apply nodupz_NoDup; exact N|].
  rewrite forallb_forall in U, C, B.
  split; [intros b Hb; apply awakeb_spec; apply U; exact Hb|].
  split; [intros b Hb; apply absentb_spec; apply C; exact Hb|].
  intros b Hb. apply hibernatedb_spec. apply B. exact Hb.
Qed.

Lemma lifecycleb_sound : forall p s, lifecycleb s p = true -> lifecycle_from s p.
Proof.
  induction p as [|a r IH]; intros s H.
  - apply Forall_pre_nil.
  - simpl in H. apply andb_true_iff in H. destruct H as [H1 H2].
    apply (Forall_pre_cons step_ok); [apply step_okb_spec; exact H1 | apply IH; exact H2].
Qed.

(* ---------- hibernate / boot do not change what a branch has incorporated ---------- *)

Definition strip (l : life) : life := match l with Hibernated x => Live x | o => o end.

Definition same (s s' : state) : Prop := forall b, strip (get s b) = strip (get s' b).

Lemma strip_upd f l : strip (upd f l) = upd f (strip l).
Proof. destruct l; reflexivity. Qed.

Lemma inc_of_strip l : inc_of (strip l) = inc_of l.
Proof. destruct l; reflexivity. Qed.

Lemma same_step_hb s a : is_kind KHibernate a || is_kind KBoot a = true -> same (step s a) s.
Proof.
  intros H b. unfold step, is_kind in *. destruct (kind a); simpl in H; try discriminate.
  - rewrite get_fold_hibernate. destruct (memzb b (items a)); [|reflexivity]. destruct (get s b); reflexivity.
  - rewrite get_fold_boot. destruct (memzb b (items a)); [|reflexivity]. destruct (get s b); reflexivity.
Qed.

Lemma same_step s s' a : is_kind KHibernate a || is_kind KBoot a = false -> same s s' -> same (step s a) (step s' a).
Proof.
  intros H E b. unfold step. unfold is_kind in H. destruct a as [k co its]. cbn [kind items commit] in *.
  destruct k; simpl in H; try discriminate.
  - (* commit *)
    destruct its as [|b0 r]; [apply E|]. destruct co as [c|]; [|apply E].
    rewrite !get_set. destruct (Z.eqb b0 b); [|apply E]. rewrite !strip_upd, E. reflexivity.
  - (* fork *)
    destruct its as [|b0 r]; [apply E|].
    rewrite (get_fold_set (fun _ => get s b0)), (get_fold_set (fun _ => get s' b0)).
    destruct (memzb b r); apply E.
  - (* merge *)
    rewrite (get_fold_set (fun m => upd (fun x => mkB (flat_map (fun m0 => inc_of (get s m0)) its) (last x)) (get s m))).
    rewrite (get_fold_set (fun m => upd (fun x => mkB (flat_map (fun m0 => inc_of (get s' m0)) its) (last x)) (get s' m))).
    destruct (memzb b its); [|apply E]. rewrite !strip_upd, E.
    replace (flat_map (fun m0 => inc_of (get s m0)) its) with (flat_map (fun m0 => inc_of (get s' m0)) its); [reflexivity|].
    apply flat_map_ext. intro m0. rewrite <- (inc_of_strip (get s m0)), <- (inc_of_strip (get s' m0)), E. reflexivity.
  - (* emerge *)
    destruct its as [|b0 r]; [apply E|]. rewrite !get_set. destruct (Z.eqb b0 b); [reflexivity | apply E].
  - (* delete *)
    destruct its as [|b0 r]; [apply E|]. rewrite !get_set. destruct (Z.eqb b0 b); [reflexivity | apply E].
Qed.

Lemma same_run_erase : forall p s s', same s s' -> same (run s p) (run s' (erase_hb p)).
Proof.
  induction p as [|a r IH]; intros s s' E; [exact E|].
  unfold erase_hb. simpl filter. destruct (is_kind KHibernate a || is_kind KBoot a) eqn:K; simpl negb; cbv iota.
  - rewrite run_cons. apply IH. intro b. rewrite (same_step_hb s a K b). apply E.
  - rewrite !run_cons. apply IH. apply same_step; assumption.
Qed.

Lemma erase_hb_app p q : erase_hb (p ++ q) = erase_hb p ++ erase_hb q.
Proof. unfold erase_hb. apply filter_app. Qed.

Lemma analysed_erase_hb p : analysed (erase_hb p) = analysed p.
Proof.
  induction p as [|a r IH]; [reflexivity|].
  unfold erase_hb. simpl filter. unfold is_kind at 1 2.
  destruct a as [k co its]. destruct k; simpl; try (f_equal; exact IH); exact IH.
Qed.

Lemma strip_live l x : strip l = Live x -> l = Live x \/ l = Hibernated x.
Proof. destruct l; simpl; intro H; try discriminate; injection H as ->; auto. Qed.

Lemma surviving_strip s b : surviving s b <-> exists x, strip (get s b) = Live x.
Proof.
  unfold surviving, awake, hibernated. split.
  - intros [[x Hx]|[x Hx]]; exists x; rewrite Hx; reflexivity.
  - intros [x Hx]. apply strip_live in Hx. destruct Hx as [Hx|Hx]; [left | right]; exists x; exact Hx.
Qed.

(* ---------- the checker of full plans ---------- *)

Theorem c04_checker_sound : forall g p, c04_ok g p = true ->
  lifecycle_ok p /\
  nothing_hibernated (run init p) /\
  (forall p1 m p2, p = p1 ++ m :: p2 -> kind m = KMerge -> merge_ok g (run init p1) m) /\
  (single_head g (analysed p) ->
   exists b, master_of (run init p) b /\ forall c, replayed c p -> In c (inc_of (get (run init p) b))).
Proof.
  intros g p H. unfold c04_ok in H. rewrite !andb_true_iff in H. destruct H as [[L NH] PO].
  apply lifecycleb_sound in L. apply nothing_hibernatedb_spec in NH.
  pose proof (checker_sound g _ PO) as CS. pose proof (checker_lifecycle g _ PO) as [_ [_ MS]].
  assert (SR : forall q, same (run init q) (run init (erase_hb q))).
  { intro q. apply same_run_erase. intro b. reflexivity. }
  split; [exact L|]. split; [exact NH|]. split.
  - intros p1 m p2 E K.
    assert (E' : erase_hb p = erase_hb p1 ++ m :: erase_hb p2).
    { rewrite E, erase_hb_app. f_equal. unfold erase_hb. simpl. unfold is_kind. rewrite K. reflexivity. }
    destruct (c02_merges g _ CS _ _ _ E' K) as [ND [c [MC Hl]]].
    split; [exact ND|]. exists c. split; [exact MC|].
    intros b Hb. destruct (Hl b Hb) as [x [Hx Hlast]].
    destruct (L p1 m p2 E) as [_ [_ [U _]]].
    assert (Hu : In b (uses m)). { unfold uses. rewrite K. destruct (items m); exact Hb. }
    destruct (U b Hu) as [y Hy]. exists y. split; [exact Hy|].
    pose proof (SR p1 b) as S. rewrite Hy, Hx in S. simpl in S. injection S as ->. exact Hlast.
  - intro SH. rewrite <- analysed_erase_hb in SH. destruct (MS SH) as [b [[Sb Mb] Hb]].
    exists b. split.
    + split.
      * apply surviving_strip. apply surviving_strip in Sb. destruct Sb as [x Hx]. exists x. rewrite (SR p b). exact Hx.
      * intros b' Sb'. apply Mb. apply surviving_strip. apply surviving_strip in Sb'. destruct Sb' as [x Hx].
        exists x. rewrite <- (SR p b'). exact Hx.
    + intros c Hc. rewrite <- inc_of_strip, (SR p b), inc_of_strip. apply Hb.
      unfold replayed. rewrite analysed_erase_hb. exact Hc.
Qed.
