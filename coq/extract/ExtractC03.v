Require Extraction.
Require Import ExtrOcamlBasic.
From Herc Require Import Base.Conv File.Model File.Spec File.Rle.
Extraction "c03_model.ml" conv_anchor new_file update len flatten arr_update hist sumv wfb validb in_rangeb mark_okb must_panicb is_mark
  rle_update rle_flatten rle_norm rle_validb rle_in_rangeb rle_must_panicb rle_len rle_slice runs_okb.
