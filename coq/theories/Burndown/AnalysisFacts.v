(* Low-level facts about the abstract analysis: packed values, what one tracker report does to the
   global sparse history, File.Update on arrays. *)
From Coq Require Import List ZArith Lia Bool.
From Herc Require Import Burndown.Base Burndown.Dense Burndown.Analysis Burndown.SparseFacts.
Import ListNotations.
Open Scope Z_scope.

(* ---------- packed values ---------- *)
Lemma land_mark t : 0 <= t -> Z.land t mark = t mod 16384.
Proof. intros. change mark with (Z.ones 14). rewrite Z.land_ones by lia. reflexivity. Qed.

Lemma lor_disjoint x a : 0 <= x < 16384 -> 0 <= a -> Z.lor x (Z.shiftl a 14) = x + a * 16384.
Proof.
  intros Hx Ha. rewrite Z.shiftl_mul_pow2 by lia. change (2 ^ 14) with 16384.
  assert (Hd : Z.land x (a * 16384) = 0).
  { apply Z.bits_inj'. intros n Hn. rewrite Z.land_spec, Z.bits_0.
    destruct (Z.ltb_spec n 14).
    + change 16384 with (2^14). rewrite Z.mul_pow2_bits_low by lia. apply andb_false_r.
    + replace (Z.testbit x n) with false; auto. symmetry. apply Z.bits_above_log2; try lia.
      destruct (Z.eq_dec x 0) as [->|]; [cbn; lia|].
      assert (Z.log2 x < 14); [|lia]. apply Z.log2_lt_pow2; lia. }
  rewrite <- Z.lxor_lor by exact Hd. rewrite <- Z.add_nocarry_lxor by exact Hd. reflexivity.
Qed.

Lemma pack_arith cf a t : c_people cf <> 0 -> 0 <= t < 16384 -> 0 <= a -> pack cf a t = t + a * 16384.
Proof.
  intros Hp Ht Ha. unfold pack. destruct (Z.eqb_spec (c_people cf) 0); [congruence|].
  rewrite land_mark by lia. rewrite Z.mod_small by lia. apply lor_disjoint; auto.
Qed.

Lemma unpack_pack cf a t : 0 <= t < 16384 -> 0 <= a ->
  unpack cf (pack cf a t) = (if c_people cf =? 0 then author_missing else a, t).
Proof.
  intros Ht Ha. unfold unpack. destruct (Z.eqb_spec (c_people cf) 0) as [E|E].
  - unfold pack. rewrite E. reflexivity.
  - rewrite pack_arith by auto. unfold tree_max_bin_power. rewrite Z.shiftr_div_pow2 by lia.
    change (2 ^ 14) with 16384. rewrite land_mark by lia. f_equal.
    + rewrite Z.div_add by lia. rewrite Z.div_small by lia. lia.
    + rewrite Z.mod_add by lia. apply Z.mod_small. lia.
Qed.

Lemma is_mark_pack cf a t : 0 <= t < 16384 -> 0 <= a -> is_mark (pack cf a t) = (t =? mark).
Proof.
  intros Ht Ha. unfold is_mark. destruct (Z.eq_dec (c_people cf) 0) as [E|E].
  - unfold pack. rewrite E. cbn [Z.eqb]. rewrite land_mark by lia. rewrite Z.mod_small by lia. reflexivity.
  - rewrite pack_arith by auto. rewrite land_mark by lia. rewrite Z.mod_add by lia. rewrite Z.mod_small by lia. reflexivity.
Qed.

Definition tp (cf : cfg) (v : Z) : Z := snd (unpack cf v).

Lemma tp_pack cf a t : 0 <= t < 16384 -> 0 <= a -> tp cf (pack cf a t) = t.
Proof. intros. unfold tp. rewrite unpack_pack by auto. reflexivity. Qed.

(* ---------- one report ---------- *)
Definition eff (cf : cfg) (P : Z -> Z -> bool) (cur prev d : Z) : Z :=
  if is_mark prev then 0 else if is_mark cur then 0 else if P (tp cf cur) (tp cf prev) then d else 0.

Lemma update_author_gh cf s cur prev d s' : update_author cf s cur prev d = Ok s' -> s_gh s' = s_gh s.
Proof.
  unfold update_author. destruct (unpack cf prev) as [pa pt]. destruct (pa =? author_missing); [congruence|].
  destruct ((pa <? 0) || (c_people cf <=? pa)); [discriminate|]. intros E; inversion E; reflexivity.
Qed.
Lemma update_matrix_gh cf s cur prev d s' : update_matrix cf s cur prev d = Ok s' -> s_gh s' = s_gh s.
Proof.
  unfold update_matrix. destruct (fst (unpack cf prev) =? author_missing); [congruence|].
  destruct ((fst (unpack cf prev) <? 0) || (c_people cf <=? fst (unpack cf prev))); [discriminate|].
  intros E; inversion E; reflexivity.
Qed.

Lemma update_time_cases cf hd s cur prev d s' : update_time cf hd s cur prev d = Ok s' ->
  (is_mark prev = true /\ s' = s) \/ (is_mark prev = false /\ is_mark cur = true /\ s' = s) \/
  (is_mark prev = false /\ is_mark cur = false /\ s_gh s' = sp_add (s_gh s) (tp cf cur) (tp cf prev) d).
Proof.
  unfold update_time. destruct (is_mark prev).
  - destruct (cur =? prev); [|discriminate]. intros E; inversion E; auto.
  - destruct (is_mark cur); [intros E; inversion E; auto|].
    intros E. right; right. split; auto. split; auto.
    set (s1 := update_global cf s cur prev d) in *.
    set (s2 := match hd with Some h => update_file cf h s1 cur prev d | None => s1 end) in *.
    assert (E2 : s_gh s2 = sp_add (s_gh s) (tp cf cur) (tp cf prev) d) by (unfold s2; destruct hd; reflexivity).
    destruct (c_people cf =? 0); [inversion E; subst; auto|].
    destruct (update_author cf s2 cur prev d) as [s3| |] eqn:E3; try discriminate.
    rewrite (update_matrix_gh _ _ _ _ _ _ E), (update_author_gh _ _ _ _ _ _ E3). auto.
Qed.

Lemma update_time_gh cf P hd s cur prev d s' : update_time cf hd s cur prev d = Ok s' ->
  wsum P (s_gh s') = wsum P (s_gh s) + eff cf P cur prev d.
Proof.
  intros E. unfold eff. destruct (update_time_cases _ _ _ _ _ _ _ E) as [(E1 & ->)|[(E1 & E2 & ->)|(E1 & E2 & E3)]];
    rewrite E1; try rewrite E2; try lia.
  rewrite E3, wsum_sp_add. reflexivity.
Qed.

(* shape of the global history: distinct tick keys within 0..T, birth ticks within 0..tick *)
Definition gh_ok (T : Z) (H : list (Z * list (Z * Z))) : Prop :=
  NoDup (keys H) /\ inner_le H /\ forall t, In t (keys H) -> 0 <= t <= T.

Lemma gh_ok_mono T T' H : T <= T' -> gh_ok T H -> gh_ok T' H.
Proof. intros HT (H1 & H2 & H3). split; auto. split; auto. intros t Ht. specialize (H3 t Ht). lia. Qed.

Lemma gh_ok_nil T : gh_ok T [].
Proof. split; [constructor|]. split; [intros tr []|intros t []]. Qed.

Lemma update_time_ok cf hd s cur prev d s' T : update_time cf hd s cur prev d = Ok s' ->
  (is_mark prev = false -> is_mark cur = false -> 0 <= tp cf prev <= tp cf cur /\ tp cf cur <= T) ->
  gh_ok T (s_gh s) -> gh_ok T (s_gh s').
Proof.
  intros E Hb (H1 & H2 & H3).
  destruct (update_time_cases _ _ _ _ _ _ _ E) as [(E1 & ->)|[(E1 & E2 & ->)|(E1 & E2 & E3)]];
    try (split; auto; fail).
  destruct (Hb E1 E2) as [Hle HT]. rewrite E3. split; [apply nodup_keys_sp_add; auto|].
  split; [apply inner_le_sp_add; auto|].
  intros t Ht. apply keys_sp_add in Ht. destruct Ht as [->|Ht]; [lia|auto].
Qed.

(* ---------- File.Update on arrays ---------- *)
Definition effs (cf : cfg) (P : Z -> Z -> bool) (t : Z) (vs : list Z) : Z :=
  sum_z (map (fun v => eff cf P t v (-1)) vs).

Lemma report_deleted_gh cf P hd t vs : forall s s', report_deleted cf hd s t vs = Ok s' ->
  wsum P (s_gh s') = wsum P (s_gh s) + effs cf P t vs.
Proof.
  induction vs as [|v r IH]; intros s s' E; cbn [report_deleted] in E.
  - inversion E. unfold effs. cbn. lia.
  - destruct (update_time cf hd s t v (-1)) as [s1| |] eqn:E1; try discriminate.
    rewrite (IH _ _ E), (update_time_gh _ P _ _ _ _ _ _ E1). unfold effs. cbn [map]. rewrite sum_z_cons. lia.
Qed.

Lemma report_deleted_ok cf hd t vs T : forall s s', report_deleted cf hd s t vs = Ok s' ->
  (forall v, In v vs -> is_mark v = false -> is_mark t = false -> 0 <= tp cf v <= tp cf t /\ tp cf t <= T) ->
  gh_ok T (s_gh s) -> gh_ok T (s_gh s').
Proof.
  induction vs as [|v r IH]; intros s s' E Hb Hok; cbn [report_deleted] in E.
  - inversion E; subst; auto.
  - destruct (update_time cf hd s t v (-1)) as [s1| |] eqn:E1; try discriminate.
    apply (IH _ _ E); [intros; apply Hb; auto; right; auto|].
    eapply update_time_ok; eauto. intros. apply Hb; auto. left; auto.
Qed.

Lemma In_firstn {A} (l : list A) n x : In x (firstn n l) -> In x l.
Proof. revert l; induction n as [|n IH]; intros [|y l]; cbn; try tauto. intros [->|H]; auto. Qed.
Lemma In_skipn' {A} (l : list A) n x : In x (skipn n l) -> In x l.
Proof. revert l; induction n as [|n IH]; intros [|y l]; cbn; try tauto. intros H; auto. Qed.

Lemma skipn_add {A} (l : list A) (a b : nat) : skipn (a + b) l = skipn b (skipn a l).
Proof.
  revert l. induction a as [|a IH]; intros l; [reflexivity|]. destruct l as [|x l]; cbn [Nat.add skipn].
  - destruct b; reflexivity.
  - apply IH.
Qed.

Lemma firstn_skipn_split {A} (l : list A) (pos del : nat) : (pos + del <= length l)%nat ->
  l = firstn pos l ++ firstn del (skipn pos l) ++ skipn (pos + del) l.
Proof.
  intros Hl. rewrite <- (firstn_skipn pos l) at 1. f_equal.
  rewrite <- (firstn_skipn del (skipn pos l)) at 1. f_equal.
  rewrite skipn_add. reflexivity.
Qed.

(* what an accepted update does: the array, and the global history *)
Lemma arr_update_spec cf f s t pos ins del f' s' : arr_update cf f s t pos ins del = Ok (f', s') ->
  (ins = 0 /\ del = 0 /\ f' = f /\ s' = s) \/
  exists A dead B,
    f_vals f = A ++ dead ++ B /\ f_vals f' = A ++ repeat t (Z.to_nat ins) ++ B /\
    Z.of_nat (length A) = pos /\ Z.of_nat (length dead) = del /\ 0 <= ins /\ f_hist f' = f_hist f /\
    forall P, wsum P (s_gh s') = wsum P (s_gh s) + eff cf P t t ins + effs cf P t dead.
Proof.
  unfold arr_update. intros E.
  destruct ((pos <? 0) || (ins <? 0) || (del <? 0)) eqn:Eg; [discriminate|].
  apply orb_false_iff in Eg. destruct Eg as [Eg Eg3]. apply orb_false_iff in Eg. destruct Eg as [Eg1 Eg2].
  destruct ((ins =? 0) && (del =? 0)) eqn:Ez.
  - inversion E; subst. apply andb_prop in Ez. destruct Ez as [Ez1 Ez2]. left. repeat split; lia.
  - right.
    destruct ((Z.of_nat (length (f_vals f)) <? pos) || (Z.of_nat (length (f_vals f)) <? pos + del)) eqn:El; [discriminate|].
    apply orb_false_iff in El. destruct El as [El1 El2].
    set (r1 := if 0 <? ins then update_time cf (f_hist f) s t t ins else Ok s) in *.
    destruct r1 as [s1| |] eqn:E1; try discriminate.
    set (dead := firstn (Z.to_nat del) (skipn (Z.to_nat pos) (f_vals f))) in *.
    destruct (report_deleted cf (f_hist f) s1 t dead) as [s2| |] eqn:E2; try discriminate.
    inversion E; subst f' s'. clear E.
    exists (firstn (Z.to_nat pos) (f_vals f)), dead, (skipn (Z.to_nat (pos + del)) (f_vals f)).
    assert (Hsplit : f_vals f = firstn (Z.to_nat pos) (f_vals f) ++ dead ++ skipn (Z.to_nat (pos + del)) (f_vals f)).
    { unfold dead. replace (Z.to_nat (pos + del)) with (Z.to_nat pos + Z.to_nat del)%nat by lia.
      apply firstn_skipn_split. lia. }
    split; auto. cbn [f_vals f_hist]. split; auto.
    split; [rewrite firstn_length; lia|].
    split; [unfold dead; rewrite firstn_length, skipn_length; lia|].
    split; [lia|]. split; auto. intros P.
    rewrite (report_deleted_gh cf P _ _ _ _ _ E2).
    assert (wsum P (s_gh s1) = wsum P (s_gh s) + eff cf P t t ins); [|lia].
    unfold r1 in E1. destruct (Z.ltb_spec 0 ins).
    + apply (update_time_gh cf P _ _ _ _ _ _ E1).
    + inversion E1; subst. assert (ins = 0) by lia. subst. unfold eff.
      destruct (is_mark t); [lia|]. destruct (P (tp cf t) (tp cf t)); lia.
Qed.

Lemma arr_update_ok cf f s t pos ins del f' s' T : arr_update cf f s t pos ins del = Ok (f', s') ->
  is_mark t = false -> 0 <= tp cf t <= T ->
  (forall v, In v (f_vals f) -> is_mark v = false -> 0 <= tp cf v <= tp cf t) ->
  gh_ok T (s_gh s) -> gh_ok T (s_gh s').
Proof.
  unfold arr_update. intros E Hm Ht Hv Hok.
  destruct ((pos <? 0) || (ins <? 0) || (del <? 0)); [discriminate|].
  destruct ((ins =? 0) && (del =? 0)); [inversion E; subst; auto|].
  destruct ((Z.of_nat (length (f_vals f)) <? pos) || (Z.of_nat (length (f_vals f)) <? pos + del)); [discriminate|].
  set (r1 := if 0 <? ins then update_time cf (f_hist f) s t t ins else Ok s) in *.
  destruct r1 as [s1| |] eqn:E1; try discriminate.
  destruct (report_deleted cf (f_hist f) s1 t _) as [s2| |] eqn:E2; try discriminate.
  inversion E; subst f' s'. clear E.
  eapply report_deleted_ok; eauto.
  - intros v Hin Hmv _. split; [|lia]. apply Hv; auto.
    apply In_firstn in Hin. eapply In_skipn'; eauto.
  - unfold r1 in E1. destruct (0 <? ins).
    + eapply update_time_ok; eauto. intros. lia.
    + inversion E1; subst; auto.
Qed.

(* ---------- keys only grow; an insertion books its tick ---------- *)
Lemma update_time_keys cf hd s cur prev d s' : update_time cf hd s cur prev d = Ok s' ->
  forall x, In x (keys (s_gh s)) -> In x (keys (s_gh s')).
Proof.
  intros E x Hx. destruct (update_time_cases _ _ _ _ _ _ _ E) as [(_ & ->)|[(_ & _ & ->)|(_ & _ & E3)]]; auto.
  rewrite E3. apply keys_sp_add. auto.
Qed.

Lemma report_deleted_keys cf hd t vs : forall s s', report_deleted cf hd s t vs = Ok s' ->
  forall x, In x (keys (s_gh s)) -> In x (keys (s_gh s')).
Proof.
  induction vs as [|v r IH]; intros s s' E x Hx; cbn [report_deleted] in E.
  - inversion E; subst; auto.
  - destruct (update_time cf hd s t v (-1)) as [s1| |] eqn:E1; try discriminate.
    eapply IH; eauto. eapply update_time_keys; eauto.
Qed.

Lemma arr_update_keys cf f s t pos ins del f' s' : arr_update cf f s t pos ins del = Ok (f', s') ->
  (forall x, In x (keys (s_gh s)) -> In x (keys (s_gh s'))) /\
  (is_mark t = false -> 0 < ins -> In (tp cf t) (keys (s_gh s'))).
Proof.
  unfold arr_update. intros E.
  destruct ((pos <? 0) || (ins <? 0) || (del <? 0)); [discriminate|].
  destruct ((ins =? 0) && (del =? 0)) eqn:Ez.
  { inversion E; subst. split; auto. intros _ Hi. apply andb_prop in Ez. lia. }
  destruct ((Z.of_nat (length (f_vals f)) <? pos) || (Z.of_nat (length (f_vals f)) <? pos + del)); [discriminate|].
  set (r1 := if 0 <? ins then update_time cf (f_hist f) s t t ins else Ok s) in *.
  destruct r1 as [s1| |] eqn:E1; try discriminate.
  destruct (report_deleted cf (f_hist f) s1 t _) as [s2| |] eqn:E2; try discriminate.
  inversion E; subst f' s'. clear E. unfold r1 in E1. split.
  - intros x Hx. eapply report_deleted_keys; eauto. destruct (0 <? ins).
    + eapply update_time_keys; eauto.
    + inversion E1; subst; auto.
  - intros Hm Hi. eapply report_deleted_keys; eauto. destruct (Z.ltb_spec 0 ins); [|lia].
    destruct (update_time_cases _ _ _ _ _ _ _ E1) as [(Em & _)|[(_ & Em & _)|(_ & _ & E3)]]; try congruence.
    rewrite E3. apply keys_sp_add. auto.
Qed.
