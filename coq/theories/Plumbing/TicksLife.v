(* C19 - the registry lists nothing but the commits of the current analysis.

   TicksProofs.registry_lists_all is "every consumed commit is listed under its tick".  The replay of
   the item's lifecycle (Configure -> Initialize -> Consume* -> Initialize again -> Consume* ...) also
   needs the converse: whatever the registry lists under a tick is a commit that was consumed with
   that tick since the last Initialize.  Initialize is modelled as the return to [init_sys cfg]
   (a new zero tick0, previousTick 0, every key of the registry deleted IN PLACE - the map that
   Configure published in facts[FactCommitsByTick] stays the registry), so one analysis is one [run]
   from [init_sys cfg] and the statement below is about every analysis of the lifecycle.

   [only_consumed] is the boolean oracle the replay driver applies to the registry the
   implementation published; [only_consumed_spec] is its meaning, [registry_only_consumed] /
   [registry_only_consumed_oracle] say that the model passes it after every operation sequence. *)
From Coq Require Import ZArith List Bool Lia.
From Herc Require Import Plumbing.Ticks Plumbing.TicksProofs.
Import ListNotations.
Open Scope Z_scope.

(* some consumed commit has hash h and got tick k *)
Definition consumed_under (evs : list event) (k h : Z) : bool :=
  existsb (fun e => (c_hash (fst e) =? h) && (snd e =? k)) evs.

(* every hash listed under a key of the registry is a consumed commit that got this tick *)
Definition only_consumed (r : list (Z * list Z)) (evs : list event) : bool :=
  forallb (fun kl => forallb (consumed_under evs (fst kl)) (reg_get r (fst kl))) r.

Lemma consumed_under_spec : forall evs k h,
  consumed_under evs k h = true <-> exists c, In (c, k) evs /\ c_hash c = h.
Proof.
  intros evs k h. unfold consumed_under. rewrite existsb_exists. split.
  - intros [[c k'] [Hin E]]. cbn in E. apply andb_true_iff in E as [E1 E2].
    apply Z.eqb_eq in E1. apply Z.eqb_eq in E2. subst. exists c. auto.
  - intros [c [Hin <-]]. exists (c, k). split; [assumption|]. cbn. rewrite !Z.eqb_refl. reflexivity.
Qed.

Lemma only_consumed_spec : forall r evs,
  only_consumed r evs = true <->
  (forall k, In k (map fst r) -> forall h, In h (reg_get r k) -> exists c, In (c, k) evs /\ c_hash c = h).
Proof.
  intros r evs. unfold only_consumed. rewrite forallb_forall. split.
  - intros H k Hk h Hh. apply in_map_iff in Hk as [[k' l] [<- Hin]].
    specialize (H _ Hin). cbn [fst] in *. rewrite forallb_forall in H.
    apply consumed_under_spec. apply H. assumption.
  - intros H [k l] Hin. cbn [fst]. apply forallb_forall. intros h Hh.
    apply consumed_under_spec. apply (H k); [|assumption].
    apply in_map_iff. exists (k, l). auto.
Qed.

(* the oracle only gets stronger when fewer commits count as consumed: a driver may hand it, for one
   registry entry, just the events of the hashes in that entry *)
Lemma consumed_under_incl : forall evs evs' k h, incl evs evs' ->
  consumed_under evs k h = true -> consumed_under evs' k h = true.
Proof.
  intros evs evs' k h Hi H. apply consumed_under_spec in H as [c [Hin E]].
  apply consumed_under_spec. exists c. split; [apply Hi; assumption|assumption].
Qed.

Definition Inv_only (s : sys) (ls : list (list event)) (seen : list event) : Prop :=
  forall k h, In h (reg_get (commits (sh s)) k) -> exists c, In (c, k) seen /\ c_hash c = h.

Lemma Inv_only_step : forall s ls seen o s' r, True -> Inv_only s ls seen -> step s o = (s', r) ->
  Inv_only s' (lin_step ls o r) (seen ++ ev_of o r).
Proof.
  intros s ls seen o s' r _ HI H.
  assert (Hweak : forall e, Inv_only s ls (seen ++ e)).
  { intros e k h Hin. destruct (HI _ _ Hin) as [c [Hc E]]. exists c. split; [apply in_or_app; left; assumption|assumption]. }
  destruct o as [b index c|b n|bs|t d]; cbn [step] in H.
  - destruct (nth_error (brs s) b) as [br|] eqn:Eb.
    + destruct (consume_branch (sh s) br index c) as [[sh' br'] k] eqn:Ec.
      injection H as <- <-. cbn [ev_of].
      destruct (consume_branch_registry _ _ _ _ _ _ _ Ec) as [_ [_ [[Hsame _]|[Hset _]]]];
        intros k' h Hin; cbn [sh] in Hin.
      * rewrite Hsame in Hin. apply (Hweak [(c, k)]). assumption.
      * rewrite Hset in Hin. destruct (Z.eq_dec k' k) as [->|N].
        -- rewrite reg_get_set_same in Hin. apply in_app_or in Hin as [Hin|[<-|[]]].
           ++ apply (Hweak [(c, k)]). assumption.
           ++ exists c. split; [apply in_or_app; right; left; reflexivity|reflexivity].
        -- rewrite reg_get_set_other in Hin by assumption. apply (Hweak [(c, k)]). assumption.
    + injection H as <- <-. apply Hweak.
  - destruct (nth_error (brs s) b) as [br|] eqn:Eb; injection H as <- <-; apply Hweak.
  - injection H as <- <-. apply Hweak.
  - injection H as <- <-. apply Hweak.
Qed.

Lemma Inv_only_init : forall cfg, Inv_only (init_sys cfg) [[]] [].
Proof. intros cfg k h H. cbn in H. contradiction. Qed.

(* C19_registry_only_consumed *)
Theorem registry_only_consumed : forall cfg ops s' outs, run (init_sys cfg) ops = (s', outs) ->
  forall k h, In h (reg_get (commits (sh s')) k) -> exists c, In (c, k) (consumed ops outs) /\ c_hash c = h.
Proof.
  intros cfg ops s' outs H.
  change (consumed ops outs) with ([] ++ consumed ops outs).
  eapply (run_invariant (fun _ => True) Inv_only Inv_only_step); eauto using Inv_only_init.
  apply Forall_forall. auto.
Qed.

Theorem registry_only_consumed_oracle : forall cfg ops s' outs, run (init_sys cfg) ops = (s', outs) ->
  only_consumed (commits (sh s')) (consumed ops outs) = true.
Proof.
  intros cfg ops s' outs H. apply only_consumed_spec. intros k _ h Hh.
  eapply registry_only_consumed; eauto.
Qed.

(* ------------------------------------------------------------------ Configure, again

   ConfigTicksSinceStartTickSize and FactTickSize are the SAME key "TicksSinceStart.TickSize".
   Configure reads facts[key].(int) and then stores the time.Duration under that very key.  When
   Configure runs again with the facts map of the previous Configure (Pipeline.Initialize(facts)
   called twice with one map), the value is a time.Duration, the type assertion .(int) fails and the
   tick size falls back to the default 24 h.  A tick size assigned to the public field afterwards
   (CDirect) is assigned again by the harness. *)
Definition reconfigure_same_facts (c : config) : config :=
  match c with CHours _ => CDefault | _ => c end.

(* ------------------------------------------------------------------ Consume without the quadratic [rev]

   [consume_branch] scans [rev tick_commits] as the Go loop does (from the end); Coq's [rev] is
   quadratic, which makes a registry entry with thousands of hashes cubic to replay.  Membership does
   not depend on the direction of the scan. *)
Definition consume_branch_fast (s : shared) (b : branch) (index : Z) (c : commit) : shared * branch * Z :=
  let d := tick_size b in
  let t0 := if index =? 0 then floor_time (c_when c) d else tick0 s in
  let raw := raw_tick t0 d (c_when c) in
  let tick := if raw <? previous_tick b then previous_tick b else raw in
  let tick_commits := reg_get (commits s) tick in
  let exists_ := (0 <? c_parents c)%nat && existsb (Z.eqb (c_hash c)) tick_commits in
  let reg := if exists_ then commits s else reg_set (commits s) tick (tick_commits ++ [c_hash c]) in
  ({| tick0 := t0; commits := reg |}, {| tick_size := d; previous_tick := tick |}, tick).

Lemma existsb_rev_eq : forall (f : Z -> bool) l, existsb f (rev l) = existsb f l.
Proof.
  intros f l. apply eq_true_iff_eq. rewrite !existsb_exists. split; intros [x [Hin Hf]]; exists x; split; try assumption.
  - apply in_rev. assumption.
  - apply in_rev in Hin. assumption.
Qed.

Theorem consume_branch_fast_eq : forall s b index c, consume_branch_fast s b index c = consume_branch s b index c.
Proof.
  intros s b index c. unfold consume_branch_fast, consume_branch. rewrite existsb_rev_eq. reflexivity.
Qed.

(* ------------------------------------------------------------------ judging a history in segments

   With thousands of branches that share long prefixes (a chain of forks) the replay judges every
   shared prefix once: the per-history oracles are folds, so a history l1 ++ l2 is judged by judging
   l1 and then l2 started from the last tick (time) of l1. *)
Lemma nondecreasing_app : forall l1 l2 p,
  nondecreasing p (l1 ++ l2) = nondecreasing p l1 && nondecreasing (last l1 p) l2.
Proof.
  induction l1 as [|k l1 IH]; intros l2 p.
  - reflexivity.
  - cbn [app nondecreasing]. rewrite IH, andb_assoc. rewrite last_cons_default. reflexivity.
Qed.

Lemma chain_verdicts_app : forall t0 d l1 l2 p,
  chain_verdicts t0 d p (l1 ++ l2) = chain_verdicts t0 d p l1 ++ chain_verdicts t0 d (last (ticks l1) p) l2.
Proof.
  intros t0 d. induction l1 as [|[c k] l1 IH]; intros l2 p.
  - reflexivity.
  - cbn [app chain_verdicts]. rewrite IH. cbn [ticks map snd]. fold (ticks l1). rewrite last_cons_default. reflexivity.
Qed.

Lemma alone_app : forall t0 d l1 l2, alone t0 d (l1 ++ l2) = alone t0 d l1 && alone t0 d l2.
Proof. intros. unfold alone. apply forallb_app. Qed.

Lemma mono_times_app : forall first l1 l2,
  mono_times first (l1 ++ l2) = mono_times first l1 && nondecreasing (last (times l1) first) (times l2).
Proof.
  intros first l1 l2. unfold mono_times, times. rewrite map_app. apply nondecreasing_app.
Qed.

Theorem history_in_segments : forall t0 d first l1 l2 p,
  nondecreasing p (ticks (l1 ++ l2)) = nondecreasing p (ticks l1) && nondecreasing (last (ticks l1) p) (ticks l2) /\
  chain_verdicts t0 d p (l1 ++ l2) = chain_verdicts t0 d p l1 ++ chain_verdicts t0 d (last (ticks l1) p) l2 /\
  alone t0 d (l1 ++ l2) = alone t0 d l1 && alone t0 d l2 /\
  mono_times first (l1 ++ l2) = mono_times first l1 && nondecreasing (last (times l1) first) (times l2).
Proof.
  intros t0 d first l1 l2 p. unfold ticks at 1. rewrite map_app. fold (ticks l1) (ticks l2).
  exact (conj (nondecreasing_app _ _ _) (conj (chain_verdicts_app _ _ _ _ _) (conj (alone_app _ _ _ _) (mono_times_app _ _ _)))).
Qed.
