From Coq Require Import List ZArith Lia Bool Permutation.
Import ListNotations.
From Herc Require Import Toposort.Kahn.
Open Scope Z_scope.

(* ---------- well-formed graphs ---------- *)
Definition edge (g : graph) (a b : Z) : Prop := In a (nodes g) /\ In b (children g a).

Record wf (g : graph) : Prop := {
  wf_nodup : NoDup (nodes g);
  wf_children_nodup : forall n, NoDup (children g n);
  wf_closed : forall a b, edge g a b -> In b (nodes g)
}.

Lemma children_not_node g n : ~ In n (nodes g) -> children g n = [].
Proof.
  induction g as [|[m cs] g IH]; simpl; auto. intros H.
  destruct (Z.eqb_spec m n); [subst; tauto|]. apply IH. tauto.
Qed.

(* number of already emitted predecessors of x *)
Definition occ (cs : list Z) (x : Z) : Z := if in_dec Z.eq_dec x cs then 1 else 0.
Fixpoint cnt (g : graph) (L : list Z) (x : Z) : Z :=
  match L with [] => 0 | a :: L' => occ (children g a) x + cnt g L' x end.

Lemma cnt_app g L1 L2 x : cnt g (L1 ++ L2) x = cnt g L1 x + cnt g L2 x.
Proof. induction L1; simpl; lia. Qed.

Lemma occ_nonneg cs x : 0 <= occ cs x <= 1.
Proof. unfold occ. destruct (in_dec Z.eq_dec x cs); lia. Qed.

Lemma cnt_nonneg g L x : 0 <= cnt g L x.
Proof. induction L; simpl; [lia|]. pose proof (occ_nonneg (children g a) x). lia. Qed.

(* ---------- relax ---------- *)
Lemma relax_spec : forall ms ins S, NoDup ms ->
  relax ins S ms =
    (fun x => ins x - occ ms x, S ++ filter (fun m => ins m =? 1) ms).
Proof.
  induction ms as [|m ms IH]; intros ins S Hnd.
  - simpl. rewrite app_nil_r. f_equal.
    (* functional extensionality avoided: state pointwise instead *)
Abort.

(* pointwise version, avoiding functional extensionality *)
Lemma relax_spec : forall ms ins S, NoDup ms ->
  (forall x, fst (relax ins S ms) x = ins x - occ ms x) /\
  snd (relax ins S ms) = S ++ filter (fun m => ins m =? 1) ms.
Proof.
  induction ms as [|m ms IH]; intros ins S Hnd.
  - simpl. split; [intros; unfold occ; simpl; lia|]. rewrite app_nil_r. reflexivity.
  - inversion Hnd as [|? ? Hni Hnd']; subst. cbn [relax filter].
    assert (Hm : dec ins m m = ins m - 1) by (unfold dec; rewrite Z.eqb_refl; reflexivity).
    rewrite Hm.
    assert (Hfilt : filter (fun m0 => dec ins m m0 =? 1) ms = filter (fun m0 => ins m0 =? 1) ms).
    { apply filter_ext_in. intros a Ha. unfold dec. destruct (Z.eqb_spec a m); [subst; tauto|reflexivity]. }
    assert (Hocc : forall x, dec ins m x - occ ms x = ins x - occ (m :: ms) x).
    { intros x. unfold dec, occ. destruct (Z.eqb_spec x m).
      - subst. destruct (in_dec Z.eq_dec m ms); [tauto|]. destruct (in_dec Z.eq_dec m (m :: ms)); [lia|simpl in *; tauto].
      - destruct (in_dec Z.eq_dec x ms), (in_dec Z.eq_dec x (m :: ms)); simpl in *; try lia; try tauto.
        exfalso. destruct i; [congruence|tauto]. }
    destruct (Z.eqb_spec (ins m - 1) 0) as [E|E].
    + destruct (IH (dec ins m) (S ++ [m]) Hnd') as [H1 H2]. split.
      * intros x. rewrite H1. apply Hocc.
      * rewrite H2, Hfilt. replace (ins m =? 1) with true by (symmetry; apply Z.eqb_eq; lia).
        rewrite <- app_assoc. reflexivity.
    + destruct (IH (dec ins m) S Hnd') as [H1 H2]. split.
      * intros x. rewrite H1. apply Hocc.
      * rewrite H2, Hfilt. replace (ins m =? 1) with false by (symmetry; apply Z.eqb_neq; lia). reflexivity.
Qed.

(* ---------- in-degree as a count over the node list ---------- *)
Lemma count_occ_occ cs x : NoDup cs -> Z.of_nat (count_occ Z.eq_dec cs x) = occ cs x.
Proof.
  intros H. unfold occ. destruct (in_dec Z.eq_dec x cs) as [Hin|Hni].
  - pose proof (proj1 (NoDup_count_occ' Z.eq_dec cs) H x Hin) as E. rewrite E. reflexivity.
  - pose proof (proj1 (count_occ_not_In Z.eq_dec cs x) Hni) as E. rewrite E. reflexivity.
Qed.

Lemma children_head m cs g : children ((m, cs) :: g) m = cs.
Proof. simpl. rewrite Z.eqb_refl. reflexivity. Qed.

Lemma children_tail m cs g n : n <> m -> children ((m, cs) :: g) n = children g n.
Proof. intros H. simpl. destruct (Z.eqb_spec m n); congruence. Qed.

Lemma cnt_ext g g' L x : (forall a, In a L -> children g a = children g' a) -> cnt g L x = cnt g' L x.
Proof. induction L as [|a L IH]; simpl; intros H; auto. rewrite H by auto. rewrite IH; auto. Qed.

Lemma indeg_cnt g x : wf g -> indeg g x = cnt g (nodes g) x.
Proof.
  intros [Hnd Hc _]. induction g as [|[m cs] g IH]; [reflexivity|].
  simpl in Hnd. inversion Hnd as [|? ? Hni Hnd']; subst.
  unfold indeg. cbn [fold_right nodes map fst cnt].
  fold (indeg g x). rewrite children_head.
  assert (Hcs : NoDup cs) by (specialize (Hc m); rewrite children_head in Hc; exact Hc).
  rewrite (count_occ_occ cs x Hcs).
  rewrite IH; auto.
  - rewrite (cnt_ext ((m, cs) :: g) g); [unfold nodes; lia|]. intros a Ha. apply children_tail. intros ->. tauto.
  - intros n. destruct (Z.eq_dec n m) as [->|Hne].
    + rewrite children_not_node by auto. constructor.
    + specialize (Hc n). rewrite children_tail in Hc by auto. exact Hc.
Qed.

Lemma cnt_perm g L L' x : Permutation L L' -> cnt g L x = cnt g L' x.
Proof. induction 1; simpl; lia. Qed.

Lemma cnt_zero g L x : cnt g L x = 0 -> forall a, In a L -> ~ In x (children g a).
Proof.
  induction L as [|b L IH]; simpl; intros H a Ha; [tauto|].
  pose proof (cnt_nonneg g L x). pose proof (occ_nonneg (children g b) x).
  destruct Ha as [->|Ha].
  - unfold occ in *. destruct (in_dec Z.eq_dec x (children g a)); auto. lia.
  - apply IH; auto. lia.
Qed.

Lemma cnt_pos g L x : cnt g L x <> 0 -> exists a, In a L /\ In x (children g a).
Proof.
  induction L as [|b L IH]; simpl; intros H; [lia|].
  unfold occ in H. destruct (in_dec Z.eq_dec x (children g b)).
  - exists b. auto.
  - destruct IH as (a & Ha & Hx); [lia|]. exists a. auto.
Qed.

(* remaining in-degree: predecessors outside L *)
Definition rest (g : graph) (L : list Z) : list Z :=
  filter (fun n => if in_dec Z.eq_dec n L then false else true) (nodes g).

(* decomposition of a count over the node list into the part inside L and the part outside *)
Lemma cnt_filter_split g (f : Z -> bool) N x :
  cnt g N x = cnt g (filter f N) x + cnt g (filter (fun n => negb (f n)) N) x.
Proof. induction N as [|a N IH]; simpl; [lia|]. destruct (f a); simpl; lia. Qed.

Definition inb (L : list Z) (n : Z) : bool := if in_dec Z.eq_dec n L then true else false.

Lemma split_cnt g L x : NoDup (nodes g) -> NoDup L -> incl L (nodes g) ->
  cnt g (nodes g) x = cnt g L x + cnt g (filter (fun n => negb (inb L n)) (nodes g)) x.
Proof.
  intros Hn HL Hi. rewrite (cnt_filter_split g (inb L) (nodes g) x). f_equal.
  apply cnt_perm. apply NoDup_Permutation; auto.
  - apply NoDup_filter; auto.
  - intros a. rewrite filter_In. unfold inb. destruct (in_dec Z.eq_dec a L); split; intros; try tauto.
    + split; auto.
    + destruct H; discriminate.
Qed.

(* ---------- the loop invariant ---------- *)
Definition ordered (g : graph) (L : list Z) : Prop :=
  forall L1 b L2, L = L1 ++ b :: L2 -> forall a, edge g a b -> In a L1.

Record Inv (g : graph) (ins : Z -> Z) (S L : list Z) : Prop := {
  inv_nodup : NoDup (L ++ S);
  inv_incl : incl (L ++ S) (nodes g);
  inv_ins : forall x, ins x = indeg g x - cnt g L x;
  inv_zero : forall m, In m (nodes g) -> (ins m = 0 <-> In m (L ++ S));
  inv_ord : ordered g L
}.

Section Step.
Variable g : graph.
Hypothesis Hwf : wf g.

(* all predecessors of a node with remaining in-degree 0 are in L *)
Lemma zero_preds ins L x : NoDup L -> incl L (nodes g) ->
  (forall y, ins y = indeg g y - cnt g L y) -> ins x = 0 ->
  forall a, edge g a x -> In a L.
Proof.
  intros HL Hi Hins H0 a [Ha Hx].
  rewrite Hins, (indeg_cnt g x Hwf), (split_cnt g L x (wf_nodup g Hwf) HL Hi) in H0.
  destruct (in_dec Z.eq_dec a L) as [|Hn]; auto. exfalso.
  assert (Hc : cnt g (filter (fun n => negb (inb L n)) (nodes g)) x = 0) by lia.
  apply (cnt_zero g _ x Hc a); auto.
  apply filter_In. split; auto. unfold inb. destruct (in_dec Z.eq_dec a L); auto.
Qed.

(* a node with positive remaining in-degree has a predecessor outside L *)
Lemma pos_pred ins L x : NoDup L -> incl L (nodes g) ->
  (forall y, ins y = indeg g y - cnt g L y) -> ins x <> 0 ->
  exists a, edge g a x /\ ~ In a L.
Proof.
  intros HL Hi Hins H0.
  rewrite Hins, (indeg_cnt g x Hwf), (split_cnt g L x (wf_nodup g Hwf) HL Hi) in H0.
  destruct (cnt_pos g (filter (fun n => negb (inb L n)) (nodes g)) x ltac:(lia)) as (a & Ha & Hx).
  apply filter_In in Ha. destruct Ha as [Ha Hb]. exists a. split; [split; auto|].
  unfold inb in Hb. destruct (in_dec Z.eq_dec a L); [discriminate|auto].
Qed.

Lemma NoDup_app_l (a b : list Z) : NoDup (a ++ b) -> NoDup a.
Proof.
  induction a as [|x a IH]; simpl; intros H; [constructor|].
  inversion H; subst. constructor; auto. intros Hin. apply H2. apply in_or_app. auto.
Qed.

Lemma NoDup_app_intro (a b : list Z) :
  NoDup a -> NoDup b -> (forall x, In x a -> ~ In x b) -> NoDup (a ++ b).
Proof.
  induction a as [|x a IH]; simpl; intros Ha Hb Hd; auto.
  inversion Ha; subst. constructor.
  - intros Hin. apply in_app_or in Hin. destruct Hin; [tauto|]. apply (Hd x); auto.
  - apply IH; auto.
Qed.

Lemma step ins n S L :
  Inv g ins (n :: S) L ->
  Inv g (fst (relax ins S (children g n))) (snd (relax ins S (children g n))) (L ++ [n]).
Proof.
  intros [Hnd Hincl Hins Hzero Hord].
  destruct (relax_spec (children g n) ins S (wf_children_nodup g Hwf n)) as [Hf Hs].
  rewrite Hs. set (New := filter (fun m => ins m =? 1) (children g n)).
  assert (HnN : In n (nodes g)) by (apply Hincl; apply in_or_app; right; left; reflexivity).
  assert (HLnd : NoDup L) by (apply NoDup_app_l in Hnd; auto).
  assert (HLin : incl L (nodes g)) by (intros a Ha; apply Hincl; apply in_or_app; auto).
  assert (Hn0 : ins n = 0) by (apply Hzero; auto; apply in_or_app; right; left; reflexivity).
  assert (HnL : ~ In n L).
  { intros H. apply NoDup_remove_2 in Hnd. apply Hnd. apply in_or_app. auto. }
  assert (HNew : forall m, In m New -> In m (children g n) /\ ins m = 1 /\ In m (nodes g)).
  { intros m Hm. apply filter_In in Hm. destruct Hm as [Hc H1]. apply Z.eqb_eq in H1.
    repeat split; auto. apply (wf_closed g Hwf n m). split; auto. }
  assert (Heq : (L ++ [n]) ++ S ++ New = (L ++ n :: S) ++ New).
  { rewrite <- !app_assoc. reflexivity. }
  assert (Hchild0 : forall m, In m (children g n) -> ins m = 0 -> False).
  { intros m Hm H0. apply HnL. apply (zero_preds ins L m HLnd HLin Hins H0 n). split; auto. }
  constructor.
  - rewrite Heq. apply NoDup_app_intro; auto.
    + apply NoDup_filter. apply (wf_children_nodup g Hwf).
    + intros x Hx HxN. destruct (HNew x HxN) as (_ & H1 & HxNodes).
      assert (ins x = 0) by (apply Hzero; auto). lia.
  - rewrite Heq. intros x Hx. apply in_app_or in Hx. destruct Hx as [Hx|Hx]; auto.
    apply (HNew x Hx).
  - intros x. rewrite Hf, Hins, cnt_app. simpl. lia.
  - intros m Hm. rewrite Hf, Heq. split.
    + intros H0. unfold occ in H0. destruct (in_dec Z.eq_dec m (children g n)) as [Hc|Hc].
      * apply in_or_app. right. apply filter_In. split; auto. apply Z.eqb_eq. lia.
      * apply in_or_app. left. apply Hzero; auto. lia.
    + intros Hin. apply in_app_or in Hin. destruct Hin as [Hin|Hin].
      * assert (H0 : ins m = 0) by (apply Hzero; auto).
        unfold occ. destruct (in_dec Z.eq_dec m (children g n)) as [Hc|Hc]; [|lia].
        exfalso. apply (Hchild0 m Hc H0).
      * destruct (HNew m Hin) as (Hc & H1 & _). unfold occ.
        destruct (in_dec Z.eq_dec m (children g n)); [lia|tauto].
  - (* order *)
    intros L1 b L2 E a Hab.
    destruct L2 as [|x L2'] using rev_ind.
    + (* b is the node just emitted *)
      apply app_inj_tail in E. destruct E as [-> <-].
      apply (zero_preds ins L1 n HLnd HLin Hins Hn0 a Hab).
    + rewrite app_comm_cons, app_assoc in E. apply app_inj_tail in E. destruct E as [E _].
      apply (Hord L1 b L2' E a Hab).
Qed.
End Step.

(* ---------- the loop ---------- *)
Section Loop.
Variable g : graph.
Hypothesis Hwf : wf g.

Lemma kahn_inv : forall fuel ins S L,
  Inv g ins S L -> (length (nodes g) < length L + fuel)%nat ->
  Inv g (fst (kahn fuel g ins S L)) [] (snd (kahn fuel g ins S L)).
Proof.
  induction fuel as [|fuel IH]; intros ins S L HI Hf.
  - destruct S as [|n S'].
    + simpl. exact HI.
    + exfalso. destruct HI as [Hnd Hincl _ _ _].
      pose proof (NoDup_incl_length Hnd Hincl) as Hl. rewrite app_length in Hl. simpl in Hl. lia.
  - destruct S as [|n S'].
    + simpl. exact HI.
    + cbn [kahn]. pose proof (step g Hwf ins n S' L HI) as HI'.
      destruct (relax ins S' (children g n)) as [ins' S''] eqn:ER. cbn [fst snd] in HI'.
      apply IH; auto. rewrite app_length. simpl. lia.
Qed.

Lemma insert_sorted_perm x l : Permutation (insert_sorted x l) (x :: l).
Proof.
  induction l as [|y r IH]; simpl; auto. destruct (x <=? y); auto.
  rewrite IH. apply perm_swap.
Qed.
Lemma sortZ_perm l : Permutation (sortZ l) l.
Proof. induction l as [|x l IH]; simpl; auto. rewrite insert_sorted_perm. auto. Qed.

Lemma init_inv :
  Inv g (indeg g) (sortZ (filter (fun n => indeg g n =? 0) (nodes g))) [].
Proof.
  set (S0 := filter (fun n => indeg g n =? 0) (nodes g)).
  assert (HP : Permutation (sortZ S0) S0) by apply sortZ_perm.
  constructor; simpl.
  - apply (Permutation_NoDup (Permutation_sym HP)). apply NoDup_filter. apply (wf_nodup g Hwf).
  - intros x Hx. apply (Permutation_in _ HP) in Hx. apply filter_In in Hx. tauto.
  - intros x. lia.
  - intros m Hm. split.
    + intros H0. apply (Permutation_in _ (Permutation_sym HP)). apply filter_In. split; auto. apply Z.eqb_eq; auto.
    + intros Hin. apply (Permutation_in _ HP) in Hin. apply filter_In in Hin. apply Z.eqb_eq. tauto.
  - intros L1 b L2 E. destruct L1; discriminate.
Qed.

Definition final := kahn (Datatypes.S (length g)) g (indeg g)
                         (sortZ (filter (fun n => indeg g n =? 0) (nodes g))) [].

Lemma final_inv : Inv g (fst final) [] (snd final).
Proof.
  apply kahn_inv; [apply init_inv|]. simpl. unfold nodes. rewrite map_length. lia.
Qed.

Lemma toposort_unfold : toposort g = (snd final, forallb (fun n => fst final n =? 0) (nodes g)).
Proof. unfold toposort, final. destruct (kahn _ _ _ _ _). reflexivity. Qed.

Theorem toposort_sound L : toposort g = (L, true) ->
  Permutation L (nodes g) /\ ordered g L.
Proof.
  rewrite toposort_unfold. intros E. inversion E as [[EL Eb]]. clear E.
  pose proof final_inv as [Hnd Hincl Hins Hzero Hord]. rewrite app_nil_r in *.
  split; auto. apply NoDup_Permutation; auto; [apply (wf_nodup g Hwf)|].
  intros x. split; auto. intros Hx. apply Hzero; auto.
  rewrite forallb_forall in Eb. apply Z.eqb_eq. apply Eb; auto.
Qed.

(* ---------- completeness ---------- *)
Inductive path : Z -> Z -> Prop :=
| path_one : forall a b, edge g a b -> path a b
| path_cons : forall a b c, edge g a b -> path b c -> path a c.

Definition acyclic : Prop := forall n, ~ path n n.

Lemma path_src a b : path a b -> In a (nodes g).
Proof. intros H. destruct H as [? ? [H _]|? ? ? [H _] _]; exact H. Qed.

(* a list in which every element has an edge to its successor *)
Fixpoint chain (l : list Z) : Prop :=
  match l with
  | a :: ((b :: _) as r) => edge g a b /\ chain r
  | _ => True
  end.

Lemma chain_app_path : forall l a b, chain (a :: l ++ [b]) -> path a b.
Proof.
  induction l as [|x l IH]; intros a b H.
  - simpl in H. apply path_one. tauto.
  - change (edge g a x /\ chain (x :: l ++ [b])) in H. destruct H as [H1 H2].
    apply (path_cons a x b); [exact H1|apply IH; exact H2].
Qed.

Lemma chain_app_r l1 l2 : chain (l1 ++ l2) -> chain l2.
Proof.
  induction l1 as [|a l1 IH]; simpl; auto. intros H.
  destruct (l1 ++ l2) eqn:E; [destruct l1; simpl in E; subst; simpl; auto; discriminate|].
  apply IH. tauto.
Qed.

Lemma chain_app_l l1 l2 : chain (l1 ++ l2) -> chain l1.
Proof.
  induction l1 as [|a l1 IH]; simpl; auto. intros H.
  destruct l1 as [|b l1']; simpl in *; auto. split; [tauto|]. apply IH. tauto.
Qed.

(* every non-NoDup list has a repeated element *)
Lemma dup_split (l : list Z) : ~ NoDup l -> exists x l1 l2 l3, l = l1 ++ x :: l2 ++ x :: l3.
Proof.
  induction l as [|a l IH]; intros H.
  - exfalso. apply H. constructor.
  - destruct (in_dec Z.eq_dec a l) as [Hin|Hni].
    + apply in_split in Hin. destruct Hin as (l2 & l3 & ->). exists a, [], l2, l3. reflexivity.
    + destruct IH as (x & l1 & l2 & l3 & ->).
      * intros Hnd. apply H. constructor; auto.
      * exists x, (a :: l1), l2, l3. reflexivity.
Qed.

Theorem toposort_complete : acyclic -> snd (toposort g) = true.
Proof.
  intros Hac. rewrite toposort_unfold. cbn [snd].
  pose proof final_inv as [Hnd Hincl Hins Hzero Hord]. rewrite app_nil_r in *.
  set (L := snd final) in *. set (ins := fst final) in *.
  apply forallb_forall. intros u Hu. apply Z.eqb_eq.
  destruct (Z.eq_dec (ins u) 0) as [|Hne]; auto. exfalso.
  (* U = nodes outside L; every element of U has a predecessor in U *)
  assert (Hstep : forall x, In x (nodes g) -> ~ In x L -> exists a, In a (nodes g) /\ ~ In a L /\ edge g a x).
  { intros x Hx HxL. assert (ins x <> 0) by (intros E0; apply HxL; apply Hzero; auto).
    destruct (pos_pred g Hwf ins L x Hnd Hincl Hins H) as (a & Hab & HaL).
    exists a. destruct Hab as [Ha Hx']. split; [exact Ha|split; [exact HaL|split; assumption]]. }
  assert (HuL : ~ In u L) by (intros HinL; apply Hne; apply Hzero; auto).
  (* arbitrarily long backward chains ending in u *)
  assert (Hchain : forall k, exists l, length l = Datatypes.S k /\ chain l /\
            (forall x, In x l -> In x (nodes g) /\ ~ In x L)).
  { induction k as [|k IHk].
    - exists [u]. split; [reflexivity|split; [exact I|]]. intros x Hx. destruct Hx as [<-|[]]. split; assumption.
    - destruct IHk as (l & Hlen & Hch & Hall). destruct l as [|h l']; [discriminate|].
      destruct (Hall h (or_introl eq_refl)) as [Hh HhL].
      destruct (Hstep h Hh HhL) as (a & Ha & HaL & Hah).
      exists (a :: h :: l'). split; [simpl in *; lia|split; [split; assumption|]].
      intros x Hx. destruct Hx as [<-|Hx]; [split; assumption|apply Hall; exact Hx]. }
  destruct (Hchain (length (nodes g))) as (l & Hlen & Hch & Hall).
  assert (Hnnd : ~ NoDup l).
  { intros Hndl. assert (incl l (nodes g)) by (intros x Hx; apply Hall; auto).
    pose proof (NoDup_incl_length Hndl H). lia. }
  destruct (dup_split l Hnnd) as (x & l1 & l2 & l3 & ->).
  apply chain_app_r in Hch.
  replace (x :: l2 ++ x :: l3) with ((x :: l2 ++ [x]) ++ l3) in Hch
    by (simpl; rewrite <- app_assoc; reflexivity).
  apply chain_app_l in Hch. apply (Hac x). apply (chain_app_path l2 x x Hch).
Qed.

(* and the converse: a successful sort implies acyclicity *)
Theorem toposort_true_acyclic L : toposort g = (L, true) -> acyclic.
Proof.
  intros E. destruct (toposort_sound L E) as [HP Hord].
  assert (HLnd : NoDup L) by (apply (Permutation_NoDup (Permutation_sym HP)); apply (wf_nodup g Hwf)).
  (* position argument: along a path the index in L strictly increases *)
  assert (Hidx : forall a b, path a b -> forall L1 L2, L = L1 ++ b :: L2 -> In a L1).
  { induction 1 as [a b Hab|a b c Hab Hbc IH]; intros L1 L2 EL.
    - apply (Hord L1 b L2 EL a Hab).
    - specialize (IH L1 L2 EL). apply in_split in IH. destruct IH as (M1 & M2 & ->).
      rewrite <- app_assoc in EL. simpl in EL.
      pose proof (Hord M1 b (M2 ++ c :: L2) EL a Hab). apply in_or_app. auto. }
  intros n Hp.
  assert (In n L).
  { apply (Permutation_in _ (Permutation_sym HP)). apply (path_src n n Hp). }
  apply in_split in H. destruct H as (L1 & L2 & EL).
  pose proof (Hidx n n Hp L1 L2 EL) as Hin. rewrite EL in HLnd.
  apply NoDup_remove_2 in HLnd. apply HLnd. apply in_or_app. auto.
Qed.
End Loop.

Print Assumptions toposort_sound.
Print Assumptions toposort_complete.
Print Assumptions toposort_true_acyclic.
