(* C10, the unchained case and the error branches of resolve: from the C15 theorems on Toposort/Model.v
   (state_sort_sound / state_sort_total / state_sort_cyclic) and the shape of the bipartite item/entity graph. *)
From Coq Require Import List ZArith Lia Bool Permutation.
From Herc Require Import Toposort.Model Toposort.Assoc Toposort.Paths Toposort.Refine Toposort.Reach Toposort.Main.
From Herc Require Import Pipeline.Resolve Pipeline.CheckerProofs Pipeline.GraphProofs.
Import ListNotations.
Open Scope Z_scope.

(* ---------- sorting and naming the items ---------- *)
Lemma insert_item_perm x l : Permutation (insert_item x l) (x :: l).
Proof.
  induction l as [|y r IH]; cbn [insert_item]; [apply Permutation_refl|].
  destruct (iname x <=? iname y); [apply Permutation_refl|].
  eapply Permutation_trans; [apply perm_skip; exact IH|apply perm_swap].
Qed.

Lemma sort_items_perm l : Permutation (sort_items l) l.
Proof.
  induction l as [|x r IH]; cbn [sort_items fold_right]; [constructor|].
  eapply Permutation_trans; [apply insert_item_perm|]. apply perm_skip. exact IH.
Qed.

Lemma assign_names_snd dis all : forall l seen, map snd (assign_names dis all seen l) = l.
Proof. induction l as [|it r IH]; intros seen; cbn [assign_names map snd]; [reflexivity|]. rewrite IH. reflexivity. Qed.

Lemma named_items_snd dis items : map snd (named_items dis items) = sort_items items.
Proof. unfold named_items. apply assign_names_snd. Qed.

Lemma named_items_perm dis items : Permutation (map snd (named_items dis items)) items.
Proof. rewrite named_items_snd. apply sort_items_perm. Qed.

Lemma named_item_in dis items ni : In ni (named_items dis items) -> In (snd ni) items.
Proof.
  intros H. apply (Permutation_in _ (named_items_perm dis items)). apply in_map. exact H.
Qed.

Lemma in_item_named dis items c : In c items -> exists nc, In (nc, c) (named_items dis items).
Proof.
  intros H. apply (Permutation_in _ (Permutation_sym (named_items_perm dis items))) in H.
  apply in_map_iff in H. destruct H as ([nc c'] & E & H). cbn [snd] in E. subst. eauto.
Qed.

(* ---------- the domain ---------- *)
Record domain (dis : Z -> Z -> Z) (items : list item) : Prop := {
  dom_names : NoDup (map fst (named_items dis items));
  dom_disj : forall n e, In n (map fst (named_items dis items)) -> In e (entities items) -> n <> e;
  dom_prov : forall it, In it items -> NoDup (iprov it);
  dom_req : forall it, In it items -> NoDup (ireq it)
}.

Lemma domain_okb_spec dis items : domain_okb dis items = true -> domain dis items.
Proof.
  unfold domain_okb, names_okb, lists_okb. intros H.
  apply andb_prop in H. destruct H as [H Hl]. apply andb_prop in H. destruct H as [Hn Hd].
  rewrite forallb_forall in Hd, Hl. split.
  - apply nodupb_spec. exact Hn.
  - intros n e Hin He ->. specialize (Hd e Hin). apply negb_true_iff in Hd.
    apply existsb_eqb_In in He. congruence.
  - intros it Hit. specialize (Hl it Hit). apply andb_prop in Hl. apply nodupb_spec. apply Hl.
  - intros it Hit. specialize (Hl it Hit). apply andb_prop in Hl. apply nodupb_spec. apply Hl.
Qed.

Lemma in_entities_prov items it e : In it items -> In e (iprov it) -> In e (entities items).
Proof. intros H1 H2. unfold entities. apply in_flat_map. exists it. split; [exact H1|]. apply in_or_app. auto. Qed.

Lemma in_entities_req items it e : In it items -> In e (ireq it) -> In e (entities items).
Proof. intros H1 H2. unfold entities. apply in_flat_map. exists it. split; [exact H1|]. apply in_or_app. auto. Qed.

Lemma NoDup_app_intro {A} (a b : list A) : NoDup a -> NoDup b -> (forall x, In x a -> ~ In x b) -> NoDup (a ++ b).
Proof.
  induction a as [|x a IH]; intros Ha Hb Hd; cbn [app]; [exact Hb|]. inversion Ha; subst. constructor.
  - intros Hin. apply in_app_or in Hin. destruct Hin as [Hin|Hin]; [contradiction|]. apply (Hd x); [left; reflexivity|exact Hin].
  - apply IH; [assumption|assumption|]. intros y Hy. apply Hd. right. exact Hy.
Qed.

(* no entity has two providers *)
Definition one_provider (items : list item) : Prop := forall e, (length (providers items e) <= 1)%nat.

Lemma max_providers_ge items e : In e (entities items) -> (length (providers items e) <= max_providers items)%nat.
Proof.
  unfold max_providers. induction (entities items) as [|x l IH]; intros H; [destruct H|]. cbn [fold_right].
  destruct H as [->|H]; [apply Nat.le_max_l|]. eapply Nat.le_trans; [apply IH; exact H|apply Nat.le_max_r].
Qed.

Lemma max_providers_one items : (max_providers items <= 1)%nat -> one_provider items.
Proof.
  intros H e. destruct (in_dec Z.eq_dec e (entities items)) as [Hin|Hni].
  - eapply Nat.le_trans; [apply max_providers_ge; exact Hin|exact H].
  - unfold providers. destruct (filter (fun p => providesb p e) items) as [|q l] eqn:E; [cbn; lia|]. exfalso.
    assert (Hq : In q (filter (fun p => providesb p e) items)) by (rewrite E; left; reflexivity).
    apply filter_In in Hq. destruct Hq as [Hq Hp]. apply Hni. eapply in_entities_prov; [exact Hq|apply providesb_In; exact Hp].
Qed.

Lemma providers_perm l l' e : Permutation l l' -> length (providers l e) = length (providers l' e).
Proof.
  intros H. unfold providers. induction H; cbn [filter]; try lia.
  - destruct (providesb x e); cbn [length]; lia.
  - destruct (providesb x e), (providesb y e); cbn [length]; lia.
Qed.

Lemma one_provider_nodup : forall l, (forall it, In it l -> NoDup (iprov it)) ->
  (forall e, (length (providers l e) <= 1)%nat) -> NoDup (flat_map iprov l).
Proof.
  induction l as [|it r IH]; intros Hnd H1; cbn [flat_map]; [constructor|].
  assert (Hr : NoDup (flat_map iprov r)).
  { apply IH; [intros; apply Hnd; right; assumption|]. intros e. specialize (H1 e). unfold providers in *. cbn [filter] in H1.
    destruct (providesb it e); cbn [length] in H1; lia. }
  assert (Hd : forall e, In e (iprov it) -> ~ In e (flat_map iprov r)).
  { intros e He Hin. apply in_flat_map in Hin. destruct Hin as (q & Hq & Hqe).
    specialize (H1 e). unfold providers in H1. cbn [filter] in H1.
    rewrite (proj2 (providesb_In it e) He) in H1. cbn [length] in H1.
    assert (In q (filter (fun p => providesb p e) r)) as Hf by (apply filter_In; split; [exact Hq|apply providesb_In; exact Hqe]).
    destruct (filter (fun p => providesb p e) r); [destruct Hf|cbn [length] in H1; lia]. }
  apply NoDup_app_intro; [apply Hnd; left; reflexivity|exact Hr|exact Hd].
Qed.

Lemma provided_of_flat (l : named) : provided_of l = flat_map iprov (map snd l).
Proof. unfold provided_of. induction l as [|ni r IH]; cbn [flat_map map]; [reflexivity|]. rewrite IH. reflexivity. Qed.

(* ---------- name -> item table ---------- *)
Lemma n2i_other : forall (l : named) acc x, ~ In x (map fst l) -> aget (n2i_of l acc) x = aget acc x.
Proof.
  induction l as [|[k v] r IH]; intros acc x H; cbn [n2i_of fold_left]; [reflexivity|].
  fold (n2i_of r (aset acc k v)). cbn [map fst] in H. rewrite IH by (intros Hx; apply H; right; exact Hx). cbn [fst snd].
  apply aget_aset_other. intros ->. apply H. left. reflexivity.
Qed.

Lemma n2i_in : forall (l : named) acc x it, NoDup (map fst l) -> In (x, it) l -> aget (n2i_of l acc) x = Some it.
Proof.
  induction l as [|[k v] r IH]; intros acc x it Hnd Hin; [destruct Hin|].
  cbn [n2i_of fold_left]. fold (n2i_of r (aset acc k v)). cbn [map fst] in Hnd. inversion Hnd; subst.
  destruct Hin as [E|Hin].
  - injection E as -> ->. rewrite n2i_other by assumption. cbn [fst snd]. apply aget_aset_same.
  - apply IH; assumption.
Qed.

Lemma n2i_some (l : named) x it : NoDup (map fst l) -> aget (n2i_of l []) x = Some it -> In (x, it) l.
Proof.
  intros Hnd H. destruct (in_dec Z.eq_dec x (map fst l)) as [Hin|Hni].
  - apply in_map_iff in Hin. destruct Hin as ([k v] & E & Hin). cbn [fst] in E. subst k.
    rewrite (n2i_in l [] x v Hnd Hin) in H. injection H as <-. exact Hin.
  - rewrite n2i_other in H by exact Hni. discriminate.
Qed.

(* ---------- filter_items ---------- *)
Lemma filter_items_app n a b : filter_items n (a ++ b) = filter_items n a ++ filter_items n b.
Proof.
  induction a as [|x a IH]; cbn [app filter_items]; [reflexivity|].
  destruct (aget n x); rewrite IH; reflexivity.
Qed.

Lemma filter_items_perm n L L' : Permutation L L' -> Permutation (filter_items n L) (filter_items n L').
Proof.
  induction 1; cbn [filter_items].
  - constructor.
  - destruct (aget n x); [apply perm_skip|]; assumption.
  - destruct (aget n x), (aget n y); try apply Permutation_refl. apply perm_swap.
  - eapply Permutation_trans; eassumption.
Qed.

Lemma filter_items_split n : forall L l1 c l3, filter_items n L = l1 ++ c :: l3 ->
  exists L1 x L3, L = L1 ++ x :: L3 /\ aget n x = Some c /\ filter_items n L1 = l1 /\ filter_items n L3 = l3.
Proof.
  induction L as [|y L IH]; intros l1 c l3 H; cbn [filter_items] in H.
  - destruct l1; discriminate.
  - destruct (aget n y) as [it|] eqn:E.
    + destruct l1 as [|z l1]; cbn [app] in H.
      * injection H as -> H. exists [], y, L. cbn [filter_items app]. auto.
      * injection H as -> H. destruct (IH _ _ _ H) as (L1 & x & L3 & -> & Hx & H1 & H3).
        exists (y :: L1), x, L3. cbn [app filter_items]. rewrite E, H1. auto.
    + destruct (IH _ _ _ H) as (L1 & x & L3 & -> & Hx & H1 & H3).
      exists (y :: L1), x, L3. cbn [app filter_items]. rewrite E. auto.
Qed.

Lemma filter_items_in n : forall L x c, In x L -> aget n x = Some c -> In c (filter_items n L).
Proof.
  induction L as [|y L IH]; intros x c Hin Hx; [destruct Hin|]. cbn [filter_items].
  destruct Hin as [->|Hin]; [rewrite Hx; left; reflexivity|].
  destruct (aget n y); [right|]; eapply IH; eauto.
Qed.

Lemma filter_items_inv n : forall L c, In c (filter_items n L) -> exists x, In x L /\ aget n x = Some c.
Proof.
  induction L as [|y L IH]; intros c H; cbn [filter_items] in H; [destruct H|].
  destruct (aget n y) as [it|] eqn:E.
  - destruct H as [->|H]; [exists y; split; [left; reflexivity|exact E]|].
    destruct (IH _ H) as (x & Hx & Hc). exists x. split; [right; exact Hx|exact Hc].
  - destruct (IH _ H) as (x & Hx & Hc). exists x. split; [right; exact Hx|exact Hc].
Qed.

Lemma filter_items_names : forall (l : named) n, (forall ni, In ni l -> aget n (fst ni) = Some (snd ni)) ->
  filter_items n (map fst l) = map snd l.
Proof.
  induction l as [|ni r IH]; intros n H; cbn [map filter_items]; [reflexivity|].
  rewrite (H ni (or_introl eq_refl)), IH; [reflexivity|]. intros; apply H; right; assumption.
Qed.

Lemma filter_items_none n : forall P, (forall e, In e P -> aget n e = None) -> filter_items n P = [].
Proof.
  induction P as [|e P IH]; intros H; cbn [filter_items]; [reflexivity|].
  rewrite (H e (or_introl eq_refl)). apply IH. intros; apply H; right; assumption.
Qed.

(* ---------- positions in a duplicate-free list ---------- *)
Lemma NoDup_split_unique {A} (x : A) : forall l1 l2 l1' l2', NoDup (l1 ++ x :: l2) ->
  l1 ++ x :: l2 = l1' ++ x :: l2' -> l1 = l1' /\ l2 = l2'.
Proof.
  induction l1 as [|a l1 IH]; intros l2 l1' l2' Hnd E.
  - destruct l1' as [|b l1']; cbn [app] in *.
    + injection E as ->. auto.
    + injection E as <- E. exfalso. inversion Hnd; subst. apply H1. apply in_or_app. right. left. reflexivity.
  - destruct l1' as [|b l1']; cbn [app] in *.
    + injection E as -> E. exfalso. inversion Hnd; subst. apply H1. apply in_or_app. right. left. reflexivity.
    + injection E as <- E. inversion Hnd; subst. destruct (IH _ _ _ H2 E) as [-> ->]. auto.
Qed.

Lemma before_prefix L L1 x L3 a : NoDup L -> L = L1 ++ x :: L3 -> before a x L -> In a L1.
Proof.
  intros Hnd E (A & B & C & E'). subst L.
  assert (E2 : L1 ++ x :: L3 = (A ++ a :: B) ++ x :: C) by (rewrite E', <- app_assoc; reflexivity).
  destruct (NoDup_split_unique x _ _ _ _ Hnd E2) as [-> _]. apply in_or_app. right. left. reflexivity.
Qed.

(* ---------- the graph of an item set ---------- *)
Record graph_of (l : named) (s : st) : Prop := {
  go_wf : wfb s = true;
  go_nodes : forall x, is_node s x = memZ x (nodes1 l);
  go_edges : forall x y, has_edge s x y = E1 l x y || E2 l x y
}.

Lemma in_nodes1_name (l : named) ni : In ni l -> In (fst ni) (nodes1 l).
Proof. intros H. unfold nodes1. apply in_flat_map. exists ni. split; [exact H|left; reflexivity]. Qed.

Lemma in_nodes1_prov (l : named) ni e : In ni l -> In e (iprov (snd ni)) -> In e (nodes1 l).
Proof. intros H He. unfold nodes1. apply in_flat_map. exists ni. split; [exact H|right; exact He]. Qed.

Lemma in_nodes1_inv (l : named) x : In x (nodes1 l) -> In x (map fst l) \/ In x (provided_of l).
Proof.
  unfold nodes1, provided_of. intros H. apply in_flat_map in H. destruct H as (ni & Hni & [<-|H]).
  - left. apply in_map. exact Hni.
  - right. apply in_flat_map. eauto.
Qed.

Lemma E1_true (l : named) x y : E1 l x y = true <-> exists ni, In ni l /\ x = fst ni /\ In y (iprov (snd ni)).
Proof.
  unfold E1. rewrite existsb_exists. split; intros (ni & H1 & H2); exists ni; split; auto.
  - apply andb_prop in H2. destruct H2 as [A B]. apply Z.eqb_eq in A. apply memZ_In in B. auto.
  - destruct H2 as [-> B]. rewrite Z.eqb_refl. apply memZ_In. exact B.
Qed.

Lemma E2_true (l : named) x y : E2 l x y = true <-> exists ni, In ni l /\ y = fst ni /\ In x (ireq (snd ni)).
Proof.
  unfold E2. rewrite existsb_exists. split; intros (ni & H1 & H2); exists ni; split; auto.
  - apply andb_prop in H2. destruct H2 as [A B]. apply Z.eqb_eq in A. apply memZ_In in B. auto.
  - destruct H2 as [-> B]. rewrite Z.eqb_refl. apply memZ_In. exact B.
Qed.

Lemma has_edge_empty x y : has_edge empty x y = false.
Proof. reflexivity. Qed.
Lemma is_node_empty x : is_node empty x = false.
Proof. reflexivity. Qed.

Section Build.
  Variable ch : choices.
  Variable dis : Z -> Z -> Z.
  Variable items : list item.
  Hypothesis Hdom : domain dis items.
  Let nmd := named_items dis items.

  Lemma nmd_prov_nodup ni : In ni nmd -> NoDup (iprov (snd ni)).
  Proof. intros H. apply (dom_prov dis items Hdom). apply named_item_in with (dis := dis). exact H. Qed.

  Lemma nmd_req_nodup ni : In ni nmd -> NoDup (ireq (snd ni)).
  Proof. intros H. apply (dom_req dis items Hdom). apply named_item_in with (dis := dis). exact H. Qed.

  Lemma name_not_entity ni e : In ni nmd -> In e (entities items) -> fst ni <> e.
  Proof. intros H He. apply (dom_disj dis items Hdom); [apply in_map; exact H|exact He]. Qed.

  (* the second loop on the result of the first *)
  Lemma loop2_graph b s : items_loop1 ch nmd empty [] [] = Some b -> items_loop2 nmd (bg b) = Some s ->
    graph_of nmd s /\ bn2i b = n2i_of nmd [] /\
    (forall ni k, In ni nmd -> In k (ireq (snd ni)) -> exists pi, In pi nmd /\ In k (iprov (snd pi))).
  Proof.
    intros H1 H2.
    apply loop1_some in H1; [|reflexivity|exact nmd_prov_nodup|intros; apply has_edge_empty|exact (dom_names dis items Hdom)].
    destruct H1 as (Hw & Hn & He & Hi).
    assert (He1 : forall ni k, In ni nmd -> has_edge (bg b) k (fst ni) = false).
    { intros ni k Hni. rewrite He, has_edge_empty. cbn [orb]. destruct (E1 nmd k (fst ni)) eqn:E; [|reflexivity]. exfalso.
      apply E1_true in E. destruct E as (pi & Hpi & _ & Hin).
      apply (name_not_entity ni (fst ni) Hni); [|reflexivity].
      eapply in_entities_prov; [apply named_item_in with (dis := dis); exact Hpi|exact Hin]. }
    apply loop2_some in H2; [|exact Hw| |exact nmd_req_nodup| |exact (dom_names dis items Hdom)].
    - destruct H2 as (Hw2 & Hn2 & He2 & Hsat). split; [|split].
      + split; [exact Hw2| |].
        * intros x. rewrite Hn2, Hn, is_node_empty. reflexivity.
        * intros x y. rewrite He2, He, has_edge_empty. reflexivity.
      + exact Hi.
      + intros ni k Hni Hk. specialize (Hsat ni k Hni Hk). rewrite Hn, is_node_empty in Hsat. cbn [orb] in Hsat.
        apply memZ_In in Hsat. apply in_nodes1_inv in Hsat. destruct Hsat as [Hs|Hs].
        * exfalso. apply in_map_iff in Hs. destruct Hs as (qi & Eq & Hqi).
          apply (name_not_entity qi k Hqi); [|exact Eq].
          eapply in_entities_req; [apply named_item_in with (dis := dis); exact Hni|exact Hk].
        * unfold provided_of in Hs. apply in_flat_map in Hs. exact Hs.
    - intros ni Hni. rewrite Hn. apply orb_true_intro. right. apply memZ_In. apply in_nodes1_name. exact Hni.
    - intros ni k Hni _. apply He1. exact Hni.
  Qed.

  (* ---------- sorting the bipartite graph ---------- *)
  Lemma sorted_respects s L :
    graph_of nmd s ->
    (forall ni k, In ni nmd -> In k (ireq (snd ni)) -> exists pi, In pi nmd /\ In k (iprov (snd pi))) ->
    snd (toposort s) = SortOk L true ->
    respects_strict (filter_items (n2i_of nmd []) L) /\ Permutation (filter_items (n2i_of nmd []) L) items.
  Proof.
    intros [Hw Hn He] Hsat HL.
    destruct (state_sort_sound s Hw L HL) as [HP Hbef].
    pose proof (dom_names dis items Hdom) as Hnames. fold nmd in Hnames.
    assert (HndL : NoDup L).
    { apply (Permutation_NoDup (Permutation_sym HP)). apply (wf_outs_nodup [] s (proj1 (wfb_spec s) Hw)). }
    assert (Hedge1 : forall ni k, In ni nmd -> In k (iprov (snd ni)) -> has_edge s (fst ni) k = true).
    { intros ni k Hni Hk. rewrite He. apply orb_true_intro. left. apply E1_true. eauto. }
    assert (Hedge2 : forall ni k, In ni nmd -> In k (ireq (snd ni)) -> has_edge s k (fst ni) = true).
    { intros ni k Hni Hk. rewrite He. apply orb_true_intro. right. apply E2_true. eauto. }
    split.
    - intros l1 c l3 E e Hec.
      destruct (filter_items_split _ _ _ _ _ E) as (L1 & nc & L3 & EL & Hnc & <- & <-).
      apply n2i_some in Hnc; [|exact Hnames].
      pose proof (Hbef _ _ (Hedge2 (nc, c) e Hnc Hec)) as Be.
      destruct (Hsat (nc, c) e Hnc Hec) as ([np p] & Hp & Hpe). cbn [snd] in Hpe.
      split.
      + exists p. split; [|exact Hpe]. apply (filter_items_in _ _ np); [|apply n2i_in; assumption].
        pose proof (Hbef _ _ (Hedge1 (np, p) e Hp Hpe)) as Bp. cbn [fst] in Bp.
        (* np before e before nc *)
        pose proof (before_prefix L L1 nc L3 e HndL EL Be) as HeL1.
        apply in_split in HeL1. destruct HeL1 as (A & B & ->).
        assert (EL' : L = A ++ e :: (B ++ nc :: L3)) by (rewrite EL, <- app_assoc; reflexivity).
        pose proof (before_prefix L A e _ np HndL EL' Bp) as HpA. apply in_or_app. left. exact HpA.
      + intros q Hq Hqe.
        change (c :: filter_items (n2i_of nmd []) L3) with ([c] ++ filter_items (n2i_of nmd []) L3) in Hq.
        assert (Hq' : In q (filter_items (n2i_of nmd []) (nc :: L3))).
        { cbn [filter_items]. rewrite (n2i_in nmd [] nc c Hnames Hnc). exact Hq. }
        apply filter_items_inv in Hq'. destruct Hq' as (nq & Hnq & Hq').
        apply n2i_some in Hq'; [|exact Hnames].
        pose proof (Hbef _ _ (Hedge1 (nq, q) e Hq' Hqe)) as Bq. cbn [fst] in Bq.
        pose proof (before_prefix L L1 nc L3 e HndL EL Be) as HeL1.
        apply in_split in HeL1. destruct HeL1 as (A & B & ->).
        assert (EL' : L = A ++ e :: (B ++ nc :: L3)) by (rewrite EL, <- app_assoc; reflexivity).
        pose proof (before_prefix L A e _ nq HndL EL' Bq) as HqA.
        rewrite EL in HndL. rewrite <- app_assoc in HndL. cbn [app] in HndL.
        apply (NoDup_app_disj _ _ nq HndL HqA). right. apply in_or_app. right. exact Hnq.
    - (* nothing lost, nothing duplicated *)
      set (P := nodup Z.eq_dec (provided_of nmd)).
      assert (Hent : forall e, In e (provided_of nmd) -> In e (entities items)).
      { intros e H. unfold provided_of in H. apply in_flat_map in H. destruct H as (pi & Hpi & Hpe).
        eapply in_entities_prov; [apply named_item_in with (dis := dis); exact Hpi|exact Hpe]. }
      assert (Hdisj : forall x, In x (map fst nmd) -> ~ In x P).
      { intros x Hx HxP. apply nodup_In in HxP. apply in_map_iff in Hx. destruct Hx as (ni & <- & Hni).
        apply (name_not_entity ni (fst ni) Hni); [apply Hent; exact HxP|reflexivity]. }
      assert (HPL : Permutation L (map fst nmd ++ P)).
      { eapply Permutation_trans; [exact HP|]. apply NoDup_Permutation.
        - apply (wf_outs_nodup [] s (proj1 (wfb_spec s) Hw)).
        - apply NoDup_app_intro; [exact Hnames|apply NoDup_nodup|exact Hdisj].
        - intros x. rewrite <- is_node_spec, Hn, memZ_In. split.
          + intros H. apply in_nodes1_inv in H. apply in_or_app. destruct H as [H|H]; [left; exact H|right; apply nodup_In; exact H].
          + intros H. apply in_app_or in H. destruct H as [H|H].
            * apply in_map_iff in H. destruct H as (ni & <- & Hni). apply in_nodes1_name. exact Hni.
            * apply nodup_In in H. unfold provided_of in H. apply in_flat_map in H. destruct H as (pi & Hpi & Hpe).
              eapply in_nodes1_prov; eassumption. }
      eapply Permutation_trans; [apply filter_items_perm; exact HPL|].
      rewrite filter_items_app, filter_items_names, filter_items_none, app_nil_r.
      + apply named_items_perm.
      + intros e HeP. rewrite n2i_other; [reflexivity|]. intros Hx. exact (Hdisj e Hx HeP).
      + intros [nm it] Hni. cbn [fst snd]. apply n2i_in; assumption.
  Qed.

  (* ---------- what the second loop needs from the first ---------- *)
  Lemma loop1_facts b : items_loop1 ch nmd empty [] [] = Some b ->
    wfb (bg b) = true /\ (forall x, is_node (bg b) x = memZ x (nodes1 nmd)) /\
    (forall ni k, In ni nmd -> has_edge (bg b) k (fst ni) = false).
  Proof.
    intros H1.
    apply loop1_some in H1; [|reflexivity|exact nmd_prov_nodup|intros; apply has_edge_empty|exact (dom_names dis items Hdom)].
    destruct H1 as (Hw & Hn & He & Hi). split; [exact Hw|]. split.
    - intros x. rewrite Hn, is_node_empty. reflexivity.
    - intros ni k Hni. rewrite He, has_edge_empty. cbn [orb]. destruct (E1 nmd k (fst ni)) eqn:E; [|reflexivity]. exfalso.
      apply E1_true in E. destruct E as (pi & Hpi & _ & Hin).
      apply (name_not_entity ni (fst ni) Hni); [|reflexivity].
      eapply in_entities_prov; [apply named_item_in with (dis := dis); exact Hpi|exact Hin].
  Qed.

  Definition satisfied : Prop := forall c e, In c items -> In e (ireq c) -> exists p, In p items /\ In e (iprov p).
  Definition unsatisfied : Prop := exists c e, In c items /\ In e (ireq c) /\ forall p, In p items -> ~ In e (iprov p).

  (* a requirement without provider: "unsatisfied dependency" (unless "ambiguous graph" came first) *)
  Theorem resolve_unsatisfied : unsatisfied ->
    resolve ch dis items = Err Unsatisfied \/ resolve ch dis items = Err Ambiguous.
  Proof.
    intros (c & e & Hc & He & Hno). unfold resolve, build_graph. fold nmd.
    destruct (items_loop1 ch nmd empty [] []) as [b|] eqn:E1; [|right; reflexivity]. left.
    rewrite loop2_unsat; [reflexivity|].
    destruct (in_item_named dis items c Hc) as (nc & Hnc). fold nmd in Hnc.
    exists (nc, c), e. split; [exact Hnc|]. split; [exact He|].
    rewrite (loop1_nodes _ _ _ _ _ _ E1 e), is_node_empty. cbn [orb]. apply memZ_false. intros Hin.
    apply in_nodes1_inv in Hin. destruct Hin as [Hin|Hin].
    - apply in_map_iff in Hin. destruct Hin as (qi & Eq & Hqi).
      apply (name_not_entity qi e Hqi); [|exact Eq]. eapply in_entities_req; eassumption.
    - unfold provided_of in Hin. apply in_flat_map in Hin. destruct Hin as (pi & Hpi & Hpe).
      apply (Hno (snd pi)); [apply named_item_in with (dis := dis); exact Hpi|exact Hpe].
  Qed.

  Section One.
    Hypothesis Hone : one_provider items.

    Lemma build_unamb : exists b, items_loop1 ch nmd empty [] [] = Some b /\ bamb b = [].
    Proof.
      apply (loop1_unamb ch nmd empty [] []); [reflexivity| | |exact (dom_names dis items Hdom)].
      - intros x y H. rewrite has_edge_empty in H. discriminate.
      - cbn [app]. rewrite provided_of_flat. unfold nmd. rewrite named_items_snd. apply one_provider_nodup.
        + intros it Hit. apply (dom_prov dis items Hdom). apply (Permutation_in _ (sort_items_perm items)). exact Hit.
        + intros e. rewrite (providers_perm _ _ e (sort_items_perm items)). apply Hone.
    Qed.

    (* no entity has two providers: a successful resolve orders every item strictly after all providers
       of everything it requires, and returns a permutation of the deployed items *)
    Theorem resolve_unambiguous order : resolve ch dis items = Ok order ->
      respects_strict order /\ Permutation order items.
    Proof.
      unfold resolve, build_graph. fold nmd. destruct build_unamb as (b & Hb & Hamb). rewrite Hb.
      destruct (items_loop2 nmd (bg b)) as [s|] eqn:E2; [|discriminate].
      rewrite Hamb. cbn [chain].
      destruct (loop2_graph b s Hb E2) as (Hg & Hi & Hsat).
      destruct (snd (toposort s)) as [L ok| | |] eqn:ET; try discriminate.
      destruct ok; [|discriminate]. intros H. injection H as <-. rewrite Hi.
      apply (sorted_respects s L Hg Hsat ET).
    Qed.

    Theorem resolve_unsatisfied_one : unsatisfied -> resolve ch dis items = Err Unsatisfied.
    Proof.
      intros H. destruct (resolve_unsatisfied H) as [E|E]; [exact E|]. exfalso.
      unfold resolve, build_graph in E. fold nmd in E. destruct build_unamb as (b & Hb & Hamb). rewrite Hb in E.
      destruct (items_loop2 nmd (bg b)); [|discriminate]. rewrite Hamb in E. cbn [chain] in E.
      destruct (snd (toposort s)) as [L ok| | |]; try discriminate. destruct ok; discriminate.
    Qed.

    (* every requirement has a provider: the graph is built and it is the bipartite graph of the items *)
    Lemma build_satisfied : satisfied ->
      exists b s, items_loop1 ch nmd empty [] [] = Some b /\ bamb b = [] /\ items_loop2 nmd (bg b) = Some s /\
        graph_of nmd s /\ bn2i b = n2i_of nmd [].
    Proof.
      intros Hsat. destruct build_unamb as (b & Hb & Hamb). exists b.
      destruct (loop1_facts b Hb) as (Hw & Hn & He1).
      destruct (loop2_total nmd (bg b) Hw) as (s & E2).
      - intros ni Hni. rewrite Hn. apply memZ_In. apply in_nodes1_name. exact Hni.
      - exact nmd_req_nodup.
      - intros ni k Hni _. apply He1. exact Hni.
      - intros ni k Hni Hk. rewrite Hn. apply memZ_In.
        destruct (Hsat (snd ni) k (named_item_in dis items ni Hni) Hk) as (p & Hp & Hpe).
        destruct (in_item_named dis items p Hp) as (np & Hnp). fold nmd in Hnp.
        apply (in_nodes1_prov nmd (np, p) k Hnp Hpe).
      - exact (dom_names dis items Hdom).
      - exists s. destruct (loop2_graph b s Hb E2) as (Hg & Hi & _). auto.
    Qed.

    (* no error other than the cycle error, and no panic, when every requirement has a provider *)
    Theorem resolve_satisfied : satisfied ->
      (exists order, resolve ch dis items = Ok order) \/ resolve ch dis items = Err SortFailure.
    Proof.
      intros Hsat. destruct (build_satisfied Hsat) as (b & s & Hb & Hamb & E2 & Hg & Hi).
      unfold resolve, build_graph. fold nmd. rewrite Hb, E2, Hamb. cbn [chain].
      destruct (state_sort_total s (go_wf _ _ Hg)) as (L & ok & ET). rewrite ET.
      destruct ok; [left; eauto|right; reflexivity].
    Qed.

    (* derived entities are reachable in the graph *)
    Lemma spath_snoc s a b c : spath s a b -> has_edge s b c = true -> spath s a c.
    Proof.
      induction 1 as [a b Hab|a b c' Hab Hbc IH]; intros Hc.
      - eapply spath_cons; [exact Hab|]. apply spath_one. exact Hc.
      - eapply spath_cons; [exact Hab|]. apply IH. exact Hc.
    Qed.

    Lemma derived_path s nc c : graph_of nmd s -> In (nc, c) nmd ->
      forall e, derived items (iprov c) e -> spath s nc e.
    Proof.
      intros Hg Hc e Hd. induction Hd as [e He|x e e' Hx Hd IH Hex Hex'].
      - apply spath_one. rewrite (go_edges _ _ Hg). apply orb_true_intro. left. apply E1_true.
        exists (nc, c). auto.
      - destruct (in_item_named dis items x Hx) as (nx & Hnx). fold nmd in Hnx.
        apply (spath_snoc s nc nx e').
        + apply (spath_snoc s nc e nx IH). rewrite (go_edges _ _ Hg). apply orb_true_intro. right. apply E2_true.
          exists (nx, x). auto.
        + rewrite (go_edges _ _ Hg). apply orb_true_intro. left. apply E1_true. exists (nx, x). auto.
    Qed.

    (* cyclic requirements: "topological sort failure" *)
    Theorem resolve_cyclic : satisfied -> (exists c, In c items /\ feeds items c c) ->
      resolve ch dis items = Err SortFailure.
    Proof.
      intros Hsat (c & Hc & e & Hd & Hec). destruct (build_satisfied Hsat) as (b & s & Hb & Hamb & E2 & Hg & Hi).
      unfold resolve, build_graph. fold nmd. rewrite Hb, E2, Hamb. cbn [chain].
      destruct (in_item_named dis items c Hc) as (nc & Hnc). fold nmd in Hnc.
      destruct (state_sort_cyclic s (go_wf _ _ Hg)) as (L & ET).
      - intros Hac. apply (Hac nc). apply (spath_snoc s nc e nc).
        + apply (derived_path s nc c Hg Hnc e Hd).
        + rewrite (go_edges _ _ Hg). apply orb_true_intro. right. apply E2_true. exists (nc, c). auto.
      - rewrite ET. reflexivity.
    Qed.

    (* conversely: a cycle of the graph is a cycle of requirements *)
    Lemma named_fun a c c' : In (a, c) nmd -> In (a, c') nmd -> c = c'.
    Proof.
      intros H1 H2. pose proof (dom_names dis items Hdom) as Hnd. fold nmd in Hnd.
      pose proof (n2i_in nmd [] a c Hnd H1) as E1'. pose proof (n2i_in nmd [] a c' Hnd H2) as E2'. congruence.
    Qed.

    Lemma name_is_not_entity a c : In (a, c) nmd -> In a (entities items) -> False.
    Proof. intros H He. exact (name_not_entity (a, c) a H He eq_refl). Qed.

    Lemma derived_mono E0 E0' e : derived items E0 e -> (forall e0, In e0 E0 -> derived items E0' e0) -> derived items E0' e.
    Proof.
      intros Hd Hsub. induction Hd as [e He|x e e' Hx Hd IH Hex Hex']; [apply Hsub; exact He|].
      eapply d_step; eauto.
    Qed.

    Lemma edge_cases s a b : graph_of nmd s -> has_edge s a b = true ->
      (exists c, In (a, c) nmd /\ In b (iprov c)) \/ (exists x, In (b, x) nmd /\ In a (ireq x)).
    Proof.
      intros Hg H. rewrite (go_edges _ _ Hg) in H. apply orb_prop in H. destruct H as [H|H].
      - left. apply E1_true in H. destruct H as ([n c] & Hni & -> & Hb). eauto.
      - right. apply E2_true in H. destruct H as ([n x] & Hni & -> & Ha). eauto.
    Qed.

    Lemma path_feeds s : graph_of nmd s -> forall x y, spath s x y ->
      (forall c, In (x, c) nmd ->
         (forall p, In (y, p) nmd -> feeds items c p) /\ (In y (entities items) -> derived items (iprov c) y)) /\
      (In x (entities items) -> forall E0, In x E0 ->
         (forall p, In (y, p) nmd -> exists e, derived items E0 e /\ In e (ireq p)) /\
         (In y (entities items) -> derived items E0 y)).
    Proof.
      intros Hg x y Hp. induction Hp as [a b Hab|a b c' Hab Hbc IH].
      - destruct (edge_cases s a b Hg Hab) as [(c0 & Hc0 & Hb)|(x0 & Hx0 & Ha)]; split.
        + intros c Hc. rewrite (named_fun a c c0 Hc Hc0). split.
          * intros p Hp. exfalso. eapply (name_is_not_entity b p Hp). eapply in_entities_prov; [|exact Hb].
            apply named_item_in with (dis := dis) (ni := (a, c0)). exact Hc0.
          * intros _. apply d_base. exact Hb.
        + intros Hae. exfalso. exact (name_is_not_entity a c0 Hc0 Hae).
        + intros c Hc. exfalso. eapply (name_is_not_entity a c Hc). eapply in_entities_req; [|exact Ha].
          apply named_item_in with (dis := dis) (ni := (b, x0)). exact Hx0.
        + intros _ E0 HaE. split.
          * intros p Hp. rewrite (named_fun b p x0 Hp Hx0). exists a. split; [apply d_base; exact HaE|exact Ha].
          * intros Hbe. exfalso. exact (name_is_not_entity b x0 Hx0 Hbe).
      - destruct IH as [IH1 IH2].
        destruct (edge_cases s a b Hg Hab) as [(c0 & Hc0 & Hb)|(x0 & Hx0 & Ha)]; split.
        + intros c Hc. rewrite (named_fun a c c0 Hc Hc0).
          assert (Hbe : In b (entities items)).
          { eapply in_entities_prov; [|exact Hb]. apply named_item_in with (dis := dis) (ni := (a, c0)). exact Hc0. }
          destruct (IH2 Hbe (iprov c0) Hb) as [A B]. split; [|exact B].
          intros p Hp. exact (A p Hp).
        + intros Hae. exfalso. exact (name_is_not_entity a c0 Hc0 Hae).
        + intros c Hc. exfalso. eapply (name_is_not_entity a c Hc). eapply in_entities_req; [|exact Ha].
          apply named_item_in with (dis := dis) (ni := (b, x0)). exact Hx0.
        + intros _ E0 HaE. destruct (IH1 x0 Hx0) as [A B].
          assert (Hx0i : In x0 items) by (apply named_item_in with (dis := dis) (ni := (b, x0)); exact Hx0).
          assert (Hsub : forall e0, In e0 (iprov x0) -> derived items E0 e0).
          { intros e0 He0. eapply d_step; [exact Hx0i|apply d_base; exact HaE|exact Ha|exact He0]. }
          split.
          * intros p Hp. destruct (A p Hp) as (e & Hd & He). exists e. split; [|exact He].
            exact (derived_mono _ _ _ Hd Hsub).
          * intros Hce. exact (derived_mono _ _ _ (B Hce) Hsub).
    Qed.

    Lemma graph_acyclic s : graph_of nmd s -> (forall c, In c items -> ~ feeds items c c) -> acyclic s.
    Proof.
      intros Hg Hno n Hp.
      assert (Hname : forall a c, In (a, c) nmd -> spath s a a -> False).
      { intros a c Hc Haa. destruct (path_feeds s Hg a a Haa) as [A _]. destruct (A c Hc) as [F _].
        apply (Hno c); [apply named_item_in with (dis := dis) (ni := (a, c)); exact Hc|exact (F c Hc)]. }
      inversion Hp as [a b Hab|a b c' Hab Hbc]; subst.
      - destruct (edge_cases s n n Hg Hab) as [(c0 & Hc0 & Hb)|(x0 & Hx0 & Ha)]; eauto.
      - destruct (edge_cases s n b Hg Hab) as [(c0 & Hc0 & Hb)|(x0 & Hx0 & Ha)]; [eauto|].
        apply (Hname b x0 Hx0). exact (spath_snoc s b n b Hbc Hab).
    Qed.

    (* every requirement provided, no cyclic requirement: resolve succeeds *)
    Theorem resolve_acyclic : satisfied -> (forall c, In c items -> ~ feeds items c c) ->
      exists order, resolve ch dis items = Ok order.
    Proof.
      intros Hsat Hno. destruct (build_satisfied Hsat) as (b & s & Hb & Hamb & E2 & Hg & Hi).
      unfold resolve, build_graph. fold nmd. rewrite Hb, E2, Hamb. cbn [chain].
      destruct (state_sort_complete s (go_wf _ _ Hg) (graph_acyclic s Hg Hno)) as (L & ET). rewrite ET. eauto.
    Qed.
  End One.
End Build.

(* ---------- the forms restated in props/C10.v ---------- *)
Theorem unambiguous_main ch dis items order :
  domain_okb dis items = true -> (forall e, (length (providers items e) <= 1)%nat) ->
  resolve ch dis items = Ok order ->
  order_ok items order = true /\
  (forall l1 c l3, order = l1 ++ c :: l3 -> forall e, In e (ireq c) ->
     (exists p, In p l1 /\ In e (iprov p)) /\ (forall p, In p (c :: l3) -> ~ In e (iprov p))) /\
  Permutation order items.
Proof.
  intros Hd H1 H. apply domain_okb_spec in Hd. destruct (resolve_unambiguous ch dis items Hd H1 order H) as [A B].
  split; [apply strict_order_ok; assumption|]. split; [exact A|exact B].
Qed.

Theorem errors_main ch dis items : domain_okb dis items = true ->
  ((exists c e, In c items /\ In e (ireq c) /\ forall p, In p items -> ~ In e (iprov p)) ->
     resolve ch dis items = Err Unsatisfied \/ resolve ch dis items = Err Ambiguous) /\
  ((forall e, (length (providers items e) <= 1)%nat) ->
     ((exists c e, In c items /\ In e (ireq c) /\ forall p, In p items -> ~ In e (iprov p)) ->
        resolve ch dis items = Err Unsatisfied) /\
     ((forall c e, In c items -> In e (ireq c) -> exists p, In p items /\ In e (iprov p)) ->
        ((exists c, In c items /\ feeds items c c) -> resolve ch dis items = Err SortFailure) /\
        ((forall c, In c items -> ~ feeds items c c) -> exists order, resolve ch dis items = Ok order)) /\
     (forall order, resolve ch dis items = Ok order ->
        (forall l1 c l3, order = l1 ++ c :: l3 -> forall e, In e (ireq c) ->
           (exists p, In p l1 /\ In e (iprov p)) /\ (forall p, In p (c :: l3) -> ~ In e (iprov p))) /\
        Permutation order items)).
Proof.
  intros Hd. apply domain_okb_spec in Hd. split; [exact (resolve_unsatisfied ch dis items Hd)|].
  intros H1. split; [exact (resolve_unsatisfied_one ch dis items Hd H1)|]. split.
  - intros Hs. split; [exact (resolve_cyclic ch dis items Hd H1 Hs)|exact (resolve_acyclic ch dis items Hd H1 Hs)].
  - intros order H. exact (resolve_unambiguous ch dis items Hd H1 order H).
Qed.

Print Assumptions resolve_unambiguous.
Print Assumptions resolve_cyclic.
Print Assumptions resolve_acyclic.
Print Assumptions resolve_unsatisfied.
