CONFIG = dict(
        level='proof',
        streams=[dict(harness='c13', driver='c13', shrink_field='changes')],
        rule='TODO',
    )
