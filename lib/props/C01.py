CONFIG = dict(
        level='proof',
        streams=[dict(harness='c01', driver='c01', shrink_field='keep', timeout=7200)],
        rule='one case = one synthetic git history run through the real pipeline (TreeDiff, BlobCache, FileDiff, TicksSinceStart, '
             'IdentityDetector, BurndownAnalysis; hercules.NewPipeline/DeployItem/Initialize/Run) with granularity G >= sampling S >= 1 '
             '(S < G in a third of the cases), file / people tracking on or off, hibernation off or distance 1..3 (memory, disk, threshold). '
             'Kinds: conflict-free histories from the declarative generator of DESIGN.md appendix D (linear-cf, dag1 = random DAGs closed to a '
             'single head, dag1-addm = every merge adds lines, multi = several heads, shape-* = diamond, criss-cross, nested and chained '
             'merges, octopus, all commits in one tick, two roots), lin = linear histories with arbitrary edits (repeated lines, replacements, '
             'deletions, renames, binary flips, missing final newline), notext = only empty/binary files (F11). '
             'Strengthening families: opt / opt-octo = conflict-free histories of 8..57 commits with 1..4 root commits merged together, 1 / 2 / 50 authors '
             '(the author of a merge commit drawn like any other), octopus fans of 3..6 parents under hibernation distance 0..4, G and S from {1, 7, 30, 365}, '
             'ticks spanning 20..9 000 days (last tick forced to 16382 or to a value next to 7, 30, 365, 730, 4096, 8192 in a sixth), commit times inside a day '
             'equal or non-monotone; scale-dag / -octo / -roots / -wide / -linear = the same generator on 1 000 commits (thorough 10 000) with 80..180 merges '
             '(thorough about 1 000), up to 16 live branches, a 10^4-line file (thorough 10^5) edited at head and tail, matrices of hundreds to 1 800 rows, '
             'hibernation distance 0 / 1 / 2 / 3..4; linscale / linopt = linear arbitrary-edit histories in delta form, 1 000 steps (thorough 10 000) resp. 5..44 steps: '
             'files that become binary and text again, renames, deletions, a 10^4-line file of repeated lines, commit times going backwards (tick = running maximum). '
             'Large cases (field scale) are judged by the ground truth computed natively by the driver (difference arrays; the same definitions as Lifetimes.v / Linear.v), '
             'which every small case of the run checks against the extracted oracle; the analysis model is stepped on the opt family but not on the 10^3-commit cases. '
             'Non-trivial = at least 3 commits and (conflict-free kinds) at least one killed line; distinct = distinct '
             '(history, G, S, flags, hibernation setting).',
        exhaustive_note='',
        assumptions=[
            'C03 (tracker = array): internal/burndown.File behaves as the plain array of per-line values and reports per (current, previous) value '
            'the same sums as the array update arr_update of Burndown/Analysis.v',
            'C07 (file merge): File.Merge computes the per-line rule transcribed in Analysis.v merge_lines/resolve_marks',
            'C02 (run plan): the plan executed by Pipeline.Run passes plan_okb of Burndown/Replay.v (every commit replayed on exactly its '
            'ancestry); evaluated on the executed plan of every case by the driver, so it is also checked case by case',
            'C11/C20 (diff scripts, tree changes): on a conflict-free history (all lines distinct) the file diff between two versions deletes '
            'exactly the lines absent from the new version and inserts exactly those absent from the old one (canonical script '
            'Replay.v hunks); per case the resulting sparse histories of the model and of the implementation are compared',
            'C09 (hibernation transparent): Hibernate/Boot are the identity on the model; a quarter of the cases run with hibernation on',
            'C19 (ticks) and C16 (identities): the tick of a commit is its day offset from the first commit, the author index is the '
            'people-dictionary index; both are read from the generated history (ticks) and the recorded dictionary (authors)',
            'ticks < 16383 (TreeMergeMark) and at most 2^18 - 3 developers: the packed (author, tick) value of burndown.go is injective there',
        ],
        trusted_base=[
            'hand-written Gallina models coq/theories/Burndown/{Dense,Analysis,Replay}.v of leaves/burndown.go (groupSparseHistory, Consume, '
            'handleInsertion/Deletion/Modification, Merge, Fork, updaters, packPersonWithTick, Finalize) and of the part of '
            'core/pipeline.go Run that drives one item along a plan (incl. isMerge); tied to the code by replaying every case: '
            'sparse global/file/people histories, interaction matrix, dense matrices and final files of the root branch must be equal',
            'the declarative history model and ground truth coq/theories/Burndown/Lifetimes.v and Linear.v (extracted: the oracle)',
            'go-git in-memory repositories built by harness/synth (blobs "L<id>\\n" per line identity)',
            'large cases (10^3..10^4 commits, matrices of hundreds of rows, 10^3..10^4-step linear histories): conflict_free, single_head, last_event, truth_project/file/dev, lines_at_head, ownership and the '
            'linear row-sum law are evaluated by native OCaml code on arrays in the driver (the extracted oracle is cubic); on every small case both are computed and a difference is reported as a driver failure',
            'linear scale histories: the tick of a commit is computed by the harness as the running maximum of the day offset from the first commit (the formula of TicksSinceStart; property C19)',
        ],
        level_text='Proved in Coq (all closed under the global context): C01_dense (groupSparseHistory: every cell of the dense matrix = sum of '
                   'the sparse entries of samples <= s and band b, for every sparse history and sampling <, =, > granularity; the pre-fix row '
                   'allocation is refuted); the ground-truth oracle has no negative cell, every row sums to the lines alive at the sample and '
                   'the last row to the lines at HEAD; C01_linear (arbitrary edit scripts on a linear history: no negative cell, row sums = '
                   'tracked lines at the sample); for conflict-free histories executed along any validated plan (linear, forks, diamonds, '
                   'criss-cross, octopus): C01_global_sparse and C01_matrix (the dense project matrix equals the ground-truth matrix), '
                   'C01_files (the dense matrix of every file history, rows up to the project\'s last tick, equals the ground truth of the '
                   'lines of that path), C01_people (the same per developer: births of the commits he authored, deaths booked against the '
                   'line\'s author), C01_ownership (per developer the lines of the file alive at HEAD, single head), C01_finalize (all of it '
                   'for what Finalize returns; Finalize succeeds on the domain and returns exactly one per-file matrix / ownership table per '
                   'path with a line and one matrix per developer), and the corollaries (no negative cell, last row = lines at HEAD) for the '
                   'project, every file and every developer.',
        level_note='Closed (no axioms): C01_dense (+ refutation of the pre-fix row allocation); oracle facts; C01_linear; C01_global_sparse '
                   '(conflict-free history + any plan accepted by plan_okb, merges included: the sparse global history is births minus deaths '
                   'at the right (tick, birth tick), merge commits counted once); C01_matrix (the dense project matrix equals the ground-truth '
                   'matrix: rows, bands and every cell), C01_no_negative_cell, C01_last_row_is_head; C01_files_sparse / C01_people_sparse and '
                   'C01_files / C01_people (every per-file and per-developer matrix that Finalize produces equals truth_file / truth_dev: rows '
                   'to the project\'s last tick, bands, every cell; an empty developer history = zero ground truth), C01_ownership, '
                   'C01_master_holds_all, C01_finalize, C01_files/people_no_negative_cell, C01_files/people_last_row_is_head. '
                   'C01_files_cover / C01_finalize_cover / C01_finalize_succeeds (a path has a file matrix iff it has a line; Finalize '
                   'succeeds whenever the history has a line, i.e. outside F11). '
                   'NOT PROVED, evaluated per case: that the validated plan leaves every commit on the master branch of a single-head '
                   'history (master_all; the ownership clause and C01_finalize start from a branch that holds every commit). '
                   'The theorems are about the abstract analysis over arrays: the tracker, '
                   'File.Merge, the planner, tree/file diffs, hibernation, ticks and identities enter as the hypotheses listed under '
                   'assumptions (C03, C07, C02, C11/C20, C09, C19/C16); the model is tied to burndown.go by replay, not by proof. '
                   'conflict_free contains two redundant executable conjuncts (ticks monotone along ancestry, killer tick >= birth tick) '
                   'that are checked instead of derived. Known finding F11 (empty-history panic when no text line is ever analysed).',
        technique='machine-checked proof in Coq over a Gallina model of BurndownAnalysis + replay of the real pipeline on synthetic '
                  'repositories: every matrix cell against the extracted ground truth (PROPFAIL), sparse histories / dense result / final '
                  'files against the extracted model run along the executed plan (MISMATCH)',
    )
