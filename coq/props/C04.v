(* C04 - branch lifecycle incl. hibernation. *)
From Coq Require Import List ZArith Permutation.
From Coq Require Import Sorted.
From Herc Require Import Plan.Syntax Plan.Exec Plan.Graph Plan.Checker Plan.Spec Plan.GC Plan.Hibernate Plan.Lifecycle
  Plan.LifecycleProofs Plan.GCProofs Plan.HibernateProofs Plan.LifecyclePlain.
Import ListNotations.
Local Open Scope nat_scope.

(* The checker of full plans (what ./check C04 runs on every plan of the real planner, for every hibernation distance)
   implies: every action is executed in a state that allows it ([lifecycle_ok], see Lifecycle.v [step_ok]: creation only of
   absent branches, commit / fork source / merge participants / delete / hibernate only on live awake branches, merge
   participants distinct, boot only of hibernated branches), nothing is left hibernated, every merge joins live branches
   that analysed the same merge commit last, and with a single head the branch Run takes the results from (the smallest
   surviving index) has incorporated every analysed commit. *)
Theorem C04_checker_sound : forall (g : list (list nat)) (p : list action), c04_ok g p = true ->
  lifecycle_ok p /\
  nothing_hibernated (run init p) /\
  (forall p1 m p2, p = p1 ++ m :: p2 -> kind m = KMerge -> merge_ok g (run init p1) m) /\
  (single_head g (analysed p) ->
   exists b, master_of (run init p) b /\ forall c, replayed c p -> In c (inc_of (get (run init p) b))).
Proof. exact c04_checker_sound. Qed.
Print Assumptions C04_checker_sound.

Example C04_checker_accepts_hibernated_diamond :
  c04_ok [[]; [0]; [0]; [1; 2]]
    [emerge 1 (Some 0); commit_on 0 1; mkA KFork (Some 0) [1%Z; 2%Z]; mkA KHibernate (Some 0) [2%Z]; commit_on 1 1;
     mkA KBoot (Some 2) [2%Z]; commit_on 2 2;
     commit_on 3 1; commit_on 3 2; merge_of [1%Z; 2%Z]; delete 2] = true.
Proof. vm_compute. reflexivity. Qed.

(* using a hibernated branch, and a delete before the last use, are rejected *)
Example C04_checker_rejects_use_while_hibernated :
  c04_ok [[]; [0]; [0]; [1; 2]]
    [emerge 1 (Some 0); commit_on 0 1; mkA KFork (Some 0) [1%Z; 2%Z]; mkA KHibernate (Some 0) [2%Z]; commit_on 1 1;
     commit_on 2 2; commit_on 3 1; commit_on 3 2; merge_of [1%Z; 2%Z]; delete 2] = false.
Proof. vm_compute. reflexivity. Qed.
Example C04_checker_rejects_early_delete :
  c04_ok [[]; [0]; [0]; [1; 2]]
    [emerge 1 (Some 0); commit_on 0 1; mkA KFork (Some 0) [1%Z; 2%Z]; commit_on 1 1; commit_on 2 2;
     commit_on 3 1; delete 2; commit_on 3 2; merge_of [1%Z; 2%Z]] = false.
Proof. vm_compute. reflexivity. Qed.

(* ---------- collectGarbage (model GC.v, tied to the Go function by replay) ----------
   [pre_ok p]: the input only uses live branches ([lifecycle_ok p]), holds no delete / hibernate / boot yet and its branch
   ids are >= rootBranchIndex (what generatePlan emits; checked per plan by pre_okb).  For EVERY such plan the model does not
   panic, its output has a sound lifecycle (in particular: a branch is disposed only after its last use and never used
   afterwards) and erasing the deletes gives back the input. *)
Theorem C04_gc : forall p : list action, pre_ok p ->
  exists p', collect_garbage p = Some p' /\ lifecycle_ok p' /\ erase_deletes p' = p.
Proof. exact gc_sound. Qed.
Print Assumptions C04_gc.

(* the same for every outcome of Go's map iteration + unstable sort.Slice: any arrangement of the (index, branch) pairs
   that is sorted by index *)
Theorem C04_gc_any_order : forall p : list action, pre_ok p ->
  exists m, last_mentioned p 0 [] = Some m /\
    forall arr, Permutation (gc_arr m (length p)) arr -> StronglySorted (fun x y => fst x <= fst y) arr ->
      lifecycle_ok (gc_emit p arr) /\ erase_deletes (gc_emit p arr) = p.
Proof. exact gc_correct. Qed.
Print Assumptions C04_gc_any_order.

Definition diamond_gen : list action :=
  [emerge 1 (Some 0); commit_on 0 1; mkA KFork (Some 0) [1%Z; 2%Z]; commit_on 1 1; commit_on 2 2;
   commit_on 3 1; commit_on 3 2; merge_of [1%Z; 2%Z]; commit_on 4 1].
Example C04_gc_hypothesis_satisfiable : pre_ok diamond_gen.
Proof. apply pre_okb_spec. vm_compute. reflexivity. Qed.
Example C04_gc_on_diamond :
  collect_garbage diamond_gen =
  Some [emerge 1 (Some 0); commit_on 0 1; mkA KFork (Some 0) [1%Z; 2%Z]; commit_on 1 1; commit_on 2 2;
        commit_on 3 1; commit_on 3 2; merge_of [1%Z; 2%Z]; delete 2; commit_on 4 1].
Proof. vm_compute. reflexivity. Qed.

(* ---------- insertHibernateBoot (model Hibernate.v, tied to the Go function by replay) ----------
   For EVERY plan with a sound lifecycle that holds no hibernate / boot yet ([hb_kind]) and EVERY distance d (any integer):
   the output has a sound lifecycle in the sense of [lifecycle_ok] - every use (commit, fork source, merge participant,
   delete, hibernate) finds the branch live and AWAKE, i.e. a hibernated branch is booted before its next use, is never
   hibernated twice and never disposed while hibernated; only hibernated branches are booted - nothing is left hibernated
   at the end, and erasing hibernate/boot gives back the input. *)
Theorem C04_hib : forall (p : list action) (d : Z), lifecycle_ok p -> Forall hb_kind p ->
  lifecycle_ok (insert_hb p d) /\
  nothing_hibernated (run init (insert_hb p d)) /\
  erase_hb (insert_hb p d) = p.
Proof. exact hib_sound. Qed.
Print Assumptions C04_hib.

(* the two stages composed, as prepareRunPlan does after generatePlan *)
Theorem C04_gc_then_hib : forall (p : list action) (d : Z), pre_ok p ->
  exists p', collect_garbage p = Some p' /\
    lifecycle_ok (insert_hb p' d) /\ nothing_hibernated (run init (insert_hb p' d)) /\
    erase_deletes (erase_hb (insert_hb p' d)) = p.
Proof. exact gc_then_hib. Qed.
Print Assumptions C04_gc_then_hib.

Definition diamond_gc : list action :=
  [emerge 1 (Some 0); commit_on 0 1; mkA KFork (Some 0) [1%Z; 2%Z]; commit_on 1 1; commit_on 2 2;
   commit_on 3 1; commit_on 3 2; merge_of [1%Z; 2%Z]; delete 2; commit_on 4 1].
Example C04_hib_hypotheses_satisfiable : lifecycle_ok diamond_gc /\ Forall hb_kind diamond_gc.
Proof. split; [apply lifecycleb_sound | apply hb_inputb_spec]; vm_compute; reflexivity. Qed.
Example C04_hib_on_diamond :
  insert_hb diamond_gc 0%Z =
  [emerge 1 (Some 0); commit_on 0 1; mkA KFork (Some 0) [1%Z; 2%Z]; mkA KHibernate (Some 0) [2%Z];
   commit_on 1 1; mkA KHibernate (Some 1) [1%Z];
   mkA KBoot (Some 2) [2%Z]; commit_on 2 2; mkA KHibernate (Some 2) [2%Z];
   mkA KBoot (Some 3) [1%Z]; commit_on 3 1; mkA KHibernate (Some 3) [1%Z];
   mkA KBoot (Some 3) [2%Z]; commit_on 3 2;
   mkA KBoot None [1%Z]; merge_of [1%Z; 2%Z]; mkA KHibernate None [1%Z]; delete 2;
   mkA KBoot (Some 4) [1%Z]; commit_on 4 1] /\
  hb_outb (insert_hb diamond_gc 0%Z) = true /\ insert_hb diamond_gc 1%Z = diamond_gc.
Proof. vm_compute. repeat split; reflexivity. Qed.

(* ---------- [lifecycle_ok] in plain terms (no executor) ----------
   [creates a] = the branch of an emerge / the targets of a fork; [items a] = every branch the action mentions. *)
Theorem C04_lifecycle_plain : forall p : list action, lifecycle_ok p ->
  (* created at most once *)
  (forall p1 a p2 b, p = p1 ++ a :: p2 -> In b (creates a) -> Forall (fun a' => ~ In b (creates a')) p2) /\
  (* never mentioned (used, re-created, hibernated, booted, disposed again) after its disposal *)
  (forall p1 a p2 b, p = p1 ++ a :: p2 -> kind a = KDelete -> items a = [b] -> Forall (fun a' => ~ In b (items a')) p2) /\
  (* a branch that is never created is never mentioned; applied to a prefix: every mention comes after the creation *)
  (forall b, Forall (fun a => ~ In b (creates a)) p -> Forall (fun a => ~ In b (items a)) p).
Proof. exact lifecycle_plain. Qed.
Print Assumptions C04_lifecycle_plain.
