(* Reachability of the domain of C15: the two-level invariant [WFd D s] (D = nodes whose ranks may be
   dirty because an edge was removed and ReindexNode has not run yet) holds for the empty graph and is
   preserved by every valid operation; hence every state reached by a valid operation sequence with no
   node awaiting re-indexing satisfies [wfb]. *)
From Coq Require Import List ZArith Lia Bool Permutation.
From Herc Require Import Toposort.Model Toposort.Assoc Toposort.Paths Toposort.Refine.
Import ListNotations.
Open Scope Z_scope.

(* ---------- counting parents ---------- *)
Definition inb (m : list (Z * Z)) (x : Z) : Z := if existsb (fun cr => fst cr =? x) m then 1 else 0.

Lemma inb_spec m x : inb m x = if in_dec Z.eq_dec x (map fst m) then 1 else 0.
Proof.
  unfold inb. destruct (existsb (fun cr => fst cr =? x) m) eqn:E.
  - apply existsb_fst_In in E. destruct (in_dec Z.eq_dec x (map fst m)); [reflexivity|contradiction].
  - destruct (in_dec Z.eq_dec x (map fst m)) as [Hin|]; [|reflexivity].
    apply existsb_fst_In in Hin. congruence.
Qed.

Lemma inb_ext m m' x : (In x (map fst m) <-> In x (map fst m')) -> inb m x = inb m' x.
Proof.
  intros H. rewrite !inb_spec.
  destruct (in_dec Z.eq_dec x (map fst m)), (in_dec Z.eq_dec x (map fst m')); tauto || reflexivity.
Qed.

Lemma inb_in m x : In x (map fst m) -> inb m x = 1.
Proof. intros H. rewrite inb_spec. destruct (in_dec Z.eq_dec x (map fst m)); [reflexivity|contradiction]. Qed.

Lemma inb_notin m x : ~ In x (map fst m) -> inb m x = 0.
Proof. intros H. rewrite inb_spec. destruct (in_dec Z.eq_dec x (map fst m)); [contradiction|reflexivity]. Qed.

Lemma cp_aset s s' a m' x : outs s' = aset (outs s) a m' ->
  count_parents s' x =
    count_parents s x - match aget (outs s) a with Some m => inb m x | None => 0 end + inb m' x.
Proof.
  unfold count_parents. intros ->. induction (outs s) as [|[k m] l IH]; cbn [aset aget fold_right snd].
  - unfold inb. lia.
  - destruct (k =? a); cbn [fold_right snd].
    + unfold inb. lia.
    + rewrite IH. lia.
Qed.

Lemma count_parents_outs s s' x : outs s' = outs s -> count_parents s' x = count_parents s x.
Proof. unfold count_parents. intros ->. reflexivity. Qed.

(* ---------- weakening and the generic update of one node's child map ---------- *)
Lemma WFd_weaken D D' s : WFd D s -> (forall n, In n (map fst (outs s)) -> ~ In n D' -> ~ In n D) -> WFd D' s.
Proof.
  intros [H1 H2 H3 H4 H5 H6 H7] Hi. constructor; auto.
  intros n m Hin HD. apply (H7 n m Hin). apply Hi; [|exact HD]. apply (in_map fst) in Hin. exact Hin.
Qed.

Lemma WFd_update D D' s s' a m m' :
  WFd D s -> aget (outs s) a = Some m -> outs s' = aset (outs s) a m' ->
  NoDup (map fst (ins s')) -> (forall n, In n (map fst (ins s')) -> In n (map fst (outs s))) ->
  (forall x, In x (map fst (outs s)) -> get_in s' x = get_in s x - inb m x + inb m' x) ->
  NoDup (map fst m') -> (forall c, In c (map fst m') -> In c (map fst (outs s))) ->
  (~ In a D' -> ranks_ok m') -> (forall n, n <> a -> ~ In n D' -> ~ In n D) ->
  WFd D' s'.
Proof.
  intros [H1 H2 H3 H4 H5 H6 H7] Ea Eo Hin Hik Hget Hnd' Hch' Hrk HD.
  assert (Ha : In a (map fst (outs s))) by (eapply aget_Some_key; eauto).
  assert (Hk : map fst (outs s') = map fst (outs s)) by (rewrite Eo; apply keys_aset_in; exact Ha).
  assert (Hin' : forall x mx, In (x, mx) (outs s') <-> (x = a /\ mx = m') \/ (x <> a /\ In (x, mx) (outs s))).
  { intros x mx. rewrite Eo. apply In_aset. exact H1. }
  constructor.
  - rewrite Hk. exact H1.
  - exact Hin.
  - intros n Hn. rewrite Hk. auto.
  - intros n mx Hx. apply Hin' in Hx. destruct Hx as [[-> ->]|[_ Hx]]; [exact Hnd'|eauto].
  - intros n mx Hx c Hc. rewrite Hk. apply Hin' in Hx. destruct Hx as [[-> ->]|[_ Hx]]; [auto|eauto].
  - intros n Hn. rewrite Hk in Hn. rewrite (Hget n Hn), (H6 n Hn), (cp_aset s s' a m' n Eo), Ea. reflexivity.
  - intros n mx Hx HnD. apply Hin' in Hx. destruct Hx as [[-> ->]|[Hne Hx]]; [auto|].
    apply (H7 n mx Hx). apply HD; assumption.
Qed.

(* ---------- empty ---------- *)
Lemma WFd_empty D : WFd D empty.
Proof. constructor; simpl; try constructor; try tauto; intros; tauto. Qed.

(* ---------- AddNode ---------- *)
Lemma WFd_add_node D s n : WFd D s -> WFd D (fst (add_node s n)).
Proof.
  intros Hwf. unfold add_node. destruct (aget (outs s) n) eqn:E; [exact Hwf|]. cbn [fst].
  destruct Hwf as [H1 H2 H3 H4 H5 H6 H7].
  assert (Hn : ~ In n (map fst (outs s))) by (apply aget_None; exact E).
  assert (Hin' : forall x mx, In (x, mx) (aset (outs s) n []) <-> (x = n /\ mx = []) \/ (x <> n /\ In (x, mx) (outs s))).
  { intros x mx. apply In_aset. exact H1. }
  assert (Hcp : forall x, count_parents (mkSt (aset (outs s) n []) (aset (ins s) n 0)) x = count_parents s x).
  { intros x. rewrite (cp_aset s (mkSt (aset (outs s) n []) (aset (ins s) n 0)) n [] x eq_refl), E. unfold inb. simpl. lia. }
  constructor; cbn [outs ins].
  - apply NoDup_keys_aset. exact H1.
  - apply NoDup_keys_aset. exact H2.
  - intros x Hx. apply in_keys_aset in Hx. apply in_keys_aset. destruct Hx as [->|Hx]; auto.
  - intros x mx Hx. apply Hin' in Hx. destruct Hx as [[-> ->]|[_ Hx]]; [constructor|eauto].
  - intros x mx Hx c Hc. apply in_keys_aset. apply Hin' in Hx. destruct Hx as [[-> ->]|[_ Hx]]; [destruct Hc|eauto].
  - intros x Hx. rewrite Hcp. unfold get_in. cbn [ins]. apply in_keys_aset in Hx.
    destruct (Z.eq_dec x n) as [->|Hne].
    + rewrite aget_aset_same. symmetry. apply count_parents_zero.
      intros k mk Hk Hc. apply Hn. eapply H5; eauto.
    + rewrite aget_aset_other by exact Hne. destruct Hx as [->|Hx]; [congruence|]. apply (H6 x Hx).
  - intros x mx Hx HxD. apply Hin' in Hx. destruct Hx as [[-> ->]|[_ Hx]]; [|eauto].
    split; [constructor|]. intros c r [].
Qed.

Lemma add_node_is_node s n x : is_node (fst (add_node s n)) x = is_node s x || (x =? n).
Proof.
  unfold add_node. destruct (aget (outs s) n) eqn:E; cbn [fst].
  - destruct (Z.eqb_spec x n) as [->|]; [|rewrite orb_false_r; reflexivity].
    unfold is_node. rewrite E. reflexivity.
  - unfold is_node. cbn [outs]. destruct (Z.eqb_spec x n) as [->|Hne].
    + rewrite aget_aset_same. rewrite orb_true_r. reflexivity.
    + rewrite aget_aset_other by exact Hne. rewrite orb_false_r. reflexivity.
Qed.

Lemma add_node_has_edge s n x y : has_edge (fst (add_node s n)) x y = has_edge s x y.
Proof.
  unfold add_node. destruct (aget (outs s) n) eqn:E; cbn [fst]; [reflexivity|].
  unfold has_edge. cbn [outs]. destruct (Z.eq_dec x n) as [->|Hne].
  - rewrite aget_aset_same, E. reflexivity.
  - rewrite aget_aset_other by exact Hne. reflexivity.
Qed.

Lemma add_node_node_list s n : is_node s n = false -> node_list (fst (add_node s n)) = node_list s ++ [n].
Proof.
  intros H. apply is_node_false in H. unfold add_node, node_list. rewrite H. cbn [fst outs].
  apply keys_aset_new. apply aget_None. exact H.
Qed.

(* ---------- AddEdge ---------- *)
Lemma ranks_ok_append m b : ranks_ok m -> ~ In b (map fst m) -> ranks_ok (aset m b (Z.of_nat (length m) + 1)).
Proof.
  intros [Hnd Hr] Hb. rewrite aset_new by exact Hb. split.
  - rewrite map_app. cbn [map snd]. apply (Permutation_NoDup (l := (Z.of_nat (length m) + 1) :: map snd m)).
    + apply Permutation_cons_append.
    + constructor; [|exact Hnd]. intros Hin. apply in_map_iff in Hin. destruct Hin as ([c r] & E & Hin).
      cbn [snd] in E. subst. pose proof (Hr _ _ Hin). lia.
  - intros c r Hin. rewrite app_length. cbn [length]. apply in_app_or in Hin. destruct Hin as [Hin|[Hin|[]]].
    + pose proof (Hr _ _ Hin). lia.
    + inversion Hin; subst. lia.
Qed.

Lemma WFd_add_edge D s a b : WFd D s -> is_node s b = true -> has_edge s a b = false ->
  WFd D (fst (add_edge s a b)).
Proof.
  intros Hwf Hb He. unfold add_edge. destruct (aget (outs s) a) as [m|] eqn:Ea; [|exact Hwf]. cbn [fst].
  apply is_node_spec in Hb.
  assert (Hbm : ~ In b (map fst m)).
  { intros Hin. unfold has_edge in He. rewrite Ea in He. apply existsb_fst_In in Hin. congruence. }
  eapply (WFd_update D D s _ a m (aset m b (Z.of_nat (length m) + 1)) Hwf Ea); [reflexivity|..]; cbn [ins outs].
  - apply NoDup_keys_aset. apply (wf_ins_nodup D s Hwf).
  - intros n Hn. apply in_keys_aset in Hn. destruct Hn as [->|Hn]; [exact Hb|]. apply (wf_ins_nodes D s Hwf n Hn).
  - intros x Hx. unfold get_in at 1. cbn [ins]. destruct (Z.eq_dec x b) as [->|Hne].
    + rewrite aget_aset_same. rewrite (inb_notin m b Hbm), inb_in; [lia|]. apply in_keys_aset. auto.
    + rewrite aget_aset_other by exact Hne. fold (get_in s x).
      rewrite (inb_ext (aset m b (Z.of_nat (length m) + 1)) m x); [lia|].
      rewrite in_keys_aset. split; [intros [H|H]; [congruence|exact H]|auto].
  - apply NoDup_keys_aset. apply (wf_child_nodup D s Hwf a m). apply aget_In. exact Ea.
  - intros c Hc. apply in_keys_aset in Hc. destruct Hc as [->|Hc]; [exact Hb|].
    apply (wf_child_nodes D s Hwf a m); [apply aget_In; exact Ea|exact Hc].
  - intros HaD. apply ranks_ok_append; [|exact Hbm]. apply (wf_ranks D s Hwf a m); [apply aget_In; exact Ea|exact HaD].
  - intros n _ H. exact H.
Qed.

Lemma add_edge_node_list s a b : node_list (fst (add_edge s a b)) = node_list s.
Proof.
  unfold add_edge, node_list. destruct (aget (outs s) a) eqn:E; [|reflexivity]. cbn [fst outs].
  apply keys_aset_in. eapply aget_Some_key; eauto.
Qed.

Lemma add_edge_is_node s a b x : is_node (fst (add_edge s a b)) x = is_node s x.
Proof.
  destruct (is_node s x) eqn:E.
  - apply is_node_spec. fold (node_list (fst (add_edge s a b))). rewrite add_edge_node_list. apply is_node_spec. exact E.
  - destruct (is_node (fst (add_edge s a b)) x) eqn:E'; [|reflexivity].
    apply is_node_spec in E'. fold (node_list (fst (add_edge s a b))) in E'. rewrite add_edge_node_list in E'.
    apply is_node_spec in E'. congruence.
Qed.

Lemma add_edge_has_edge s a b x y : is_node s a = true ->
  has_edge (fst (add_edge s a b)) x y = has_edge s x y || ((x =? a) && (y =? b)).
Proof.
  intros Ha. unfold is_node in Ha. unfold add_edge. destruct (aget (outs s) a) as [m|] eqn:Ea; [|discriminate].
  cbn [fst]. unfold has_edge. cbn [outs]. destruct (Z.eqb_spec x a) as [->|Hne].
  - rewrite aget_aset_same, Ea. cbn [andb]. apply eq_true_iff_eq.
    rewrite orb_true_iff, !existsb_fst_In, in_keys_aset, Z.eqb_eq. tauto.
  - rewrite aget_aset_other by exact Hne. cbn [andb]. rewrite orb_false_r. reflexivity.
Qed.

(* ---------- RemoveEdge ---------- *)
Lemma WFd_remove_edge D s a b : WFd D s -> has_edge s a b = true ->
  WFd (a :: D) (fst (remove_edge s a b)).
Proof.
  intros Hwf He. apply has_edge_spec in He. destruct He as (m & Ea & Hbm).
  unfold remove_edge, unsafe_remove_edge. rewrite Ea. cbn [fst].
  assert (Hndm : NoDup (map fst m)) by (apply (wf_child_nodup D s Hwf a m); apply aget_In; exact Ea).
  assert (Hb : In b (map fst (outs s))) by (apply (wf_child_nodes D s Hwf a m); [apply aget_In; exact Ea|exact Hbm]).
  eapply (WFd_update D (a :: D) s _ a m (adel m b) Hwf Ea); [reflexivity|..]; cbn [ins outs].
  - apply NoDup_keys_aset. apply (wf_ins_nodup D s Hwf).
  - intros n Hn. apply in_keys_aset in Hn. destruct Hn as [->|Hn]; [exact Hb|]. apply (wf_ins_nodes D s Hwf n Hn).
  - intros x Hx. unfold get_in at 1. cbn [ins]. destruct (Z.eq_dec x b) as [->|Hne].
    + rewrite aget_aset_same. rewrite (inb_in m b Hbm), inb_notin; [lia|].
      intros H. apply in_keys_adel in H; [tauto|exact Hndm].
    + rewrite aget_aset_other by exact Hne. fold (get_in s x).
      rewrite (inb_ext (adel m b) m x); [lia|]. rewrite (in_keys_adel m b x Hndm). tauto.
  - apply NoDup_keys_adel. exact Hndm.
  - intros c Hc. apply in_keys_adel in Hc; [|exact Hndm].
    apply (wf_child_nodes D s Hwf a m); [apply aget_In; exact Ea|tauto].
  - intros HaD. exfalso. apply HaD. left. reflexivity.
  - intros n _ H HD. apply H. right. exact HD.
Qed.

Lemma remove_edge_node_list s a b : node_list (fst (remove_edge s a b)) = node_list s.
Proof.
  unfold remove_edge, unsafe_remove_edge, node_list. destruct (aget (outs s) a) eqn:E; [|reflexivity]. cbn [fst outs].
  apply keys_aset_in. eapply aget_Some_key; eauto.
Qed.

(* ---------- ReindexNode ---------- *)
Lemma map_fst_number l i : map fst (number l i) = l.
Proof. revert i. induction l as [|x l IH]; intros i; simpl; [reflexivity|]. rewrite IH. reflexivity. Qed.

Lemma length_number l i : length (number l i) = length l.
Proof. rewrite <- (map_length fst), map_fst_number. reflexivity. Qed.

Lemma number_range l : forall i c r, In (c, r) (number l i) -> i <= r < i + Z.of_nat (length l).
Proof.
  induction l as [|x l IH]; intros i c r Hin; [destruct Hin|].
  cbn [number] in Hin. cbn [length]. destruct Hin as [Hin|Hin].
  - inversion Hin; subst. lia.
  - pose proof (IH _ _ _ Hin). lia.
Qed.

Lemma number_nodup l : forall i, NoDup (map snd (number l i)).
Proof.
  induction l as [|x l IH]; intros i; cbn [number map snd]; constructor; [|apply IH].
  intros Hin. apply in_map_iff in Hin. destruct Hin as ([c r] & E & Hin). cbn [snd] in E. subst.
  pose proof (number_range _ _ _ _ Hin). lia.
Qed.

Lemma ranks_ok_number l : ranks_ok (number l 1).
Proof.
  split; [apply number_nodup|]. intros c r Hin. rewrite length_number.
  pose proof (number_range _ _ _ _ Hin). lia.
Qed.

Lemma WFd_reindex D s n : WFd D s -> WFd (remove Z.eq_dec n D) (reindex s n).
Proof.
  intros Hwf. unfold reindex. destruct (aget (outs s) n) as [m|] eqn:En.
  - set (m' := number (sortZ (map fst m)) 1).
    assert (Hk : forall c, In c (map fst m') <-> In c (map fst m)).
    { intros c. unfold m'. rewrite map_fst_number. split; apply Permutation_in;
        [apply sortZ_perm|apply Permutation_sym; apply sortZ_perm]. }
    eapply (WFd_update D (remove Z.eq_dec n D) s _ n m m' Hwf En); [reflexivity|..]; cbn [ins outs].
    + apply (wf_ins_nodup D s Hwf).
    + apply (wf_ins_nodes D s Hwf).
    + intros x _. unfold get_in. cbn [ins]. rewrite (inb_ext m' m x (Hk x)). lia.
    + unfold m'. rewrite map_fst_number. eapply Permutation_NoDup; [apply Permutation_sym; apply sortZ_perm|].
      apply (wf_child_nodup D s Hwf n m). apply aget_In. exact En.
    + intros c Hc. apply Hk in Hc. apply (wf_child_nodes D s Hwf n m); [apply aget_In; exact En|exact Hc].
    + intros _. apply ranks_ok_number.
    + intros x Hne Hx HD. apply Hx. apply in_in_remove; assumption.
  - apply (WFd_weaken D _ s Hwf). intros x Hnode Hx HD. apply Hx. apply in_in_remove; [|exact HD].
    intros ->. apply aget_None in En. contradiction.
Qed.

Lemma reindex_node_list s n : node_list (reindex s n) = node_list s.
Proof.
  unfold reindex, node_list. destruct (aget (outs s) n) eqn:E; [|reflexivity]. cbn [outs].
  apply keys_aset_in. eapply aget_Some_key; eauto.
Qed.

Lemma is_node_node_list s s' x : node_list s' = node_list s -> is_node s' x = is_node s x.
Proof.
  intros H. apply eq_true_iff_eq. rewrite !is_node_spec. fold (node_list s) (node_list s'). rewrite H. tauto.
Qed.

(* ---------- operation sequences ---------- *)
(* The domain of the property: nodes are not named by the empty string (the model's [nobody]; FindCycle
   uses it as its sentinel), an edge is added only towards an existing node and only if it is not there
   yet, only existing edges are removed.  Adding an existing node, adding an edge from an unknown node and
   re-indexing anything are harmless no-ops and are allowed. *)
Definition op_ok (s : st) (o : op) : bool :=
  match o with
  | OAddNode n => negb (n =? nobody)
  | OAddEdge a b => is_node s b && negb (has_edge s a b)
  | ORemoveEdge a b => has_edge s a b
  | _ => true
  end.

(* nodes that lost an edge and have not been re-indexed since *)
Definition dirty_step (D : list Z) (o : op) : list Z :=
  match o with
  | ORemoveEdge a _ => a :: D
  | OReindex n => remove Z.eq_dec n D
  | _ => D
  end.

Fixpoint valid_ops (s : st) (ops : list op) : bool :=
  match ops with
  | [] => true
  | o :: r => op_ok s o && valid_ops (fst (step s o)) r
  end.

Fixpoint dirty (D : list Z) (ops : list op) : list Z :=
  match ops with
  | [] => D
  | o :: r => dirty (dirty_step D o) r
  end.

Lemma step_fst s o :
  fst (step s o) = match o with
                   | OAddNode n => fst (add_node s n)
                   | OAddEdge a b => fst (add_edge s a b)
                   | ORemoveEdge a b => fst (remove_edge s a b)
                   | OReindex n => reindex s n
                   | _ => s
                   end.
Proof.
  destruct o; cbn [step]; try reflexivity.
  - destruct (add_node s n); reflexivity.
  - destruct (add_edge s a b); reflexivity.
  - destruct (remove_edge s a b); reflexivity.
Qed.

Lemma run_cons_fst s o r : fst (run s (o :: r)) = fst (run (fst (step s o)) r).
Proof. cbn [run]. destruct (step s o) as [s' x]. cbn [fst]. destruct (run s' r). reflexivity. Qed.

Lemma step_inv D s o : WFd D s -> op_ok s o = true -> WFd (dirty_step D o) (fst (step s o)).
Proof.
  intros Hwf Hok. rewrite step_fst. destruct o; cbn [op_ok dirty_step] in *; try exact Hwf.
  - apply WFd_add_node. exact Hwf.
  - apply andb_true_iff in Hok. destruct Hok as [Hb He]. apply negb_true_iff in He.
    apply WFd_add_edge; assumption.
  - apply WFd_remove_edge; assumption.
  - apply WFd_reindex. exact Hwf.
Qed.

Lemma step_nobody s o : is_node s nobody = false -> op_ok s o = true -> is_node (fst (step s o)) nobody = false.
Proof.
  intros Hn Hok. rewrite step_fst. destruct o; cbn [op_ok] in *; try exact Hn.
  - rewrite add_node_is_node, Hn. cbn [orb]. apply negb_true_iff in Hok. rewrite Z.eqb_sym. exact Hok.
  - rewrite add_edge_is_node. exact Hn.
  - rewrite (is_node_node_list s _ nobody (remove_edge_node_list s a b)). exact Hn.
  - rewrite (is_node_node_list s _ nobody (reindex_node_list s n)). exact Hn.
Qed.

Theorem run_inv : forall ops s D, WFd D s -> valid_ops s ops = true -> WFd (dirty D ops) (fst (run s ops)).
Proof.
  induction ops as [|o r IH]; intros s D Hwf Hv; [exact Hwf|].
  cbn [valid_ops] in Hv. apply andb_true_iff in Hv. destruct Hv as [Hok Hv].
  rewrite run_cons_fst. cbn [dirty]. apply IH; [apply step_inv; assumption|exact Hv].
Qed.

Theorem run_nobody : forall ops s, is_node s nobody = false -> valid_ops s ops = true ->
  is_node (fst (run s ops)) nobody = false.
Proof.
  induction ops as [|o r IH]; intros s Hn Hv; [exact Hn|].
  cbn [valid_ops] in Hv. apply andb_true_iff in Hv. destruct Hv as [Hok Hv].
  rewrite run_cons_fst. apply IH; [apply step_nobody; assumption|exact Hv].
Qed.

Lemma valid_ops_app : forall l1 l2 s, valid_ops s (l1 ++ l2) = true ->
  valid_ops s l1 = true /\ valid_ops (fst (run s l1)) l2 = true.
Proof.
  induction l1 as [|o r IH]; intros l2 s Hv; [split; [reflexivity|exact Hv]|].
  cbn [app valid_ops] in *. apply andb_true_iff in Hv. destruct Hv as [Hok Hv].
  destruct (IH l2 _ Hv) as [H1 H2]. rewrite Hok, H1, run_cons_fst. auto.
Qed.

(* every state reached by a valid operation sequence with no node awaiting re-indexing is in the domain *)
Theorem reach_wfb ops : valid_ops empty ops = true -> dirty [] ops = [] -> wfb (fst (run empty ops)) = true.
Proof.
  intros Hv Hd. apply wfb_spec. unfold WF. rewrite <- Hd. apply run_inv; [apply WFd_empty|exact Hv].
Qed.

Theorem reach_nobody ops : valid_ops empty ops = true -> is_node (fst (run empty ops)) nobody = false.
Proof. intros Hv. apply run_nobody; [reflexivity|exact Hv]. Qed.

(* ... in particular at every point of a valid sequence where Sort is called *)
Theorem reach_wfb_at_sort ops1 ops2 :
  valid_ops empty (ops1 ++ OSort :: ops2) = true -> dirty [] ops1 = [] -> wfb (fst (run empty ops1)) = true.
Proof. intros Hv Hd. apply valid_ops_app in Hv. apply reach_wfb; tauto. Qed.

(* the node set never loses a node and the two-level invariant also gives NoDup of it *)
Theorem reach_nodup ops : valid_ops empty ops = true -> NoDup (node_list (fst (run empty ops))).
Proof.
  intros Hv. apply (wf_outs_nodup (dirty [] ops)). apply run_inv; [apply WFd_empty|exact Hv].
Qed.

(* ---------- determinism ---------- *)
Theorem run_deterministic ops1 ops2 : ops1 = ops2 -> run empty ops1 = run empty ops2.
Proof. intros ->. reflexivity. Qed.

(* the sort result is a function of the abstract graph alone: node insertion order and, per node, the
   children in rank order - nothing else of the state (in particular not the layout of the maps) *)
Theorem sort_depends_on_abs s1 s2 : wfb s1 = true -> wfb s2 = true -> abs s1 = abs s2 ->
  snd (toposort s1) = snd (toposort s2).
Proof. intros H1 H2 E. rewrite (toposort_refines s1 H1), (toposort_refines s2 H2), E. reflexivity. Qed.

Print Assumptions reach_wfb.
Print Assumptions reach_nobody.
Print Assumptions sort_depends_on_abs.
