(* Executable model of the .mailmap branch of Detector.GeneratePeopleDict
   (internal/plumbing/identity/identity.go, the block guarded by "!detector.ExactSignatures && err == nil")
   and of identity.ParseMailmap (internal/plumbing/identity/mailmap.go).  Definitions only; the proofs are
   in IdentityMailmapProofs.v.

   The parsed mailmap (Go: map[string]object.Signature) is a list of entries
       (key, (Signature.Name, Signature.Email))
   i.e. "a commit that carries [key] as its name or e-mail belongs to the developer Name <Email>".
   The keys of a Go map are pairwise different; the model does not need that.  Go iterates the map in an
   unspecified order: [morder] is that order (a choice argument, any permutation).

   Go state                         model (the state [gst] of Identity.v is reused)
   dict                             g_dict
   names[id], emails[id]            g_devs at position id; an id that has no entry in the Go maps has the
                                    empty list here (append to a missing entry = append to nil, reading a
                                    missing entry = nil: sort.Strings(nil), strings.Join(nil, "|") = "")
   size                             length g_devs *)
From Coq Require Import List ZArith Bool.
From Herc Require Import Plumbing.IdStr Plumbing.Identity.
Import ListNotations.

Notation mentry := (list Z * (list Z * list Z))%type (only parsing).

Definition me_key (e : mentry) : str := fst e.
Definition me_name (e : mentry) : str := fst (snd e).
Definition me_email (e : mentry) : str := snd (snd e).

Definition is_empty (s : str) : bool := match s with [] => true | _ :: _ => false end.
(* strings.Contains(key, "@") *)
Definition has_at (s : str) : bool := existsb (Z.eqb 64) s.
(* append(nil, s) when s != "" *)
Definition opt_list (s : str) : list str := if is_empty s then [] else [s].

(* "exists := false; for _, val := range names[id] { if key == val {...} }; if !exists { append }" *)
Definition add_name_new (devs : list (list str * list str)) (id : nat) (k : str) :=
  if smem k (fst (nth id devs ([], []))) then devs else add_name devs id k.
Definition add_email_new (devs : list (list str * list str)) (id : nat) (k : str) :=
  if smem k (snd (nth id devs ([], []))) then devs else add_email devs id k.

Section Lower.
  Variable lower : str -> str.

  Definition lkey (e : mentry) : str := lower (me_key e).
  Definition ltoE (e : mentry) : str := lower (me_email e).
  Definition ltoN (e : mentry) : str := lower (me_name e).

  (* id, exists := dict[toEmail]; if !exists { id, exists = dict[toName] } *)
  Definition resolve (dict : list (str * nat)) (e : mentry) : option nat :=
    match sget dict (ltoE e) with
    | Some id => Some id
    | None => sget dict (ltoN e)
    end.

  (* the body of "for key, val := range mailmap" *)
  Definition mm_step (s : gst) (e : mentry) : gst :=
    let key := lkey e in
    let toEmail := ltoE e in
    let toName := ltoN e in
    let id := match resolve (g_dict s) e with Some id => id | None => length (g_devs s) end in
    let s1 :=
      match resolve (g_dict s) e with
      | Some _ => mkG (sset (g_dict s) key id) (g_devs s)
      | None =>
          let d1 := if is_empty toEmail then g_dict s else sset (g_dict s) toEmail id in
          let d2 := if is_empty toName then d1 else sset d1 toName id in
          mkG (sset d2 key id) (g_devs s ++ [(opt_list toName, opt_list toEmail)])
      end in
    mkG (g_dict s1)
        (if has_at key then add_email_new (g_devs s1) id key else add_name_new (g_devs s1) id key).

  Definition m_run (morder : list mentry -> list mentry) (mm : list mentry) : gst :=
    fold_left mm_step (morder mm) g_init.

  Definition gm_run (morder : list mentry -> list mentry) (mm : list mentry) (cs : list commit) : gst :=
    fold_left (g_step lower) cs (m_run morder mm).

  (* GeneratePeopleDict with ExactSignatures = false on a repository whose last commit has a .mailmap that
     parses to [mm] ([] also stands for "no .mailmap": the loop body is never run).  None = the Go panic on
     an empty commit list.  With ExactSignatures = true the .mailmap is not read: Identity.generate_people_dict. *)
  Definition generate_people_dict_mm (order : list (str * nat) -> list (str * nat))
             (morder : list mentry -> list mentry) (mm : list mentry) (cs : list commit)
    : option (list (str * nat) * list str) :=
    match cs with
    | [] => None
    | _ :: _ => let s := gm_run morder mm cs in Some (g_dict s, g_reverse order s)
    end.

  (* ---------- the domain in which the descriptions are exact ----------
     (1) the lower-cased keys are pairwise different, (2) none is empty, (3) a key that is also the
     canonical e-mail or name of an entry belongs to an entry with the same canonical pair
     ("Jane <j@new> Jane <j@old>" is inside, "A <a@x> <k@x>" + "K <k@x> <old@x>" is outside). *)
  Definition canon_eqb (e1 e2 : mentry) : bool :=
    str_eqb (ltoE e1) (ltoE e2) && str_eqb (ltoN e1) (ltoN e2).

  Definition mm_domb (mm : list mentry) : bool :=
    all_pairs (fun e1 e2 => negb (str_eqb (lkey e1) (lkey e2))) mm
    && forallb (fun e => negb (is_empty (lkey e))) mm
    && forallb (fun e1 => forallb (fun e2 =>
         negb (str_eqb (lkey e1) (ltoE e2) || str_eqb (lkey e1) (ltoN e2)) || canon_eqb e1 e2) mm) mm.

  (* ---------- executable statements for outputs obtained with a mailmap ---------- *)
  (* where a key of PeopleDict may come from *)
  Definition key_used_mm (cs : list commit) (mm : list mentry) (k : str) : bool :=
    key_used lower false cs k
    || existsb (fun e => str_eqb (lkey e) k
                         || (negb (is_empty (ltoE e)) && str_eqb (ltoE e) k)
                         || (negb (is_empty (ltoN e)) && str_eqb (ltoN e) k)) mm.

  Fixpoint strict_sortedb (l : list str) : bool :=
    match l with
    | [] => true
    | x :: r => match r with [] => true | y :: _ => str_ltb x y && strict_sortedb r end
    end.

  (* [r] = join ns ++ "|" ++ join es with ns, es strictly sorted and ns U es = K *)
  Definition desc_cand (K : list str) (r : str) (ns es : list str) : bool :=
    str_eqb (join ns ++ bar :: join es) r
    && strict_sortedb ns && strict_sortedb es
    && forallb (fun k => smem k ns || smem k es) K
    && forallb (fun k => smem k K) (ns ++ es).

  Definition desc_okb (K : list str) (r : str) : bool :=
    let P := split r in
    existsb (fun i => desc_cand K r (firstn i P) (skipn i P) || desc_cand K r (firstn i P) (skipn (S i) P))
            (seq 0 (S (length P))).

  Definition description_mm_okb (cs : list commit) (mm : list mentry) (dict : list (str * nat)) (rev : list str) : bool :=
    all_pairs (fun x y => negb (str_eqb (fst x) (fst y))) dict
    && forallb (fun kv => key_used_mm cs mm (fst kv) && Nat.ltb (snd kv) (length rev)) dict
    && forallb (fun d => desc_okb (keys_of dict d) (nth d rev [])) (seq 0 (length rev)).
End Lower.

(* ---------- ParseMailmap ----------
   As repaired by /repo commit 199beb1: a line that has ">" at its end but no "<" before it (and the same for the
   canonical part) is skipped.  [fixed = false] is the function before the repair: there "line[:ltp]" with
   ltp = strings.LastIndex(line, "<") = -1 made Go panic (slice bounds out of range [:-1]); None = that panic.
   strings.TrimSpace is modelled for ASCII white space (\t \n \v \f \r and space); the generated texts
   contain no other Unicode white space (U+0085, U+00A0, U+1680, U+2000..U+200A, U+2028, U+2029, U+202F,
   U+205F, U+3000).  The result is the map in first-insertion order (a later line with the same key
   replaces the value). *)
Definition is_space (c : Z) : bool :=
  (c =? 9)%Z || (c =? 10)%Z || (c =? 11)%Z || (c =? 12)%Z || (c =? 13)%Z || (c =? 32)%Z.

Fixpoint trim_left (s : str) : str :=
  match s with
  | [] => []
  | c :: r => if is_space c then trim_left r else s
  end.
Definition trim_space (s : str) : str := rev (trim_left (rev (trim_left s))).

(* strings.Split(s, "\n") *)
Fixpoint split_lines (s : str) : list str :=
  match s with
  | [] => [[]]
  | c :: r => if (c =? 10)%Z then [] :: split_lines r
              else match split_lines r with
                   | [] => [[c]]
                   | h :: t => (c :: h) :: t
                   end
  end.

(* strings.LastIndex(s, string(c)); None = -1 *)
Fixpoint last_index_from (c : Z) (s : str) (i : nat) (acc : option nat) : option nat :=
  match s with
  | [] => acc
  | x :: r => last_index_from c r (S i) (if (x =? c)%Z then Some i else acc)
  end.
Definition last_index (c : Z) (s : str) : option nat := last_index_from c s 0 None.

Definition lt_sign : Z := 60%Z.
Definition gt_sign : Z := 62%Z.

Definition parse_line (fixed : bool) (mm : list mentry) (line0 : str) : option (list mentry) :=
  let line := trim_space line0 in
  if is_empty line then Some mm
  else if match line with c :: _ => (c =? 35)%Z | [] => false end then Some mm   (* HasPrefix(line, "#") *)
  else
    match last_index gt_sign line with
    | None => Some mm
    | Some p =>
        if negb (Nat.eqb (S p) (length line)) then Some mm
        else
          match last_index lt_sign line with
          | None => if fixed then Some mm else None                 (* "if ltp < 0 { continue }"; before: line[:-1] *)
          | Some ltp =>
              let fromEmail := firstn (length line - 1 - S ltp) (skipn (S ltp) line) in
              let line1 := trim_space (firstn ltp line) in
              let gtp := last_index gt_sign line1 in
              let fromName :=
                match gtp with
                | Some g => if Nat.eqb (S g) (length line1) then [] else trim_space (skipn (S g) line1)
                | None => trim_space line1
                end in
              let to :=
                match gtp with
                | Some (S g') =>
                    let l2 := firstn (S g') line1 in
                    match last_index lt_sign l2 with
                    | None => None                                  (* ltp < 0 *)
                    | Some ltp2 => Some (skipn (S ltp2) l2, trim_space (firstn ltp2 l2))
                    end
                | _ => Some ([], line1)
                end in
              match to with
              | None => if fixed then Some mm else None             (* "if ltp < 0 { continue }"; before: line[:-1] *)
              | Some (toEmail, toName) =>
                  let mm1 := if is_empty fromEmail then mm else sset mm fromEmail (toName, toEmail) in
                  let mm2 := if is_empty fromName then mm1 else sset mm1 fromName (toName, toEmail) in
                  Some mm2
              end
          end
    end.

Fixpoint parse_lines (fixed : bool) (mm : list mentry) (lines : list str) : option (list mentry) :=
  match lines with
  | [] => Some mm
  | l :: r => match parse_line fixed mm l with
              | None => None
              | Some mm' => parse_lines fixed mm' r
              end
  end.

Definition parse_mailmap (contents : str) : option (list mentry) := parse_lines true [] (split_lines contents).
Definition parse_mailmap_before_fix (contents : str) : option (list mentry) := parse_lines false [] (split_lines contents).

(* ---------- instances used by the replay driver ---------- *)
Definition gen_mm_ascii (mm_in_order : list mentry) (cs : list commit) : option (list (str * nat) * list str) :=
  generate_people_dict_mm lower_ascii id_order (fun l => l) mm_in_order cs.
Definition mm_dom_ascii := mm_domb lower_ascii.
Definition description_mm_ok_ascii := description_mm_okb lower_ascii.
