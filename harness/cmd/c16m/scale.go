// Scale stream of the merge harness: pairs of identity lists with 40, 255, 257, 10^3, 10^4 (thorough 10^5) entries in
// total, all inside the domain (no part in two entries of one list).  Above 80 identities the extracted model and
// oracles (high polynomial degree) are replaced by the driver's hash / union-find statement of the property.
//
//	scale-same    rd2 = rd1 permuted (every identity present twice: First and Second both set)
//	scale-chain   ONE component: entry j shares a part with entry j+1, alternating between the lists, in order / reversed /
//	              shuffled (the walk visits every vertex from one root; a merged description of n+1 parts)
//	scale-stars   components of 3..9 identities: one entry of rd1 holds k parts, k entries of rd2 hold one of them each plus
//	              an e-mail of their own
//	scale-apart   nothing merges (2n components)
package main

import (
	"fmt"
	"strings"

	. "verifharness/lib"
)

func scaleChainLists(c *Config, n int, shape int) ([]string, []string) {
	var l1, l2 []string
	for j := 0; j < n; j++ {
		e := fmt.Sprintf("p%d|p%d", j, j+1)
		if j%7 == 3 {
			e = fmt.Sprintf("p%d|m%d@x|p%d", j+1, j, j)
		}
		if j%2 == 0 {
			l1 = append(l1, e)
		} else {
			l2 = append(l2, e)
		}
	}
	switch shape {
	case 1:
		for i, j := 0, len(l1)-1; i < j; i, j = i+1, j-1 {
			l1[i], l1[j] = l1[j], l1[i]
		}
	case 2:
		l1, l2 = shuffled(c, l1), shuffled(c, l2)
	}
	return l1, l2
}

func scaleMerges(c *Config) {
	// 40: still replayed through the model; the larger ones are judged by the driver's own statement of the property
	sizes := []int{40, 255, 257, 1000, 10000}
	if c.Thorough() {
		sizes = append(sizes, 100000)
	}
	for si, n := range sizes {
		// same
		var l []string
		for i := 0; i < n; i++ {
			l = append(l, fmt.Sprintf("name %d|n%d@x", i, i))
		}
		emit(c, "dom-scale-same", l, shuffled(c, l))
		// chain
		l1, l2 := scaleChainLists(c, n, si%3)
		emit(c, "dom-scale-chain", l1, l2)
		// stars
		l1, l2 = nil, nil
		for g := 0; len(l1)+len(l2) < n; g++ {
			k := 2 + (g % 7)
			var parts []string
			for j := 0; j < k; j++ {
				p := fmt.Sprintf("s%d.%d", g, j)
				parts = append(parts, p)
				l2 = append(l2, fmt.Sprintf("%s|s%d.%d@x", p, g, j))
			}
			l1 = append(l1, strings.Join(parts, "|"))
		}
		emit(c, "dom-scale-stars", shuffled(c, l1), shuffled(c, l2))
		// apart
		l1, l2 = nil, nil
		for i := 0; i < n/2; i++ {
			l1 = append(l1, fmt.Sprintf("a%d|a%d@x", i, i))
			l2 = append(l2, fmt.Sprintf("b%d|b%d@x", i, i))
		}
		emit(c, "dom-scale-apart", l1, l2)
	}
}
