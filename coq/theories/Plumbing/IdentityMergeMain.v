(* Proofs about the model of MergeReversedDictsIdentities, part 2: under the hypothesis that no part
   occurs in two different entries of the same input list ([merge_domb rd1 rd2 = true]) the function
   groups the identities by the connected components of "shares a name or e-mail", every identity gets a
   merged index and its position pointers, and the merged descriptions are the unions of the components.
   Without the hypothesis the statements are false (IdentityMergeF7.v). *)
From Coq Require Import List ZArith Lia Bool Permutation Relations.
From Herc Require Import Plumbing.IdStr Plumbing.IdentityMerge Plumbing.IdentityMergeProofs.
Import ListNotations.
Local Open Scope Z_scope.

(* ---------- generalities ---------- *)
Lemma disjointb_spec vs : disjointb vs = true ->
  forall i j p, (i < length vs)%nat -> (j < length vs)%nat ->
  In p (nth i vs []) -> In p (nth j vs []) -> i = j.
Proof.
  induction vs as [|v r IH]; simpl; intros H i j p Hi Hj Hpi Hpj; [lia|].
  apply andb_true_iff in H. destruct H as [H1 H2]. rewrite forallb_forall in H1.
  assert (X : forall k, (k < length r)%nat -> In p v -> In p (nth k r []) -> False).
  { intros k Hk Hv Hr. specialize (H1 (nth k r []) (nth_In _ _ Hk)). apply negb_true_iff in H1.
    assert (existsb (fun p0 => smem p0 (nth k r [])) v = true); [|congruence].
    apply existsb_exists. exists p. split; [assumption|apply smem_In; assumption]. }
  destruct i as [|i], j as [|j]; try reflexivity.
  - exfalso. apply (X j); [lia|assumption|assumption].
  - exfalso. apply (X i); [lia|assumption|assumption].
  - f_equal. apply (IH H2 i j p); [lia|lia|assumption|assumption].
Qed.

Lemma nth_map_split (l : list str) n : (n < length l)%nat -> nth n (map split l) [] = split (nth n l []).
Proof.
  intros H. rewrite (nth_indep _ [] (split [])) by (rewrite map_length; assumption). apply map_nth.
Qed.

Lemma split_hd s : In (hd [] (split s)) (split s).
Proof. pose proof (split_nonempty s). destruct (split s); [congruence|left; reflexivity]. Qed.

Lemma disjoint_nodup rd : disjointb (map split rd) = true -> NoDup rd.
Proof.
  intros H. apply (NoDup_nth rd []). intros i j Hi Hj E.
  apply (disjointb_spec _ H i j (hd [] (split (nth i rd [])))); try (rewrite map_length; assumption).
  - rewrite nth_map_split by assumption. apply split_hd.
  - rewrite nth_map_split by assumption. rewrite <- E. apply split_hd.
Qed.

Lemma index_of_nth rd : NoDup rd -> forall n i, (n < length rd)%nat ->
  index_of (nth n rd []) rd i = i + Z.of_nat n.
Proof.
  induction rd as [|x r IH]; intros Hnd n i Hn; simpl in Hn; [lia|].
  inversion Hnd as [|? ? Hx Hr]; subst. destruct n as [|n]; cbn [nth index_of].
  - rewrite str_eqb_refl. lia.
  - assert (E : str_eqb x (nth n r []) = false).
    { apply str_eqb_neq. intros ->. apply Hx. apply nth_In. lia. }
    rewrite E, IH by (assumption || lia). lia.
Qed.

Lemma index_of_absent s rd : forall i, ~ In s rd -> index_of s rd i = -1.
Proof.
  induction rd as [|x r IH]; intros i H; simpl; [reflexivity|].
  assert (E : str_eqb x s = false) by (apply str_eqb_neq; intros ->; apply H; left; reflexivity).
  rewrite E. apply IH. intros H'. apply H. right. assumption.
Qed.

Lemma In_nth_ex {A} (l : list A) x d : In x l -> exists n, (n < length l)%nat /\ nth n l d = x.
Proof. intros H. destruct (In_nth l x d H) as [n [H1 H2]]. eauto. Qed.

(* position of the walk that contains a part *)
Fixpoint widx (walks : list (list str)) (p : str) : nat :=
  match walks with
  | [] => O
  | w :: r => if smem p w then O else S (widx r p)
  end.

Lemma widx_spec walks p : (exists w, In w walks /\ In p w) ->
  (widx walks p < length walks)%nat /\ In p (nth (widx walks p) walks []).
Proof.
  induction walks as [|w r IH]; intros [w0 [H1 H2]]; [destruct H1|]. simpl.
  destruct (smem p w) eqn:E; [apply smem_In in E; split; [lia|assumption]|].
  apply smem_nIn in E. destruct H1 as [->|H1]; [contradiction|].
  destruct IH as [I1 I2]; [eauto|]. split; [lia|assumption].
Qed.

Lemma sget_mset1 w a s1 idx s :
  sget (mset1 w a s1 idx) s =
  if str_eqb s1 s then Some (w, a, match sget idx s1 with None => -1 | Some mi => mi_second mi end)
  else sget idx s.
Proof. unfold mset1. destruct (sget idx s1); rewrite sget_sset; reflexivity. Qed.

Lemma sget_mset2 w b s2 idx s :
  sget (mset2 w b s2 idx) s =
  if str_eqb s2 s then Some (w, match sget idx s2 with None => -1 | Some mi => mi_first mi end, b)
  else sget idx s.
Proof. unfold mset2. destruct (sget idx s2); rewrite sget_sset; reflexivity. Qed.

(* sort_ids: a sorted permutation *)
Lemma sort_ids_In l p : In p (sort_ids l) <-> In p l.
Proof. apply isort_In. Qed.
Lemma sort_ids_NoDup l : NoDup l -> NoDup (sort_ids l).
Proof. apply isort_NoDup. Qed.

Section Main.
  Variable sel : list str -> list str.
  Hypothesis sel_perm : forall l, Permutation (sel l) l.
  Variables rd1 rd2 : list str.
  Hypothesis D : merge_domb rd1 rd2 = true.

  Let ids := rd1 ++ rd2.
  Let v1 := map split rd1.
  Let v2 := map split rd2.
  Let voc := build_voc v1 v2.
  Let U := concat v1 ++ concat v2.
  Let adjV (p q : str) : Prop := In q (succs_voc voc v1 v2 p).

  Lemma D1 : disjointb v1 = true.
  Proof. unfold merge_domb in D. apply andb_true_iff in D. apply D. Qed.
  Lemma D2 : disjointb v2 = true.
  Proof. unfold merge_domb in D. apply andb_true_iff in D. apply D. Qed.
  Lemma nodup1 : NoDup rd1. Proof. apply disjoint_nodup, D1. Qed.
  Lemma nodup2 : NoDup rd2. Proof. apply disjoint_nodup, D2. Qed.

  Lemma in_U p : In p U <-> exists u, In u ids /\ In p (split u).
  Proof.
    unfold U, ids, v1, v2. rewrite in_app_iff, !in_concat. split.
    - intros [[v [Hv Hp]]|[v [Hv Hp]]]; apply in_map_iff in Hv; destruct Hv as [u [<- Hu]];
        exists u; rewrite in_app_iff; auto.
    - intros [u [Hu Hp]]. apply in_app_iff in Hu. destruct Hu as [Hu|Hu]; [left|right];
        exists (split u); (split; [apply in_map; assumption|assumption]).
  Qed.

  (* under disjointness the vocabulary entry of a part is the position of THE identity containing it *)
  Lemma voc_owner1 i p : (i < length rd1)%nat -> In p (split (nth i rd1 [])) ->
    fst (voc_get voc p) = Z.of_nat i.
  Proof.
    intros Hi Hp. pose proof (build_voc_ok v1 v2 p) as K. fold voc in K. unfold voc_get.
    assert (Hv : In p (nth i v1 [])) by (unfold v1; rewrite nth_map_split; assumption).
    destruct (sget voc p) as [ip|].
    - destruct K as [[[_ K]|[Hr K]] _].
      + exfalso. apply (K (nth i v1 [])); [apply nth_In; unfold v1; rewrite map_length; assumption|assumption].
      + unfold vertex in K. destruct (Z.leb_spec 0 (fst ip)); [|lia].
        assert (Z.to_nat (fst ip) = i); [|lia].
        apply (disjointb_spec _ D1 _ _ p); try assumption; unfold v1 in *; rewrite map_length in *; lia.
    - exfalso. apply (K (nth i v1 [])); [|assumption]. apply in_app_iff. left.
      apply nth_In. unfold v1. rewrite map_length. assumption.
  Qed.

  Lemma voc_owner2 j p : (j < length rd2)%nat -> In p (split (nth j rd2 [])) ->
    snd (voc_get voc p) = Z.of_nat j.
  Proof.
    intros Hj Hp. pose proof (build_voc_ok v1 v2 p) as K. fold voc in K. unfold voc_get.
    assert (Hv : In p (nth j v2 [])) by (unfold v2; rewrite nth_map_split; assumption).
    destruct (sget voc p) as [ip|].
    - destruct K as [_ [[_ K]|[Hr K]]].
      + exfalso. apply (K (nth j v2 [])); [apply nth_In; unfold v2; rewrite map_length; assumption|assumption].
      + unfold vertex in K. destruct (Z.leb_spec 0 (snd ip)); [|lia].
        assert (Z.to_nat (snd ip) = j); [|lia].
        apply (disjointb_spec _ D2 _ _ p); try assumption; unfold v2 in *; rewrite map_length in *; lia.
    - exfalso. apply (K (nth j v2 [])); [|assumption]. apply in_app_iff. right.
      apply nth_In. unfold v2. rewrite map_length. assumption.
  Qed.

  (* a non-negative index stored for a part of the universe points to an identity that contains the part *)
  Lemma voc_points1 p : In p U -> 0 <= fst (voc_get voc p) ->
    (Z.to_nat (fst (voc_get voc p)) < length rd1)%nat /\
    In p (split (nth (Z.to_nat (fst (voc_get voc p))) rd1 [])).
  Proof.
    intros Hp Ha. pose proof (build_voc_ok v1 v2 p) as K. fold voc in K. unfold voc_get in *.
    destruct (sget voc p) as [ip|].
    - destruct K as [[[E _]|[Hr K]] _]; [lia|]. unfold v1 in Hr. rewrite map_length in Hr.
      split; [lia|]. unfold vertex in K. destruct (0 <=? fst ip); [|destruct K].
      unfold v1 in K. rewrite nth_map_split in K by lia. assumption.
    - exfalso. apply in_U in Hp. destruct Hp as [u [Hu Hp]].
      apply (K (split u)); [|assumption]. unfold ids in Hu. apply in_app_iff in Hu. apply in_app_iff.
      destruct Hu; [left|right]; apply in_map; assumption.
  Qed.

  Lemma voc_points2 p : In p U -> 0 <= snd (voc_get voc p) ->
    (Z.to_nat (snd (voc_get voc p)) < length rd2)%nat /\
    In p (split (nth (Z.to_nat (snd (voc_get voc p))) rd2 [])).
  Proof.
    intros Hp Ha. pose proof (build_voc_ok v1 v2 p) as K. fold voc in K. unfold voc_get in *.
    destruct (sget voc p) as [ip|].
    - destruct K as [_ [[E _]|[Hr K]]]; [lia|]. unfold v2 in Hr. rewrite map_length in Hr.
      split; [lia|]. unfold vertex in K. destruct (0 <=? snd ip); [|destruct K].
      unfold v2 in K. rewrite nth_map_split in K by lia. assumption.
    - exfalso. apply in_U in Hp. destruct Hp as [u [Hu Hp]].
      apply (K (split u)); [|assumption]. unfold ids in Hu. apply in_app_iff in Hu. apply in_app_iff.
      destruct Hu; [left|right]; apply in_map; assumption.
  Qed.

  (* no identity of the list contains the part when the stored index is negative *)
  Lemma voc_neg1 p s : In p U -> fst (voc_get voc p) < 0 -> In s rd1 -> ~ In p (split s).
  Proof.
    intros Hp Ha Hs Hps. destruct (In_nth_ex rd1 s [] Hs) as [i [Hi E]]. subst s.
    rewrite (voc_owner1 i p Hi Hps) in Ha. lia.
  Qed.
  Lemma voc_neg2 p s : In p U -> snd (voc_get voc p) < 0 -> In s rd2 -> ~ In p (split s).
  Proof.
    intros Hp Ha Hs Hps. destruct (In_nth_ex rd2 s [] Hs) as [i [Hi E]]. subst s.
    rewrite (voc_owner2 i p Hi Hps) in Ha. lia.
  Qed.

  (* the successors computed through the vocabulary are the true neighbours *)
  Lemma adjV_adjT p q : In p U -> (adjV p q <-> adjT ids p q).
  Proof.
    intros Hp. unfold adjV, succs_voc. rewrite in_app_iff. split.
    - intros [H|H].
      + unfold vertex in H. destruct (Z.leb_spec 0 (fst (voc_get voc p))) as [Ha|Ha]; [|destruct H].
        destruct (voc_points1 p Hp Ha) as [Hr Hin]. unfold v1 in H. rewrite nth_map_split in H by assumption.
        exists (nth (Z.to_nat (fst (voc_get voc p))) rd1 []). repeat split; try assumption.
        unfold ids. apply in_app_iff. left. apply nth_In. assumption.
      + unfold vertex in H. destruct (Z.leb_spec 0 (snd (voc_get voc p))) as [Ha|Ha]; [|destruct H].
        destruct (voc_points2 p Hp Ha) as [Hr Hin]. unfold v2 in H. rewrite nth_map_split in H by assumption.
        exists (nth (Z.to_nat (snd (voc_get voc p))) rd2 []). repeat split; try assumption.
        unfold ids. apply in_app_iff. right. apply nth_In. assumption.
    - intros [u [Hu [Hpu Hqu]]]. unfold ids in Hu. apply in_app_iff in Hu. destruct Hu as [Hu|Hu].
      + left. destruct (In_nth_ex rd1 u [] Hu) as [i [Hi E]]. subst u.
        rewrite (voc_owner1 i p Hi Hpu), vertex_nat. unfold v1. rewrite nth_map_split by assumption. assumption.
      + right. destruct (In_nth_ex rd2 u [] Hu) as [i [Hi E]]. subst u.
        rewrite (voc_owner2 i p Hi Hpu), vertex_nat. unfold v2. rewrite nth_map_split by assumption. assumption.
  Qed.

  Lemma reachV_reachT s : In s ids -> forall p, reach adjV (split s) p <-> reach (adjT ids) (split s) p.
  Proof.
    intros Hs. apply (reach_ext adjV (adjT ids) U).
    - intros p Hp. apply in_U. eauto.
    - intros p q _ H. eapply succs_voc_closed. exact H.
    - intros p q Hp. apply adjV_adjT. assumption.
  Qed.

  Lemma reachT_in_U s p : In s ids -> reach (adjT ids) (split s) p -> In p U.
  Proof.
    intros Hs H. induction H as [p Hp|p q H IH [u [Hu [_ Hq]]]]; apply in_U; eauto.
  Qed.

  Definition fuel := S (length U).

  Lemma walk_of_identity s : In s ids ->
    exists w, walk_from (succs_voc voc v1 v2) sel fuel (split s) = Some w /\ NoDup w /\
              forall p, In p w <-> reach (adjT ids) (split s) p.
  Proof.
    intros Hs.
    destruct (walk_from_spec (succs_voc voc v1 v2) sel sel_perm U (fun p _ => succs_voc_closed v1 v2 p)
                (split s) fuel) as [w [E [Hnd Hw]]].
    - intros p Hp. apply in_U. eauto.
    - unfold fuel. lia.
    - exists w. split; [assumption|]. split; [assumption|].
      intros p. rewrite Hw. apply reachV_reachT. assumption.
  Qed.

  (* ---------- the two visiting loops ---------- *)
  Record MInv (done : list str) (walks : list (list str)) (visited : list str) : Prop := {
    m_vis : forall p, In p visited <-> exists w, In w walks /\ In p w;
    m_comp : forall w, In w walks ->
             exists r, In r ids /\ NoDup w /\ forall p, In p w <-> reach (adjT ids) (split r) p;
    m_cover : forall s p, In s done -> In p (split s) -> In p visited;
    m_disj : forall i j p, (i < length walks)%nat -> (j < length walks)%nat ->
             In p (nth i walks []) -> In p (nth j walks []) -> i = j
  }.

  Lemma MInv_closed done walks visited w p q : MInv done walks visited ->
    In w walks -> In p w -> adjT ids p q -> In q w.
  Proof.
    intros I Hw Hp Hq. destruct (m_comp _ _ _ I w Hw) as [r [_ [_ Hr]]].
    apply Hr. eapply reach_step; [apply Hr; exact Hp|exact Hq].
  Qed.

  Lemma visit_one done walks visited s : MInv done walks visited -> In s ids ->
    exists walks' visited',
      visit_step (succs_voc voc v1 v2) sel fuel (Some (walks, visited)) (split s) = Some (walks', visited') /\
      MInv (done ++ [s]) walks' visited'.
  Proof.
    intros I Hs. unfold visit_step.
    destruct (existsb (fun p => smem p visited) (split s)) eqn:Ex.
    - (* skipped: the identity lies inside an earlier walk *)
      exists walks, visited. split; [reflexivity|].
      apply existsb_exists in Ex. destruct Ex as [p [Hp Hv]]. apply smem_In in Hv.
      destruct I as [Iv Ic Io Id]. constructor; try assumption.
      intros s' q Hs' Hq. apply in_app_iff in Hs'. destruct Hs' as [Hs'|[<-|[]]]; [eapply Io; eassumption|].
      apply Iv in Hv. destruct Hv as [w [Hw Hpw]]. apply Iv. exists w. split; [assumption|].
      destruct (Ic w Hw) as [r [_ [_ Hr]]]. apply Hr.
      eapply reach_step; [apply Hr; exact Hpw|]. exists s. auto.
    - destruct (walk_of_identity s Hs) as [w [E [Hnd Hw]]]. rewrite E.
      exists (walks ++ [w]), (visited ++ w). split; [reflexivity|].
      assert (Hfresh : forall p, In p w -> ~ In p visited).
      { intros p Hp Hv. apply Hw in Hp. destruct (reach_back ids _ _ Hp) as [p0 [Hp0 Hb]].
        apply (m_vis _ _ _ I) in Hv. destruct Hv as [w' [Hw' Hpw']].
        destruct (m_comp _ _ _ I w' Hw') as [r [_ [_ Hr]]].
        assert (In p0 visited) by (apply (m_vis _ _ _ I); exists w'; split; [assumption|]; apply Hr, Hb, Hr; assumption).
        assert (existsb (fun p => smem p visited) (split s) = true); [|congruence].
        apply existsb_exists. exists p0. split; [assumption|apply smem_In; assumption]. }
      constructor.
      + intros p. rewrite in_app_iff, (m_vis _ _ _ I). split.
        * intros [[w' [H1 H2]]|H]; [exists w'; rewrite in_app_iff; auto|].
          exists w. rewrite in_app_iff. simpl. auto.
        * intros [w' [H1 H2]]. apply in_app_iff in H1. destruct H1 as [H1|[<-|[]]]; eauto.
      + intros w' Hw'. apply in_app_iff in Hw'. destruct Hw' as [Hw'|[<-|[]]]; [apply (m_comp _ _ _ I); assumption|].
        exists s. auto.
      + intros s' q Hs' Hq. rewrite in_app_iff. apply in_app_iff in Hs'. destruct Hs' as [Hs'|[<-|[]]].
        * left. eapply (m_cover _ _ _ I); eassumption.
        * right. apply Hw. apply reach_root. assumption.
      + intros i j p. rewrite app_length. simpl. intros Hi Hj Hpi Hpj.
        assert (Hlast : forall k, (k < length walks)%nat -> In p (nth k walks []) -> In p w -> False).
        { intros k Hk H1 H2. apply (Hfresh p H2). apply (m_vis _ _ _ I). exists (nth k walks []).
          split; [apply nth_In; assumption|assumption]. }
        destruct (Nat.ltb_spec i (length walks)) as [Hi'|Hi'], (Nat.ltb_spec j (length walks)) as [Hj'|Hj'].
        * rewrite app_nth1 in Hpi, Hpj by assumption. eapply (m_disj _ _ _ I); eassumption.
        * exfalso. rewrite app_nth1 in Hpi by assumption.
          assert (j = length walks) by lia. subst j. rewrite app_nth2, Nat.sub_diag in Hpj by lia.
          eapply Hlast; eassumption.
        * exfalso. rewrite app_nth1 in Hpj by assumption.
          assert (i = length walks) by lia. subst i. rewrite app_nth2, Nat.sub_diag in Hpi by lia.
          eapply Hlast; eassumption.
        * lia.
  Qed.

  Lemma visit_many : forall l done walks visited, incl l ids -> MInv done walks visited ->
    exists walks' visited',
      fold_left (visit_step (succs_voc voc v1 v2) sel fuel) (map split l) (Some (walks, visited))
        = Some (walks', visited') /\ MInv (done ++ l) walks' visited'.
  Proof.
    induction l as [|s l IH]; intros done walks visited Hl I.
    - exists walks, visited. rewrite app_nil_r. auto.
    - cbn [map fold_left].
      destruct (visit_one done walks visited s I (Hl s (or_introl eq_refl))) as [w1 [vis1 [E I1]]].
      rewrite E. destruct (IH (done ++ [s]) w1 vis1) as [w2 [vis2 [E2 I2]]].
      + intros x Hx. apply Hl. right. assumption.
      + assumption.
      + exists w2, vis2. rewrite <- app_assoc in I2. auto.
  Qed.

  Lemma merge_walks_inv : exists walks visited,
    merge_walks sel rd1 rd2 = Some walks /\ MInv ids walks visited.
  Proof.
    set (step := visit_step (succs_voc voc v1 v2) sel fuel).
    assert (Em : merge_walks sel rd1 rd2 =
                 match fold_left step (map split rd2) (fold_left step (map split rd1) (Some ([], []))) with
                 | None => None
                 | Some (walks, _) => Some walks
                 end) by reflexivity.
    assert (I0 : MInv [] [] []).
    { constructor.
      - intros p. split; [intros []|intros [w [[] _]]].
      - intros w [].
      - intros s p [].
      - simpl. intros; lia. }
    destruct (visit_many rd1 [] [] [] (fun x H => in_or_app _ _ _ (or_introl H)) I0) as [w1 [vis1 [E1 I1]]].
    destruct (visit_many rd2 _ w1 vis1 (fun x H => in_or_app _ _ _ (or_intror H)) I1) as [w2 [vis2 [E2 I2]]].
    fold step in E1, E2. rewrite Em, E1, E2. exists w2, vis2. auto.
  Qed.

  (* ---------- consequences for a final state ---------- *)
  Section Final.
    Variables (walks : list (list str)) (visited : list str).
    Hypothesis I : MInv ids walks visited.

    Definition W (s : str) : nat := widx walks (hd [] (split s)).

    Lemma part_walk s p : In s ids -> In p (split s) ->
      (widx walks p < length walks)%nat /\ In p (nth (widx walks p) walks []).
    Proof.
      intros Hs Hp. apply widx_spec. apply (m_vis _ _ _ I). eapply (m_cover _ _ _ I); eassumption.
    Qed.

    Lemma widx_unique p i : (i < length walks)%nat -> In p (nth i walks []) -> widx walks p = i.
    Proof.
      intros Hi Hp.
      destruct (widx_spec walks p) as [H1 H2]; [exists (nth i walks []); split; [apply nth_In|]; assumption|].
      eapply (m_disj _ _ _ I); eassumption.
    Qed.

    Lemma parts_same_walk s p : In s ids -> In p (split s) -> widx walks p = W s.
    Proof.
      intros Hs Hp. unfold W. pose proof (split_hd s) as Hh.
      destruct (part_walk s _ Hs Hh) as [H1 H2].
      apply widx_unique; [assumption|].
      eapply (MInv_closed _ _ _ _ _ _ I); [apply nth_In; exact H1|exact H2|]. exists s. auto.
    Qed.

    Lemma W_range s : In s ids -> (W s < length walks)%nat.
    Proof. intros Hs. apply (part_walk s _ Hs (split_hd s)). Qed.

    Lemma W_connected s t : In s ids -> In t ids -> (W s = W t <-> connected ids s t).
    Proof.
      intros Hs Ht. split.
      - intros E. pose proof (W_range s Hs) as Hr.
        destruct (m_comp _ _ _ I (nth (W s) walks []) (nth_In _ _ Hr)) as [r [Hrid [_ Hw]]].
        assert (Hsr : connected ids r s).
        { eapply (reach_connected ids r Hrid); [|exact Hs|apply split_hd].
          apply Hw. apply (part_walk s _ Hs (split_hd s)). }
        assert (Htr : connected ids r t).
        { eapply (reach_connected ids r Hrid); [|exact Ht|apply split_hd].
          apply Hw. rewrite E. apply (part_walk t _ Ht (split_hd t)). }
        eapply rt_trans; [apply connected_sym; exact Hsr|exact Htr].
      - intros H. clear Hs Ht. induction H as [s t [Hs [Ht [p [Hps Hpt]]]]|s|s t u _ IH1 _ IH2].
        + rewrite <- (parts_same_walk s p Hs Hps). apply parts_same_walk; assumption.
        + reflexivity.
        + congruence.
    Qed.

    Lemma walk_parts w p : (w < length walks)%nat ->
      (In p (nth w walks []) <-> exists s, In s ids /\ W s = w /\ In p (split s)).
    Proof.
      intros Hw. split.
      - intros Hp. destruct (m_comp _ _ _ I (nth w walks []) (nth_In _ _ Hw)) as [r [Hr [_ Hc]]].
        assert (HU : In p U) by (eapply reachT_in_U; [exact Hr|apply Hc; assumption]).
        apply in_U in HU. destruct HU as [s [Hs Hps]]. exists s. split; [assumption|]. split; [|assumption].
        rewrite <- (parts_same_walk s p Hs Hps). apply widx_unique; assumption.
      - intros [s [Hs [<- Hp]]]. rewrite <- (parts_same_walk s p Hs Hp). apply (part_walk s p Hs Hp).
    Qed.

    Lemma walk_nonempty w : (w < length walks)%nat -> nth w walks [] <> [].
    Proof.
      intros Hw. destruct (m_comp _ _ _ I (nth w walks []) (nth_In _ _ Hw)) as [r [Hr [_ Hc]]].
      intros E. pose proof (proj2 (Hc (hd [] (split r))) (reach_root _ _ _ (split_hd r))) as H.
      rewrite E in H. destruct H.
    Qed.

    (* ---------- the index map ---------- *)
    Definition hitb (P : list str) (rd : list str) (s : str) : bool :=
      smem s rd && existsb (fun p => smem p P) (split s).

    Definition idx_spec (P : list str) (s : str) : option mindex :=
      if hitb P rd1 s || hitb P rd2 s
      then Some (Z.of_nat (W s), if hitb P rd1 s then index_of s rd1 0 else -1,
                                 if hitb P rd2 s then index_of s rd2 0 else -1)
      else None.

    Lemma hitb_snoc P key rd s :
      hitb (P ++ [key]) rd s = hitb P rd s || (smem s rd && smem key (split s)).
    Proof.
      unfold hitb. destruct (smem s rd); simpl; [|reflexivity].
      induction (split s) as [|q r IH]; simpl; [reflexivity|].
      rewrite IH. unfold smem at 1. rewrite existsb_app. simpl.
      fold (smem q P). rewrite (str_eqb_sym q key). rewrite orb_false_r.
      destruct (smem q P), (str_eqb key q), (existsb (fun p => smem p P) r), (smem key r); reflexivity.
    Qed.

    (* which identity of a list contains [key], as a boolean equation *)
    Lemma key_owner1 key s : In key U ->
      smem s rd1 && smem key (split s) =
      (0 <=? fst (voc_get voc key)) && str_eqb (nth (Z.to_nat (fst (voc_get voc key))) rd1 []) s.
    Proof.
      intros HU. destruct (Z.leb_spec 0 (fst (voc_get voc key))) as [Ha|Ha]; simpl.
      - destruct (voc_points1 key HU Ha) as [Hr Hin].
        destruct (str_eqb_spec (nth (Z.to_nat (fst (voc_get voc key))) rd1 []) s) as [<-|Hne].
        + apply andb_true_iff. split; apply smem_In; [apply nth_In|]; assumption.
        + apply andb_false_iff. destruct (smem s rd1) eqn:E1; [right|left; reflexivity].
          apply smem_nIn. intros Hk. apply smem_In in E1.
          destruct (In_nth_ex rd1 s [] E1) as [i [Hi E]]. subst s.
          pose proof (voc_owner1 i key Hi Hk) as Ho. apply Hne. f_equal. lia.
      - apply andb_false_iff. destruct (smem s rd1) eqn:E1; [right|left; reflexivity].
        apply smem_nIn. apply smem_In in E1. apply voc_neg1; assumption.
    Qed.

    Lemma key_owner2 key s : In key U ->
      smem s rd2 && smem key (split s) =
      (0 <=? snd (voc_get voc key)) && str_eqb (nth (Z.to_nat (snd (voc_get voc key))) rd2 []) s.
    Proof.
      intros HU. destruct (Z.leb_spec 0 (snd (voc_get voc key))) as [Ha|Ha]; simpl.
      - destruct (voc_points2 key HU Ha) as [Hr Hin].
        destruct (str_eqb_spec (nth (Z.to_nat (snd (voc_get voc key))) rd2 []) s) as [<-|Hne].
        + apply andb_true_iff. split; apply smem_In; [apply nth_In|]; assumption.
        + apply andb_false_iff. destruct (smem s rd2) eqn:E1; [right|left; reflexivity].
          apply smem_nIn. intros Hk. apply smem_In in E1.
          destruct (In_nth_ex rd2 s [] E1) as [i [Hi E]]. subst s.
          pose proof (voc_owner2 i key Hi Hk) as Ho. apply Hne. f_equal. lia.
      - apply andb_false_iff. destruct (smem s rd2) eqn:E1; [right|left; reflexivity].
        apply smem_nIn. apply smem_In in E1. apply voc_neg2; assumption.
    Qed.

    Lemma index_key_spec P idx w key : (w < length walks)%nat -> In key (nth w walks []) ->
      (forall s, sget idx s = idx_spec P s) ->
      forall s, sget (index_key rd1 rd2 voc (Z.of_nat w) idx key) s = idx_spec (P ++ [key]) s.
    Proof.
      intros Hw Hkey J s.
      assert (HU : In key U).
      { destruct (proj1 (walk_parts w key Hw) Hkey) as [u [Hu [_ Hp]]]. apply in_U. eauto. }
      set (a := fst (voc_get voc key)). set (b := snd (voc_get voc key)).
      set (s1 := nth (Z.to_nat a) rd1 []). set (s2 := nth (Z.to_nat b) rd2 []).
      (* facts about the two identities the key points to *)
      assert (F1 : 0 <= a -> Z.of_nat (W s1) = Z.of_nat w /\ index_of s1 rd1 0 = a /\ In s1 rd1).
      { intros Ha. destruct (voc_points1 key HU Ha) as [Hr Hin]. fold a s1 in Hr, Hin.
        assert (Hs1 : In s1 ids) by (apply in_app_iff; left; apply nth_In; assumption).
        split; [|split].
        - f_equal. rewrite <- (parts_same_walk s1 key Hs1 Hin). apply widx_unique; assumption.
        - unfold s1. rewrite index_of_nth by (apply nodup1 || assumption). lia.
        - apply nth_In. assumption. }
      assert (F2 : 0 <= b -> Z.of_nat (W s2) = Z.of_nat w /\ index_of s2 rd2 0 = b /\ In s2 rd2).
      { intros Hb. destruct (voc_points2 key HU Hb) as [Hr Hin]. fold b s2 in Hr, Hin.
        assert (Hs2 : In s2 ids) by (apply in_app_iff; right; apply nth_In; assumption).
        split; [|split].
        - f_equal. rewrite <- (parts_same_walk s2 key Hs2 Hin). apply widx_unique; assumption.
        - unfold s2. rewrite index_of_nth by (apply nodup2 || assumption). lia.
        - apply nth_In. assumption. }
      unfold idx_spec. rewrite !hitb_snoc, (key_owner1 key s HU), (key_owner2 key s HU).
      fold a b s1 s2. unfold index_key. fold a b s1 s2.
      pose proof (J s) as Js. pose proof (J s1) as Js1. pose proof (J s2) as Js2.
      unfold idx_spec in Js, Js1, Js2.
      destruct (Z.leb_spec 0 a) as [Ha|Ha]; destruct (Z.leb_spec 0 b) as [Hb|Hb]; cbn [andb].
      - destruct (F1 Ha) as [Fw1 [Fi1 Fin1]]. destruct (F2 Hb) as [Fw2 [Fi2 Fin2]].
        rewrite sget_mset2, !sget_mset1.
        destruct (str_eqb_spec s1 s) as [E1|E1]; destruct (str_eqb_spec s2 s) as [E2|E2].
        + (* the same string in both lists *)
          rewrite <- E1 in *. rewrite E2. rewrite str_eqb_refl. rewrite !orb_true_r. cbn [orb].
          rewrite E2 in *. rewrite Fw1, Fi1, Fi2. reflexivity.
        + rewrite <- E1 in *. rewrite orb_true_r, orb_false_r. cbn [orb]. rewrite Fw1, Fi1.
          rewrite Js. destruct (hitb P rd1 s1), (hitb P rd2 s1); reflexivity.
        + rewrite <- E2 in *. rewrite orb_true_r, orb_false_r.
          assert (E3 : str_eqb s1 s2 = false) by (apply str_eqb_neq; assumption). rewrite E3.
          rewrite Fw2, Fi2. rewrite Js.
          destruct (hitb P rd1 s2), (hitb P rd2 s2); cbn [orb]; reflexivity.
        + rewrite !orb_false_r. assumption.
      - destruct (F1 Ha) as [Fw1 [Fi1 Fin1]]. rewrite sget_mset1, !orb_false_r.
        destruct (str_eqb_spec s1 s) as [E1|E1].
        + rewrite <- E1 in *. rewrite orb_true_r. cbn [orb]. rewrite Fw1, Fi1. rewrite Js.
          destruct (hitb P rd1 s1), (hitb P rd2 s1); reflexivity.
        + rewrite !orb_false_r. assumption.
      - destruct (F2 Hb) as [Fw2 [Fi2 Fin2]]. rewrite sget_mset2, !orb_false_r.
        destruct (str_eqb_spec s2 s) as [E2|E2].
        + rewrite <- E2 in *. rewrite orb_true_r. rewrite Fw2, Fi2. rewrite Js.
          destruct (hitb P rd1 s2), (hitb P rd2 s2); cbn [orb]; reflexivity.
        + rewrite !orb_false_r. assumption.
      - rewrite !orb_false_r. assumption.
    Qed.

    Lemma index_keys_spec w : (w < length walks)%nat -> forall keys P idx,
      incl keys (nth w walks []) -> (forall s, sget idx s = idx_spec P s) ->
      forall s, sget (fold_left (index_key rd1 rd2 voc (Z.of_nat w)) keys idx) s = idx_spec (P ++ keys) s.
    Proof.
      intros Hw. induction keys as [|k keys IH]; intros P idx Hk J s; cbn [fold_left].
      - rewrite app_nil_r. apply J.
      - replace (P ++ k :: keys) with ((P ++ [k]) ++ keys) by (rewrite <- app_assoc; reflexivity).
        apply IH; [intros x Hx; apply Hk; right; assumption|].
        apply index_key_spec; [assumption|apply Hk; left; reflexivity|assumption].
    Qed.

    Lemma index_walks_spec : forall rest pre idx merged,
      walks = pre ++ rest ->
      (forall s, sget idx s = idx_spec (concat (map sort_ids pre)) s) ->
      merged = map (fun wk => join (sort_ids wk)) pre ->
      let res := index_walks rd1 rd2 voc (Z.of_nat (length pre)) rest (idx, merged) in
      (forall s, sget (fst res) s = idx_spec (concat (map sort_ids walks)) s) /\
      snd res = map (fun wk => join (sort_ids wk)) walks.
    Proof.
      induction rest as [|wk rest IH]; intros pre idx merged Hw J Hm; cbn [index_walks].
      - rewrite app_nil_r in Hw. subst pre. cbn [fst snd]. auto.
      - cbn [fst snd].
        replace (Z.of_nat (length pre) + 1) with (Z.of_nat (length (pre ++ [wk]))) by (rewrite app_length; simpl; lia).
        apply IH.
        + rewrite <- app_assoc. assumption.
        + rewrite map_app, concat_app. cbn [map concat]. rewrite app_nil_r.
          assert (Hl : (length pre < length walks)%nat) by (rewrite Hw, app_length; simpl; lia).
          apply index_keys_spec; [assumption| |assumption].
          intros x Hx. apply (proj1 (sort_ids_In _ _)) in Hx. rewrite Hw, app_nth2 by lia. rewrite Nat.sub_diag. exact Hx.
        + rewrite map_app, Hm. reflexivity.
    Qed.

    (* after all walks every part has been processed *)
    Lemma hitb_all rd s : incl rd ids -> hitb (concat (map sort_ids walks)) rd s = smem s rd.
    Proof.
      intros Hrd. unfold hitb. destruct (smem s rd) eqn:E; [|reflexivity]. simpl.
      apply smem_In in E. apply existsb_exists. exists (hd [] (split s)). split; [apply split_hd|].
      apply smem_In. apply in_concat.
      destruct (part_walk s _ (Hrd s E) (split_hd s)) as [H1 H2].
      exists (sort_ids (nth (widx walks (hd [] (split s))) walks [])). split.
      - apply in_map. apply nth_In. assumption.
      - apply sort_ids_In. assumption.
    Qed.

    Lemma hitb_nil rd s : hitb [] rd s = false.
    Proof.
      unfold hitb. replace (existsb (fun p => smem p []) (split s)) with false; [apply andb_false_r|].
      induction (split s); simpl; auto.
    Qed.

    Lemma final_index idx merged :
      index_walks rd1 rd2 voc 0 walks ([], []) = (idx, merged) ->
      (forall s, sget idx s = if smem s rd1 || smem s rd2
                              then Some (Z.of_nat (W s), index_of s rd1 0, index_of s rd2 0) else None) /\
      merged = map (fun wk => join (sort_ids wk)) walks.
    Proof.
      intros E.
      assert (J0 : forall s, sget (@nil (str * mindex)) s = idx_spec (concat (map sort_ids [])) s).
      { intros s. unfold idx_spec. cbn [map concat]. rewrite !hitb_nil. reflexivity. }
      pose proof (index_walks_spec walks [] [] [] eq_refl J0 eq_refl) as H.
      cbn [length Z.of_nat] in H. rewrite E in H. cbn [fst snd] in H. destruct H as [H1 H2].
      split; [|assumption]. intros s. rewrite H1. unfold idx_spec.
      rewrite (hitb_all rd1 s) by (intros x Hx; apply in_app_iff; auto).
      rewrite (hitb_all rd2 s) by (intros x Hx; apply in_app_iff; auto).
      destruct (smem s rd1) eqn:E1, (smem s rd2) eqn:E2; cbn [orb]; try reflexivity.
      - apply smem_nIn in E2. rewrite (index_of_absent s rd2 0 E2). reflexivity.
      - apply smem_nIn in E1. rewrite (index_of_absent s rd1 0 E1). reflexivity.
    Qed.
  End Final.
End Main.
