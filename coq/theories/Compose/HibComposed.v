(* Composition C04 + C06 -> C09: the theorems of C09 with
     - the plan hypothesis [lifecycle_ok_h p = true] discharged for p = the translation of an output of the
       model of insertHibernateBoot ([insert_hb], C04_hib) on a lifecycle-sound input plan, and
     - the three item hypotheses discharged for the allocator-backed item of Compose/AllocItem.v (C06).
   What remains: the LZ4 hypotheses (C06's [lz4_ok]; [lz4_small] only for blocks of fewer than 2^32 words), the hypotheses on the temp-file names ([io_name] injective,
   fresh), and - for the erasure statement - that all I/O succeeds and nobody touches the files. *)
From Coq Require Import List NArith ZArith Bool.
From Herc Require Import Hibernation.Model Hibernation.Inv Hibernation.Erasure Hibernation.Theorems
     Hibernation.Faults Hibernation.Surface.
From Herc Require Import Compose.PlanHib Compose.AllocItem.
From Herc Require Plan.Syntax Plan.Lifecycle Plan.Hibernate Plan.HibernateProofs.
Import ListNotations.
Open Scope Z_scope.

Section Composed.
  Variable lz4c : list N -> list N.
  Variable lz4d : list N -> nat -> list N.
  Hypothesis lz4_ok : forall l, l <> [] -> lz4c l <> [] /\ lz4d (lz4c l) (length l) = l.
  Hypothesis lz4_small : forall l, (N.of_nat (length l) < 2 ^ 32)%N -> (N.of_nat (length (lz4c l)) < 2 ^ 63)%N.
  Variables P R : Type.
  Variable cons : N -> N -> bool -> AllocItem.S P -> result (AllocItem.S P).
  Variable cl : AllocItem.S P -> AllocItem.S P.
  Variable mg : list (AllocItem.S P) -> result (list (AllocItem.S P)).
  Variable fin : AllocItem.S P -> result R.
  Variable ini : AllocItem.S P.

  Let o := alloc_ops lz4c lz4d P R cons cl mg fin ini.

  Let A1 : forall s, size o s <> 0 -> decompress o (compress o s) = s :=
    item_boot_hibernate lz4c lz4d lz4_ok lz4_small P.
  Let A2 : forall h, decode o (strip o h) (encode o h) = Some h := item_file_roundtrip P.
  Let A3 : forall h j, (j < length (encode o h))%nat -> decode o (strip o h) (firstn j (encode o h)) = None :=
    item_truncation_detected P.

  Variable cfg : config.
  Variable io : nat -> io_choice.
  Variable adv : nat -> list tamper.
  Variable fs0 : list (N * list N).
  Hypothesis names_inj : forall i j, io_name (io i) = io_name (io j) -> i = j.
  Hypothesis names_fresh : forall i, fs_mem (io_name (io i)) fs0 = false.

  Variable p0 : list Plan.Syntax.action.
  Variable d : Z.
  Hypothesis L0 : Plan.Lifecycle.lifecycle_ok p0.
  Hypothesis F0 : Forall Plan.HibernateProofs.hb_kind p0.

  Let p := fwd_plan (Plan.Hibernate.insert_hb p0 d).

  Lemma p_ok : lifecycle_ok_h p = true.
  Proof. exact (proj1 (insert_hb_fwd p0 d L0 F0)). Qed.
  Lemma p_erase : erase_hb p = fwd_plan p0.
  Proof. exact (proj2 (insert_hb_fwd p0 d L0 F0)). Qed.

  Theorem erasure_composed (cfg0 : config) (io0 : nat -> io_choice) (adv0 : nat -> list tamper)
          (fs00 : list (N * list N)) :
    (forall i, io_result (io i) = IoOk) -> (forall i, adv i = []) ->
    outcome (run o cfg io adv p fs0) = outcome (run o cfg0 io0 adv0 (fwd_plan p0) fs00).
  Proof.
    intros Hio Hadv. rewrite <- p_erase.
    exact (erasure o A1 A2 A3 cfg io adv fs0 names_inj names_fresh cfg0 io0 adv0 p fs00 Hio Hadv p_ok).
  Qed.

  Theorem faults_composed (cfg0 : config) (io0 : nat -> io_choice) (adv0 : nat -> list tamper)
          (fs00 : list (N * list N)) :
    (outcome (run o cfg io adv p fs0) = outcome (run o cfg0 io0 adv0 (fwd_plan p0) fs00) \/
     exists e, outcome (run o cfg io adv p fs0) = Err e /\ io_err e = true) /\
    (forall r, outcome (run o cfg io adv p fs0) = Ok r ->
               outcome (run o cfg0 io0 adv0 (fwd_plan p0) fs00) = Ok r).
  Proof.
    rewrite <- p_erase. split.
    - exact (faults_dichotomy o A1 A2 A3 cfg io adv fs0 names_inj names_fresh cfg0 io0 adv0 p fs00 p_ok).
    - intros r Hr.
      exact (never_another_result o A1 A2 A3 cfg io adv fs0 names_inj names_fresh cfg0 io0 adv0 p fs00 r p_ok Hr).
  Qed.

  Theorem damaged_file_composed (n : nat) (done rest : list action) (st : rstate) :
    exec_n o cfg io adv n [] p (start fs0) = Some (done, rest, st) ->
    (exists b k m h, tget b (br st) = Some (HibDisk k m) /\ strip o h = k /\
                     damaged o (apply_tampers (fs st) (adv n)) m h) ->
    forall r, outcome (run o cfg io adv p fs0) <> Ok r.
  Proof.
    exact (damaged_file_surfaces o A1 A2 A3 cfg io adv fs0 names_inj names_fresh p n done rest st p_ok).
  Qed.

  Theorem no_leftover_composed (r : option R) :
    outcome (run o cfg io adv p fs0) = Ok r ->
    forall n, fs_mem n (files_left (run o cfg io adv p fs0)) = true -> fs_mem n fs0 = true.
  Proof.
    exact (no_leftover o A1 A2 A3 cfg io adv fs0 names_inj names_fresh cfg io adv p r p_ok).
  Qed.
End Composed.
