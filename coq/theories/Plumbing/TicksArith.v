(* C19 - arithmetic facts about the model of package time and FloorTime (Ticks.v). *)
From Coq Require Import ZArith List Bool Lia Znumtheory.
From Herc Require Import Plumbing.Ticks.
Import ListNotations.
Open Scope Z_scope.

(* ------------------------------------------------------------------ FloorTime *)

Lemma floor_time_eq : forall t d, 0 < d -> floor_time t d = d * (t / d).
Proof.
  intros t d Hd. unfold floor_time, time_round.
  destruct (Z.leb_spec d 0) as [Hle|_]; [lia|].
  pose proof (Z.mod_pos_bound t d Hd) as Hr.
  pose proof (Z.div_mod t d ltac:(lia)) as Hdm.
  destruct (Z.ltb_spec (t mod d + t mod d) d) as [Hhalf|Hhalf].
  - destruct (Z.ltb_spec t (t - t mod d)) as [Hlt|_]; lia.
  - destruct (Z.ltb_spec t (t + (d - t mod d))) as [_|Hge]; lia.
Qed.

Lemma floor_time_nonpos : forall t d, d <= 0 -> floor_time t d = t.
Proof.
  intros t d Hd. unfold floor_time, time_round.
  destruct (Z.leb_spec d 0) as [_|Hgt]; [|lia].
  destruct (Z.ltb_spec t t); lia.
Qed.

Lemma floor_time_bounds : forall t d, 0 < d -> floor_time t d <= t < floor_time t d + d.
Proof.
  intros t d Hd. rewrite (floor_time_eq t d Hd).
  pose proof (Z.mod_pos_bound t d Hd). pose proof (Z.div_mod t d ltac:(lia)). lia.
Qed.

Lemma floor_time_greatest : forall t d m, 0 < d -> (d | m) -> m <= t -> m <= floor_time t d.
Proof.
  intros t d m Hd [q Hq] Hle. rewrite (floor_time_eq t d Hd). subst m.
  assert (q <= t / d) by (apply Z.div_le_lower_bound; lia).
  nia.
Qed.

Lemma floor_time_spec : forall t d, 0 < d ->
  (d | floor_time t d) /\ floor_time t d <= t < floor_time t d + d /\
  (forall m, (d | m) -> m <= t -> m <= floor_time t d).
Proof.
  intros t d Hd. split; [|split].
  - rewrite (floor_time_eq t d Hd). exists (t / d). lia.
  - apply floor_time_bounds; exact Hd.
  - intros m. apply floor_time_greatest; exact Hd.
Qed.

(* the oracle used by the replay driver is exactly the specification *)
Lemma floor_ok_iff : forall t d r, 0 < d -> floor_ok t d r = true <-> r = d * (t / d).
Proof.
  intros t d r Hd. unfold floor_ok. rewrite !andb_true_iff, Z.eqb_eq, Z.leb_le, Z.ltb_lt. split.
  - intros [[Hm Hle] Hlt].
    assert (Hr : r = d * (r / d)) by (pose proof (Z.div_mod r d ltac:(lia)); lia).
    assert (r / d = t / d); [|congruence].
    apply Z.div_unique with (r := t - r); lia.
  - intros ->. pose proof (Z.mod_pos_bound t d Hd). pose proof (Z.div_mod t d ltac:(lia)).
    repeat split; try lia. rewrite Z.mul_comm. apply Z.mod_mul. lia.
Qed.

(* the number of whole periods between the start of the first commit's period and t is the
   difference of the period numbers *)
Lemma periods_between : forall t first d, 0 < d ->
  (t - spec_t0 first d) / d = t / d - first / d.
Proof.
  intros t first d Hd. unfold spec_t0.
  replace (t - d * (first / d)) with (t + (- (first / d)) * d) by ring.
  rewrite Z.div_add by lia. ring.
Qed.

(* tick numbering does not depend on where the time scale has its origin relative to the period
   grid: moving the first commit and the commit by the same whole number of periods changes nothing,
   and a commit k whole periods later is k periods further on (negative k included) *)
Lemma periods_shift_invariant : forall t first d k, 0 < d ->
  (t + k * d - spec_t0 (first + k * d) d) / d = (t - spec_t0 first d) / d.
Proof.
  intros t first d k Hd. rewrite !periods_between by exact Hd.
  rewrite !Z.div_add by lia. ring.
Qed.

Lemma periods_additive : forall t first d k, 0 < d ->
  (t + k * d - spec_t0 first d) / d = (t - spec_t0 first d) / d + k.
Proof.
  intros t first d k Hd. rewrite !periods_between by exact Hd.
  rewrite Z.div_add by lia. ring.
Qed.

(* the start of the first period is itself translated with the first commit: t0 is anchored to the
   period grid of the time scale's zero, not to the first commit *)
Lemma spec_t0_shift : forall first d k, 0 < d -> spec_t0 (first + k * d) d = spec_t0 first d + k * d.
Proof.
  intros first d k Hd. unfold spec_t0. rewrite Z.div_add by lia. ring.
Qed.

(* shifting by anything that is NOT a whole number of periods can change the numbering: the grid is
   the one of the zero time (this is what an implementation counting periods from another epoch gets
   wrong whenever the two epochs are not a whole number of periods apart) *)
Lemma periods_shift_not_invariant :
  exists t first d e, 0 < d /\ (t + e - spec_t0 (first + e) d) / d <> (t - spec_t0 first d) / d.
Proof. exists 10, 9, 10, 1. split; [lia|]. vm_compute. discriminate. Qed.

(* ------------------------------------------------------------------ Time.Sub, int64 *)

Lemma time_sub_bounds : forall t u, min_duration <= time_sub t u <= max_duration.
Proof.
  intros t u. unfold time_sub.
  destruct (Z.leb_spec min_duration (t - u)), (Z.leb_spec (t - u) max_duration); cbn [andb];
    try destruct (Z.ltb_spec t u); unfold min_duration, max_duration in *; lia.
Qed.

Lemma time_sub_in_range : forall t0 t, in_range t0 t = true -> time_sub t t0 = t - t0.
Proof.
  intros t0 t H. unfold in_range in H. unfold time_sub. rewrite H. reflexivity.
Qed.

Lemma time_sub_above : forall t u, max_duration < t - u -> time_sub t u = max_duration.
Proof.
  intros t u H. unfold time_sub.
  destruct (Z.leb_spec (t - u) max_duration); [lia|]. rewrite andb_false_r.
  destruct (Z.ltb_spec t u); [unfold max_duration in *; lia|reflexivity].
Qed.

Lemma time_sub_below : forall t u, t - u < min_duration -> time_sub t u = min_duration.
Proof.
  intros t u H. unfold time_sub.
  destruct (Z.leb_spec min_duration (t - u)); [lia|]. cbn [andb].
  destruct (Z.ltb_spec t u); [reflexivity|unfold min_duration in *; lia].
Qed.

Lemma time_sub_mono : forall t t' u, t <= t' -> time_sub t u <= time_sub t' u.
Proof.
  intros t t' u H.
  destruct (Z_lt_le_dec (t - u) min_duration) as [A|A].
  - rewrite (time_sub_below t u A). apply time_sub_bounds.
  - destruct (Z_lt_le_dec max_duration (t' - u)) as [B|B].
    + rewrite (time_sub_above t' u B). apply time_sub_bounds.
    + destruct (Z_lt_le_dec max_duration (t - u)) as [C|C]; [lia|].
      destruct (Z_lt_le_dec (t' - u) min_duration) as [D|D]; [lia|].
      rewrite (time_sub_in_range u t), (time_sub_in_range u t'); [lia| |];
        unfold in_range; rewrite andb_true_iff, !Z.leb_le; lia.
Qed.

Lemma time_sub_nonneg : forall t u, u <= t -> 0 <= time_sub t u.
Proof.
  intros t u H. pose proof (time_sub_mono u t u H) as M.
  rewrite (time_sub_in_range u u) in M; [lia|].
  unfold in_range, min_duration, max_duration. rewrite Z.sub_diag. reflexivity.
Qed.

Lemma time_sub_nonpos : forall t u, t <= u -> time_sub t u <= 0.
Proof.
  intros t u H. pose proof (time_sub_mono t u u H) as M.
  rewrite (time_sub_in_range u u) in M; [lia|].
  unfold in_range, min_duration, max_duration. rewrite Z.sub_diag. reflexivity.
Qed.

Lemma wrap64_id : forall x, - 2 ^ 63 <= x < 2 ^ 63 -> wrap64 x = x.
Proof.
  intros x H. unfold wrap64. rewrite Z.mod_small; lia.
Qed.

Lemma div_le_self : forall y d, 0 < d -> 0 <= y -> 0 <= y / d <= y.
Proof.
  intros y d Hd Hy. split; [apply Z.div_pos; lia|].
  destruct (Z.eq_dec y 0) as [->|]; [rewrite Z.div_0_l; lia|].
  destruct (Z.eq_dec d 1) as [->|]; [rewrite Z.div_1_r; lia|].
  apply Z.lt_le_incl. apply Z.div_lt; lia.
Qed.

Lemma quot_bounds : forall x d, 0 < d -> (0 <= x -> 0 <= Z.quot x d <= x) /\ (x <= 0 -> x <= Z.quot x d <= 0).
Proof.
  intros x d Hd. split; intros Hx.
  - rewrite Z.quot_div_nonneg by lia. apply div_le_self; lia.
  - remember (- x) as y eqn:Hy. assert (Hx' : x = - y) by lia. rewrite Hx'.
    rewrite Z.quot_opp_l by lia. rewrite Z.quot_div_nonneg by lia.
    pose proof (div_le_self y d Hd ltac:(lia)). lia.
Qed.

(* with a positive tick size the int conversion of the quotient never wraps *)
Lemma raw_tick_pos : forall t0 d t, 0 < d -> raw_tick t0 d t = elapsed_ticks t0 d t.
Proof.
  intros t0 d t Hd. unfold raw_tick, elapsed_ticks.
  pose proof (time_sub_bounds t t0) as B. pose proof (quot_bounds (time_sub t t0) d Hd) as [Q1 Q2].
  apply wrap64_id. unfold min_duration, max_duration in B.
  destruct (Z_le_gt_dec 0 (time_sub t t0)); [specialize (Q1 ltac:(lia))|specialize (Q2 ltac:(lia))]; lia.
Qed.

Lemma elapsed_mono : forall t0 d t t', 0 < d -> t <= t' -> elapsed_ticks t0 d t <= elapsed_ticks t0 d t'.
Proof.
  intros t0 d t t' Hd H. unfold elapsed_ticks. apply Z.quot_le_mono; [exact Hd|].
  apply time_sub_mono; exact H.
Qed.

Lemma elapsed_nonneg : forall t0 d t, 0 < d -> t0 <= t -> 0 <= elapsed_ticks t0 d t.
Proof.
  intros t0 d t Hd H. unfold elapsed_ticks.
  apply (quot_bounds (time_sub t t0) d Hd). apply time_sub_nonneg; exact H.
Qed.

Lemma elapsed_nonpos : forall t0 d t, 0 < d -> t <= t0 -> elapsed_ticks t0 d t <= 0.
Proof.
  intros t0 d t Hd H. unfold elapsed_ticks.
  apply (quot_bounds (time_sub t t0) d Hd). apply time_sub_nonpos; exact H.
Qed.

(* the first analysed commit lies in period 0 *)
Lemma elapsed_first : forall t d, 0 < d -> elapsed_ticks (floor_time t d) d t = 0.
Proof.
  intros t d Hd. unfold elapsed_ticks. pose proof (floor_time_bounds t d Hd) as B.
  apply Z.quot_small. split; [apply time_sub_nonneg; lia|].
  destruct (Z_lt_le_dec max_duration (t - floor_time t d)) as [A|A].
  - rewrite (time_sub_above _ _ A). lia.
  - rewrite time_sub_in_range; [lia|]. unfold in_range, min_duration.
    rewrite andb_true_iff, !Z.leb_le. lia.
Qed.

Lemma elapsed_in_range : forall t0 d t, in_range t0 t = true -> elapsed_ticks t0 d t = Z.quot (t - t0) d.
Proof.
  intros t0 d t H. unfold elapsed_ticks. rewrite (time_sub_in_range _ _ H). reflexivity.
Qed.

(* truncation versus flooring makes no difference once the result is raised to a tick >= 0 *)
Lemma max_quot_div : forall p x d, 0 < d -> 0 <= p -> Z.max p (Z.quot x d) = Z.max p (x / d).
Proof.
  intros p x d Hd Hp. destruct (Z_le_gt_dec 0 x) as [Hx|Hx].
  - rewrite Z.quot_div_nonneg by lia. reflexivity.
  - pose proof (quot_bounds x d Hd) as [_ Q]. specialize (Q ltac:(lia)).
    assert (x / d < 0) by (apply Z.div_lt_upper_bound; lia). lia.
Qed.

Lemma spec_tick_sat_in_range : forall t0 d p t, 0 < d -> 0 <= p -> in_range t0 t = true ->
  spec_tick_sat t0 d p t = spec_tick t0 d p t.
Proof.
  intros t0 d p t Hd Hp H. unfold spec_tick_sat, spec_tick.
  rewrite (time_sub_in_range _ _ H). apply max_quot_div; assumption.
Qed.

Lemma initialize_nonzero : forall d, initialize d <> 0.
Proof.
  intros d. unfold initialize. destruct (Z.eqb_spec d 0); [discriminate|assumption].
Qed.
