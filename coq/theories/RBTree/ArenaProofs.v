(* The derived parent links of the arena image are consistent with the left/right links, and the
   snapshot oracle is sound. *)
From Coq Require Import List ZArith Lia Bool.
Import ListNotations.
From Herc Require Import RBTree.Model RBTree.Spec RBTree.Arena RBTree.InsertProofs RBTree.MapProofs
  RBTree.LookupProofs RBTree.HeightProofs.
Open Scope Z_scope.

(* every cell's children name it as their parent; every cell but the root hangs below a cell that
   names it as a child; only the root has parent 0 *)
Definition links_consistent (root : Z) (a : list (Z * cell)) : Prop :=
  forall i c, In (i, c) a ->
    (cleft c <> 0 -> exists c', In (cleft c, c') a /\ cparent c' = i) /\
    (cright c <> 0 -> exists c', In (cright c, c') a /\ cparent c' = i) /\
    (cparent c = 0 -> i = root) /\
    (cparent c <> 0 -> exists c', In (cparent c, c') a /\ (cleft c' = i \/ cright c' = i)).

Definition ids_nonzero (t : tree) : Prop := forall i, In i (ids t) -> i <> 0.

Lemma cells_ids : forall t p, map fst (cells p t) = ids t.
Proof.
  induction t as [|c l IHl i k v r IHr]; intros p; [reflexivity|].
  cbn [cells ids]. rewrite map_app. cbn [map fst]. rewrite IHl, IHr. reflexivity.
Qed.

Lemma root_cell t p : t <> E -> exists c, In (root_id t, c) (cells p t) /\ cparent c = p.
Proof.
  destruct t as [|c l i k v r]; [congruence|]. intros _. cbn [root_id cells].
  eexists. split; [apply in_or_app; right; left; reflexivity|reflexivity].
Qed.

Lemma root_id_nonzero t : ids_nonzero t -> root_id t <> 0 -> t <> E.
Proof. intros _ H ->. apply H. reflexivity. Qed.

Lemma cells_inv : forall t p, ids_nonzero t -> forall j c, In (j, c) (cells p t) ->
  (cleft c <> 0 -> exists c', In (cleft c, c') (cells p t) /\ cparent c' = j) /\
  (cright c <> 0 -> exists c', In (cright c, c') (cells p t) /\ cparent c' = j) /\
  ((j = root_id t /\ cparent c = p) \/
   (cparent c <> 0 /\ exists c', In (cparent c, c') (cells p t) /\ (cleft c' = j \/ cright c' = j))).
Proof.
  induction t as [|col l IHl i k v r IHr]; intros p Hnz j c Hin; [destruct Hin|].
  assert (Hi : i <> 0) by (apply Hnz; cbn [ids]; apply in_or_app; right; left; reflexivity).
  assert (Hnl : ids_nonzero l) by (intros x Hx; apply Hnz; cbn [ids]; apply in_or_app; auto).
  assert (Hnr : ids_nonzero r) by (intros x Hx; apply Hnz; cbn [ids]; apply in_or_app; right; right; auto).
  cbn [cells] in *.
  set (C := mkCell k v p (root_id l) (root_id r) (is_black col)) in *.
  assert (Hself : In (i, C) (cells i l ++ (i, C) :: cells i r)) by (apply in_or_app; right; left; reflexivity).
  apply in_app_or in Hin. destruct Hin as [Hin|[Hin|Hin]].
  - destruct (IHl i Hnl j c Hin) as (L & R & P).
    split; [|split].
    + intros H. destruct (L H) as (c' & H1 & H2). exists c'. split; auto. apply in_or_app; auto.
    + intros H. destruct (R H) as (c' & H1 & H2). exists c'. split; auto. apply in_or_app; auto.
    + right. destruct P as [[P1 P2]|(P1 & c' & P2 & P3)].
      * rewrite P2. split; [auto|]. exists C. split; [auto|left; subst j; reflexivity].
      * split; auto. exists c'. split; auto. apply in_or_app; auto.
  - inversion Hin; subst j c. split; [|split].
    + subst C. cbn [cleft]. intros H.
      destruct (root_cell l i) as (c' & H1 & H2); [intros ->; apply H; reflexivity|].
      exists c'. split; auto. apply in_or_app; auto.
    + subst C. cbn [cright]. intros H.
      destruct (root_cell r i) as (c' & H1 & H2); [intros ->; apply H; reflexivity|].
      exists c'. split; auto. apply in_or_app; right; right; auto.
    + left. split; reflexivity.
  - destruct (IHr i Hnr j c Hin) as (L & R & P).
    split; [|split].
    + intros H. destruct (L H) as (c' & H1 & H2). exists c'. split; auto. apply in_or_app; right; right; auto.
    + intros H. destruct (R H) as (c' & H1 & H2). exists c'. split; auto. apply in_or_app; right; right; auto.
    + right. destruct P as [[P1 P2]|(P1 & c' & P2 & P3)].
      * rewrite P2. split; [auto|]. exists C. split; [auto|right; subst j; reflexivity].
      * split; auto. exists c'. split; auto. apply in_or_app; right; right; auto.
Qed.

Theorem arena_links t : ids_nonzero t ->
  links_consistent (root_id t) (cells 0 t) /\ map fst (cells 0 t) = ids t.
Proof.
  intros Hnz. split; [|apply cells_ids].
  intros i c Hin. destruct (cells_inv t 0 Hnz i c Hin) as (L & R & P).
  split; [auto|split; [auto|split]].
  - intros H0. destruct P as [[P _]|[P _]]; [auto|contradiction].
  - intros H0. destruct P as [[_ P]|[_ P]]; [contradiction|auto].
Qed.

(* ---------- soundness of the snapshot oracle ---------- *)

Lemma cell_eqb_eq x y : cell_eqb x y = true -> x = y.
Proof.
  unfold cell_eqb. destruct x, y. cbn. intros H.
  repeat (apply andb_prop in H; destruct H as [H ?]).
  repeat match goal with H : (_ =? _) = true |- _ => apply Z.eqb_eq in H end.
  match goal with H : Bool.eqb _ _ = true |- _ => apply Bool.eqb_prop in H end.
  subst. reflexivity.
Qed.

Lemma cells_match_in a l : cells_match a l = true -> forall i c, In (i, c) l -> a i = c.
Proof.
  induction l as [|[j d] l IH]; cbn [cells_match]; intros H i c Hin; [destruct Hin|].
  apply andb_prop in H. destruct H as [H1 H2]. destruct Hin as [Hin|Hin].
  - inversion Hin; subst. apply cell_eqb_eq; auto.
  - eapply IH; eauto.
Qed.

Lemma header_eqb_eq x y : header_eqb x y = true -> x = y.
Proof.
  unfold header_eqb. destruct x, y. cbn. intros H.
  repeat (apply andb_prop in H; destruct H as [H ?]).
  repeat match goal with H : (_ =? _) = true |- _ => apply Z.eqb_eq in H end.
  subst. reflexivity.
Qed.

Lemma entries_eqb_eq : forall x y, entries_eqb x y = true -> x = y.
Proof.
  induction x as [|[[a b] c] x IH]; intros [|[[d e] f] y]; cbn [entries_eqb]; try discriminate; auto.
  intros H. repeat (apply andb_prop in H; destruct H as [H ?]).
  repeat match goal with H : (_ =? _) = true |- _ => apply Z.eqb_eq in H end.
  subst. f_equal. auto.
Qed.

(* When the three checks accept a snapshot (a, h) of the real arena against the specification list
   "spec", there is a tree t such that: the snapshot IS the arena image of t (every cell of t,
   including the parent links, and root/min/max/count), t is a red-black search tree, its depth is
   logarithmic, and its entries - with their node ids - are exactly the specification's. *)
Theorem snapshot_oracle_sound a h spec :
  links_okb a h = true -> snapshot_rb_okb a h = true -> snapshot_map_okb a h spec = true ->
  exists t,
    (forall i c, In (i, c) (cells 0 t) -> a i = c) /\ h = header_of t /\
    is_redblack t /\ bst t /\ elems t = spec /\
    Z.of_nat (height t) <= 2 * Z.log2 (tsize t + 1).
Proof.
  unfold links_okb, snapshot_rb_okb, snapshot_map_okb. intros H1 H2 H3.
  exists (arena_tree a h). apply andb_prop in H1. destruct H1 as [H1 H1'].
  destruct (rb_okb_sound _ H2) as [Hrb Hbst].
  repeat split; auto.
  - apply cells_match_in; auto.
  - apply header_eqb_eq; auto.
  - apply entries_eqb_eq; auto.
  - apply redblack_height_log; auto.
Qed.
