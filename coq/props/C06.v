(* C06 - node allocator of internal/rbtree: no aliasing of nodes, used count, Clone, lossless
   hibernation in memory and through a file, refusal while hibernated.
   Only statements, each closed by [exact] of a lemma of Herc.Alloc.*, and their assumptions.

   Vocabulary (Herc.Alloc.Model): [alloc] is the allocator state; a [world] is one allocator plus the
   table [owned] saying which owner (tree) holds which node id; [step] applies one operation of one
   owner (malloc with the map-iteration choice made explicit / free of an own node / write to an own
   cell), a threshold change, Hibernate or Boot; [reachable] closes [init_world] (NewAllocator) under
   [step] and under Allocator.Clone.  [liveb a id]: id is inside the arena, not slot 0, not a gap.

   LZ4 (lz4hc.c) is external C code: [compress]/[decompress] are Section variables and the two
   hypotheses below are the recorded assumptions about it; the harness exercises them on every
   buffer the implementation produces. *)
From Coq Require Import List NArith ZArith Sorted.
From Herc Require Import Alloc.Varint Alloc.Model Alloc.Serialize Alloc.Proofs Alloc.Hibernate Alloc.SerializeProofs.
Import ListNotations.

Section C06.
  Variable compress : list N -> list N.
  Variable decompress : list N -> nat -> list N.
  Hypothesis lz4_ok : forall l, l <> [] -> compress l <> [] /\ decompress (compress l) (length l) = l.
  Hypothesis lz4_small : forall l, (N.of_nat (length (compress l)) < 2 ^ 63)%N.

  Notation reachable := (reachable compress decompress).
  Notation step := (step compress decompress).
  Notation run := (run compress decompress).
  Notation hibernate := (hibernate compress).
  Notation boot := (boot decompress).

  (* every state produced by a sequence of operations from NewAllocator is reachable *)
  Theorem C06_run_reachable : forall ops, reachable (run ops init_world).
  Proof. exact (fun ops => run_reachable compress decompress ops init_world (r_init compress decompress)). Qed.

  (* the index malloc returns is not 0, was not live, is live afterwards, and nobody held it *)
  Theorem C06_malloc_fresh : forall w ch a' id, reachable w -> malloc ch (wa w) = Ok (a', id) ->
    id <> 0%N /\ liveb (wa w) id = false /\ liveb a' id = true /\ (forall o, owns w o id = false).
  Proof. exact (malloc_fresh compress decompress lz4_ok). Qed.

  (* in every reachable state: no id has two owners, no owner holds an id twice, every owned id is a
     live cell (of the arena that Boot restores, while the allocator is asleep) *)
  Theorem C06_no_alias : forall w, reachable w ->
    (forall o1 o2 id, owns w o1 id = true -> owns w o2 id = true -> o1 = o2) /\
    NoDup (map fst (owned w)) /\
    (forall o id, owns w o id = true ->
       match storage (wa w) with
       | Some _ => liveb (wa w) id = true
       | None => exists a1, boot (wa w) = Ok a1 /\ liveb a1 id = true
       end).
  Proof. exact (no_alias compress decompress lz4_ok). Qed.

  (* an operation of another owner neither changes my cells nor takes them away *)
  Theorem C06_frame : forall w x o1 o2 id, reachable w -> owns w o1 id = true -> op_owner x = Some o2 -> o2 <> o1 ->
    nth (N.to_nat id) (slist (wa (step w x))) zero_cell = nth (N.to_nat id) (slist (wa w)) zero_cell /\
    owns (step w x) o1 id = true.
  Proof. exact (frame compress decompress lz4_ok). Qed.

  (* Used() = number of owned (= live) nodes + the reserved slot once the arena is non-empty; the live
     cells are exactly the owned ones (nothing leaks) *)
  Theorem C06_used : forall w, reachable w -> storage (wa w) <> None ->
    used (wa w) = Ok (if (size (wa w) =? 0)%Z then 0%Z else (Z.of_nat (length (owned w)) + 1)%Z) /\
    (forall id, liveb (wa w) id = true <-> exists o, owns w o id = true).
  Proof. exact (used_count compress decompress lz4_ok). Qed.

  (* Clone copies threshold, storage and gap set, the copy starts awake; afterwards the two evolve
     independently: the result for each side is the run of its own operations alone *)
  Theorem C06_clone_frame : forall a c, clone a = Ok c ->
    (storage c = storage a /\ gaps c = Some (glist a) /\ thr c = thr a /\
     hslen c = 0%Z /\ hglen c = 0%Z /\ hdata c = repeat None 7) /\
    forall ow ops,
      fold_left (step2 compress decompress) ops (mkworld a ow, mkworld c ow) =
      (run (proj SideL ops) (mkworld a ow), run (proj SideR ops) (mkworld c ow)).
  Proof. exact (clone_frame compress decompress). Qed.

  (* at or above the threshold and non-empty: Hibernate empties the allocator, Boot restores exactly
     the cells, the gap set, the threshold, and clears the hibernation lengths *)
  Theorem C06_boot_hibernate : forall w, reachable w -> storage (wa w) <> None ->
    (thr (wa w) <= size (wa w))%Z -> (0 < size (wa w))%Z ->
    exists h a', hibernate (wa w) = Ok h /\
      storage h = None /\ gaps h = None /\ hslen h = size (wa w) /\ thr h = thr (wa w) /\
      boot h = Ok a' /\
      storage a' = storage (wa w) /\ gaps a' = gaps (wa w) /\ thr a' = thr (wa w) /\
      hslen a' = 0%Z /\ hglen a' = 0%Z.
  Proof. exact (boot_hibernate compress decompress lz4_ok). Qed.

  (* below the threshold, and for the empty arena, Hibernate and Boot leave the allocator untouched *)
  Theorem C06_below_threshold : forall a, ~ (0 < hslen a)%Z -> (size a < thr a)%Z -> hibernate a = Ok a.
  Proof. exact (hibernate_below compress). Qed.

  Theorem C06_empty_untouched : forall a, hslen a = 0%Z -> slist a = [] -> hibernate a = Ok a /\ boot a = Ok a.
  Proof. exact (fun a H1 H2 => conj (hibernate_empty compress a H1 H2) (boot_awake decompress a H1)). Qed.

  (* use while hibernated is refused and changes nothing *)
  Theorem C06_refused : forall a, storage a = None ->
    used a = Panic PHibUse /\ clone a = Panic PCloneHib /\
    (forall ch, malloc ch a = Panic PHibUse) /\ (forall n, free n a = Panic PHibUse) /\
    (forall n c, write_cell n c a = Panic PIndex).
  Proof.
    exact (fun a H => conj (refused_used a H) (conj (refused_clone a H)
             (conj (fun ch => refused_malloc a ch H) (conj (fun n => refused_free a n H) (fun n c => refused_write a n c H))))).
  Qed.

  Theorem C06_refused_twice : forall a, (0 < hslen a)%Z -> hibernate a = Panic PAlreadyHib.
  Proof. exact (refused_hibernate compress). Qed.

  Theorem C06_refused_boot_serialized : forall a, hslen a <> 0%Z -> nth 0 (hdata a) None = None ->
    boot a = Panic PBootSerialized.
  Proof. exact (refused_boot decompress). Qed.

  Theorem C06_refused_step : forall w x, storage (wa w) = None -> op_owner x <> None -> step w x = w.
  Proof. exact (refused_step compress decompress). Qed.

  Theorem C06_refused_awake_file : forall a s f, storage a = Some s ->
    serialize a = Panic PSerAwake /\ serialize_fail a = Panic PSerAwake /\ deserialize a f = Panic PDeserAwake.
  Proof.
    exact (fun a s f H => conj (proj1 (serialize_awake a s H)) (conj (proj2 (serialize_awake a s H)) (deserialize_awake a s f H))).
  Qed.

  (* Hibernate, Serialize, Deserialize, Boot: Boot is refused while the buffers are on disk only; every
     strict prefix of the file is rejected with an error; the whole file - read into any hibernated
     allocator, for instance one that a failed attempt left half filled - boots into the same arena *)
  Theorem C06_disk_roundtrip : forall w, reachable w -> storage (wa w) <> None ->
    (thr (wa w) <= size (wa w))%Z -> (0 < size (wa w))%Z ->
    exists h h1 bytes,
      hibernate (wa w) = Ok h /\ storage h = None /\
      serialize h = Ok (h1, bytes) /\
      boot h1 = Panic PBootSerialized /\
      (forall k ax, (k < length bytes)%nat -> storage ax = None ->
         exists ax' e, deserialize ax (Some (firstn k bytes)) = Ok (ax', Some e)) /\
      (forall ax, storage ax = None -> length (hdata ax) = 7%nat ->
         exists h2 a', deserialize ax (Some bytes) = Ok (h2, None) /\
           boot h2 = Ok a' /\
           storage a' = storage (wa w) /\ gaps a' = gaps (wa w) /\ thr a' = thr ax /\
           hslen a' = 0%Z /\ hglen a' = 0%Z /\
           reachable (mkworld a' (owned w))).
  Proof. exact (disk_roundtrip compress decompress lz4_ok lz4_small). Qed.
End C06.

(* the file format on its own (no assumption on LZ4) *)
Theorem C06_varint_roundtrip : forall n rest, (n < 2 ^ 63)%N ->
  read_varint (write_varint n ++ rest) = VOk n rest.
Proof. exact varint_roundtrip. Qed.

Theorem C06_varint_truncated : forall n k, (k < length (write_varint n))%nat ->
  read_varint (firstn k (write_varint n)) = VEof.
Proof. exact varint_truncated. Qed.

(* deserialize (serialize h) = Ok h: lengths and the seven buffers come back (nil buffers as empty
   ones), trailing bytes are ignored, whatever the receiving hibernated allocator held before *)
Theorem C06_file_roundtrip : forall a, storage a = None -> file_ok a ->
  exists a1 bytes, serialize a = Ok (a1, bytes) /\
    storage a1 = None /\ hdata a1 = repeat None 7 /\ hslen a1 = hslen a /\ hglen a1 = hglen a /\ thr a1 = thr a /\
    forall ax rest, storage ax = None -> length (hdata ax) = 7%nat ->
      deserialize ax (Some (bytes ++ rest)) =
      Ok (mkalloc (thr ax) None (gaps ax) (reread (hdata a)) (hslen a) (hglen a), None).
Proof. exact file_roundtrip. Qed.

(* every strict prefix of a serialized file is rejected with an error - never a wrong value *)
Theorem C06_truncated : forall a, storage a = None -> file_ok a ->
  forall a1 bytes, serialize a = Ok (a1, bytes) ->
  forall k ax, (k < length bytes)%nat -> storage ax = None ->
    exists ax' e, deserialize ax (Some (firstn k bytes)) = Ok (ax', Some e).
Proof. exact file_truncated. Qed.

Theorem C06_missing_file : forall a, storage a = None -> deserialize a None = Ok (a, Some EOpen).
Proof. exact deserialize_nofile. Qed.

Print Assumptions C06_run_reachable.
Print Assumptions C06_malloc_fresh.
Print Assumptions C06_no_alias.
Print Assumptions C06_frame.
Print Assumptions C06_used.
Print Assumptions C06_clone_frame.
Print Assumptions C06_boot_hibernate.
Print Assumptions C06_below_threshold.
Print Assumptions C06_empty_untouched.
Print Assumptions C06_refused.
Print Assumptions C06_refused_twice.
Print Assumptions C06_refused_boot_serialized.
Print Assumptions C06_refused_step.
Print Assumptions C06_refused_awake_file.
Print Assumptions C06_disk_roundtrip.
Print Assumptions C06_varint_roundtrip.
Print Assumptions C06_varint_truncated.
Print Assumptions C06_file_roundtrip.
Print Assumptions C06_truncated.
Print Assumptions C06_missing_file.

(* ---------------------------------------------------------------------------------------------
   Non-vacuity: a toy codec satisfies the two LZ4 hypotheses, and a concrete history with two
   owners, a re-used gap, a threshold and a hibernation meets the hypotheses of the theorems. *)
Definition toy_compress (l : list N) : list N := 255%N :: l.
Definition toy_decompress (d : list N) (n : nat) : list N := firstn n (tl d).

Example C06_toy_codec_ok : forall l, l <> [] -> toy_compress l <> [] /\ toy_decompress (toy_compress l) (length l) = l.
Proof. intros l _. split; [discriminate|]. unfold toy_decompress, toy_compress. cbn [tl]. apply firstn_all. Qed.

Definition history : list op :=
  [OMalloc 0 0; OMalloc 1 0; OMalloc 0 0; OWrite 0 1 (mkcell 5 50 0 0 3 true); OWrite 1 2 (mkcell 7 70 0 0 0 true);
   OFree 0 3; OMalloc 1 5; OMalloc 0 0; OFree 1 3; OSetThr 4].

Example C06_history_state :
  let w := run toy_compress toy_decompress history init_world in
  storage (wa w) <> None /\ (thr (wa w) <= size (wa w))%Z /\ (0 < size (wa w))%Z /\
  size (wa w) = 5%Z /\ gaps (wa w) = Some [3%N] /\ used (wa w) = Ok 4%Z /\
  ids_of w 0 = [4%N; 1%N] /\ ids_of w 1 = [2%N] /\
  (exists a' id, malloc 0 (wa w) = Ok (a', id) /\ id = 3%N).
Proof. vm_compute. repeat split; try discriminate; eauto. Qed.

Example C06_history_hibernates :
  let w := run toy_compress toy_decompress history init_world in
  match hibernate toy_compress (wa w) with
  | Ok h =>
      storage h = None /\ hslen h = 5%Z /\ hglen h = 1%Z /\
      used h = Panic PHibUse /\ hibernate toy_compress h = Panic PAlreadyHib /\
      match serialize h with
      | Ok (h1, bytes) =>
          length bytes = 47%nat /\ firstn 4 bytes = [5%N; 1%N; 6%N; 255%N] /\
          boot toy_decompress h1 = Panic PBootSerialized /\
          match deserialize h1 (Some (firstn 46 bytes)) with Ok (_, Some _) => True | _ => False end /\
          match deserialize h1 (Some bytes) with
          | Ok (h2, None) =>
              match boot toy_decompress h2 with
              | Ok a' => storage a' = storage (wa w) /\ gaps a' = gaps (wa w)
              | _ => False
              end
          | _ => False
          end
      | _ => False
      end
  | _ => False
  end.
Proof. vm_compute. repeat split. Qed.

Example C06_below_threshold_state :
  let a := with_thr (wa (run toy_compress toy_decompress history init_world)) 6 in
  ~ (0 < hslen a)%Z /\ (size a < thr a)%Z /\ hibernate toy_compress a = Ok a.
Proof. vm_compute. repeat split; intros H; discriminate. Qed.
