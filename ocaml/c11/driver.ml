(* C11: replay the harness trace through the extracted Gallina model of CountLines / the line splitter /
   stripWhitespace / handleModification / LinesStatsCalculator, and judge the implementation's diff with the
   extracted validator script_ok. *)
open C11_model
open Conv

(* The extracted list functions are not tail recursive and the thorough tier has blobs of several hundred
   kilobytes: run with a large stack. *)
let () =
  if (try Sys.getenv "C11_DRIVER_STACK" with Not_found -> "") = "" then begin
    Unix.putenv "C11_DRIVER_STACK" "1";
    let self = Sys.executable_name in
    (try
       Unix.execv "/bin/sh"
         (Array.append [| "/bin/sh"; "-c"; "ulimit -s unlimited 2>/dev/null || ulimit -s 4000000 2>/dev/null; exec \"$0\" \"$@\""; self |]
            (Array.sub Sys.argv 1 (Array.length Sys.argv - 1)))
     with _ -> ())
  end

let split_text (s : sx) : z list * z list =
  let rec go acc = function
    | [] -> (List.rev acc, [])
    | x :: r -> let v = int_of_sx x in
        if v >= 256 || v < 0 then (List.rev acc, List.map (fun y -> z_of_int (int_of_sx y)) r)
        else go (z_of_int v :: acc) r in
  go [] (args s)

let op_of = function "e" -> Equal | "d" -> Delete | "i" -> Insert | t -> failwith ("unknown diff operation " ^ t)

let show_ints l = "[" ^ String.concat ";" (List.map string_of_int l) ^ "]"
let show_cl = function Lines n -> string_of_int (int_of_nat n) | Binary -> "bin" | CountPanic -> "panic"
let show_hm = function
  | HmOk _ -> "ok"
  | HmErr IntegritySrc -> "src"
  | HmErr IntegrityDst -> "dst"
  | HmErr InsertAfterInsert -> "insins"
  | HmErr DeleteAfterPending -> "delafter"
  | HmPanic -> "panic"

let () =
  iter_cases (fun id c ->
    let ws = bool_of_sx (List.hd (args (field "ws" c))) in
    let (a, b) = split_text (field "text" c) in
    let obs = field "obs" c in
    match field_opt "diffs" obs with
    | None ->
        (* FileDiff.Consume panicked or returned an error: never expected *)
        propfail id ("FileDiff.Consume failed: " ^ string_of_sx obs)
    | Some dsx ->
    let ds_i = List.map (fun r -> (tag r, int_of_sx (List.hd (args r)))) (args dsx) in
    let ds = List.map (fun (o, n) -> (op_of o, nat_of_int n)) ds_i in
    let geti t = int_of_sx (List.hd (args (field t obs))) in
    let gold = geti "old" and gnew = geti "new" in
    let gcl t = atom (List.hd (args (field t obs))) in
    let gcla = gcl "cla" and gclb = gcl "clb" in
    (* ---------- fine correspondence: model vs implementation *)
    let mcla = count_lines a and mclb = count_lines b in
    if show_cl mcla <> gcla then mismatch id (Printf.sprintf "CountLines(old) impl=%s model=%s" gcla (show_cl mcla));
    if show_cl mclb <> gclb then mismatch id (Printf.sprintf "CountLines(new) impl=%s model=%s" gclb (show_cl mclb));
    let sa = strip ws a and sb = strip ws b in
    (match field_opt "sa" obs with
     | Some s -> if zs_of_sx (List.hd (args s)) <> sa then mismatch id "stripWhitespace(old) differs from strip_whitespace"
     | None -> ());
    (match field_opt "sb" obs with
     | Some s -> if zs_of_sx (List.hd (args s)) <> sb then mismatch id "stripWhitespace(new) differs from strip_whitespace"
     | None -> ());
    let la = split_lines sa and lb = split_lines sb in
    let lens l = List.map (fun x -> List.length x) l in
    if ints_of_sx (List.hd (args (field "la" obs))) <> lens la then mismatch id "line splitting of the old blob differs from split_lines";
    if ints_of_sx (List.hd (args (field "lb" obs))) <> lens lb then mismatch id "line splitting of the new blob differs from split_lines";
    let nla = List.length la and nlb = List.length lb in
    if gold <> nla then mismatch id (Printf.sprintf "OldLinesOfCode impl=%d model=%d" gold nla);
    if gnew <> nlb then mismatch id (Printf.sprintf "NewLinesOfCode impl=%d model=%d" gnew nlb);
    (match field_opt "ids" obs with
     | Some s ->
         let (ia, ib) = diff_lines_to_runes sa sb in
         let gi k = ints_of_sx (List.nth (args s) k) in
         if gi 0 <> List.map int_of_nat ia || gi 1 <> List.map int_of_nat ib then mismatch id "line ids of DiffLinesToRunes differ from diff_lines_to_runes";
         count "ids_compared"
     | None -> ());
    let st = line_stats ds in
    (match args (field "stats" obs) with
     | [x; y; z] ->
         let m = [int_of_nat st.ls_added; int_of_nat st.ls_removed; int_of_nat st.ls_changed] in
         if [int_of_sx x; int_of_sx y; int_of_sx z] <> m then mismatch id ("LinesStatsCalculator differs from line_stats: model=" ^ show_ints m)
     | _ -> mismatch id "LinesStatsCalculator failed");
    let gburn = atom (List.hd (args (field "burn" obs))) in
    let in_domain = textb a && textb b in
    if not in_domain then count "outside_domain_binary"
    else begin
      count "in_domain";
      if ws then count "ws_on" else count "ws_off";
      (* the consumer model on what the consumer really got *)
      let cl_old = (match mcla with Lines n -> n | _ -> O) in
      let mburn = show_hm (burndown_accepts cl_old (nat_of_int gold) (nat_of_int gnew) ds) in
      if mburn <> gburn then mismatch id (Printf.sprintf "burndown consumer impl=%s model handle_modification=%s" gburn mburn);
      (* ---------- the property, judged on the implementation's outputs (independent of the model of
         stripWhitespace: lines of the unstripped blobs, equality up to spaces when WhitespaceIgnore is on) *)
      let fails = ref [] in
      let add s = fails := s :: !fails in
      let ula = split_lines a and ulb = split_lines b in
      let nua = List.length ula and nub = List.length ulb in
      let script_fine = spec_ok ws a b ds in
      if not script_fine then begin
        if not (canonical ds) then add "shape: a deletion directly after a deletion/insertion, or an insertion directly after an insertion";
        if int_of_nat (old_total ds) <> nua || int_of_nat (new_total ds) <> nub then
          add (Printf.sprintf "totals: equal+delete=%d for %d old lines, equal+insert=%d for %d new lines"
                 (int_of_nat (old_total ds)) nua (int_of_nat (new_total ds)) nub)
        else if canonical ds then
          (* canonical + totals fine + validator says no = an equal run over different lines (C11_script_ok_iff) *)
          add "an equal run covers lines that differ between the two versions"
      end;
      if List.exists (fun (_, n) -> n = 0) ds_i then count "scripts_with_empty_runs";
      let cnt_bad = gcla <> string_of_int gold || gclb <> string_of_int gnew in
      if cnt_bad then add (Printf.sprintf "line counts: OldLinesOfCode=%d CountLines(old)=%s NewLinesOfCode=%d CountLines(new)=%s" gold gcla gnew gclb);
      if gburn <> "ok" then add ("burndown consumer rejects the diff: " ^ gburn);
      (* second consumer: the line statistics must account for the difference of the two line counts *)
      (match args (field "stats" obs), int_of_string_opt gcla, int_of_string_opt gclb with
       | [x; y; _], Some ca, Some cb ->
           if ca + int_of_sx x - int_of_sx y <> cb then
             add (Printf.sprintf "line statistics do not conserve lines: %d + added %d - removed %d <> %d" ca (int_of_sx x) (int_of_sx y) cb)
       | _ -> ());
      if !fails <> [] then begin
        let runs = List.length ds_i in
        let shown = if runs <= 40 then String.concat " " (List.map (fun (o, n) -> o ^ string_of_int n) ds_i) else Printf.sprintf "%d runs" runs in
        propfail id (Printf.sprintf "%s [ws=%b diff %s]" (String.concat "; " (List.rev !fails)) ws shown)
      end
    end)
