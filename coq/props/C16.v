(* C16 - author identities resolve totally and merge as connected components
   (internal/plumbing/identity/identity.go).  Only statements closed by [exact] and their assumptions.

   Vocabulary (definitions in theories/Plumbing/{IdStr,Identity,IdentityMerge,IdentityMergeProofs}.v):
   - a string is the list of its bytes; a commit is the pair (Author.Name, Author.Email);
   - [lower] is strings.ToLower: the theorems hold for ANY function (no hypothesis on it);
   - [order] / [sel] are Go's map iteration orders: any permutation ([order_ok], [sel_ok]);
   - [generate_people_dict lower exact order cs] = Some (PeopleDict, ReversedPeopleDict), None = the Go
     panic on an empty commit list; [consume] is Detector.Consume;
   - [first_role lower cs k] = (n, e): the key k was first seen in cs as a (lower-cased) name / as an e-mail;
   - [merge_reversed_dicts_identities sel rd1 rd2] = Some (index map, merged list);
   - [connected ids s t]: reflexive-transitive closure of "s and t are in ids and share a part of
     strings.Split(_, "|")";
   - [merge_domb rd1 rd2]: no part occurs in two different entries of the same input list;
   - [generate_people_dict_mm lower order morder mm cs]: GeneratePeopleDict (ExactSignatures = false) on a commit
     list whose last commit has a .mailmap that ParseMailmap turns into the table [mm] of entries
     (key, (canonical name, canonical e-mail)); [morder] is Go's iteration order over that map ([morder_ok]);
     [lkey]/[ltoE]/[ltoN] are the lower-cased key / canonical e-mail / canonical name of an entry;
   - [mm_domb lower mm]: the lower-cased keys are pairwise different and not empty, and a key that is also the
     canonical e-mail or name of an entry belongs to an entry with the same canonical pair. *)
From Coq Require Import List ZArith Permutation Sorted.
From Herc Require Import Plumbing.IdStr Plumbing.Identity Plumbing.IdentityProofs
  Plumbing.IdentityMerge Plumbing.IdentityMergeProofs Plumbing.IdentityMergeMain
  Plumbing.IdentityMergeTheorems Plumbing.IdentityDomain Plumbing.IdentityMailmap Plumbing.IdentityMailmapProofs.
Import ListNotations.
Local Open Scope Z_scope.

(* ---------- GeneratePeopleDict + Consume ---------- *)

(* every author of the list resolves to a developer index below the number of developers *)
Theorem C16_total : forall lower exact order cs dict rev, order_ok order ->
  generate_people_dict lower exact order cs = Some (dict, rev) ->
  forall c, In c cs ->
  exists d, lookup_author lower exact dict c = Some d /\ consume lower exact dict c = Z.of_nat d /\
            (d < length rev)%nat.
Proof. exact gen_total. Qed.
Print Assumptions C16_total.

(* same e-mail, case-insensitively -> same developer *)
Theorem C16_same_email : forall lower order cs dict rev, order_ok order ->
  generate_people_dict lower false order cs = Some (dict, rev) ->
  forall c1 c2, In c1 cs -> In c2 cs -> lower (c_email c1) = lower (c_email c2) ->
  consume lower false dict c1 = consume lower false dict c2.
Proof. exact gen_same_email. Qed.
Print Assumptions C16_same_email.

(* exact-signature mode: same lower-cased "Name <Email>" -> same developer ... *)
Theorem C16_same_signature : forall lower order cs dict rev, order_ok order ->
  generate_people_dict lower true order cs = Some (dict, rev) ->
  forall c1 c2, In c1 cs -> In c2 cs -> lower (sig_string c1) = lower (sig_string c2) ->
  consume lower true dict c1 = consume lower true dict c2.
Proof. exact gen_same_signature. Qed.
Print Assumptions C16_same_signature.

(* ... which for ASCII lower-casing follows from the same name and the same e-mail, case-insensitively *)
Theorem C16_same_name_and_email : forall c1 c2,
  lower_ascii (c_name c1) = lower_ascii (c_name c2) -> lower_ascii (c_email c1) = lower_ascii (c_email c2) ->
  lower_ascii (sig_string c1) = lower_ascii (sig_string c2).
Proof. exact lower_ascii_sig. Qed.
Print Assumptions C16_same_name_and_email.

(* the dictionary holds exactly the lower-cased names and e-mails (signatures) in use *)
Theorem C16_dict_keys : forall lower exact order cs dict rev,
  generate_people_dict lower exact order cs = Some (dict, rev) ->
  forall k, (exists d, sget dict k = Some d) <-> key_used lower exact cs k = true.
Proof. exact gen_dict_keys. Qed.
Print Assumptions C16_dict_keys.

(* each description is "names|e-mails", both sorted and duplicate-free, and lists exactly the keys
   attached to the developer: the names are the keys first seen as a name, the e-mails those first seen
   as an e-mail *)
Theorem C16_description_exact : forall lower order cs dict rev, order_ok order ->
  generate_people_dict lower false order cs = Some (dict, rev) ->
  forall d, (d < length rev)%nat -> exists ns es,
    nth d rev [] = join ns ++ bar :: join es /\
    StronglySorted (leR str_ltb) ns /\ StronglySorted (leR str_ltb) es /\ NoDup ns /\ NoDup es /\
    (forall k, In k ns <-> sget dict k = Some d /\ fst (first_role lower cs k) = true) /\
    (forall k, In k es <-> sget dict k = Some d /\ snd (first_role lower cs k) = true) /\
    (forall k, sget dict k = Some d -> In k ns \/ In k es).
Proof. exact gen_description_loose. Qed.
Print Assumptions C16_description_exact.

(* exact-signature mode: the description is THE key of the developer, the signature of a commit *)
Theorem C16_description_exact_signatures : forall lower order cs dict rev, order_ok order ->
  generate_people_dict lower true order cs = Some (dict, rev) ->
  forall d, (d < length rev)%nat ->
    sget dict (nth d rev []) = Some d /\
    (forall k, sget dict k = Some d -> k = nth d rev []) /\
    (exists c, In c cs /\ nth d rev [] = lower (sig_string c)).
Proof. exact gen_description_exact. Qed.
Print Assumptions C16_description_exact_signatures.

(* every developer has at least one key *)
Theorem C16_developers_inhabited : forall lower exact order cs dict rev, order_ok order ->
  generate_people_dict lower exact order cs = Some (dict, rev) ->
  forall d, (d < length rev)%nat -> exists k, sget dict k = Some d.
Proof. exact gen_developers_inhabited. Qed.
Print Assumptions C16_developers_inhabited.

(* an author whose e-mail and name (signature) are not in the dictionary is AuthorMissing *)
Theorem C16_author_missing : forall lower exact dict c,
  lookup_author lower exact dict c = None -> consume lower exact dict c = 262142.
Proof. exact consume_missing. Qed.
Print Assumptions C16_author_missing.

(* boundary: Go indexes commits[len(commits)-1] and panics on an empty list *)
Theorem C16_empty_list_panics : forall lower exact order, generate_people_dict lower exact order [] = None.
Proof. exact gen_empty. Qed.
Print Assumptions C16_empty_list_panics.

(* ---------- MergeReversedDictsIdentities ---------- *)

(* the function returns for all inputs (the fuel of the model's walk is never exhausted) *)
Theorem C16_merge_returns : forall sel rd1 rd2, sel_ok sel ->
  exists idx merged, merge_reversed_dicts_identities sel rd1 rd2 = Some (idx, merged).
Proof. exact merge_returns. Qed.
Print Assumptions C16_merge_returns.

(* FALSE of the code as it is for arbitrary lists (finding F7): "a|p" gets no merged index in
   ["q|z","a|p","b|p"] + ["z|b"] *)
Theorem C16_merge_refuted :
  exists rd1 rd2 s idx merged,
    In s (rd1 ++ rd2) /\
    merge_reversed_dicts_identities id_sel rd1 rd2 = Some (idx, merged) /\
    sget idx s = None.
Proof. exact merge_total_refuted. Qed.
Print Assumptions C16_merge_refuted.

Theorem C16_pointers_refuted :
  exists rd1 rd2 idx merged mi,
    merge_reversed_dicts_identities id_sel rd1 rd2 = Some (idx, merged) /\
    sget idx (nth 0 rd1 []) = Some mi /\ mi_first mi <> 0.
Proof. exact merge_pointers_refuted. Qed.
Print Assumptions C16_pointers_refuted.

(* In the domain [merge_domb rd1 rd2 = true] the merge half of the property holds in full. *)

(* every input identity receives a merged index in range; the keys are input identities *)
Theorem C16_merge_total : forall sel, sel_ok sel -> forall rd1 rd2, merge_domb rd1 rd2 = true ->
  forall idx merged, merge_reversed_dicts_identities sel rd1 rd2 = Some (idx, merged) ->
  (forall s, In s (rd1 ++ rd2) ->
     exists mi, sget idx s = Some mi /\ 0 <= mi_final mi < Z.of_nat (length merged)) /\
  (forall s mi, sget idx s = Some mi -> In s (rd1 ++ rd2)).
Proof. exact merge_total_keys. Qed.
Print Assumptions C16_merge_total.

(* two identities share a merged index iff they are connected *)
Theorem C16_merge_components : forall sel, sel_ok sel -> forall rd1 rd2, merge_domb rd1 rd2 = true ->
  forall idx merged, merge_reversed_dicts_identities sel rd1 rd2 = Some (idx, merged) ->
  forall s t mi mj, In s (rd1 ++ rd2) -> In t (rd1 ++ rd2) ->
  sget idx s = Some mi -> sget idx t = Some mj ->
  (mi_final mi = mi_final mj <-> connected (rd1 ++ rd2) s t).
Proof. exact merge_components. Qed.
Print Assumptions C16_merge_components.

(* the merged description is the duplicate-free union of the parts of the identities with that index *)
Theorem C16_merge_union : forall sel, sel_ok sel -> forall rd1 rd2, merge_domb rd1 rd2 = true ->
  forall idx merged, merge_reversed_dicts_identities sel rd1 rd2 = Some (idx, merged) ->
  forall w, (w < length merged)%nat ->
    NoDup (split (nth w merged [])) /\
    forall p, In p (split (nth w merged [])) <->
              exists s mi, In s (rd1 ++ rd2) /\ sget idx s = Some mi /\ mi_final mi = Z.of_nat w /\ In p (split s).
Proof. exact merge_union. Qed.
Print Assumptions C16_merge_union.

(* First / Second are the original positions, -1 when the string is absent from that list *)
Theorem C16_pointers : forall sel, sel_ok sel -> forall rd1 rd2, merge_domb rd1 rd2 = true ->
  forall idx merged, merge_reversed_dicts_identities sel rd1 rd2 = Some (idx, merged) ->
  (forall i, (i < length rd1)%nat -> exists mi, sget idx (nth i rd1 []) = Some mi /\ mi_first mi = Z.of_nat i) /\
  (forall j, (j < length rd2)%nat -> exists mi, sget idx (nth j rd2 []) = Some mi /\ mi_second mi = Z.of_nat j) /\
  (forall s mi, sget idx s = Some mi ->
     (~ In s rd1 -> mi_first mi = -1) /\ (~ In s rd2 -> mi_second mi = -1)).
Proof. exact merge_pointers. Qed.
Print Assumptions C16_pointers.

(* the domain is what GeneratePeopleDict produces: two generated dictionaries (names and e-mails
   without "|") can always be merged *)
Theorem C16_generated_lists_in_domain : forall lower exact order1 order2 cs1 cs2 dict1 rev1 dict2 rev2,
  (forall s, nobar s -> nobar (lower s)) -> order_ok order1 -> order_ok order2 ->
  Forall (fun c => nobar (c_name c) /\ nobar (c_email c)) cs1 ->
  Forall (fun c => nobar (c_name c) /\ nobar (c_email c)) cs2 ->
  generate_people_dict lower exact order1 cs1 = Some (dict1, rev1) ->
  generate_people_dict lower exact order2 cs2 = Some (dict2, rev2) ->
  merge_domb rev1 rev2 = true.
Proof. exact generated_in_domain. Qed.
Print Assumptions C16_generated_lists_in_domain.

Theorem C16_lower_ascii_keeps_bars_out : forall s, nobar s -> nobar (lower_ascii s).
Proof. exact lower_ascii_nobar. Qed.
Print Assumptions C16_lower_ascii_keeps_bars_out.

(* ---------- the executable statements the replay applies to the implementation's outputs ---------- *)
Theorem C16_oracle_components_sound : forall rd1 rd2 idx, mcomponents_okb rd1 rd2 idx = true ->
  forall s t, In s (rd1 ++ rd2) -> In t (rd1 ++ rd2) ->
  (final_of idx s = final_of idx t <-> connected (rd1 ++ rd2) s t).
Proof. exact mcomponents_okb_sound. Qed.
Print Assumptions C16_oracle_components_sound.

Theorem C16_oracle_total_sound : forall rd1 rd2 idx merged, mtotal_okb rd1 rd2 idx merged = true ->
  forall s, In s (rd1 ++ rd2) ->
  exists mi, sget idx s = Some mi /\ 0 <= mi_final mi < Z.of_nat (length merged).
Proof. exact mtotal_okb_sound. Qed.
Print Assumptions C16_oracle_total_sound.

Theorem C16_oracle_pointers_sound : forall rd1 rd2 idx, mpointers_okb rd1 rd2 idx = true ->
  (forall i, (i < length rd1)%nat -> exists mi, sget idx (nth i rd1 []) = Some mi /\ mi_first mi = Z.of_nat i) /\
  (forall j, (j < length rd2)%nat -> exists mi, sget idx (nth j rd2 []) = Some mi /\ mi_second mi = Z.of_nat j).
Proof. exact mpointers_okb_sound. Qed.
Print Assumptions C16_oracle_pointers_sound.

Theorem C16_oracle_union_sound : forall rd1 rd2 idx merged, munion_okb rd1 rd2 idx merged = true ->
  forall w, (w < length merged)%nat -> forall p,
  In p (split (nth w merged [])) <->
  exists s, In s (rd1 ++ rd2) /\ final_of idx s = Z.of_nat w /\ In p (split s).
Proof. exact munion_okb_sound. Qed.
Print Assumptions C16_oracle_union_sound.

Theorem C16_oracle_description_sound : forall lower cs dict rev, description_okb lower false cs dict rev = true ->
  (forall k d, sget dict k = Some d -> key_used lower false cs k = true /\ (d < length rev)%nat) /\
  forall d, (d < length rev)%nat -> exists ns es,
    nth d rev [] = join ns ++ bar :: join es /\
    StronglySorted (leR str_ltb) ns /\ StronglySorted (leR str_ltb) es /\
    (forall k, In k ns <-> sget dict k = Some d /\ fst (first_role lower cs k) = true) /\
    (forall k, In k es <-> sget dict k = Some d /\ snd (first_role lower cs k) = true).
Proof. exact description_okb_sound. Qed.
Print Assumptions C16_oracle_description_sound.

(* ---------- non-vacuity ---------- *)
(* "Bob <A@x>", "bob <b@y>", "Al <a@X>", "carl <b@y>": two developers, the first with two names *)
Definition ex_commits : list (list Z * list Z) :=
  [([66; 111; 98], [65; 64; 120]); ([98; 111; 98], [98; 64; 121]); ([65; 108], [97; 64; 88]); ([99; 97; 114; 108], [98; 64; 121])].

Example C16_ex_generate :
  generate_people_dict lower_ascii false id_order ex_commits =
  Some ([([97; 64; 120], 0%nat); ([98; 111; 98], 0%nat); ([98; 64; 121], 0%nat); ([97; 108], 0%nat); ([99; 97; 114; 108], 0%nat)],
        [[97; 108; 124; 98; 111; 98; 124; 99; 97; 114; 108; 124; 97; 64; 120; 124; 98; 64; 121]])
  /\ map (consume lower_ascii false (fst (match generate_people_dict lower_ascii false id_order ex_commits with Some x => x | None => ([], []) end))) ex_commits = [0; 0; 0; 0]
  /\ order_ok id_order.
Proof. split; [vm_compute; reflexivity|]. split; [vm_compute; reflexivity|]. intros l. apply Permutation_refl. Qed.

Example C16_ex_generate_exact :
  option_map (fun x => length (snd x)) (generate_people_dict lower_ascii true id_order ex_commits) = Some 4%nat.
Proof. vm_compute. reflexivity. Qed.

(* "ann|ann@x", "bob|b@y" + "ann|other@x", "carl|c@z", "robert|b@y": three components, in the domain *)
Definition ex_rd1 : list (list Z) := [[97; 110; 110; 124; 97; 110; 110; 64; 120]; [98; 111; 98; 124; 98; 64; 121]].
Definition ex_rd2 : list (list Z) :=
  [[97; 110; 110; 124; 111; 116; 104; 101; 114; 64; 120]; [99; 97; 114; 108; 124; 99; 64; 122]; [114; 111; 98; 101; 114; 116; 124; 98; 64; 121]].

Example C16_ex_merge :
  merge_domb ex_rd1 ex_rd2 = true /\ sel_ok id_sel /\
  option_map (fun r => (map (fun kv => snd kv) (fst r), length (snd r))) (merge_reversed_dicts_identities id_sel ex_rd1 ex_rd2)
  = Some ([(0, 0, -1); (0, -1, 0); (1, 1, -1); (1, -1, 2); (2, -1, 1)], 3%nat).
Proof. split; [vm_compute; reflexivity|]. split; [intros l; apply Permutation_refl|vm_compute; reflexivity]. Qed.

(* the witness of F7 lies outside the domain, as it must *)
Example C16_ex_f7_outside : merge_domb f7_rd1 f7_rd2 = false.
Proof. exact f7_outside_domain. Qed.

(* ---------- GeneratePeopleDict with a .mailmap (ExactSignatures = false; the exact mode does not read it) ----------
   "Attached to developer d" = the keys k with PeopleDict[k] = d.  With a mailmap these are lower-cased names and
   e-mails of commits, lower-cased mailmap keys, and the canonical names / e-mails of the entries that created a
   developer (C16_mailmap_dict_keys).  A canonicalising entry attaches its key to the developer of its canonical
   e-mail (else canonical name): C16_mailmap_entries_honoured. *)

(* every mailmap, every iteration order: every author of the list resolves below the number of developers *)
Theorem C16_mailmap_total : forall lower order morder mm cs dict rev,
  generate_people_dict_mm lower order morder mm cs = Some (dict, rev) ->
  forall c, In c cs ->
  exists d, lookup_author lower false dict c = Some d /\ consume lower false dict c = Z.of_nat d /\
            (d < length rev)%nat.
Proof. exact gm_total. Qed.
Print Assumptions C16_mailmap_total.

(* every mailmap: same e-mail, case-insensitively -> same developer *)
Theorem C16_mailmap_same_email : forall lower order morder mm cs dict rev,
  generate_people_dict_mm lower order morder mm cs = Some (dict, rev) ->
  forall c1 c2, In c1 cs -> In c2 cs -> lower (c_email c1) = lower (c_email c2) ->
  consume lower false dict c1 = consume lower false dict c2.
Proof. exact gm_same_email. Qed.
Print Assumptions C16_mailmap_same_email.

(* every mailmap: where the keys of PeopleDict come from *)
Theorem C16_mailmap_dict_keys : forall lower order morder mm cs dict rev, morder_ok morder ->
  generate_people_dict_mm lower order morder mm cs = Some (dict, rev) ->
  forall k d, sget dict k = Some d -> key_used_mm lower cs mm k = true.
Proof. exact gm_dict_keys_perm. Qed.
Print Assumptions C16_mailmap_dict_keys.

(* in the domain: each description is "names|e-mails", both sorted and duplicate-free, and a string is listed
   iff it is attached to the developer; every developer has a key *)
Theorem C16_mailmap_description_exact : forall lower order morder mm cs dict rev, order_ok order -> morder_ok morder ->
  mm_domb lower mm = true ->
  generate_people_dict_mm lower order morder mm cs = Some (dict, rev) ->
  forall d, (d < length rev)%nat -> exists ns es,
    nth d rev [] = join ns ++ bar :: join es /\
    StronglySorted (leR str_ltb) ns /\ StronglySorted (leR str_ltb) es /\ NoDup ns /\ NoDup es /\
    (forall k, In k ns \/ In k es <-> sget dict k = Some d) /\
    (exists k, sget dict k = Some d).
Proof. exact gm_description. Qed.
Print Assumptions C16_mailmap_description_exact.

(* in the domain: the key of every entry is attached to the developer of its canonical e-mail or name *)
Theorem C16_mailmap_entries_honoured : forall lower order morder mm cs dict rev, morder_ok morder ->
  mm_domb lower mm = true ->
  generate_people_dict_mm lower order morder mm cs = Some (dict, rev) ->
  forall e, In e mm ->
  exists d, sget dict (lkey lower e) = Some d /\
            (sget dict (ltoE lower e) = Some d \/ sget dict (ltoN lower e) = Some d \/
             (ltoE lower e = [] /\ ltoN lower e = [])).
Proof. exact gm_entries_honoured. Qed.
Print Assumptions C16_mailmap_entries_honoured.

(* no .mailmap (or one without entries) = the function of the first part *)
Theorem C16_mailmap_none : forall lower order morder cs, morder_ok morder ->
  generate_people_dict_mm lower order morder [] cs = generate_people_dict lower false order cs.
Proof. exact gm_no_mailmap. Qed.
Print Assumptions C16_mailmap_none.

(* FALSE outside the domain (finding "mailmap-overlap"): .mailmap "A <a@x> <k@x>" + "K <k@x> <old@x>", one commit
   "Zed <K@x>": in one iteration order developer 0 is described as "k|k@x|old@x" while k@x is attached to
   developer 1; in the other order there is a single developer *)
Theorem C16_mailmap_description_refuted :
  exists morder dict rev,
    morder_ok morder /\
    generate_people_dict_mm lower_ascii id_order morder wx_mm wx_cs = Some (dict, rev) /\
    nth 0%nat rev [] = join [wx_k] ++ bar :: join [wx_kx; wx_oldx] /\
    sget dict wx_kx = Some 1%nat.
Proof. exact mm_description_refuted. Qed.
Print Assumptions C16_mailmap_description_refuted.

Theorem C16_mailmap_order_dependent :
  exists dict1 rev1 dict2 rev2,
    generate_people_dict_mm lower_ascii id_order (fun l => l) wx_mm wx_cs = Some (dict1, rev1) /\
    generate_people_dict_mm lower_ascii id_order (@rev _) wx_mm wx_cs = Some (dict2, rev2) /\
    length rev1 = 1%nat /\ length rev2 = 2%nat.
Proof. exact mm_order_dependent. Qed.
Print Assumptions C16_mailmap_order_dependent.

(* the executable statement the replay applies to outputs obtained with a mailmap *)
Theorem C16_oracle_description_mm_sound : forall lower cs mm dict rev, description_mm_okb lower cs mm dict rev = true ->
  (forall k d, sget dict k = Some d -> key_used_mm lower cs mm k = true /\ (d < length rev)%nat) /\
  forall d, (d < length rev)%nat -> exists ns es,
    nth d rev [] = join ns ++ bar :: join es /\
    StronglySorted (leR str_ltb) ns /\ StronglySorted (leR str_ltb) es /\ NoDup ns /\ NoDup es /\
    (forall k, In k ns \/ In k es <-> sget dict k = Some d).
Proof. exact description_mm_okb_sound. Qed.
Print Assumptions C16_oracle_description_mm_sound.

(* non-vacuity: the witness is outside the domain; an e-mail-only entry "<p@x> <c@x>" whose addresses are used by
   nobody but a homonym is inside: developer 0 = "|c@x|p@x" (no name), developer 1 = "al|a@x" *)
Example C16_ex_mailmap_outside : mm_domb lower_ascii wx_mm = false.
Proof. exact mm_overlap_outside_domain. Qed.

Definition ex_mm : list (list Z * (list Z * list Z)) := [([99; 64; 120], ([], [112; 64; 120]))].
Example C16_ex_mailmap :
  mm_domb lower_ascii ex_mm = true /\
  generate_people_dict_mm lower_ascii id_order (fun l => l) ex_mm [([65; 108], [97; 64; 120]); ([65; 108], [67; 64; 120])] =
  Some ([([112; 64; 120], 0%nat); ([99; 64; 120], 0%nat); ([97; 64; 120], 1%nat); ([97; 108], 1%nat)],
        [[124; 99; 64; 120; 124; 112; 64; 120]; [97; 108; 124; 97; 64; 120]]).
Proof. split; vm_compute; reflexivity. Qed.

(* ParseMailmap (as repaired by 199beb1) returns for every text; before the repair it panicked on "a>" and on
   "N > <c@x>" (finding mailmap-parse-panic, fixed) *)
Theorem C16_parse_mailmap_returns : forall s, exists mm, parse_mailmap s = Some mm.
Proof. exact parse_mailmap_total. Qed.
Print Assumptions C16_parse_mailmap_returns.

Theorem C16_parse_mailmap_before_fix_refuted : parse_mailmap_before_fix [97; 62] = None /\
  parse_mailmap_before_fix [78; 32; 62; 32; 60; 99; 64; 120; 62] = None.
Proof. exact parse_mailmap_before_fix_panics. Qed.
Print Assumptions C16_parse_mailmap_before_fix_refuted.

(* "P N <p@x> C N <c@x>" gives two entries; a line that ends in ">" without "<" is skipped *)
Example C16_ex_parse :
  parse_mailmap [80; 32; 78; 32; 60; 112; 64; 120; 62; 32; 67; 32; 78; 32; 60; 99; 64; 120; 62; 10; 35; 32; 120; 10] =
  Some [([99; 64; 120], ([80; 32; 78], [112; 64; 120])); ([67; 32; 78], ([80; 32; 78], [112; 64; 120]))]
  /\ parse_mailmap [97; 62] = Some [].
Proof. split; vm_compute; reflexivity. Qed.
