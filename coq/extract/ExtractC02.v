Require Extraction.
Require Import ExtrOcamlBasic.
From Herc Require Import Base.Conv Plan.Syntax Plan.Exec Plan.Graph Plan.Checker Plan.ExecCheck.
Extraction "c02_model.ml" conv_anchor plan_ok topob retainedb mkA exec_ok mkR.
