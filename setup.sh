#!/bin/sh
# MANIFEST.setup_cmd: build the whole framework offline from files on disk.
set -e
cd "$(dirname "$0")"
export GOFLAGS=-mod=mod GOPROXY=off GOSUMDB=off GOTOOLCHAIN=local
mkdir -p work evidence replays
# 1. Coq: full .vo build of every theory and property file
( cd coq && coq_makefile -f _CoqProject $(find theories props -name '*.v' | sort) -o Makefile >/dev/null \
  && find theories props -name '*.v' | sort | tr '\n' ' ' | sed 's/ $//' | tr ' ' '\n' > .sources.tmp \
  && python3 -c "import sys; open('.sources','w').write('\n'.join(l.strip() for l in open('.sources.tmp') if l.strip()))" && rm -f .sources.tmp \
  && timeout 7200 make -j16 )
# 2. extraction + OCaml replay drivers
for d in ocaml/c*/; do
  p=$(basename "$d")
  [ -f "$d/driver.ml" ] && ocaml/build.sh "$p"
done
# 3. Go harness binaries against /repo's working tree (build tag verif)
cp /repo/go.sum harness/go.sum
mkdir -p harness/bin
for d in harness/cmd/*/; do
  n=$(basename "$d")
  ( cd harness && go build -tags verif -o bin/$n ./cmd/$n )
done
echo setup done
