(* Abstract, executable model of leaves/burndown.go BurndownAnalysis over ARRAYS of values.

   What is abstracted, and which property licenses it:
   * a tracked file (internal/burndown.File, a red-black tree of intervals) is the plain array of its
     per-line values; File.Update is [arr_update] (C03: "tracker = array": same array, the reported deltas
     have the same sums per (current, previous) value; reports are issued here one line at a time);
   * File.Merge is the per-line rule written in [file_merge] (transcribed from file.go; C07 proves the
     tree version equal to it);
   * the tree diff + blob cache + file diff of a commit against the previous commit of the same branch are
     an input: a list of [change]s carrying line counts and run-length diff scripts (C20/C11);
   * hibernation (Hibernate/Boot) is the identity on this model (C09);
   * rename handling and binary files are NOT modelled: a change with different names or a binary side
     yields [Err PUnmodelled] (they do not occur on conflict-free histories).
   Go maps are association lists; the iteration order over `keys` in Merge only permutes additive updates
   of different files, the model takes the order in which the keys were first written.

   State shared by all forked branches (Fork copies the struct: maps and slices are shared by reference):
   globalHistory, fileHistories, peopleHistories, matrix, deletions.  A File carries the updater closure
   bound to the history object that fileHistories[name] held when the file was created: the model gives
   every history object a handle.  Per branch: files, mergedFiles, mergedAuthor, tick, previousTick.  *)
From Coq Require Import List ZArith Lia Bool.
From Herc Require Import Burndown.Base Burndown.Dense.
Import ListNotations.
Open Scope Z_scope.

(* ---------- association lists on Z keys ---------- *)
Section Assoc.
  Context {V : Type}.
  Fixpoint aget (l : list (Z * V)) (k : Z) : option V :=
    match l with
    | [] => None
    | (k', v) :: r => if k' =? k then Some v else aget r k
    end.
  Fixpoint aset (l : list (Z * V)) (k : Z) (v : V) : list (Z * V) :=
    match l with
    | [] => [(k, v)]
    | (k', v') :: r => if k' =? k then (k, v) :: r else (k', v') :: aset r k v
    end.
  Fixpoint adel (l : list (Z * V)) (k : Z) : list (Z * V) :=
    match l with
    | [] => []
    | (k', v') :: r => if k' =? k then r else (k', v') :: adel r k
    end.
End Assoc.

(* ---------- packed values ---------- *)
Definition tree_max_bin_power : Z := 14.
Definition mark : Z := 16383.                    (* burndown.TreeMergeMark = 1<<14 - 1 *)
Definition author_missing : Z := 262142.         (* identity.AuthorMissing = 1<<18 - 2 *)
Definition author_self : Z := 262141.            (* authorSelf = AuthorMissing - 1 *)

Record cfg := mkCfg { c_people : Z; c_files : bool }.

Definition pack (cf : cfg) (person tick : Z) : Z :=
  if c_people cf =? 0 then tick
  else Z.lor (Z.land tick mark) (Z.shiftl person tree_max_bin_power).
Definition unpack (cf : cfg) (v : Z) : Z * Z :=
  if c_people cf =? 0 then (author_missing, v)
  else (Z.shiftr v tree_max_bin_power, Z.land v mark).
Definition is_mark (v : Z) : bool := Z.land v mark =? mark.

(* ---------- sparse histories ---------- *)
Fixpoint inner_add (row : list (Z * Z)) (k d : Z) : list (Z * Z) :=
  match row with
  | [] => [(k, d)]
  | (k', v) :: r => if k' =? k then (k', v + d) :: r else (k', v) :: inner_add r k d
  end.
Fixpoint sp_add (H : list (Z * list (Z * Z))) (t k d : Z) : list (Z * list (Z * Z)) :=
  match H with
  | [] => [(t, [(k, d)])]
  | (t', row) :: r => if t' =? t then (t', inner_add row k d) :: r else (t', row) :: sp_add r t k d
  end.

Record shared := mkShared {
  s_gh : list (Z * list (Z * Z));                 (* globalHistory *)
  s_fhs : list (Z * list (Z * list (Z * Z)));     (* history objects by handle *)
  s_names : list (Z * Z);                         (* fileHistories: path -> handle *)
  s_next : Z;                                     (* next fresh handle *)
  s_phs : list (Z * list (Z * list (Z * Z)));     (* peopleHistories[i], absent = nil *)
  s_mx : list (Z * list (Z * Z));                 (* matrix[i], absent = nil *)
  s_dels : list (Z * bool)                        (* deletions *)
}.
Definition shared0 : shared := mkShared [] [] [] 0 [] [] [].

Definition with_gh (s : shared) x := mkShared x (s_fhs s) (s_names s) (s_next s) (s_phs s) (s_mx s) (s_dels s).
Definition with_fhs (s : shared) x := mkShared (s_gh s) x (s_names s) (s_next s) (s_phs s) (s_mx s) (s_dels s).
Definition with_names (s : shared) x n := mkShared (s_gh s) (s_fhs s) x n (s_phs s) (s_mx s) (s_dels s).
Definition with_phs (s : shared) x := mkShared (s_gh s) (s_fhs s) (s_names s) (s_next s) x (s_mx s) (s_dels s).
Definition with_mx (s : shared) x := mkShared (s_gh s) (s_fhs s) (s_names s) (s_next s) (s_phs s) x (s_dels s).
Definition with_dels (s : shared) x := mkShared (s_gh s) (s_fhs s) (s_names s) (s_next s) (s_phs s) (s_mx s) x.

Definition aget_d {V} (d : V) (l : list (Z * V)) (k : Z) : V := match aget l k with Some v => v | None => d end.

(* the four updaters *)
Definition update_global (cf : cfg) (s : shared) (cur prev d : Z) : shared :=
  with_gh s (sp_add (s_gh s) (snd (unpack cf cur)) (snd (unpack cf prev)) d).
Definition update_file (cf : cfg) (hd : Z) (s : shared) (cur prev d : Z) : shared :=
  with_fhs s (aset (s_fhs s) hd (sp_add (aget_d [] (s_fhs s) hd) (snd (unpack cf cur)) (snd (unpack cf prev)) d)).
Definition update_author (cf : cfg) (s : shared) (cur prev d : Z) : result shared :=
  let (pa, pt) := unpack cf prev in
  if pa =? author_missing then Ok s
  else if (pa <? 0) || (c_people cf <=? pa) then Panic PIndex
  else Ok (with_phs s (aset (s_phs s) pa (sp_add (aget_d [] (s_phs s) pa) (snd (unpack cf cur)) pt d))).
Definition update_matrix (cf : cfg) (s : shared) (cur prev d : Z) : result shared :=
  let na := fst (unpack cf cur) in
  let oa := fst (unpack cf prev) in
  if oa =? author_missing then Ok s
  else if (oa <? 0) || (c_people cf <=? oa) then Panic PIndex
  else
    let na' := if (na =? oa) && (0 <? d) then author_self else na in
    Ok (with_mx s (aset (s_mx s) oa (inner_add (aget_d [] (s_mx s) oa) na' d))).

(* File.updateTime followed by the updaters that newFile attached *)
Definition update_time (cf : cfg) (hd : option Z) (s : shared) (cur prev d : Z) : result shared :=
  if is_mark prev then (if cur =? prev then Ok s else Panic PMark)
  else if is_mark cur then Ok s
  else
    let s1 := update_global cf s cur prev d in
    let s2 := match hd with Some h => update_file cf h s1 cur prev d | None => s1 end in
    if c_people cf =? 0 then Ok s2
    else match update_author cf s2 cur prev d with
         | Ok s3 => update_matrix cf s3 cur prev d
         | e => e
         end.

(* ---------- the tracker as an array ---------- *)
Record file := mkFile { f_vals : list Z; f_hist : option Z }.

Fixpoint report_deleted (cf : cfg) (hd : option Z) (s : shared) (t : Z) (vs : list Z) : result shared :=
  match vs with
  | [] => Ok s
  | v :: r => match update_time cf hd s t v (-1) with
              | Ok s' => report_deleted cf hd s' t r
              | e => e
              end
  end.

(* File.Update(time, pos, ins, del) on the array *)
Definition arr_update (cf : cfg) (f : file) (s : shared) (t pos ins del : Z) : result (file * shared) :=
  if (pos <? 0) || (ins <? 0) || (del <? 0) then Panic POther
  else if (ins =? 0) && (del =? 0) then Ok (f, s)
  else
    let len := Z.of_nat (length (f_vals f)) in
    if (len <? pos) || (len <? pos + del) then Panic POther
    else
      let r1 := if 0 <? ins then update_time cf (f_hist f) s t t ins else Ok s in
      match r1 with
      | Ok s1 =>
          let dead := firstn (Z.to_nat del) (skipn (Z.to_nat pos) (f_vals f)) in
          match report_deleted cf (f_hist f) s1 t dead with
          | Ok s2 =>
              Ok (mkFile (firstn (Z.to_nat pos) (f_vals f) ++ repeat t (Z.to_nat ins) ++
                          skipn (Z.to_nat (pos + del)) (f_vals f)) (f_hist f), s2)
          | Panic c => Panic c
          | Err c => Err c
          end
      | Panic c => Panic c
      | Err c => Err c
      end.

(* ---------- changes of one commit, as delivered by TreeDiff/BlobCache/FileDiff ---------- *)
Inductive dop := DEq | DIns | DDel.
Inductive change :=
| CInsert (path : Z) (lines : Z)
| CDelete (path : Z) (lines : Z)
| CModify (path : Z) (old_loc new_loc : Z) (diffs : list (dop * Z)).

Record branch := mkBranch {
  b_files : list (Z * file);
  b_merged : list (Z * bool);        (* mergedFiles *)
  b_mauthor : Z;                     (* mergedAuthor *)
  b_tick : Z;
  b_prev : Z                         (* previousTick *)
}.
Definition branch0 : branch := mkBranch [] [] author_missing 0 0.

Definition with_files (b : branch) x := mkBranch x (b_merged b) (b_mauthor b) (b_tick b) (b_prev b).
Definition with_merged (b : branch) x := mkBranch (b_files b) x (b_mauthor b) (b_tick b) (b_prev b).

Definition on_new_tick (b : branch) : branch :=
  mkBranch (b_files b) (b_merged b) author_missing (b_tick b) (if b_prev b <? b_tick b then b_tick b else b_prev b).

Notation st := (branch * shared)%type (only parsing).

(* newFile + handleInsertion *)
Definition handle_insertion (cf : cfg) (author : Z) (b : branch) (s : shared) (path lines : Z) : result st :=
  match aget (b_files b) path with
  | Some _ => Err PExists
  | None =>
      let '(hd, s1) :=
        if c_files cf then
          match aget (s_names s) path with
          | Some h => (Some h, s)
          | None => (Some (s_next s),
                     with_fhs (with_names s (aset (s_names s) path (s_next s)) (s_next s + 1))
                              (aset (s_fhs s) (s_next s) []))
          end
        else (None, s) in
      let t := if c_people cf =? 0 then b_tick b else pack cf author (b_tick b) in
      match update_time cf hd s1 t t lines with
      | Ok s2 =>
          let b1 := with_files b (aset (b_files b) path (mkFile (repeat t (Z.to_nat lines)) hd)) in
          let s3 := with_dels s2 (adel (s_dels s2) path) in
          let b2 := if b_tick b =? mark then with_merged b1 (aset (b_merged b1) path true) else b1 in
          Ok (b2, s3)
      | Panic c => Panic c
      | Err c => Err c
      end
  end.

Definition handle_deletion (cf : cfg) (author : Z) (b : branch) (s : shared) (path lines : Z) : result st :=
  match aget (b_files b) path with
  | None => Ok (b, s)
  | Some f =>
      let tick := if (b_tick b =? mark) && negb (aget_d false (s_dels s) path) then 0 else b_tick b in
      let s1 := with_dels s (aset (s_dels s) path true) in
      match arr_update cf f s1 (pack cf author tick) 0 0 lines with
      | Ok (_, s2) =>
          let b1 := with_files b (adel (b_files b) path) in
          let s3 := with_names s2 (adel (s_names s2) path) (s_next s2) in
          let b2 := if b_tick b =? mark then with_merged b1 (aset (b_merged b1) path false) else b1 in
          Ok (b2, s3)
      | Panic c => Panic c
      | Err c => Err c
      end
  end.

(* the loop of handleModification over thisDiffs.Diffs; pending = (type, rune count), "" = count 0 *)
Fixpoint hm_loop (cf : cfg) (t : Z) (diffs : list (dop * Z)) (pos : Z) (pending : dop * Z)
         (f : file) (s : shared) : result (file * shared) :=
  let apply (e : dop * Z) (pos : Z) : result (file * shared * Z) :=
    match fst e with
    | DIns => match arr_update cf f s t pos (snd e) 0 with
              | Ok (f', s') => Ok (f', s', pos + snd e)
              | Panic c => Panic c | Err c => Err c
              end
    | _ => match arr_update cf f s t pos 0 (snd e) with
           | Ok (f', s') => Ok (f', s', pos)
           | Panic c => Panic c | Err c => Err c
           end
    end in
  match diffs with
  | [] =>
      if 0 <? snd pending then
        match apply pending pos with
        | Ok (f', s', _) => Ok (f', s')
        | Panic c => Panic c | Err c => Err c
        end
      else Ok (f, s)
  | (DEq, len) :: rest =>
      if 0 <? snd pending then
        match apply pending pos with
        | Ok (f', s', pos') => hm_loop cf t rest (pos' + len) (DEq, 0) f' s'
        | Panic c => Panic c | Err c => Err c
        end
      else hm_loop cf t rest (pos + len) pending f s
  | (DIns, len) :: rest =>
      if 0 <? snd pending then
        match fst pending with
        | DIns => Err POther                    (* "DiffInsert may not appear after DiffInsert" *)
        | _ => match arr_update cf f s t pos len (snd pending) with
               | Ok (f', s') => hm_loop cf t rest (pos + len) (DEq, 0) f' s'
               | Panic c => Panic c | Err c => Err c
               end
        end
      else hm_loop cf t rest pos (DIns, len) f s
  | (DDel, len) :: rest =>
      if 0 <? snd pending then Err POther        (* "DiffDelete may not appear after DiffInsert/DiffDelete" *)
      else hm_loop cf t rest pos (DDel, len) f s
  end.

Definition handle_modification (cf : cfg) (author : Z) (b : branch) (s : shared)
           (path old_loc new_loc : Z) (diffs : list (dop * Z)) : result st :=
  let b0 := if b_tick b =? mark then with_merged b (aset (b_merged b) path true) else b in
  match aget (b_files b0) path with
  | None => handle_insertion cf author b0 s path new_loc
  | Some f =>
      if negb (Z.of_nat (length (f_vals f)) =? old_loc) then Err PIntegrity
      else
        match hm_loop cf (pack cf author (b_tick b0)) diffs 0 (DEq, 0) f s with
        | Ok (f', s') =>
            if negb (Z.of_nat (length (f_vals f')) =? new_loc) then Err PIntegrity
            else Ok (with_files b0 (aset (b_files b0) path f'), s')
        | Panic c => Panic c
        | Err c => Err c
        end
  end.

Fixpoint handle_changes (cf : cfg) (author : Z) (chs : list change) (b : branch) (s : shared) : result st :=
  match chs with
  | [] => Ok (b, s)
  | ch :: rest =>
      let r := match ch with
               | CInsert p n => handle_insertion cf author b s p n
               | CDelete p n => handle_deletion cf author b s p n
               | CModify p o n d => handle_modification cf author b s p o n d
               end in
      match r with
      | Ok (b', s') => handle_changes cf author rest b' s'
      | e => e
      end
  end.

(* Consume *)
Definition consume (cf : cfg) (author tick : Z) (is_merge : bool) (chs : list change)
           (b : branch) (s : shared) : result st :=
  let b1 :=
    if is_merge then mkBranch (b_files b) [] author mark (b_prev b)
    else on_new_tick (mkBranch (b_files b) (b_merged b) (b_mauthor b) tick (b_prev b)) in
  match handle_changes cf author chs b1 s with
  | Ok (b2, s2) => Ok (mkBranch (b_files b2) (b_merged b2) (b_mauthor b2) tick (b_prev b2), s2)
  | e => e
  end.

(* ---------- File.Merge on arrays ---------- *)
Fixpoint merge_lines (myself other : list Z) : list Z :=
  match myself, other with
  | l :: m', ol :: o' =>
      (if is_mark ol then l
       else if is_mark l || (Z.land ol mark <? Z.land l mark) then ol else l) :: merge_lines m' o'
  | _, _ => myself
  end.

Fixpoint merge_others (myself : list Z) (others : list (list Z)) : result (list Z) :=
  match others with
  | [] => Ok myself
  | o :: r => if negb (Nat.eqb (length myself) (length o)) then Panic POther
              else merge_others (merge_lines myself o) r
  end.

Fixpoint resolve_marks (cf : cfg) (hd : option Z) (day : Z) (vals : list Z) (s : shared) : result (list Z * shared) :=
  match vals with
  | [] => Ok ([], s)
  | v :: r =>
      if is_mark v then
        match update_time cf hd s day day 1 with
        | Ok s1 => match resolve_marks cf hd day r s1 with
                   | Ok (r', s2) => Ok (day :: r', s2)
                   | e => e
                   end
        | Panic c => Panic c | Err c => Err c
        end
      else match resolve_marks cf hd day r s with
           | Ok (r', s2) => Ok (v :: r', s2)
           | e => e
           end
  end.

Definition file_merge (cf : cfg) (day : Z) (f : file) (others : list file) (s : shared) : result (file * shared) :=
  match merge_others (f_vals f) (map f_vals others) with
  | Ok vals => match resolve_marks cf (f_hist f) day vals s with
               | Ok (vals', s') => Ok (mkFile vals' (f_hist f), s')
               | Panic c => Panic c | Err c => Err c
               end
  | Panic c => Panic c
  | Err c => Err c
  end.

(* BurndownAnalysis.Merge: all = the receiver followed by the other branches *)
Fixpoint merged_keys (keys : list (Z * bool)) (m : list (Z * bool)) : list (Z * bool) :=
  match m with
  | [] => keys
  | (k, v) :: r => merged_keys (aset keys k (aget_d false keys k || v)) r
  end.

Fixpoint some_files (l : list (option file)) : list file :=
  match l with [] => [] | Some f :: r => f :: some_files r | None :: r => some_files r end.

Fixpoint merge_keys (cf : cfg) (day : Z) (keys : list (Z * bool)) (all : list branch) (s : shared)
  : result (list branch * shared) :=
  match keys with
  | [] => Ok (all, s)
  | (k, false) :: rest =>
      merge_keys cf day rest (map (fun b => with_files b (adel (b_files b) k)) all) s
  | (k, true) :: rest =>
      match some_files (map (fun b => aget (b_files b) k) all) with
      | [] => merge_keys cf day rest all s
      | f0 :: others =>
          match file_merge cf day f0 others s with
          | Ok (f', s') => merge_keys cf day rest (map (fun b => with_files b (aset (b_files b) k f')) all) s'
          | Panic c => Panic c
          | Err c => Err c
          end
      end
  end.

Definition analysis_merge (cf : cfg) (all : list branch) (s : shared) : result (list branch * shared) :=
  match all with
  | [] => Ok ([], s)
  | me :: _ =>
      let keys := fold_left (fun ks b => merged_keys ks (b_merged b)) all [] in
      match merge_keys cf (pack cf (b_mauthor me) (b_tick me)) keys all s with
      | Ok (me' :: rest, s') => Ok (on_new_tick me' :: rest, s')
      | r => r
      end
  end.

(* ---------- plan execution (core/pipeline.go Run restricted to this item) ---------- *)
Inductive action :=
| AEmerge (b : Z)
| ACommit (c b : Z)
| AFork (b : Z) (bs : list Z)
| AMerge (bs : list Z)
| ADelete (b : Z)
| AHibernate (bs : list Z)
| ABoot (bs : list Z).

(* isMerge: the nearest action before (index >= 1 only) or after, skipping hibernate/boot, is a commit
   action of the same commit *)
Definition is_hib (a : action) : bool := match a with AHibernate _ | ABoot _ => true | _ => false end.
Fixpoint nearest_commit (l : list action) : option Z :=
  match l with
  | [] => None
  | a :: r => if is_hib a then nearest_commit r
              else match a with ACommit c _ => Some c | _ => None end
  end.
Definition is_merge_at (before_rev after : list action) (c : Z) : bool :=
  (* before_rev: the actions before the current one, nearest first; plan[0] is never examined *)
  let back := nearest_commit (removelast before_rev) in
  match back with
  | Some c' => if c' =? c then true
               else match nearest_commit after with Some c2 => c2 =? c | None => false end
  | None => match nearest_commit after with Some c2 => c2 =? c | None => false end
  end.

(* the analysis state of a live branch together with the commit the plumbing items diff against *)
Record lbranch := mkLB { lb_state : branch; lb_last : option Z }.

Record world := mkWorld { w_branches : list (Z * lbranch); w_shared : shared }.
Definition world0 : world := mkWorld [] shared0.

Fixpoint get_all (bs : list Z) (m : list (Z * lbranch)) : option (list lbranch) :=
  match bs with
  | [] => Some []
  | b :: r => match aget m b, get_all r m with
              | Some x, Some xs => Some (x :: xs)
              | _, _ => None
              end
  end.
Fixpoint set_all (bs : list Z) (xs : list lbranch) (m : list (Z * lbranch)) : list (Z * lbranch) :=
  match bs, xs with
  | b :: r, x :: xr => set_all r xr (aset m b x)
  | _, _ => m
  end.

Section Run.
  Variable cf : cfg.
  (* plumbing: author (people index) and tick of a commit, and the changes of commit c against the
     previous commit of the branch (None = the empty tree) *)
  Variable author_of_commit : Z -> Z.
  Variable tick_of_commit : Z -> Z.
  Variable changes_of : option Z -> Z -> list change.

  Definition step (before_rev after : list action) (a : action) (w : world) : result world :=
    match a with
    | AEmerge b => Ok (mkWorld (aset (w_branches w) b (mkLB branch0 None)) (w_shared w))
    | ACommit c b =>
        match aget (w_branches w) b with
        | None => Err POther
        | Some lb =>
            match consume cf (author_of_commit c) (tick_of_commit c) (is_merge_at before_rev after c)
                          (changes_of (lb_last lb) c) (lb_state lb) (w_shared w) with
            | Ok (b', s') => Ok (mkWorld (aset (w_branches w) b (mkLB b' (Some c))) s')
            | Panic e => Panic e
            | Err e => Err e
            end
        end
    | AFork b bs =>
        match aget (w_branches w) b with
        | None => Err POther
        | Some lb => Ok (mkWorld (fold_left (fun m b' => aset m b' lb) bs (w_branches w)) (w_shared w))
        end
    | AMerge bs =>
        match get_all bs (w_branches w) with
        | None => Err POther
        | Some lbs =>
            match analysis_merge cf (map lb_state lbs) (w_shared w) with
            | Ok (sts, s') =>
                Ok (mkWorld (set_all bs (map (fun p => mkLB (fst p) (lb_last (snd p))) (combine sts lbs)) (w_branches w)) s')
            | Panic e => Panic e
            | Err e => Err e
            end
        end
    | ADelete b => Ok (mkWorld (adel (w_branches w) b) (w_shared w))
    | AHibernate _ | ABoot _ => Ok w
    end.

  Fixpoint run_from (before_rev : list action) (plan : list action) (w : world) : result world :=
    match plan with
    | [] => Ok w
    | a :: rest => match step before_rev rest a w with
                   | Ok w' => run_from (a :: before_rev) rest w'
                   | e => e
                   end
    end.
  Definition run (plan : list action) : result world := run_from [] plan world0.
End Run.

(* getMasterBranch: the live branch with the smallest index *)
Definition master (w : world) : option (Z * lbranch) :=
  fold_left (fun acc kb => match acc with
                           | None => Some kb
                           | Some (k, _) => if fst kb <? k then Some kb else acc
                           end) (w_branches w) None.

(* ---------- Finalize ---------- *)
Record final := mkFinal {
  fin_global : list (list Z);
  fin_files : list (Z * list (list Z));           (* path -> matrix *)
  fin_owner : list (Z * list (Z * Z));            (* path -> (author -> lines) *)
  fin_people : list (list (list Z))
}.

(* the ownership walk over the nodes of the tracker = over the maximal runs of equal values;
   summed per author it is the per-line count *)
Fixpoint ownership (cf : cfg) (vals : list Z) (acc : list (Z * Z)) : list (Z * Z) :=
  match vals with
  | [] => acc
  | v :: r =>
      let a := fst (unpack cf v) in
      let a' := if a =? author_missing then -1 else a in
      ownership cf r (aset acc a' (aget_d 0 acc a' + 1))
  end.

Fixpoint map_result {A B} (f : A -> result B) (l : list A) : result (list B) :=
  match l with
  | [] => Ok []
  | x :: r => match f x with
              | Ok y => match map_result f r with Ok ys => Ok (y :: ys) | Panic c => Panic c | Err c => Err c end
              | Panic c => Panic c
              | Err c => Err c
              end
  end.

Definition finalize (cf : cfg) (G S : Z) (b : branch) (s : shared) : result final :=
  match group_sparse_history G S (s_gh s) (-1) with
  | Ok (gm, last) =>
      let named := filter (fun ph => match aget_d [] (s_fhs s) (snd ph) with [] => false | _ => true end) (s_names s) in
      match map_result (fun ph => match group_sparse_history G S (aget_d [] (s_fhs s) (snd ph)) last with
                                  | Ok (m, _) => Ok (fst ph, m) | Panic c => Panic c | Err c => Err c end) named with
      | Ok fms =>
          let owners := flat_map (fun ph => match aget (b_files b) (fst ph) with
                                            | None => []
                                            | Some f => [(fst ph, ownership cf (f_vals f) [])]
                                            end) named in
          match map_result (fun i => match aget_d [] (s_phs s) i with
                                     | [] => Ok (map (fun row => repeat 0 (length row)) gm)
                                     | h => match group_sparse_history G S h last with
                                            | Ok (m, _) => Ok m | Panic c => Panic c | Err c => Err c end
                                     end) (zrange (c_people cf)) with
          | Ok pms => Ok (mkFinal gm fms owners pms)
          | Panic c => Panic c
          | Err c => Err c
          end
      | Panic c => Panic c
      | Err c => Err c
      end
  | Panic c => Panic c
  | Err c => Err c
  end.
