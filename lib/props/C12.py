CONFIG = dict(
        level='proof',
        streams=[dict(harness='c12', driver='c12', shrink_field='items')],
        rule='four kinds of cases in one stream.  pipe: a declared history (commits with parents, author, tick, complete file contents, file modes) is written '
             'into an in-memory git repository and analysed by the REAL pipeline (hercules.NewPipeline, DeployItem DevsAnalysis + CommitsAnalysis + a '
             'recording item, Initialize, Run) with ConsiderEmptyCommits on/off, the rename threshold set/unset, Pipeline.HibernationDistance 0 (fact absent / '
             'present) or 1..4 in half of the cases, Pipeline.PrintActions / Pipeline.DumpPlan in one case out of eight; generators: every history of <=4 commits '
             '(quick; 5 thorough) and every such history with a three-parent commit again under hibernation (distance 1; thorough also 2), conflict-free '
             'histories with merges incl. octopus merges and several heads (synth.GenHist), the same closed to one head, the same with commits that '
             'repeat a parent tree or have an empty tree (empty commits, merges equal to one side), linear histories with arbitrary edits (repeated '
             'lines, deletions, renames, binary flips, missing final newline; synth.GenLinear), octopus merges of 3..7 parents whose parent branches were idle for '
             'different lengths (synth.GenOctopusShape + GenHistShape; hibernation in 5 cases of 6), histories drawn from the segment kinds of the long '
             'histories (kind shape); in one case of six the commit times are non-monotone / reversed / all equal (the replays of one merge then land in '
             'different ticks), in one of five a file changes its mode (alone or with its content).  scale: LONG histories generated from a few segments '
             '(lin n: a line; dia n v: n fork/merge diamonds, merges with / without own changes, empty side commits; comb n: n side branches alive at the same '
             'time, merged one after the other; octo n p: chains of p-parent merges), judged at the end of the run by the same once / listing / conservation '
             'oracles (extracted fast versions proved equal to the slow ones) and compared with the model: quick 1100 diamonds (3301 commits, >2^10 merges), '
             '1030 mixed diamonds under hibernation, 10^4 linear commits (3000 commits of one developer in one tick), a comb of 1000 branches (distance 2), 150 '
             'seven-parent and 18 33-/65-parent octopus merges (distances 3, 4), a mixture; thorough 10^4 diamonds (twice), 10^5 linear commits (70000 of one '
             'developer in one tick), combs of 5000 and 3000, 2500 five-parent octopus merges, a mixture of 7500 merges.  direct: LinesStatsCalculator.Consume on '
             'fabricated tree changes / blobs / diff scripts: every script of <=4 edits with counts 1..3 and of <=3 edits with counts {0,1,2,5} (thorough: <=5 '
             'and <=4), random arbitrary and canonical change lists incl. binary blobs, files without final newline, multi-byte runes, large counts, '
             'repeated entries, merge steps; large inputs (kind direct-scale): edits and inserted / deleted files of 2^8, 2^10, 2^15, 2^16 lines -1/+0/+1 and 10^5 '
             '(thorough 2^20), canonical scripts of 10^3 and 10^4 (thorough 10^5, 10^6) edits with counts of period 2, 7, 8, 9, 63, 64, 65.  '
             'reuse (round 3, object re-use): 2-3 analyses one after the other, each with a NEW hercules.Pipeline into which the SAME DevsAnalysis instance (and in half of '
             'the cases the same CommitsAnalysis instance) is deployed, then Initialize and Run: on the same history again, on a prefix of it (the history grew / shrank '
             'between the analyses), on a variant with other hashes (another repository), with ConsiderEmptyCommits and the hibernation distance changing from analysis '
             'to analysis, and in a third of the later analyses the SAME Pipeline object is initialised and run again instead of a new one (possible since 3598ee8); in one analysis of six (not the last) the recording item returns an error half way (error path: the state the leaf items hold is read with '
             'Finalize and compared with the model, then the items are used again); every analysis is judged exactly like a first one by all oracles and compared with '
             'the model started from its initial state (the fresh-instance twin); after the last analysis the results handed out by the earlier ones are serialised '
             'again and judged again when they changed (aliasing).  Generators: every history of <=3 commits twice / prefix-then-all, every history of 4 (thorough 5) '
             'commits with a commit of several parents, random histories of the pipe kinds, segment shapes, two long ones (1100 diamonds = more than 2^10 merges '
             'remembered; octopus + comb with a failing first analysis; thorough 10^4 diamonds).  Further input attributes since round 3: a people dictionary given '
             'from outside that does not know every developer (AuthorMissing is the author of commits, merges included; field pd), two files of one commit with the '
             'same content (two changes of one commit reaching one blob).  '
             'Round 4 (content of the values; kinds bytes-*, direct-bytes, direct-widths): the file contents are no longer ASCII words only - lines of legacy 8-bit text, '
             'bytes that never occur in UTF-8, truncated / overlong / surrogate sequences, U+FFFD as real content, BOMs, tabs, CRLF / lone CR, NBSP / U+2028 / U+3000, '
             'leading / trailing / inner white space, upper / lower case, empty lines; the variants a normalisation would make equal face each other in ONE case (every '
             'pair of variants of seven groups, one becoming the other); white-space-only lines as the unterminated last line of a file (12 kinds of blank line x '
             'completed / appended / kept / replaced, exhaustive); empty, BOM-only and blank-only blobs; symbolic links (a file becomes a link and back, the target '
             'changes); file names that are case variants of each other or share a prefix (a.go, A.go, a.go.go, d/a.go, f1 / f10 / f100).  The options of the upstream '
             'FileDiff vary WITH them and with the older options (hibernation, rename threshold, empty commits, people dictionary, skewed ticks, mode flips, merges and '
             'octopus merges of the earlier generators whose contents are rewritten line by line): FileDiff.WhitespaceIgnore in half of these cases (the declared truth then '
             'takes lines that differ in U+0020 only for one line; the line COUNTS stay those of the declared contents), FileDiff.NoCleanup in a quarter, FileDiff.Timeout '
             '1 / 1000 / 100000 ms; the harness checks by reflection that the item took them.  A diff script that is not the minimal one must still grow the file by the '
             'declared number of lines and - without WhitespaceIgnore - must not insert / delete FEWER lines than the minimal diff of the declared bytes.  direct: blobs '
             'of eight content classes for inserted / deleted / modified entries, blob hashes chosen by the harness that agree in their first 1, 2, 4, 7, 8, 16 bytes, '
             'counts and numbers of changes per call at 9, 10, 11, 99, 100, 101, 999, 1000, 1001 (pipe: that many files changed by one commit).  '
             'prefix-merges: two independent merge commits whose HASHES agree in their first 1, 2, 4, 6, 7, 8 (thorough 9, 10) hex digits (the harness searches the nonces '
             'of the two commit messages: birthday search over the encoded commits), joined by a third merge, in three variants (both change files; one equals a parent; '
             'same tick and developer), both settings of ConsiderEmptyCommits, hibernation distance 0..2.  '
             'Non-trivial = pipe / scale / reuse case with >=3 commits or direct case with a script of >=2 edits; distinct = distinct '

             'declared input (history / segments / change list + options).',
        exhaustive_note='diff scripts over {equal, insert, delete} x counts {1,2,3} up to length 4 (quick) / 5 (thorough) and x counts {0,1,2,5} up to length 3 / 4 '
                        'enumerated completely through LinesStatsCalculator.Consume; every history of <=4 (thorough 5) commits with <=3 parents per commit, own content '
                        'or the first parent\'s tree, both settings of ConsiderEmptyCommits, without hibernation, and those with a three-parent commit with '
                        'hibernation distance 1 (thorough 1, 2); longer histories are sampled',
        assumptions=[
            'replay_ok (coq/theories/LineStats/Model.v): the merge flag of a replay step says exactly whether its commit is replayed more than once, and a commit '
            'is replayed at most once per parent.  This is what C02 (plan) and C14 (run loop, isMerge) provide; it is derived in Coq from C02\'s specification and C14_is_merge for every '
            'completed model run on a validated plan (C12_replay_ok_composed, docs/COMPOSITION.md) and is evaluated on the '
            'replay sequence of every real run of the harness (real plan from verifapi.PrepareRunPlan and the steps a recording item saw) and a failure is reported',
            'C12_linestats needs a script without two neighbouring deletions (C11: FileDiff output is canonical); every script the real FileDiff produced in the '
            'harness runs is checked against the extracted predicate; C12_linestats_composed derives the hypothesis from C11\'s validator script_ok',
            'author index, tick, tree changes, diff scripts, blob line counts and languages are inputs of the model (observed per replay step); they belong to C16, C19, C20, C11',
            '"changes files relative to a parent" is judged on the parent the commit was replayed on; a root commit is compared with the empty tree',
        ],
        trusted_base=[
            'hand-written Gallina model coq/theories/LineStats/Model.v of LinesStatsCalculator.Consume, OneShotMergeProcessor.ShouldConsumeCommit, '
            'DevsAnalysis.Consume/Finalize and CommitsAnalysis.Consume/Finalize, tied to the code by the replay of every harness case',
            'the recording pipeline item of harness/cmd/c12 (reads the dependencies of every replay step) and the ground truth computed by the harness from the '
            'declared file contents (line split, LCS) and from the run plan',
            'hook file /repo/verifapi/c12/c12.go (type aliases and constants only)',
            'for long replay sequences the driver evaluates replay_ok_fast / once_ok_fast / single_fast / commits_run_fast / devs_result_fast '
            '(coq/theories/LineStats/Fast.v, FMapPositive of the standard library), proved equal to replay_ok / once_ok / single_branch / commits_run / '
            'devs_result (C12_fast_*); on sequences of <=40 steps both are evaluated and must agree',
        ],
        level_text='Coq theorems over the model: C12_linestats (all diff scripts without two neighbouring deletions: added+changed = inserted, removed+changed = deleted, '
                   'added-removed = growth), C12_linestats_refuted_without_canonical, C12_commit_conservation (whole commit), C12_language_sums (every run), '
                   'C12_once + C12_once_counters (all replay sequences satisfying replay_ok: at most once, exactly once when every replay changes files or empty commits '
                   'are counted, the counters are the attributions), C12_listing (listing = commits replayed once, no duplicates), C12_fast_* (the n log n judgements applied to long replay sequences equal replay_ok / once_ok / single_branch / commits_run / devs_result on every input).  The model is tied to the Go code by '
                   'replaying every harness case (direct LinesStatsCalculator calls and real pipeline runs) through the extracted model with zero mismatches, and the '
                   'implementation outputs are judged by independent oracles (declared contents, plan).',
        level_note='Proved about the Gallina model, not about the Go text; the tie is the per-run correspondence replay (sampled histories, exhaustive small diff scripts). '
                   'replay_ok is an assumption discharged by C02/C14 and checked at run time on every generated history, not proved from the planner here. Upstream items '
                   '(identity, ticks, tree diff, file diff, languages, blob cache) are inputs of the model, not modelled.',
        technique='machine-checked proof in Coq over a Gallina model + model/implementation correspondence replay on real pipeline runs',
    )
