#!/bin/sh
# The repository's stable baseline with the verif guard OFF (no -tags verif).
export GOFLAGS=-mod=mod GOPROXY=off GOSUMDB=off GOTOOLCHAIN=local
cd /repo && go test -json -vet=off -count=1 -timeout 25m ./internal/burndown/... ./internal/levenshtein/... ./internal/rbtree/... ./internal/toposort/... .
