(* The results of ViewMatrix.v / OwnerProofs.v about what Finalize returns (Analysis.finalize: per-file matrices,
   ownership tables, per-developer matrices), the branch the result is taken from (getMasterBranch), and the
   corollaries: no negative cell, last row = lines at HEAD. *)
From Coq Require Import List ZArith Lia Bool Permutation.
From Herc Require Import Burndown.Base Burndown.Dense Burndown.DenseProofs Burndown.Lifetimes Burndown.LifetimesFacts
  Burndown.AncFacts Burndown.Analysis Burndown.SparseFacts Burndown.AnalysisFacts Burndown.Replay
  Burndown.HunkProofs Burndown.LinearProofs Burndown.StepProofs Burndown.CommitProofs Burndown.MergeProofs
  Burndown.PlanProofs Burndown.DagProofs Burndown.MatrixProofs Burndown.FrameFacts Burndown.ViewFacts Burndown.ViewStep
  Burndown.ViewMerge Burndown.ViewDag Burndown.ViewMatrix Burndown.OwnerProofs.
Import ListNotations.
Open Scope Z_scope.

(* ---------- corollaries on the oracle side: last row of a filtered matrix ---------- *)
Lemma last_row_head h G S keep : 1 <= G -> 1 <= S -> conflict_free h = true -> single_head h = true ->
  sum_z (nth (Z.to_nat (last_event h / S)) (truth_matrix h G S keep) []) = count keep (head_lines h).
Proof.
  intros HG HS Hcf Hsh. rewrite (truth_matrix_rows h G S keep).
  pose proof (last_event_nonneg h) as H0. assert (0 <= last_event h / S) by (apply Z.div_pos; lia).
  assert (E : nth_error (map (truth_row h G S keep) (zrange (last_event h / S + 1))) (Z.to_nat (last_event h / S)) =
              Some (truth_row h G S keep (last_event h / S))).
  { rewrite nth_error_map. unfold zrange. rewrite nth_error_zrange_from by lia. cbn [option_map]. f_equal. f_equal. lia. }
  rewrite (nth_error_nth _ _ _ E). rewrite (truth_last_row_sum h G S HG HS Hcf keep).
  unfold head_lines. rewrite count_filter. apply count_ext_in. intros pl Hin.
  rewrite (head_alive h Hcf Hsh pl Hin). apply andb_comm.
Qed.

(* ---------- the state of the names map and of the handles after a validated plan ---------- *)
Definition null_view (cf : cfg) : view cf.
Proof.
  refine (mkView cf (fun _ => []) (fun _ _ _ => false) (fun _ _ => false) _ (fun _ _ _ _ _ => eq_refl) (fun _ _ => eq_refl)
                 (fun _ _ _ _ _ _ _ => eq_refl)).
  intros hd s cur prev d s' E. split; [reflexivity|]. split; reflexivity.
Defined.

Lemma run_names h cf aidx plan w :
  conflict_free h = true -> (forall c, 0 <= c < ncommits h -> tick_of h c < mark) -> (forall c, 0 <= znth 0 aidx c) ->
  plan_okb h plan = true -> run_hist cf h aidx plan = Ok w ->
  NI (w_shared w) /\ (forall b lb, aget (w_branches w) b = Some lb -> hgood cf (w_shared w) (b_files (lb_state lb))) /\
  (c_files cf = false -> s_names (w_shared w) = []).
Proof.
  intros Hcf Hmark Haidx Hok Er.
  destruct (view_sparse h cf aidx Hcf Hmark Haidx (null_view cf) (fun _ => false) (fun _ _ _ _ _ => eq_refl) eq_refl plan w Hok Er)
    as (_ & _ & HNI & HHG & Hnf & _). split; [|split]; assumption.
Qed.

Lemma in_nodup_aget {X} (l : list (Z * X)) k v : NoDup (map fst l) -> In (k, v) l -> aget l k = Some v.
Proof.
  induction l as [|[q x] r IH]; intros Hnd Hin; [destruct Hin|]. cbn [aget map fst] in *. inversion Hnd; subst.
  destruct Hin as [E|Hin].
  - injection E as -> ->. rewrite Z.eqb_refl. reflexivity.
  - destruct (Z.eqb_spec q k) as [->|Hne]; [|apply IH; auto].
    exfalso. apply H1. change k with (fst (k, v)). apply in_map. exact Hin.
Qed.

(* ---------- getMasterBranch: the live branch with the smallest index ---------- *)
Section FoldMin.
  Context {X : Type}.
  Definition fmin (acc : option (Z * X)) (kb : Z * X) : option (Z * X) :=
    match acc with None => Some kb | Some (k, _) => if fst kb <? k then Some kb else acc end.

  Lemma fold_min_spec : forall (m : list (Z * X)) acc r, fold_left fmin m acc = Some r ->
    (In r m \/ acc = Some r) /\ (forall kb, In kb m -> fst r <= fst kb) /\ (forall a, acc = Some a -> fst r <= fst a).
  Proof.
    induction m as [|kb m IH]; intros acc r E; cbn [fold_left] in E.
    - split; [right; exact E|]. split; [intros kb []|]. intros a Ea. rewrite Ea in E. injection E as ->. lia.
    - destruct (IH _ _ E) as (I1 & I2 & I3). unfold fmin in I1, I3. split; [|split].
      + destruct I1 as [I1|I1]; [left; right; exact I1|].
        destruct acc as [[k x]|]; [|injection I1 as <-; left; left; reflexivity].
        destruct (fst kb <? k); [injection I1 as <-; left; left; reflexivity|right; exact I1].
      + intros kb' [<-|Hin]; [|apply I2; exact Hin].
        destruct acc as [[k x]|]; [|apply (I3 kb eq_refl)].
        destruct (Z.ltb_spec (fst kb) k); [apply (I3 kb eq_refl)|]. specialize (I3 (k, x) eq_refl). cbn [fst] in I3. lia.
      + intros a Ea. subst acc. destruct a as [k x]. cbn [fst].
        destruct (Z.ltb_spec (fst kb) k); [specialize (I3 kb eq_refl); lia|apply (I3 (k, x) eq_refl)].
  Qed.
End FoldMin.

Lemma aget_some_in {X} (l : list (Z * X)) k : aget l k <> None <-> In k (map fst l).
Proof.
  induction l as [|[q x] r IH]; cbn [aget map fst In]; [tauto|].
  destruct (Z.eqb_spec q k) as [->|Hne]; [split; [auto|discriminate]|]. rewrite IH. split; [auto|]. intros [E|H]; [congruence|exact H].
Qed.

Lemma vget_all_true : forall (v : list bool) c, forallb (fun x => x) v = true -> 0 <= c < Z.of_nat (length v) -> vget v c = true.
Proof.
  induction v as [|x v IH]; intros c Hall Hc; cbn [length] in Hc; [lia|]. cbn [forallb] in Hall. apply andb_prop in Hall.
  destruct Hall as [Hx Hall]. rewrite vget_cons. destruct (Z.eqb_spec c 0); [exact Hx|].
  destruct (Z.ltb_spec c 0); [lia|]. apply IH; auto. lia.
Qed.

Theorem master_full h cf aidx plan w b lb :
  conflict_free h = true -> (forall c, 0 <= c < ncommits h -> tick_of h c < mark) -> (forall c, 0 <= znth 0 aidx c) ->
  plan_okb h plan = true -> master_all h plan = true -> run_hist cf h aidx plan = Ok w ->
  master w = Some (b, lb) ->
  aget (w_branches w) b = Some lb /\
  exists l0, lb_last lb = Some l0 /\ forall c, 0 <= c < ncommits h -> ancb (ancs h) l0 c = true.
Proof.
  intros Hcf Hmark Haidx Hok Hma Er Em. unfold plan_okb in Hok. unfold master_all in Hma.
  destruct (prun h (ancs h) (length (h_parents h)) [] plan pstate0) as [ps|] eqn:Ep; [|discriminate].
  unfold run_hist, run in Er.
  pose proof (DagProofs.run_W h cf aidx Hcf Hmark Haidx plan [] pstate0 world0 ps w (DagProofs.W_init h cf aidx) Ep Er)
    as (W1 & W2 & W3 & W4 & W5 & W6 & W7 & W8 & W9).
  destruct (ps_pend ps) as [[m0 bs0]|] eqn:Epend; [discriminate|].
  change (fold_left _ (ps_live ps) None) with (fold_left fmin (ps_live ps) None) in Hma.
  destruct (fold_left fmin (ps_live ps) None) as [[b' pb]|] eqn:Emp; [|discriminate].
  unfold master in Em. change (fold_left _ (w_branches w) None) with (fold_left fmin (w_branches w) None) in Em.
  destruct (fold_min_spec _ _ _ Em) as ([I1|I1] & I2 & _); [|discriminate].
  destruct (fold_min_spec _ _ _ Emp) as ([J1|J1] & J2 & _); [|discriminate].
  pose proof (in_nodup_aget _ _ _ W2 I1) as Eb. pose proof (in_nodup_aget _ _ _ W1 J1) as Eb'.
  assert (Hbb : b' = b).
  { pose proof (W3 b) as H3. rewrite Eb in H3. destruct (aget (ps_live ps) b) as [pb0|] eqn:E1; [|destruct H3].
    pose proof (W3 b') as H4. rewrite Eb' in H4. destruct (aget (w_branches w) b') as [lb0|] eqn:E2; [|destruct H4].
    apply aget_in in E1. apply aget_in in E2. specialize (J2 _ E1). specialize (I2 _ E2). cbn [fst] in *. lia. }
  subst b'. split; [exact Eb|].
  pose proof (W3 b) as H3. rewrite Eb, Eb' in H3. unfold DagProofs.entry_ok in H3. rewrite Epend in H3.
  destruct H3 as (P1 & P2 & P3 & P4).
  apply andb_prop in Hma. destruct Hma as [Hall Hlen]. apply Nat.eqb_eq in Hlen.
  pose proof (commits_ok h Hcf) as Hco. unfold commits_okb in Hco.
  assert (Hn1 : 1 <= ncommits h).
  { repeat (apply andb_prop in Hco; destruct Hco as [Hco ?]). lia. }
  destruct (pb_last pb) as [l0|] eqn:El.
  - exists l0. split; [exact P1|]. intros c Hc. unfold ancb. fold (vget (znth [] (ancs h) l0) c).
    change (znth [] (ancs h) l0) with (PlanProofs.vecof h (Some l0)). rewrite <- P3.
    apply vget_all_true; auto. unfold ncommits in Hc. lia.
  - exfalso. rewrite P3 in Hall. unfold PlanProofs.vecof in Hall. unfold ncommits in Hn1.
    destruct (length (h_parents h)) as [|k]; [lia|]. cbn in Hall. discriminate.
Qed.
Print Assumptions master_full.

(* ---------- Finalize ---------- *)
Lemma map_result_in {X Y} (f : X -> result Y) : forall l ys, map_result f l = Ok ys ->
  forall y, In y ys -> exists x, In x l /\ f x = Ok y.
Proof.
  induction l as [|x l IH]; intros ys E y Hy; cbn [map_result] in E.
  - injection E as <-. destruct Hy.
  - destruct (f x) as [y0| |] eqn:Ex; try discriminate. destruct (map_result f l) as [ys0| |] eqn:El; try discriminate.
    injection E as <-. destruct Hy as [<-|Hy]; [exists x; split; [left; reflexivity|exact Ex]|].
    destruct (IH _ eq_refl y Hy) as (x' & Hx' & Ex'). exists x'. split; [right; exact Hx'|exact Ex'].
Qed.

Lemma map_result_nth {X Y} (f : X -> result Y) : forall l ys, map_result f l = Ok ys ->
  forall j y, nth_error ys j = Some y -> exists x, nth_error l j = Some x /\ f x = Ok y.
Proof.
  induction l as [|x l IH]; intros ys E j y Hy; cbn [map_result] in E.
  - injection E as <-. destruct j; discriminate.
  - destruct (f x) as [y0| |] eqn:Ex; try discriminate. destruct (map_result f l) as [ys0| |] eqn:El; try discriminate.
    injection E as <-. destruct j as [|j]; cbn [nth_error] in *.
    + injection Hy as <-. exists x. split; [reflexivity|exact Ex].
    + apply (IH _ eq_refl j y Hy).
Qed.

Theorem finalize_truth h cf aidx plan w b lb l0 G S fin :
  conflict_free h = true -> single_head h = true ->
  (forall c, 0 <= c < ncommits h -> tick_of h c < mark) -> (forall c, 0 <= znth 0 aidx c < author_missing) ->
  c_people cf <= author_missing ->
  plan_okb h plan = true -> run_hist cf h aidx plan = Ok w -> 1 <= G -> 1 <= S ->
  aget (w_branches w) b = Some lb -> lb_last lb = Some l0 ->
  (forall c, 0 <= c < ncommits h -> ancb (ancs h) l0 c = true) ->
  finalize cf G S (lb_state lb) (w_shared w) = Ok fin ->
  fin_global fin = truth_project h G S /\
  (forall p M, In (p, M) (fin_files fin) -> M = truth_file h G S p) /\
  (forall p tbl seq, In (p, tbl) (fin_owner fin) -> In (p, seq) (h_paths h) ->
     forall i, aget_d 0 tbl i = count (fun pl => keep_path p pl && (lkey cf aidx (snd pl) =? i)) (head_lines h)) /\
  (forall j M d, nth_error (fin_people fin) j = Some M ->
     (forall c, 0 <= c < ncommits h -> (znth 0 aidx c =? Z.of_nat j) = (author_of h c =? d)) ->
     M = truth_dev h G S d).
Proof.
  intros Hcf Hsh Hmark Haidx Hpm Hok Er HG HS Eb El Hfull Ef.
  assert (Haidx0 : forall c, 0 <= znth 0 aidx c) by (intros c; apply Haidx).
  destruct (run_names h cf aidx plan w Hcf Hmark Haidx0 Hok Er) as ((N1 & N2 & N3) & _ & Hnf).
  unfold finalize in Ef.
  destruct (group_sparse_history G S (s_gh (w_shared w)) (-1)) as [[gm last]| |] eqn:Eg; try discriminate.
  destruct (matrix_eq h cf aidx plan w G S gm last Hcf Hmark Haidx0 Hok Er HG HS Eg) as [Egm Elast].
  set (named := filter (fun ph => match aget_d [] (s_fhs (w_shared w)) (snd ph) with [] => false | _ => true end) (s_names (w_shared w))) in *.
  destruct (map_result _ named) as [fms| |] eqn:Efm; try discriminate.
  destruct (map_result _ (zrange (c_people cf))) as [pms| |] eqn:Epm; try discriminate.
  injection Ef as <-. cbn [fin_global fin_files fin_owner fin_people].
  split; [exact Egm|]. split; [|split].
  - (* files *)
    intros p M Hin. destruct (map_result_in _ _ _ Efm _ Hin) as ([p' k] & Hph & Ex). cbn [fst snd] in Ex.
    destruct (group_sparse_history G S (aget_d [] (s_fhs (w_shared w)) k) last) as [[m lp]| |] eqn:Ev; try discriminate.
    injection Ex as -> ->. unfold named in Hph. apply filter_In in Hph. destruct Hph as [Hph _].
    pose proof (in_nodup_aget _ _ _ N3 Hph) as En.
    assert (Hfiles : c_files cf = true).
    { destruct (c_files cf) eqn:Ec; [reflexivity|]. rewrite (Hnf eq_refl) in Hph. destruct Hph. }
    destruct (files_matrix h cf aidx plan w G S gm last p k M lp Hcf Hmark Haidx0 Hfiles Hok Er HG HS Eg En Ev) as [R1 _].
    exact R1.
  - (* ownership *)
    intros p tbl seq Hin Hp i. apply in_flat_map in Hin. destruct Hin as ([p' k] & Hph & Hin). cbn [fst] in Hin.
    destruct (aget (b_files (lb_state lb)) p') as [f|] eqn:Ef0; [|destruct Hin].
    destruct Hin as [E|[]]. injection E as -> <-.
    apply (ownership_head h cf aidx Hcf Hmark Haidx plan w b lb l0 p seq f Hsh Hok Er Eb El Hfull Hp Ef0 i).
  - (* developers *)
    intros j M d Hnth Hdev. destruct (map_result_nth _ _ _ Epm j M Hnth) as (i & Hi & Ex).
    assert (Hj : (j < Z.to_nat (c_people cf))%nat).
    { assert (nth_error (zrange (c_people cf)) j <> None) by congruence. apply nth_error_Some in H.
      unfold zrange in H. rewrite zrange_from_length in H. exact H. }
    unfold zrange in Hi. rewrite nth_error_zrange_from in Hi by exact Hj. injection Hi as <-. change (0 + Z.of_nat j) with (Z.of_nat j) in *.
    assert (Hp0 : c_people cf <> 0) by lia.
    assert (Hine : Z.of_nat j <> author_missing) by lia.
    destruct (aget_d [] (s_phs (w_shared w)) (Z.of_nat j)) as [|e r] eqn:Eph.
    + injection Ex as <-.
      pose proof (people_empty h cf aidx plan w G S (Z.of_nat j) d Hcf Hmark Haidx0 Hp0 Hine Hdev Hok Er HG HS Eph) as Hz.
      rewrite Egm. unfold truth_project, truth_dev, truth_matrix. rewrite map_map. apply map_ext. intros s.
      rewrite map_length. rewrite <- map_const_repeat. apply map_ext. intros b0. symmetry. apply Hz.
    + rewrite <- Eph in Ex.
      destruct (group_sparse_history G S (aget_d [] (s_phs (w_shared w)) (Z.of_nat j)) last) as [[m lp]| |] eqn:Ev; try discriminate.
      injection Ex as <-.
      apply (people_matrix h cf aidx plan w G S gm last (Z.of_nat j) d m lp Hcf Hmark Haidx0 Hp0 Hine Hdev Hok Er HG HS Eg Ev).
Qed.
Print Assumptions finalize_truth.

(* ---------- corollaries: no negative cell, last row = the lines at HEAD ---------- *)
Theorem files_nonneg h cf aidx plan w G S M last p k Mp lp :
  conflict_free h = true -> (forall c, 0 <= c < ncommits h -> tick_of h c < mark) -> (forall c, 0 <= znth 0 aidx c) ->
  c_files cf = true -> plan_okb h plan = true -> run_hist cf h aidx plan = Ok w ->
  1 <= G -> 1 <= S -> group_sparse_history G S (s_gh (w_shared w)) (-1) = Ok (M, last) ->
  aget (s_names (w_shared w)) p = Some k ->
  group_sparse_history G S (aget_d [] (s_fhs (w_shared w)) k) last = Ok (Mp, lp) ->
  forall row, In row Mp -> forall v, In v row -> 0 <= v.
Proof.
  intros Hcf Hmark Haidx Hfiles Hok Er HG HS Eg En Ev.
  destruct (files_matrix h cf aidx plan w G S M last p k Mp lp Hcf Hmark Haidx Hfiles Hok Er HG HS Eg En Ev) as [-> _].
  apply truth_matrix_nonneg.
Qed.

Theorem files_last_row h cf aidx plan w G S M last p k Mp lp :
  conflict_free h = true -> single_head h = true ->
  (forall c, 0 <= c < ncommits h -> tick_of h c < mark) -> (forall c, 0 <= znth 0 aidx c) ->
  c_files cf = true -> plan_okb h plan = true -> run_hist cf h aidx plan = Ok w ->
  1 <= G -> 1 <= S -> group_sparse_history G S (s_gh (w_shared w)) (-1) = Ok (M, last) ->
  aget (s_names (w_shared w)) p = Some k ->
  group_sparse_history G S (aget_d [] (s_fhs (w_shared w)) k) last = Ok (Mp, lp) ->
  sum_z (nth (Z.to_nat (last / S)) Mp []) = count (keep_path p) (head_lines h).
Proof.
  intros Hcf Hsh Hmark Haidx Hfiles Hok Er HG HS Eg En Ev.
  destruct (files_matrix h cf aidx plan w G S M last p k Mp lp Hcf Hmark Haidx Hfiles Hok Er HG HS Eg En Ev) as [-> _].
  destruct (matrix_eq h cf aidx plan w G S M last Hcf Hmark Haidx Hok Er HG HS Eg) as [_ ->].
  apply last_row_head; auto.
Qed.

Theorem people_nonneg h cf aidx plan w G S M last i d Mi li :
  conflict_free h = true -> (forall c, 0 <= c < ncommits h -> tick_of h c < mark) -> (forall c, 0 <= znth 0 aidx c) ->
  c_people cf <> 0 -> i <> author_missing ->
  (forall c, 0 <= c < ncommits h -> (znth 0 aidx c =? i) = (author_of h c =? d)) ->
  plan_okb h plan = true -> run_hist cf h aidx plan = Ok w ->
  1 <= G -> 1 <= S -> group_sparse_history G S (s_gh (w_shared w)) (-1) = Ok (M, last) ->
  group_sparse_history G S (aget_d [] (s_phs (w_shared w)) i) last = Ok (Mi, li) ->
  forall row, In row Mi -> forall v, In v row -> 0 <= v.
Proof.
  intros Hcf Hmark Haidx Hp Hi Hdev Hok Er HG HS Eg Ev.
  destruct (people_matrix h cf aidx plan w G S M last i d Mi li Hcf Hmark Haidx Hp Hi Hdev Hok Er HG HS Eg Ev) as [-> _].
  apply truth_matrix_nonneg.
Qed.

Theorem people_last_row h cf aidx plan w G S M last i d Mi li :
  conflict_free h = true -> single_head h = true ->
  (forall c, 0 <= c < ncommits h -> tick_of h c < mark) -> (forall c, 0 <= znth 0 aidx c) ->
  c_people cf <> 0 -> i <> author_missing ->
  (forall c, 0 <= c < ncommits h -> (znth 0 aidx c =? i) = (author_of h c =? d)) ->
  plan_okb h plan = true -> run_hist cf h aidx plan = Ok w ->
  1 <= G -> 1 <= S -> group_sparse_history G S (s_gh (w_shared w)) (-1) = Ok (M, last) ->
  group_sparse_history G S (aget_d [] (s_phs (w_shared w)) i) last = Ok (Mi, li) ->
  sum_z (nth (Z.to_nat (last / S)) Mi []) = count (keep_dev h d) (head_lines h).
Proof.
  intros Hcf Hsh Hmark Haidx Hp Hi Hdev Hok Er HG HS Eg Ev.
  destruct (people_matrix h cf aidx plan w G S M last i d Mi li Hcf Hmark Haidx Hp Hi Hdev Hok Er HG HS Eg Ev) as [-> _].
  destruct (matrix_eq h cf aidx plan w G S M last Hcf Hmark Haidx Hok Er HG HS Eg) as [_ ->].
  apply last_row_head; auto.
Qed.

(* the ownership table in the vocabulary of the oracle (truth_ownership): people tracking on, people index i = developer d *)
Theorem ownership_dev h cf aidx plan w b lb l0 p seq f i d :
  conflict_free h = true -> (forall c, 0 <= c < ncommits h -> tick_of h c < mark) ->
  (forall c, 0 <= znth 0 aidx c < author_missing) -> c_people cf <> 0 ->
  (forall c, 0 <= c < ncommits h -> (znth 0 aidx c =? i) = (author_of h c =? d)) ->
  single_head h = true -> plan_okb h plan = true -> run_hist cf h aidx plan = Ok w ->
  aget (w_branches w) b = Some lb -> lb_last lb = Some l0 ->
  (forall c, 0 <= c < ncommits h -> ancb (ancs h) l0 c = true) ->
  In (p, seq) (h_paths h) -> aget (b_files (lb_state lb)) p = Some f ->
  aget_d 0 (ownership cf (f_vals f) []) i = count (fun pl => keep_path p pl && keep_dev h d pl) (head_lines h).
Proof.
  intros Hcf Hmark Haidx Hp Hdev Hsh Hok Er Eb El Hfull Hin Ef.
  rewrite (ownership_head h cf aidx Hcf Hmark Haidx plan w b lb l0 p seq f Hsh Hok Er Eb El Hfull Hin Ef i).
  apply count_ext_in. intros pl Hpl. unfold head_lines in Hpl. apply filter_In in Hpl. destruct Hpl as [Hpl _].
  unfold lkey, keep_dev. destruct (Z.eqb_spec (c_people cf) 0); [congruence|].
  rewrite (Hdev _ (born_range h Hcf pl Hpl)). reflexivity.
Qed.
Print Assumptions ownership_dev.

(* ---------- coverage: which paths have a file history, Finalize does not fail ---------- *)
(* a path has a (non-empty) file history iff it has at least one line *)
Theorem files_cover h cf aidx plan w :
  conflict_free h = true -> (forall c, 0 <= c < ncommits h -> tick_of h c < mark) -> (forall c, 0 <= znth 0 aidx c) ->
  c_files cf = true -> plan_okb h plan = true -> run_hist cf h aidx plan = Ok w ->
  forall p, In p (paths_with_lines h) <->
            exists k, aget (s_names (w_shared w)) p = Some k /\ aget_d [] (s_fhs (w_shared w)) k <> [].
Proof.
  intros Hcf Hmark Haidx Hfiles Hok Er p.
  destruct (view_sparse h cf aidx Hcf Hmark Haidx (file_view cf Hfiles p) (keep_path p) (fun _ _ _ _ _ => eq_refl) eq_refl plan w Hok Er)
    as (_ & _ & _ & _ & _ & Hnp & HD).
  split.
  - intros Hin. unfold paths_with_lines in Hin. apply in_map_iff in Hin. destruct Hin as ([p' seq] & Ep & Hin). cbn [fst] in Ep. subst p'.
    apply filter_In in Hin. destruct Hin as [Hin Hne]. cbn [snd] in Hne. destruct seq as [|l seq]; [discriminate|].
    assert (Hl : In l (l :: seq)) by (left; reflexivity).
    destruct (line_facts h Hcf p (l :: seq) l Hin Hl) as [Hb _].
    destruct (HD (l_born l) (proj2 (zrange_in _ _) Hb) p (l :: seq) l Hin Hl eq_refl) as [D1 D2].
    specialize (D1 Hfiles). destruct (aget (s_names (w_shared w)) p) as [k|] eqn:En; [|congruence].
    exists k. split; [reflexivity|].
    assert (Hk : keep_path p (p, l) = true) by (unfold keep_path; cbn [fst]; apply Z.eqb_refl).
    specialize (D2 Hk). cbn [v_proj file_view] in D2. unfold fh_of in D2. rewrite En in D2. exact D2.
  - intros (k & En & _). apply (Hnp p k En).
Qed.
Print Assumptions files_cover.

Lemma map_result_ok {X Y} (f : X -> result Y) : forall l, (forall x, In x l -> exists y, f x = Ok y) ->
  exists ys, map_result f l = Ok ys.
Proof.
  induction l as [|x l IH]; intros H; [exists []; reflexivity|].
  destruct (H x (or_introl eq_refl)) as [y Ey]. destruct IH as [ys Eys]; [intros x' Hx'; apply H; right; exact Hx'|].
  exists (y :: ys). cbn [map_result]. rewrite Ey, Eys. reflexivity.
Qed.

Lemma map_result_fst {X Y} (f : X -> result (Z * Y)) (g : X -> Z) : (forall x y, f x = Ok y -> fst y = g x) ->
  forall l ys, map_result f l = Ok ys -> map fst ys = map g l.
Proof.
  intros Hfg. induction l as [|x l IH]; intros ys E; cbn [map_result] in E.
  - injection E as <-. reflexivity.
  - destruct (f x) as [y0| |] eqn:Ex; try discriminate. destruct (map_result f l) as [ys0| |] eqn:El; try discriminate.
    injection E as <-. cbn [map]. rewrite (Hfg _ _ Ex), (IH _ eq_refl). reflexivity.
Qed.

Lemma map_result_length {X Y} (f : X -> result Y) : forall l ys, map_result f l = Ok ys -> length ys = length l.
Proof.
  induction l as [|x l IH]; intros ys E; cbn [map_result] in E.
  - injection E as <-. reflexivity.
  - destruct (f x) as [y0| |]; try discriminate. destruct (map_result f l) as [ys0| |] eqn:El; try discriminate.
    injection E as <-. cbn [length]. rewrite (IH _ eq_refl). reflexivity.
Qed.

Lemma nodup_filter_fst {X} (g : Z * X -> bool) (l : list (Z * X)) : NoDup (map fst l) -> NoDup (map fst (filter g l)).
Proof.
  induction l as [|x l IH]; intros Hnd; [constructor|]. inversion Hnd; subst. cbn [filter]. destruct (g x); [|auto].
  cbn [map]. constructor; [|auto]. intros Hin. apply H1. apply in_map_iff in Hin. destruct Hin as (y & Ey & Hy).
  apply filter_In in Hy. rewrite <- Ey. apply in_map. tauto.
Qed.

(* Finalize succeeds as soon as the project matrix can be built (i.e. the global history is not empty, F11) *)
Theorem finalize_ok h cf aidx plan w G S M last b :
  conflict_free h = true -> (forall c, 0 <= c < ncommits h -> tick_of h c < mark) -> (forall c, 0 <= znth 0 aidx c) ->
  c_people cf <= author_missing ->
  plan_okb h plan = true -> run_hist cf h aidx plan = Ok w -> 1 <= G -> 1 <= S ->
  group_sparse_history G S (s_gh (w_shared w)) (-1) = Ok (M, last) ->
  exists fin, finalize cf G S b (w_shared w) = Ok fin.
Proof.
  intros Hcf Hmark Haidx Hpm Hok Er HG HS Eg.
  destruct (run_names h cf aidx plan w Hcf Hmark Haidx Hok Er) as ((N1 & N2 & N3) & _ & Hnf).
  destruct (global_sparse h cf aidx Hcf Hmark Haidx plan w Hok Er) as (_ & Hgh & _).
  assert (Hne : s_gh (w_shared w) <> []) by (intros E0; rewrite E0 in Eg; discriminate).
  destruct (gh_ok_dense_full mark (s_gh (w_shared w)) G S Hgh Hne HS HG) as (M0 & last0 & E0 & _ & _ & _ & Hk1 & Hk2).
  rewrite Eg in E0. injection E0 as <- <-.
  assert (Hl0 : 0 <= last) by (destruct (Hk1 _ Hk2); lia).
  unfold finalize. rewrite Eg.
  set (named := filter (fun ph => match aget_d [] (s_fhs (w_shared w)) (snd ph) with [] => false | _ => true end) (s_names (w_shared w))).
  set (ff := fun ph : Z * Z => match group_sparse_history G S (aget_d [] (s_fhs (w_shared w)) (snd ph)) last with
                     | Ok (m, _) => Ok (fst ph, m) | Panic c => Panic c | Err c => Err c end).
  destruct (map_result_ok ff named) as [fms Efm].
  { intros [p k] Hph. unfold named in Hph. apply filter_In in Hph. destruct Hph as [Hph Hnz]. cbn [snd] in Hnz.
    assert (Hfiles : c_files cf = true).
    { destruct (c_files cf) eqn:Ec; [reflexivity|]. rewrite (Hnf eq_refl) in Hph. destruct Hph. }
    pose proof (in_nodup_aget _ _ _ N3 Hph) as En.
    destruct (view_sparse h cf aidx Hcf Hmark Haidx (file_view cf Hfiles p) (keep_path p) (fun _ _ _ _ _ => eq_refl) eq_refl plan w Hok Er)
      as (_ & Hsub & _).
    cbn [v_proj file_view] in Hsub. unfold fh_of in Hsub. rewrite En in Hsub.
    assert (Hvne : aget_d [] (s_fhs (w_shared w)) k <> []) by (intros E0; rewrite E0 in Hnz; discriminate).
    destruct (view_dense mark _ _ G S last Hgh Hsub Hk1 Hl0 Hvne HS HG) as (M1 & E1 & _).
    unfold ff. cbn [fst snd]. rewrite E1. eauto. }
  fold ff. rewrite Efm.
  set (fp := fun i : Z => match aget_d [] (s_phs (w_shared w)) i with
                     | [] => Ok (map (fun row : list Z => repeat 0 (length row)) M)
                     | _ :: _ => match group_sparse_history G S (aget_d [] (s_phs (w_shared w)) i) last with
                                 | Ok (m, _) => Ok m | Panic c => Panic c | Err c => Err c end
                     end).
  destruct (map_result_ok fp (zrange (c_people cf))) as [pms Epm].
  { intros i Hi. apply zrange_in in Hi. unfold fp.
    destruct (aget_d [] (s_phs (w_shared w)) i) as [|e r] eqn:Eph; [eauto|]. rewrite <- Eph.
    assert (Hp0 : c_people cf <> 0) by lia. assert (Hine : i <> author_missing) by lia.
    destruct (view_sparse h cf aidx Hcf Hmark Haidx (dev_view cf i Hine) (fun pl => znth 0 aidx (l_born (snd pl)) =? i)
                (dev_link2 h cf aidx i Hcf Hmark Haidx Hp0) eq_refl plan w Hok Er) as (_ & Hsub & _).
    cbn [v_proj dev_view] in Hsub.
    assert (Hvne : aget_d [] (s_phs (w_shared w)) i <> []) by (rewrite Eph; discriminate).
    destruct (view_dense mark _ _ G S last Hgh Hsub Hk1 Hl0 Hvne HS HG) as (M1 & E1 & _).
    rewrite E1. eauto. }
  assert (Efp : map_result
     (fun i : Z => match aget_d [] (s_phs (w_shared w)) i with
        | [] => Ok (map (fun row : list Z => repeat 0 (length row)) M)
        | p :: l => match group_sparse_history G S (p :: l) last with
                    | Ok (m, _) => Ok m | Panic c => Panic c | Err c => Err c end
        end) (zrange (c_people cf)) = Ok pms).
  { rewrite <- Epm. clear. induction (zrange (c_people cf)) as [|i l IH]; [reflexivity|]. cbn [map_result]. rewrite IH.
    unfold fp. destruct (aget_d [] (s_phs (w_shared w)) i); reflexivity. }
  rewrite Efp. eauto.
Qed.
Print Assumptions finalize_ok.

(* the per-file matrices and the ownership tables are those of the paths with at least one line, each once;
   one developer matrix per people index *)
Theorem finalize_cover h cf aidx plan w b lb l0 G S fin :
  conflict_free h = true -> (forall c, 0 <= c < ncommits h -> tick_of h c < mark) -> (forall c, 0 <= znth 0 aidx c) ->
  c_files cf = true -> plan_okb h plan = true -> run_hist cf h aidx plan = Ok w ->
  aget (w_branches w) b = Some lb -> lb_last lb = Some l0 ->
  (forall c, 0 <= c < ncommits h -> ancb (ancs h) l0 c = true) ->
  finalize cf G S (lb_state lb) (w_shared w) = Ok fin ->
  NoDup (map fst (fin_files fin)) /\
  (forall p, In p (map fst (fin_files fin)) <-> In p (paths_with_lines h)) /\
  map fst (fin_owner fin) = map fst (fin_files fin) /\
  length (fin_people fin) = Z.to_nat (c_people cf).
Proof.
  intros Hcf Hmark Haidx Hfiles Hok Er Eb El Hfull Ef.
  destruct (run_names h cf aidx plan w Hcf Hmark Haidx Hok Er) as ((N1 & N2 & N3) & _ & _).
  unfold finalize in Ef.
  destruct (group_sparse_history G S (s_gh (w_shared w)) (-1)) as [[gm last]| |] eqn:Eg; try discriminate.
  set (named := filter (fun ph => match aget_d [] (s_fhs (w_shared w)) (snd ph) with [] => false | _ => true end) (s_names (w_shared w))) in *.
  destruct (map_result _ named) as [fms| |] eqn:Efm; try discriminate.
  destruct (map_result _ (zrange (c_people cf))) as [pms| |] eqn:Epm; try discriminate.
  injection Ef as <-. cbn [fin_files fin_owner fin_people].
  assert (Efst : map fst fms = map fst named).
  { apply (map_result_fst _ fst) in Efm; [exact Efm|]. intros [p k] y E. cbn [fst snd] in E.
    destruct (group_sparse_history G S (aget_d [] (s_fhs (w_shared w)) k) last) as [[m lp]| |]; try discriminate.
    injection E as <-. reflexivity. }
  assert (Hnamed : forall p, In p (map fst named) <-> In p (paths_with_lines h)).
  { intros p. rewrite (files_cover h cf aidx plan w Hcf Hmark Haidx Hfiles Hok Er p). split.
    - intros Hin. apply in_map_iff in Hin. destruct Hin as ([p' k] & Ep & Hph). cbn [fst] in Ep. subst p'.
      unfold named in Hph. apply filter_In in Hph. destruct Hph as [Hph Hnz]. cbn [snd] in Hnz.
      exists k. split; [apply (in_nodup_aget _ _ _ N3 Hph)|]. intros E0. rewrite E0 in Hnz. discriminate.
    - intros (k & En & Hne). apply in_map_iff. exists (p, k). split; [reflexivity|]. unfold named. apply filter_In.
      split; [apply aget_in; exact En|]. cbn [snd]. destruct (aget_d [] (s_fhs (w_shared w)) k); [congruence|reflexivity]. }
  split; [rewrite Efst; apply nodup_filter_fst; exact N3|]. split; [intros p; rewrite Efst; apply Hnamed|]. split.
  - rewrite Efst.
    (* every named path has a file on a branch that holds every commit *)
    unfold plan_okb in Hok. destruct (prun h (ancs h) (length (h_parents h)) [] plan pstate0) as [ps|] eqn:Ep; [|discriminate].
    unfold run_hist, run in Er.
    pose proof (DagProofs.run_W h cf aidx Hcf Hmark Haidx plan [] pstate0 world0 ps w (DagProofs.W_init h cf aidx) Ep Er)
      as (W1 & W2 & W3 & W4 & W5 & W6 & W7 & W8 & W9).
    destruct (ps_pend ps) as [[m0 bs0]|] eqn:Epend; [discriminate|].
    pose proof (W3 b) as Hb. rewrite Eb in Hb. destruct (aget (ps_live ps) b) as [pb|]; [|destruct Hb].
    unfold DagProofs.entry_ok in Hb. rewrite Epend in Hb. destruct Hb as (P1 & P2 & P3 & P4).
    rewrite El in P1. rewrite <- P1 in P2.
    assert (Hfile : forall ph, In ph named -> exists f, aget (b_files (lb_state lb)) (fst ph) = Some f).
    { intros ph Hph. assert (Hin : In (fst ph) (paths_with_lines h)) by (apply Hnamed; apply in_map; exact Hph).
      unfold paths_with_lines in Hin. apply in_map_iff in Hin. destruct Hin as ([p seq] & Epp & Hin). cbn [fst] in Epp.
      apply filter_In in Hin. destruct Hin as [Hin Hne]. cbn [snd] in Hne. destruct seq as [|l seq]; [discriminate|].
      specialize (P2 (p, l :: seq) Hin). cbn [fst snd] in P2. unfold pgood in P2.
      assert (Hex : old_exists (ancs h) (Some l0) (l :: seq) = true).
      { unfold old_exists, path_exists. apply existsb_exists. exists l. split; [left; reflexivity|].
        apply Hfull. apply (line_facts h Hcf p (l :: seq) l Hin (or_introl eq_refl)). }
      rewrite Hex in P2. destruct P2 as [hd P2]. rewrite <- Epp. eauto. }
    clear - Hfile. induction named as [|ph r IH]; [reflexivity|]. cbn [flat_map map].
    destruct (Hfile ph (or_introl eq_refl)) as [f Ef]. rewrite Ef. cbn [app map fst]. f_equal.
    apply IH. intros ph' Hin. apply Hfile. right; exact Hin.
  - rewrite (map_result_length _ _ _ Epm). unfold zrange. apply zrange_from_length.
Qed.
Print Assumptions finalize_cover.

(* the project matrix exists as soon as the history has one line (the complement of F11) *)
Theorem project_matrix_exists h cf aidx plan w G S :
  conflict_free h = true -> (forall c, 0 <= c < ncommits h -> tick_of h c < mark) -> (forall c, 0 <= znth 0 aidx c) ->
  has_line h = true -> plan_okb h plan = true -> run_hist cf h aidx plan = Ok w -> 1 <= G -> 1 <= S ->
  exists M last, group_sparse_history G S (s_gh (w_shared w)) (-1) = Ok (M, last).
Proof.
  intros Hcf Hmark Haidx Hl Hok Er HG HS.
  destruct (global_sparse h cf aidx Hcf Hmark Haidx plan w Hok Er) as (_ & Hgh & Hkeys).
  assert (Hne : s_gh (w_shared w) <> []).
  { unfold has_line in Hl. destruct (all_lines h) as [|pl r] eqn:Eal; [discriminate|].
    assert (Hin : In pl (all_lines h)) by (rewrite Eal; left; reflexivity).
    assert (Hk : In (tick_of h (l_born (snd pl))) (keys (s_gh (w_shared w)))).
    { apply Hkeys. exists (l_born (snd pl)). split; [apply (born_range h Hcf pl Hin)|]. split; [|reflexivity].
      unfold event. apply existsb_exists. exists pl. split; [exact Hin|]. rewrite Z.eqb_refl. reflexivity. }
    intros E0. rewrite E0 in Hk. destruct Hk. }
  destruct (gh_ok_dense_full mark (s_gh (w_shared w)) G S Hgh Hne HS HG) as (M0 & last0 & E0 & _). eauto.
Qed.
Print Assumptions project_matrix_exists.

Theorem finalize_succeeds h cf aidx plan w G S b :
  conflict_free h = true -> (forall c, 0 <= c < ncommits h -> tick_of h c < mark) -> (forall c, 0 <= znth 0 aidx c) ->
  c_people cf <= author_missing -> has_line h = true ->
  plan_okb h plan = true -> run_hist cf h aidx plan = Ok w -> 1 <= G -> 1 <= S ->
  exists fin, finalize cf G S b (w_shared w) = Ok fin.
Proof.
  intros Hcf Hmark Haidx Hpm Hl Hok Er HG HS.
  destruct (project_matrix_exists h cf aidx plan w G S Hcf Hmark Haidx Hl Hok Er HG HS) as (M & last & Eg).
  apply (finalize_ok h cf aidx plan w G S M last b Hcf Hmark Haidx Hpm Hok Er HG HS Eg).
Qed.
Print Assumptions finalize_succeeds.
