// Round 4 of the C12 harness: the CONTENT of the values.  The generators of the earlier rounds wrote files made of ASCII
// letters and digits; here the lines are invalid UTF-8, legacy 8-bit text, U+FFFD, BOMs, tabs, CR / CRLF, white space of
// every kind (also as the whole line, also as an unterminated last line), case variants - and always several variants that
// a normalisation would make equal in ONE case.  The options of the upstream FileDiff (WhitespaceIgnore, NoCleanup,
// Timeout) vary together with them and with the options of the earlier rounds; symbolic links and empty / BOM-only /
// white-space-only blobs are entry kinds of their own; file names come in case variants and with common prefixes.
package main

import (
	. "verifharness/lib"

	"encoding/binary"
	"fmt"
	"io/ioutil"
	"os"
	"sort"
	"strings"

	"gopkg.in/src-d/go-git.v4/plumbing"
	"gopkg.in/src-d/go-git.v4/plumbing/object"

	"verifharness/synth"
)

// variant groups: the members of one group are what some normalisation (case folding, trimming, UTF-8 sanitising,
// CR stripping, white space removal) maps to one value
var lineGroups = [][]string{
	{"x", "X", " x", "x ", "x\t", "\tx", "x\r", "\xef\xbb\xbfx", "x\xc2\xa0", "  x"},
	{"Stra\xdfe", "Stra\xc3\x9fe", "Stra\xef\xbf\xbde", "Strasse", "STRASSE", "stra\xdfe", "Stra\xc3e"},
	{"\xff", "\xef\xbf\xbd", "\xc3", "\xc0\xaf", "\xed\xa0\x80", "?", "\xfe\xff", "\xf4\x90\x80\x80", "\x80"},
	{"", " ", "\t", "  ", " \t", "\t ", "\r", "\xc2\xa0", "\xe2\x80\xa8", "\xe3\x80\x80", "\xef\xbb\xbf", "\t\t", "    "},
	{"a b", "ab", "a\tb", "a  b", "a\xc2\xa0b", "a\rb", "A B", "a b ", " a b"},
	{"caf\xe9", "caf\xc3\xa9", "cafe\xcc\x81", "cafe", "CAF\xc9", "caf\xef\xbf\xbd"},
	{"\tcc -c util.c", "        cc -c util.c", "cc -c util.c", "\tcc  -c  util.c", "\tcc -c util.c\r"},
}

// white-space-only lines, the candidates for an unterminated last line
var blankLines = []string{" ", "\t", "  ", " \t", "\t ", "    ", "\t\t", "\xc2\xa0", "\r", " \t ", "\t \t", "\xef\xbb\xbf"}

// encLine decorates a plain line with the bytes of content class enc (direct cases and byteify).
func encLine(l string, enc int, i int) string {
	switch enc {
	case 1: // legacy 8-bit text
		return "caf\xe9 " + l + " stra\xdfe"
	case 2: // bytes that never occur in UTF-8
		return "\xff" + l + "\xfe"
	case 3: // CRLF
		return l + "\r"
	case 4: // a BOM at the beginning of the file (and of every eighth line)
		if i%8 == 0 {
			return "\xef\xbb\xbf" + l
		}
		return l
	case 5: // tabs and white space around, every third line white space only
		if i%3 == 1 {
			return blankLines[i%len(blankLines)]
		}
		return "\t" + l + "  "
	case 6: // lone CR inside, U+FFFD as real content next to an invalid byte
		return l + "\rx\xef\xbf\xbd\xc3"
	case 7: // truncated / overlong / surrogate sequences, NBSP, U+2028, U+3000
		return []string{"\xc3", "\xc0\xaf", "\xed\xa0\x80", "\xe2\x82", "\xc2\xa0", "\xe2\x80\xa8", "\xe3\x80\x80", "\xf0\x9f\x98"}[i%8] + l
	case 8: // upper case
		return strings.ToUpper(l)
	}
	return l
}

// byteify rewrites the contents of a generated history: every line gets a decoration that depends on the line, the style
// and (for some styles) on the commit, so that parent and child hold two VARIANTS of one line; some commits get an
// unterminated last line of white space.  The declared truth is computed from the rewritten contents as for every case.
func byteify(c *Config, cs []commitIn) {
	style := 1 + c.Rng.Intn(8)
	perCommit := c.Rng.Intn(3) == 0
	tail := c.Rng.Intn(3) // 0: none; 1: blank unterminated last line in the commits with an odd id; 2: in every second file
	blank := blankLines[c.Rng.Intn(len(blankLines))]
	done := map[string][]byte{} // the rewriting is a function of (commit class, content): unchanged files stay unchanged
	for i := range cs {
		fs := append([]fileIn{}, cs[i].Files...)
		for j := range fs {
			if isBinary(fs[j].Data) {
				continue
			}
			cls := 0
			if perCommit {
				cls = cs[i].ID % 2
			}
			withTail := tail == 1 && cs[i].ID%2 == 1 || tail == 2 && j%2 == 1
			key := fmt.Sprintf("%d/%v/%s", cls, withTail, fs[j].Data)
			if d, ok := done[key]; ok {
				fs[j].Data = d
				continue
			}
			lines := splitLines(fs[j].Data)
			var sb strings.Builder
			for k, l := range lines {
				fin := strings.HasSuffix(l, "\n")
				l = strings.TrimSuffix(l, "\n")
				st := style
				if cls == 1 && len(l)%2 == 0 {
					st = 0 // the other variant of the line: undecorated
				}
				sb.WriteString(encLine(l, st, k))
				if fin {
					sb.WriteByte('\n')
				}
			}
			s := sb.String()
			if withTail {
				if len(s) > 0 && s[len(s)-1] != '\n' {
					s += "\n"
				}
				s += blank
			}
			done[key] = []byte(s)
			fs[j].Data = done[key]
		}
		cs[i].Files = fs
	}
}

// genBytesLinear: a linear history of small files made of lines of the variant groups; the edits replace a line by
// another variant of its group, insert / delete lines, append or complete an unterminated last line of white space, turn
// a file into a symbolic link and back, change the target of a link, create empty / BOM-only / blank-only blobs.
func genBytesLinear(c *Config) []commitIn {
	type bf struct {
		lines []string
		fin   bool
		link  bool
		exec  bool
	}
	names := []string{"a.go", "A.go", "a.go.go", "d/a.go", "b.py", "Makefile", "n.md", "d/A.GO", "a.g"}
	pick := func() string {
		g := lineGroups[c.Rng.Intn(len(lineGroups))]
		return g[c.Rng.Intn(len(g))]
	}
	twin := func(l string) string {
		for _, g := range lineGroups {
			for _, v := range g {
				if v == l {
					return g[c.Rng.Intn(len(g))]
				}
			}
		}
		return pick()
	}
	uniq := 0
	plain := func() string { uniq++; return fmt.Sprintf("l%d", uniq) }
	files := map[string]*bf{}
	n := 3 + c.Rng.Intn(6)
	na := 1 + c.Rng.Intn(3)
	var cs []commitIn
	for id := 0; id < n; id++ {
		for k := 1 + c.Rng.Intn(3); k > 0; k-- {
			name := names[c.Rng.Intn(len(names))]
			f := files[name]
			if f == nil {
				f = &bf{fin: c.Rng.Intn(3) > 0}
				switch c.Rng.Intn(10) {
				case 0: // empty blob
				case 1: // only a BOM / only white space
					f.lines, f.fin = []string{blankLines[c.Rng.Intn(len(blankLines))]}, c.Rng.Intn(2) == 0
				case 2: // a symbolic link
					f.lines, f.fin, f.link = []string{names[c.Rng.Intn(len(names))]}, false, true
				default:
					for m := 1 + c.Rng.Intn(5); m > 0; m-- {
						if c.Rng.Intn(3) == 0 {
							f.lines = append(f.lines, plain())
						} else {
							f.lines = append(f.lines, pick())
						}
					}
				}
				files[name] = f
				continue
			}
			g := &bf{lines: append([]string{}, f.lines...), fin: f.fin, link: f.link, exec: f.exec}
			files[name] = g
			switch op := c.Rng.Intn(14); {
			case op == 0 && id > 1:
				delete(files, name)
			case op == 1: // file <-> symbolic link
				g.link = !g.link
				if g.link {
					g.lines, g.fin = []string{names[c.Rng.Intn(len(names))]}, false
				}
			case op == 2 && g.link: // the target changes
				g.lines = []string{names[c.Rng.Intn(len(names))] + "x"}
			case op == 2:
				g.exec = !g.exec
			case op <= 4: // an unterminated last line of white space is appended
				if !g.fin && len(g.lines) > 0 {
					g.fin = true
				}
				g.lines, g.fin = append(g.lines, blankLines[c.Rng.Intn(len(blankLines))]), false
			case op == 5 && len(g.lines) > 0: // the last line is completed / replaced by text, the file is terminated
				g.lines[len(g.lines)-1], g.fin = []string{"\tcc -c util.c", plain(), pick()}[c.Rng.Intn(3)], true
			case op == 6:
				g.fin = !g.fin
			case op <= 9 && len(g.lines) > 0: // a line becomes another variant of its group
				for m := 1 + c.Rng.Intn(2); m > 0; m-- {
					p := c.Rng.Intn(len(g.lines))
					g.lines[p] = twin(g.lines[p])
				}
			case op == 10 && len(g.lines) > 0:
				p := c.Rng.Intn(len(g.lines))
				g.lines = append(g.lines[:p], g.lines[p+1:]...)
			default:
				p := c.Rng.Intn(len(g.lines) + 1)
				l := pick()
				if c.Rng.Intn(3) == 0 {
					l = plain()
				}
				g.lines = append(g.lines[:p], append([]string{l}, g.lines[p:]...)...)
			}
		}
		ci := commitIn{ID: id, Author: c.Rng.Intn(na), Tick: id / 2}
		if id > 0 {
			ci.Parents = []int{id - 1}
		}
		var ns []string
		for k := range files {
			ns = append(ns, k)
		}
		sort.Strings(ns)
		for _, k := range ns {
			f := files[k]
			s := strings.Join(f.lines, "\n")
			if f.fin && len(f.lines) > 0 {
				s += "\n"
			}
			ci.Files = append(ci.Files, fileIn{Name: k, Data: []byte(s), Exec: f.exec && !f.link, Link: f.link})
		}
		cs = append(cs, ci)
	}
	return cs
}

// drawDiffOpts draws the options of FileDiff together with those of the earlier rounds.
func drawDiffOpts(c *Config, o *pipeOpts) {
	o.ws = c.Rng.Intn(2) == 0
	o.ncl = c.Rng.Intn(4) == 0
	if c.Rng.Intn(6) == 0 {
		// 7777 (round 5b): configured as 1 ms, then the item's Timeout field is set to 1 ns so that every diff
		// computation really runs past its deadline (the fault "the diff timed out")
		o.dto = []int{1, 1000, 100000, 7777, 7777}[c.Rng.Intn(5)]
	}
}

// bytesCases: the pipeline cases of round 4.
func bytesCases(c *Config) {
	// every last line of white space x completed / appended / replaced, with and without WhitespaceIgnore (exhaustive)
	for _, b := range blankLines {
		for shape := 0; shape < 4; shape++ {
			for _, ws := range []bool{false, true} {
				var v [3]string
				switch shape {
				case 0: // the blank line is completed to a real line, then appended again
					v = [3]string{"all:\n\tcc -c main.c\n" + b, "all:\n\tcc -c main.c\n\tcc -c util.c\n", "all:\n\tcc -c main.c\n\tcc -c util.c\n" + b}
				case 1: // the whole file is the blank line
					v = [3]string{b, "x\n", b + "\n" + b}
				case 2: // the blank line stays, the text before it changes
					v = [3]string{"p\nq\n" + b, "p\nr\n" + b, "r\n" + b}
				default: // one blank line becomes another
					v = [3]string{"p\n" + b, "p\n" + blankLines[(len(b)+shape)%len(blankLines)], "p\n" + b + "\n"}
				}
				var cs []commitIn
				for i := 0; i < 3; i++ {
					ci := commitIn{ID: i, Author: i % 2, Tick: i, Files: []fileIn{{Name: "Makefile", Data: []byte(v[i])}, {Name: "k.md", Data: []byte("k\n")}}}
					if i > 0 {
						ci.Parents = []int{i - 1}
					}
					cs = append(cs, ci)
				}
				runPipe(c, "bytes-blank-tail", pipeOpts{ren: shape%2 == 0, ws: ws, ncl: shape == 3}, cs)
			}
		}
	}
	// every pair of variants of one group: one line of a three-line file becomes the other variant
	for gi, g := range lineGroups {
		for i, a := range g {
			for j, b := range g {
				if i == j || (!c.Thorough() && (i+j+gi)%3 != 0) {
					continue
				}
				cs := []commitIn{
					{ID: 0, Author: 0, Tick: 0, Files: []fileIn{{Name: "t.txt", Data: []byte("h\n" + a + "\nt\n")}, {Name: "T.txt", Data: []byte(b)}}},
					{ID: 1, Parents: []int{0}, Author: 1, Tick: 1, Files: []fileIn{{Name: "t.txt", Data: []byte("h\n" + b + "\nt\n")}, {Name: "T.txt", Data: []byte(a)}}},
					{ID: 2, Parents: []int{1}, Author: 0, Tick: 1, Files: []fileIn{{Name: "t.txt", Data: []byte("h\n" + b + "\n" + a)}, {Name: "T.txt", Data: []byte(a + "\n" + b + "\n")}}},
				}
				runPipe(c, "bytes-variants", pipeOpts{ren: (i+j)%2 == 0, ws: (i+j)%4 < 2, cec: j%2 == 0}, cs)
			}
		}
	}
	// random linear histories over the variant groups
	for i := c.Count(900, 12000); i > 0; i-- {
		o := pipeOpts{cec: c.Rng.Intn(2) == 0, ren: c.Rng.Intn(2) == 0, hib: drawHib(c), pr: drawPr(c)}
		drawDiffOpts(c, &o)
		runPipe(c, "bytes-edits", o, genBytesLinear(c))
	}
	// the histories of the earlier rounds (merges, octopus merges, empty commits, renames, binary flips) with rewritten
	// contents and the FileDiff options: two features at once
	for _, k := range []struct {
		kind string
		q, t int
	}{{"hist", 400, 6000}, {"empties", 250, 4000}, {"linear", 400, 6000}, {"octo", 150, 3000}} {
		for i := c.Count(k.q, k.t); i > 0; i-- {
			o := pipeOpts{cec: c.Rng.Intn(2) == 0, ren: c.Rng.Intn(2) == 0, hib: drawHib(c), pr: drawPr(c)}
			drawDiffOpts(c, &o)
			if c.Rng.Intn(10) == 0 {
				o.pd = 1 + c.Rng.Intn(3)
			}
			cs := genPipe(c, k.kind)
			if c.Rng.Intn(4) > 0 {
				byteify(c, cs)
			}
			if k.kind != "linear" && c.Rng.Intn(6) == 0 {
				skewTicks(c, cs)
			}
			if k.kind != "octo" && c.Rng.Intn(5) == 0 {
				flipModes(c, cs)
			}
			if k.kind == "linear" && c.Rng.Intn(3) == 0 {
				editInPlace(c, cs)
			}
			runPipe(c, "bytes-"+k.kind, o, cs)
		}
	}
	// decimal widths: 9, 10, 11, 99, 100, 101 (thorough 999 .. 1001) files changed by one commit, named f1 .. fN (f1, f10,
	// f100 share prefixes), each with its own number of lines
	widths := []int{9, 10, 11, 99, 100, 101}
	if c.Thorough() {
		widths = append(widths, 999, 1000, 1001)
	}
	for wi, w := range widths {
		var cs []commitIn
		for id := 0; id < 3; id++ {
			ci := commitIn{ID: id, Author: 0, Tick: id}
			if id > 0 {
				ci.Parents = []int{id - 1}
			}
			for f := 1; f <= w; f++ {
				var sb strings.Builder
				for l := 0; l < 1+(f+id*(f%3))%4; l++ {
					fmt.Fprintf(&sb, "%d-%d\n", f, l+id*(f%2))
				}
				if id == 2 && f%10 == 0 {
					continue // deleted
				}
				ci.Files = append(ci.Files, fileIn{Name: fmt.Sprintf("f%d", f), Data: []byte(sb.String())})
			}
			cs = append(cs, ci)
		}
		runPipe(c, "bytes-widths", pipeOpts{ren: wi%2 == 0, ws: wi%3 == 0}, cs)
	}
}

// prefixMerges: two independent merge commits (3 and 6: each merges two children of the root) whose HASHES agree in their
// first hex digits, joined by a third merge and followed by an ordinary commit.  The hashes are computed: the harness
// builds the repository once, then searches the nonces of the two commit messages (a birthday search: 2^(2d) candidates
// for either commit give a pair agreeing in d hex digits), and declares the history with these nonces.  Returns false
// when the rebuilt repository does not show the prefix (never seen).
func prefixMerges(c *Config, digits int, variant int) ([]commitIn, bool) {
	file := func(name string, id, lines int) fileIn {
		var sb strings.Builder
		for l := 0; l < lines; l++ {
			fmt.Fprintf(&sb, "%s-%d-%d\n", name, id, l)
		}
		return fileIn{Name: name, Data: []byte(sb.String())}
	}
	r, fa, fb, fc, fd := file("r.md", 0, 2), file("a.go", 1, 3), file("b.py", 2, 1), file("c.go", 4, 2), file("d.py", 5, 4)
	cs := []commitIn{
		{ID: 0, Author: 0, Tick: 0, Files: []fileIn{r}},
		{ID: 1, Parents: []int{0}, Author: 1, Tick: 0, Files: []fileIn{fa, r}},
		{ID: 2, Parents: []int{0}, Author: 0, Tick: 1, Files: []fileIn{fb, r}},
		{ID: 3, Parents: []int{1, 2}, Author: 1, Tick: 1, Files: []fileIn{fa, fb, r}},
		{ID: 4, Parents: []int{0}, Author: 0, Tick: 1, Files: []fileIn{fc, r}},
		{ID: 5, Parents: []int{0}, Author: 1, Tick: 2, Files: []fileIn{fd, r}},
		{ID: 6, Parents: []int{4, 5}, Author: 1, Tick: 2, Files: []fileIn{fc, fd, r}},
		{ID: 7, Parents: []int{3, 6}, Author: 0, Tick: 3, Files: []fileIn{fa, fb, fc, fd, r}},
		{ID: 8, Parents: []int{7}, Author: 1, Tick: 3, Files: []fileIn{file("a.go", 8, 2), fb, fc, fd, r}},
	}
	switch variant % 3 {
	case 1: // the second merge takes one side unchanged (an empty side commit): it equals a parent
		cs[5].Files = []fileIn{r}
		cs[6].Files = []fileIn{fc, r}
		cs[7].Files = []fileIn{fa, fb, fc, r}
		cs[8].Files = []fileIn{file("a.go", 8, 2), fb, fc, r}
	case 2: // the merges are in the same tick by the same developer
		cs[6].Tick, cs[5].Tick = 1, 1
	}
	_, commits := synth.BuildRepo(toSpecs(cs))
	// the encoded commit is a fixed part (tree, parents, author, committer) followed by the message
	fixed := map[int][]byte{}
	for _, i := range []int{3, 6} {
		cm := *commits[i]
		cm.Message = "\x01"
		o := &plumbing.MemoryObject{}
		if err := cm.Encode(o); err != nil {
			panic(err)
		}
		rd, _ := o.Reader()
		body, _ := ioutil.ReadAll(rd)
		if len(body) == 0 || body[len(body)-1] != 1 {
			return cs, false
		}
		fixed[i] = body[:len(body)-1]
	}
	buf := make([]byte, 0, 1024)
	hashOf := func(i, nonce int) plumbing.Hash {
		buf = append(append(buf[:0], fixed[i]...), commitMessage(cs[i].ID, nonce)...)
		return plumbing.ComputeHash(plumbing.CommitObject, buf)
	}
	key := func(h plumbing.Hash) uint64 { return binary.BigEndian.Uint64(h[:8]) >> uint(64-4*digits) }
	n := 1 << uint(2*digits+1)
	seen := make(map[uint64]int, n)
	base := 1 + c.Rng.Intn(1000)*n
	for i := 0; i < n; i++ {
		seen[key(hashOf(3, base+i))] = base + i
	}
	for j := 1; j < 64*n; j++ {
		if k, ok := seen[key(hashOf(6, j))]; ok {
			cs[3].Nonce, cs[6].Nonce = k, j
			break
		}
	}
	if cs[3].Nonce == 0 {
		return cs, false
	}
	_, commits = synth.BuildRepo(toSpecs(cs))
	var _ *object.Commit = commits[3]
	return cs, key(commits[3].Hash) == key(commits[6].Hash) && commits[3].Hash != commits[6].Hash
}

// prefixCases: kind prefix-merges.
func prefixCases(c *Config) {
	ds := []int{1, 2, 4, 6, 7, 8}
	if c.Thorough() {
		ds = append(ds, 9, 10)
	}
	for _, d := range ds {
		for v := 0; v < 3; v++ {
			if d >= 9 && v > 0 {
				continue
			}
			cs, ok := prefixMerges(c, d, v)
			if !ok {
				fmt.Fprintf(os.Stderr, "c12: no pair of merge commits with %d common hex digits found\n", d)
				os.Exit(3)
			}
			for _, cec := range []bool{false, true} {
				runPipe(c, "prefix-merges", pipeOpts{cec: cec, ren: true, hib: (d + v) % 3, hpm: d}, cs)
			}
		}
	}
}

// directBytes: LinesStatsCalculator.Consume on blobs of every content class, with blob hashes that share a prefix, and
// with counts / numbers of changes at the decimal widths.
func directBytes(c *Config) {
	hps := []int{0, 1, 2, 4, 7, 8, 16}
	for i := c.Count(1600, 20000); i > 0; i-- {
		runDirectOpt(c, "direct-bytes", c.Rng.Intn(12) == 0, genDirect(c, i%2 == 0), 1+c.Rng.Intn(8), hps[c.Rng.Intn(len(hps))])
	}
	for enc := 1; enc <= 8; enc++ {
		for _, fin := range []bool{true, false} {
			for n := 0; n <= 3; n++ {
				runDirectOpt(c, "direct-bytes", false, []dchange{{kind: "ins", name: 0, n: n, fin: fin}, {kind: "del", name: 1, n: n + 1, fin: fin},
					{kind: "mod", name: 2, diffs: [][2]int{{0, 1}, {2, n + 1}, {1, 2}}}, {kind: "mod", name: 3, diffs: [][2]int{{1, n}}}}, enc, hps[(enc+n)%len(hps)])
			}
		}
	}
	widths := []int{9, 10, 11, 99, 100, 101, 999, 1000, 1001}
	for i, w := range widths {
		x := widths[(i*4+1)%len(widths)]
		runDirectOpt(c, "direct-widths", false, []dchange{
			{kind: "mod", name: 0, diffs: [][2]int{{0, 1}, {2, w}, {1, x}, {0, 2}}},
			{kind: "mod", name: 1, diffs: [][2]int{{1, w}}},
			{kind: "mod", name: 2, diffs: [][2]int{{0, w}, {2, x}}},
			{kind: "ins", name: 3, n: w, fin: i%2 == 0}, {kind: "del", name: 4, n: w, fin: i%2 == 1}}, i%9, hps[i%len(hps)])
		// w changes in one call, named f0 .. f(w-1)
		var chs []dchange
		for f := 0; f < w; f++ {
			switch f % 3 {
			case 0:
				chs = append(chs, dchange{kind: "ins", name: f, n: 1 + f%7, fin: f%2 == 0})
			case 1:
				chs = append(chs, dchange{kind: "del", name: f, n: 1 + f%5, fin: f%4 != 0})
			default:
				chs = append(chs, dchange{kind: "mod", name: f, diffs: [][2]int{{0, 1 + f%3}, {2, 1 + f%4}, {1, 1 + f%6}}})
			}
		}
		runDirectOpt(c, "direct-widths", false, chs, (i+1)%9, hps[(i+3)%len(hps)])
	}
}
