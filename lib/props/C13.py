CONFIG = dict(
        level='proof',
        streams=[dict(harness='c13', driver='c13', shrink_field='changes'),
                 # thorough tier only: the same harness built with `go build -race`, quick-sized case set; empty in the quick tier
                 dict(harness='c13race', driver='c13', shrink_field='changes')],
        rule='change sets given to the real RenameAnalysis.Consume (fabricated object.Change values and cached blobs; hashes are free 20-byte '
             'inputs; every entry carries a tree-entry mode - 100644, 100755, 120000, 100664, 160000 - assigned per case as all regular / every '
             'side on its own / one mode on the deleted and another on the added side (git mv + chmod, file <-> symlink) / two modes at random): '
             'all change lists of length <=4 (thorough <=5) over {add h, delete h, modify} with three hashes whose bytes cross; '
             'stream exm/exmt/exms: all lists of length <=4 / <=3 / <=3 (thorough 5/4/4) over {add, delete} x 2 crossing hashes x '
             '{regular, executable} with 5-byte blobs, with 40-byte blobs and timeout 1 ns, with 40-byte blobs and the default timeout; '
             'hashpat/hashmix: random sets of up to 200 changes over 1..6 hashes in adversarial byte patterns, tiny blobs or blobs of '
             '0,1,19,31,32,33,48 bytes with any threshold and timeout; modes: identical content moved with and without a mode change in groups '
             'of 0..3 deletions x 0..3 additions per hash at sizes 0,1,8,31,32,33,40,64,100,200 with same-text / one-byte-longer / other-text '
             'neighbours, thresholds -1..250 incl. 0,1,99,100, timeouts 1 ns .. 1 h, the same path on both sides; sim/timeout: families of similar '
             'text and binary blobs of 30..300 bytes, one in six filled with multi-byte runes / invalid UTF-8 / CR / CRLF (stage 2, both winners, timeout cuts); midrun: 4..10 deleted x added mostly dissimilar blobs, '
             'Consume timed without a timeout and then run with 3..97 % of that time (the timeout expires inside stage 2); thresh: one-line blobs '
             'on the exact boundaries of sizesAreClose and of the 32-byte minimum, plus the real sizesAreClose on 12 size pairs per case from '
             '{0,1,2,31,32,33,99..101,S,S*thr/100+-1,2^15,2^16,2^31-1,2^31,2^32,2^32+1,2^40}; cap: 55..75 candidates with the only similar one '
             'around rank 50, half of them with a second deleted file whose identical content is added under the farthest name with another '
             'mode; weird: duplicate paths / a path both added and deleted / malformed empty changes; big: 2300 changes, more than 1000 leftovers '
             '(cap 1), modes varied; limit: exactly 999,1000,1001,1002 leftovers (thorough also 1003, 2000) where the cap decides the pairing; '
             'scale (stage 1, blobs < 32 bytes): 1000..70001 changes (thorough: 30 more of 1000..131073 changes at 2^15+-1, 2^16+-1, and '
             '500000 and 1000000 changes) over 1..10007 (thorough ..131073) hashes carrying an index big-endian / little-endian / behind a '
             '17-byte common prefix / in the middle / random, change order ascending, descending, random, periodic with periods 2^k and 2^k+-1, '
             'additions every other / first half / 60 % / one in 64; scale2 (stage 2): 1000, 3000, 10000 changes (thorough 20000, 30000, 100000) '
             'in 40..2000 exact-size classes at threshold 100 or 3 %-classes at threshold 99, the same text under two hashes; large cases '
             '(> 4000 changes) are judged by the fast oracles repairing_fast_b / exact_at per hash bucket and replayed through the model once; '
             'GOMAXPROCS 1 and 16 with 0..2 goroutines spinning on runtime.Gosched. Round 3: (a) crash isolation - every case runs in a '
             'child process of the harness (batches of up to 3000 inputs; the child appends one complete case line per case); a child that dies '
             'with a Go panic / fatal error (a panic inside a matcher goroutine cannot be recovered by the caller of Consume) or does not return '
             'within 600 s yields the case (res crash) / (res hang), a PROPFAIL with that input, and a new child continues; direct calls of '
             'blobsAreClose that panic are recorded as such; (b) padding: 1..3 moved files made of head ++ long repetitive region (zero / 0xff '
             'padding, a repeated 16-byte record, a repeated text line) ++ tail, binary and text, 16..4096 bytes of padding, whose new version '
             'has the region shrunk / grown / truncated inside the region / a chunk appended / a chunk cut from the head / patched in place / '
             'another fill byte / the head dropped, by 1..8 bytes, half the region, or just around what sizesAreClose admits, in BOTH directions '
             '(the longer version deleted or added), thresholds 0..100; (c) re-use of the RenameAnalysis instance (field warm, a third of the '
             'hashmix / modes / sim / timeout / weird / a quarter of the padding cases): before the observed call the same instance consumes the '
             'reversed change set, the same set, a malformed set (error) and then the reversed one, or the same paths with the blobs rotated, '
             'optionally followed by Configure + Initialize - the model sees only the observed call (fresh-instance twin); (d) the all-zero and '
             'the all-ones hash as hashes of real blobs in hashpat / hashmix. Non-trivial = at least one addition '
             'and one deletion; distinct = distinct threshold, timeout, scheduling parameters, blob table and change list (with modes).',
        exhaustive_note='all change lists of length <=4 (quick) / <=5 (thorough) over add/delete of 3 crossing hashes and a modification, '
                        'with small blobs (stage 1 and the assembly), and all lists of length <=4 / <=3 / <=3 (thorough 5/4/4) over add/delete of '
                        '2 crossing hashes under 2 file modes with 5-byte blobs / 40-byte blobs and an expired timeout / 40-byte blobs and the '
                        'default timeout, enumerated completely',
        assumptions=[
            'sort.Sort (Go standard library) returns a permutation of its input in which no later element is Less than an earlier one, '
            'provided Less is a strict total order on the elements (proved for 20-byte hashes: C13_less_total); Section hypotheses of '
            'C13_repairing (permutation only) and C13_exact',
            'blobsAreClose (diffmatchpatch / bsdiff) and sortRenameCandidates (sort.Slice, Levenshtein) are arbitrary functions in every '
            'theorem; C13_total additionally assumes that sortRenameCandidates only reorders the candidates it is given',
            'the blob cache holds every hash of an added or deleted file (BlobCache provides it; a miss is a nil dereference outside the '
            'property) and blob sizes stay below 2^49 bytes (int64 arithmetic of sizesAreClose)',
            'blobsAreClose never returns an error (it has no error return path in the code): the protocol theorems are about the error-free '
            'transition system; C13_errs_would_deadlock shows that an error would block the goroutine on the unbuffered errs channel',
            'correspondence of stage 2: the implementation\'s output must equal the model output for SOME winner and SOME timeout cut '
            '(all cuts are tried when the timeout is below 1 s, otherwise only the complete run)',
        ],
        trusted_base=[
            'hand-written Gallina model coq/theories/Plumbing/Renames.v of RenameAnalysis.Consume (renames.go), tied to the code by the replay of '
            'every harness case; matchA and matchB are one Gallina function instantiated twice',
            'hand-written transition system coq/theories/Plumbing/RenamesChan.v of the channel protocol (finished/finishedA/finishedB/errs, '
            'WaitGroup, final select): not tied to the code by replay, only by reading',
            'the OCaml port of Go 1.23 pdqsort in ocaml/c13/driver.ml that supplies the model\'s sort oracles (cross-checked on every case '
            'against the permutation the real sort.Sort produced; a wrong port can only cause a MISMATCH)',
            'tree-entry modes are no field of the model\'s entry: the driver packs (path number, mode) into the opaque path number for the '
            'model run and the fine correspondence (so a mode that is altered or lost is a MISMATCH) and strips the mode for the property '
            'oracles, which are about paths and content hashes',
            'on cases above 4000 changes the driver partitions the changes by content hash (OCaml Hashtbl) before it calls the extracted '
            'exact_at on each bucket; that the bucket of a hash = filter (touches h) suffices is C13_exact_by_buckets_sound',
        ],
        level_text='proof (Coq): C13_repairing, C13_exact, C13_less_total, C13_total for every input, similarity predicate, candidate order, '
                   'timeout cut and winner; C13_no_deadlock / C13_result_available / C13_runs_finite for the channel protocol; partial for '
                   'data-race freedom',
        level_note='Proved about the Gallina model, which every harness case ties to the Go code (model output = implementation output for some '
                   'winner and cut; stage 1 compared exactly). The property oracles that judge the implementation\'s own outputs '
                   '(repairing_b, exact_b; on large cases repairing_fast_b and exact_at per hash bucket) are extracted from Coq and proved sound '
                   '(C13_repairing_oracle_sound, C13_exact_oracle_sound, C13_repairing_fast_oracle_sound / _complete, C13_exact_by_buckets_sound). '
                   'Modelled rather than verified: sort.Sort, sort.Slice+Levenshtein, blobsAreClose (opaque), the Go scheduler and channels '
                   '(RenamesChan.v is a hand-written transition system). PARTIAL: "without data races" in the sense of the Go memory model '
                   'cannot be stated in this model; supporting evidence only: the thorough tier runs the harness built with -race '
                   '(stream c13race) and fails on any report.',
        technique='executable Gallina model with explicit choice arguments (winner, timeout cuts) and opaque oracles (sorts, similarity, '
                  'candidate order); permutation / counting proofs; strict-total-order proof for Less with a vm_compute counterexample for the '
                  'old Less; labelled transition system with a boolean inductive invariant checked by case analysis and a decreasing measure; '
                  'extraction to OCaml and replay of harness traces; existential matching of nondeterministic outcomes',
    )
