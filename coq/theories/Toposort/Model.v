(* Executable model of internal/toposort/toposort.go (Graph and its methods).

   Node names are Z (the harness uses fixed-width names so that Go's string order is the
   numeric order).  Go's two maps are association lists:
     outs : node -> (child -> rank)      Graph.outputs
     ins  : node -> in-degree            Graph.inputs
   Map iteration order is never observable in the functions modelled here except in
   FindCycle / BreadthSort / FindParents, which take the order as an explicit choice
   (a function that permutes a child list).  *)
From Coq Require Import List ZArith Lia Bool.
Import ListNotations.
Open Scope Z_scope.

(* ---------- association lists ---------- *)
Section Assoc.
  Context {V : Type}.
  Fixpoint aget (l : list (Z * V)) (k : Z) : option V :=
    match l with
    | [] => None
    | (k', v) :: r => if k' =? k then Some v else aget r k
    end.
  Fixpoint aset (l : list (Z * V)) (k : Z) (v : V) : list (Z * V) :=
    match l with
    | [] => [(k, v)]
    | (k', v') :: r => if k' =? k then (k, v) :: r else (k', v') :: aset r k v
    end.
  Fixpoint adel (l : list (Z * V)) (k : Z) : list (Z * V) :=
    match l with
    | [] => []
    | (k', v') :: r => if k' =? k then r else (k', v') :: adel r k
    end.
End Assoc.

Record st := mkSt { outs : list (Z * list (Z * Z)); ins : list (Z * Z) }.

Definition empty : st := mkSt [] [].

Definition get_in (s : st) (n : Z) : Z := match aget (ins s) n with Some v => v | None => 0 end.

(* AddNode *)
Definition add_node (s : st) (n : Z) : st * bool :=
  match aget (outs s) n with
  | Some _ => (s, false)
  | None => (mkSt (aset (outs s) n []) (aset (ins s) n 0), true)
  end.

(* AddEdge: m[to] = len(m)+1 (len taken before the write); inputs[to]++ ; returns the new in-degree,
   0 when "from" is unknown. *)
Definition add_edge (s : st) (a b : Z) : st * Z :=
  match aget (outs s) a with
  | None => (s, 0)
  | Some m =>
      let m' := aset m b (Z.of_nat (length m) + 1) in
      let ni := get_in s b + 1 in
      (mkSt (aset (outs s) a m') (aset (ins s) b ni), ni)
  end.

(* unsafeRemoveEdge: delete(outputs[from], to); inputs[to]-- .
   When "from" is unknown Go deletes from a nil map (no-op) and still decrements. *)
Definition unsafe_remove_edge (s : st) (a b : Z) : st :=
  let o := match aget (outs s) a with
           | None => outs s
           | Some m => aset (outs s) a (adel m b)
           end in
  mkSt o (aset (ins s) b (get_in s b - 1)).

Definition remove_edge (s : st) (a b : Z) : st * bool :=
  match aget (outs s) a with
  | None => (s, false)
  | Some _ => (unsafe_remove_edge s a b, true)
  end.

(* sort.Strings on the keys: insertion sort *)
Fixpoint insert_sorted (x : Z) (l : list Z) : list Z :=
  match l with [] => [x] | y :: r => if x <=? y then x :: l else y :: insert_sorted x r end.
Definition sortZ (l : list Z) : list Z := fold_right insert_sorted [] l.

Fixpoint number (l : list Z) (i : Z) : list (Z * Z) :=
  match l with [] => [] | x :: r => (x, i) :: number r (i + 1) end.

(* ReindexNode *)
Definition reindex (s : st) (n : Z) : st :=
  match aget (outs s) n with
  | None => s
  | Some m => mkSt (aset (outs s) n (number (sortZ (map fst m)) 1)) (ins s)
  end.

(* ---------- Toposort ---------- *)

(* ms := make([]string, len(m)); for child, i := range m { ms[i-1] = child }
   Result: None  = index out of range (Go panics);
           slots = for every position the child that holds that rank; the empty string (-1)
                   where no child does.  With duplicate ranks Go's result depends on map order;
                   [slots_det] tells whether the table is deterministic. *)
Fixpoint find_rank (m : list (Z * Z)) (i : Z) : option Z :=
  match m with
  | [] => None
  | (c, r) :: m' => if r =? i then Some c else find_rank m' i
  end.

Definition nobody : Z := -1.

Definition ranks_in_range (m : list (Z * Z)) : bool :=
  forallb (fun cr => (1 <=? snd cr) && (snd cr <=? Z.of_nat (length m))) m.

Fixpoint nodupb (l : list Z) : bool :=
  match l with [] => true | x :: r => negb (existsb (Z.eqb x) r) && nodupb r end.

Definition slots_det (m : list (Z * Z)) : bool := nodupb (map snd m).

Definition slots (m : list (Z * Z)) : option (list Z) :=
  if ranks_in_range m then
    Some (map (fun i => match find_rank m (Z.of_nat i) with Some c => c | None => nobody end)
              (seq 1 (length m)))
  else None.

(* the inner loop over ms *)
Fixpoint relax (s : st) (S : list Z) (n : Z) (ms : list Z) : st * list Z :=
  match ms with
  | [] => (s, S)
  | m :: ms' =>
      let s' := unsafe_remove_edge s n m in
      if get_in s' m =? 0 then relax s' (S ++ [m]) n ms' else relax s' S n ms'
  end.

Inductive sort_result :=
| SortOk (L : list Z) (ok : bool)
| SortPanic                       (* index out of range while building ms *)
| SortUnspec                      (* duplicate ranks: depends on Go's map order *)
| SortFuel.

Fixpoint kahn (fuel : nat) (s : st) (S L : list Z) : st * sort_result :=
  match fuel with
  | O => (s, SortFuel)
  | Datatypes.S fuel' =>
      match S with
      | [] => (s, SortOk L (negb (0 <? fold_right (fun kv acc => snd kv + acc) 0 (ins s))))
      | n :: S' =>
          let m := match aget (outs s) n with Some m => m | None => [] end in
          if negb (slots_det m) then (s, SortUnspec) else
          match slots m with
          | None => (s, SortPanic)
          | Some ms =>
              let '(s', S'') := relax s S' n ms in
              kahn fuel' s' S'' (L ++ [n])
          end
      end
  end.

Definition edge_count (s : st) : nat :=
  fold_right (fun kv acc => (length (snd kv) + acc)%nat) O (outs s).

Definition toposort (s : st) : st * sort_result :=
  let S0 := sortZ (filter (fun n => get_in s n =? 0) (map fst (outs s))) in
  (* every iteration pops one element; an element enters S at most once per incoming edge *)
  kahn (Datatypes.S (length (outs s) + edge_count s)) s S0 [].

(* ---------- FindChildren / FindParents ---------- *)
Definition find_children (s : st) (n : Z) : list Z :=
  match aget (outs s) n with Some m => sortZ (map fst m) | None => [] end.

(* Go returns the parents in map order; the model sorts, the harness compares as sets *)
Definition find_parents (s : st) (n : Z) : list Z :=
  sortZ (map fst (filter (fun kv => existsb (fun cr => fst cr =? n) (snd kv)) (outs s))).

(* ---------- FindCycle ---------- *)
(* BFS from the seed.  [ord] is the map iteration order of one node's children (a choice).
   visited : node -> parent ; the seed's first parent is the empty string (-1) and the entry is
   overwritten once when the seed is reached again. *)
Section Cycle.
  Variable ord : Z -> list Z -> list Z.

  Fixpoint walk_back (fuel : nat) (visited : list (Z * Z)) (seed node : Z) (acc : list Z) : list Z :=
    match fuel with
    | O => acc
    | Datatypes.S f =>
        if node =? seed then acc
        else walk_back f visited seed
               (match aget visited node with Some p => p | None => nobody end) (acc ++ [node])
    end.

  Fixpoint bfs (fuel : nat) (s : st) (seed : Z) (S : list (Z * Z)) (visited : list (Z * Z)) : list Z :=
    match fuel with
    | O => []
    | Datatypes.S f =>
        match S with
        | [] => []
        | (node, parent) :: S' =>
            let fresh := match aget visited node with None => true | Some p => p =? nobody end in
            let visited' := if fresh then aset visited node parent else visited in
            let S'' := if fresh
                       then S' ++ map (fun c => (c, node))
                                      (ord node (match aget (outs s) node with Some m => map fst m | None => [] end))
                       else S' in
            if (node =? seed) && negb (parent =? nobody)
            then rev (walk_back (Datatypes.S (length visited')) visited' seed parent [] ++ [seed])
            else bfs f s seed S'' visited'
        end
    end.

  Definition find_cycle (s : st) (seed : Z) : list Z :=
    bfs (Datatypes.S (Datatypes.S (2 * edge_count s))) s seed [(seed, nobody)] [].
End Cycle.

(* the property-level oracle for a cycle: c = [seed; x1; ...; xk] with edges
   seed -> x1 -> ... -> xk -> seed   (k may be 0: a self loop) *)
Definition has_edge (s : st) (a b : Z) : bool :=
  match aget (outs s) a with Some m => existsb (fun cr => fst cr =? b) m | None => false end.

Fixpoint path_ok (s : st) (prev : Z) (c : list Z) (seed : Z) : bool :=
  match c with
  | [] => has_edge s prev seed
  | x :: r => has_edge s prev x && path_ok s x r seed
  end.

Definition cycle_ok (s : st) (seed : Z) (c : list Z) : bool :=
  match c with
  | x :: r => (x =? seed) && path_ok s x r seed
  | [] => false
  end.

(* ---------- well-formedness: the domain of the property, as an executable predicate ---------- *)
Definition count_parents (s : st) (n : Z) : Z :=
  fold_right (fun kv acc => (if existsb (fun cr => fst cr =? n) (snd kv) then 1 else 0) + acc) 0 (outs s).

Definition is_node (s : st) (n : Z) : bool :=
  match aget (outs s) n with Some _ => true | None => false end.

Definition wfb (s : st) : bool :=
  nodupb (map fst (outs s)) && nodupb (map fst (ins s)) &&
  forallb (fun kv => is_node s (fst kv)) (ins s) &&
  forallb (fun kv =>
     let m := snd kv in
     nodupb (map fst m) && slots_det m && ranks_in_range m &&
     forallb (fun cr => is_node s (fst cr)) m &&
     (get_in s (fst kv) =? count_parents s (fst kv))) (outs s).

(* ---------- the operation interface used by the correspondence check ---------- *)
Inductive op :=
| OAddNode (n : Z) | OAddEdge (a b : Z) | ORemoveEdge (a b : Z) | OReindex (n : Z)
| OSort | OChildren (n : Z) | OParents (n : Z) | OCycle (seed : Z).

Inductive out :=
| RBool (b : bool) | RInt (z : Z) | RUnit | RList (l : list Z)
| RSort (r : sort_result) | RCycleEmpty (b : bool).

Definition id_ord (_ : Z) (l : list Z) : list Z := l.

(* Toposort destroys the graph; the harness sorts a Copy(), so the model keeps the state *)
Definition step (s : st) (o : op) : st * out :=
  match o with
  | OAddNode n => let '(s', b) := add_node s n in (s', RBool b)
  | OAddEdge a b => let '(s', z) := add_edge s a b in (s', RInt z)
  | ORemoveEdge a b => let '(s', r) := remove_edge s a b in (s', RBool r)
  | OReindex n => (reindex s n, RUnit)
  | OSort => (s, RSort (snd (toposort s)))
  | OChildren n => (s, RList (find_children s n))
  | OParents n => (s, RList (find_parents s n))
  | OCycle seed => (s, RCycleEmpty (match find_cycle id_ord s seed with [] => true | _ => false end))
  end.

Fixpoint run (s : st) (ops : list op) : st * list out :=
  match ops with
  | [] => (s, [])
  | o :: r => let '(s', x) := step s o in let '(s'', xs) := run s' r in (s'', x :: xs)
  end.
