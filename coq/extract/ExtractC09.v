Require Extraction.
Require Import ExtrOcamlBasic.
From Herc Require Import Base.Conv Hibernation.Model.
Extraction "c09_model.ml" conv_anchor start step exec finish run lifecycle_ok_h erase_hb is_hb io_err.
