CONFIG = dict(
        level='proof',
        streams=[dict(harness='c16', driver='c16', shrink_field='commits'),
                 dict(harness='c16m', driver='c16', shrink_field='ids')],
        rule='TODO',
        exhaustive_note='TODO',
        assumptions=[],
        trusted_base=[],
    )
