// Harness for C13: drives the real plumbing.RenameAnalysis.Consume with fabricated object.Changes and
// cached blobs and records the input change set, everything the model needs as an external answer
// (blob sizes, blobsAreClose and Levenshtein answers for the size-close pairs, the permutations
// sort.Sort produces) and the output change set.
package main

import (
	"fmt"
	"os"
	"path/filepath"
	"runtime"
	"sort"
	"strings"
	"sync/atomic"
	"time"

	"gopkg.in/src-d/go-git.v4/plumbing"
	"gopkg.in/src-d/go-git.v4/plumbing/filemode"
	"gopkg.in/src-d/go-git.v4/plumbing/object"
	api "gopkg.in/src-d/hercules.v10/verifapi/c13"
	. "verifharness/lib"
)

// ---------- blobs ----------

// blobDesc describes the content of a blob by a few integers (the trace stays small):
// nlines lines "f<fam> l<i> xxxx\n" of payload width `width`; the lines i with (i*7+variant)%period == 0
// (period > 0) are replaced by "f<fam> l<i> EDIT<variant>\n"; `bin` puts a NUL byte in front; `tail`
// appends that many 'z' without a newline; `fill` selects the payload letter ('x' for 0, else 'a'+fill-1),
// so that blobs of equal size can be made dissimilar.
type blobDesc struct {
	fam, nlines, width, variant, period, bin, tail, fill int
}

func (b blobDesc) sx() Sx {
	return L(I(b.fam), I(b.nlines), I(b.width), I(b.variant), I(b.period), I(b.bin), I(b.tail), I(b.fill))
}

func parseDesc(s Sx) blobDesc {
	v := s.List
	d := blobDesc{v[0].Int(), v[1].Int(), v[2].Int(), v[3].Int(), v[4].Int(), v[5].Int(), v[6].Int(), 0}
	if len(v) > 7 {
		d.fill = v[7].Int()
	}
	return d
}

func (b blobDesc) data() []byte {
	var sb strings.Builder
	if b.bin != 0 {
		sb.WriteByte(0)
	}
	fill := "x"
	if b.fill > 0 {
		fill = string(rune('a' + (b.fill-1)%26))
	}
	for i := 0; i < b.nlines; i++ {
		if b.period > 0 && (i*7+b.variant)%b.period == 0 {
			fmt.Fprintf(&sb, "f%d l%d EDIT%d\n", b.fam, i, b.variant)
		} else {
			fmt.Fprintf(&sb, "f%d l%d %s\n", b.fam, i, strings.Repeat(fill, b.width))
		}
	}
	sb.WriteString(strings.Repeat("z", b.tail))
	return []byte(sb.String())
}

type blob struct {
	hash plumbing.Hash
	desc blobDesc
}

// ---------- names ----------

var dirs = []string{"", "src/", "src/pkg/", "doc/"}

// nameOf maps a path number to a path; base names have varied lengths and overlaps so that the
// Levenshtein ordering of candidates is not trivial.
func nameOf(id int) string {
	k := id / len(dirs)
	return fmt.Sprintf("%s%s%d.go", dirs[id%len(dirs)], strings.Repeat("ab", k%4), k/4)
}

// ---------- changes ----------

type change struct {
	kind     string // a d m e
	name     int
	from, to int // blob indices
}

func (c change) sx() Sx {
	switch c.kind {
	case "a":
		return T("a", I(c.name), I(c.to))
	case "d":
		return T("d", I(c.name), I(c.from))
	case "m":
		return T("m", I(c.name), I(c.from), I(c.to))
	}
	return T("e")
}

func parseChange(s Sx) change {
	a := s.Args()
	switch s.Tag() {
	case "a":
		return change{kind: "a", name: a[0].Int(), to: a[1].Int()}
	case "d":
		return change{kind: "d", name: a[0].Int(), from: a[1].Int()}
	case "m":
		return change{kind: "m", name: a[0].Int(), from: a[1].Int(), to: a[2].Int()}
	}
	return change{kind: "e"}
}

type tcase struct {
	kind    string
	thr     int
	timeout int64 // nanoseconds; 0 = the default set by Initialize
	procs   int
	spin    int
	blobs   []blob
	changes []change
}

func entry(name int, h plumbing.Hash) object.ChangeEntry {
	nm := nameOf(name)
	return object.ChangeEntry{Name: nm, TreeEntry: object.TreeEntry{Name: filepath.Base(nm), Mode: filemode.Regular, Hash: h}}
}

func run(tc *tcase) Sx {
	nb := len(tc.blobs)
	cache := map[plumbing.Hash]*api.CachedBlob{}
	cached := make([]*api.CachedBlob, nb)
	blobIdx := map[plumbing.Hash]int{}
	for i, b := range tc.blobs {
		if j, dup := blobIdx[b.hash]; dup {
			// the same hash twice in the table: the first description wins, as in a map
			cached[i] = cached[j]
			continue
		}
		data := b.desc.data()
		cb := &api.CachedBlob{Blob: object.Blob{Hash: b.hash, Size: int64(len(data))}, Data: data}
		cache[b.hash] = cb
		cached[i] = cb
		blobIdx[b.hash] = i
	}
	var changes object.Changes
	nameIdx := map[string]int{}
	var addC, delC []*object.Change
	var addH, delH []plumbing.Hash
	var addI, delI []change
	for _, c := range tc.changes {
		var ch *object.Change
		switch c.kind {
		case "a":
			ch = &object.Change{To: entry(c.name, tc.blobs[c.to].hash)}
			addC, addH, addI = append(addC, ch), append(addH, tc.blobs[c.to].hash), append(addI, c)
		case "d":
			ch = &object.Change{From: entry(c.name, tc.blobs[c.from].hash)}
			delC, delH, delI = append(delC, ch), append(delH, tc.blobs[c.from].hash), append(delI, c)
		case "m":
			ch = &object.Change{From: entry(c.name, tc.blobs[c.from].hash), To: entry(c.name, tc.blobs[c.to].hash)}
		default:
			ch = &object.Change{}
		}
		if c.kind != "e" {
			nameIdx[nameOf(c.name)] = c.name
		}
		changes = append(changes, ch)
	}
	ra := &api.RenameAnalysis{SimilarityThreshold: tc.thr, Timeout: time.Duration(tc.timeout)}
	if tc.timeout%int64(time.Millisecond) == 0 {
		// whole milliseconds: go through Configure, as the pipeline does
		ra = &api.RenameAnalysis{}
		if err := ra.Configure(map[string]interface{}{
			api.ConfigRenameAnalysisSimilarityThreshold: tc.thr,
			api.ConfigRenameAnalysisTimeout:             int(tc.timeout / int64(time.Millisecond))}); err != nil {
			panic(err)
		}
	}
	if err := ra.Initialize(nil); err != nil {
		panic(err)
	}

	// ----- external answers the model takes as oracles, asked of the real code -----
	sizes := make([]Sx, nb)
	for i := range tc.blobs {
		sizes[i] = I64(cached[i].Size)
	}
	var closeTab, distTab []Sx
	seenB := map[[2]int]bool{}
	seenN := map[[2]int]bool{}
	lev := api.LevenshteinContext{}
	for _, d := range delI {
		bd := blobIdx[tc.blobs[d.from].hash]
		if cached[bd].Size < api.RenameAnalysisMinimumSize {
			continue
		}
		for _, a := range addI {
			ba := blobIdx[tc.blobs[a.to].hash]
			if cached[ba].Size < api.RenameAnalysisMinimumSize {
				continue
			}
			if !ra.VerifC13SizesAreClose(cached[bd].Size, cached[ba].Size) {
				continue
			}
			if !seenB[[2]int{bd, ba}] {
				seenB[[2]int{bd, ba}] = true
				x, e1 := ra.VerifC13BlobsAreClose(cached[bd], cached[ba])
				y, e2 := ra.VerifC13BlobsAreClose(cached[ba], cached[bd])
				if e1 != nil || e2 != nil {
					closeTab = append(closeTab, L(I(bd), I(ba), A("err"), A("err")))
				} else {
					closeTab = append(closeTab, L(I(bd), I(ba), B(x), B(y)))
				}
			}
			if !seenN[[2]int{d.name, a.name}] {
				seenN[[2]int{d.name, a.name}] = true
				bn, an := filepath.Base(nameOf(d.name)), filepath.Base(nameOf(a.name))
				distTab = append(distTab, L(I(d.name), I(a.name), I(lev.Distance(bn, an)), I(lev.Distance(an, bn))))
			}
		}
	}
	// the permutations the real sort.Sort produces on the real sortableChanges (cross-checks the
	// driver's port of Go's pdqsort, which the model needs as its sort oracle)
	perm := func(sorted []*object.Change, orig []*object.Change) []int {
		pos := map[*object.Change]int{}
		for i, c := range orig {
			pos[c] = i
		}
		r := make([]int, len(sorted))
		for i, c := range sorted {
			r[i] = pos[c]
		}
		return r
	}
	sortD := perm(api.SortByHash(delC, delH), delC)
	sortA := perm(api.SortByHash(addC, addH), addC)
	// one sample of sortRenameCandidates: the first deleted name against all added names
	csort := T("csort")
	if len(delI) > 0 && len(addI) > 0 {
		cands := make([]int, len(addI))
		ds := make([]int, len(addI))
		origin := filepath.Base(nameOf(delI[0].name))
		for i := range cands {
			cands[i] = i
			ds[i] = lev.Distance(origin, filepath.Base(nameOf(addI[i].name)))
		}
		api.SortRenameCandidates(cands, origin, func(i int) string { return nameOf(addI[i].name) })
		csort = T("csort", Ints(ds), Ints(cands))
	}

	// ----- the run itself, under the requested scheduling perturbation -----
	old := runtime.GOMAXPROCS(tc.procs)
	var stop int32
	for s := 0; s < tc.spin; s++ {
		go func() {
			for atomic.LoadInt32(&stop) == 0 {
				runtime.Gosched()
			}
		}()
	}
	var res map[string]interface{}
	var err error
	_, panicked := Catch(func() {
		res, err = ra.Consume(map[string]interface{}{
			api.DependencyTreeChanges: changes, api.DependencyBlobCache: cache})
	})
	atomic.StoreInt32(&stop, 1)
	runtime.GOMAXPROCS(old)

	var result Sx
	switch {
	case panicked:
		result = T("res", A("panic"))
	case err != nil:
		result = T("res", A("err"))
	default:
		out := res[api.DependencyTreeChanges].(object.Changes)
		side := func(e object.ChangeEntry) Sx {
			if e == (object.ChangeEntry{}) {
				return A("-")
			}
			n, ok := nameIdx[e.Name]
			if !ok {
				n = -1
			}
			b, ok := blobIdx[e.TreeEntry.Hash]
			if !ok {
				b = -1
			}
			return L(I(n), I(b))
		}
		outs := make([]Sx, len(out))
		for i, c := range out {
			outs[i] = L(side(c.From), side(c.To))
		}
		result = T("res", A("ok"), L(outs...))
	}
	return T("obs", T("sizes", sizes...), T("close", closeTab...), T("dist", distTab...),
		T("sorts", Ints(sortD), Ints(sortA)), csort, result)
}

func emit(c *Config, tc *tcase) {
	obs := run(tc)
	na, nd := 0, 0
	for _, ch := range tc.changes {
		if ch.kind == "a" {
			na++
		}
		if ch.kind == "d" {
			nd++
		}
	}
	bl := make([]Sx, len(tc.blobs))
	for i, b := range tc.blobs {
		bl[i] = L(Bytes(b.hash[:]), b.desc.sx())
	}
	cs := make([]Sx, len(tc.changes))
	for i, ch := range tc.changes {
		cs[i] = ch.sx()
	}
	c.Emit(T("kind", A(tc.kind)), T("nt", B(na >= 1 && nd >= 1)), T("thr", I(tc.thr)), T("timeout", I64(tc.timeout)),
		T("procs", I(tc.procs)), T("spin", I(tc.spin)), T("blobs", bl...), T("changes", cs...), obs)
}

func replayCase(s Sx) *tcase {
	tc := &tcase{kind: "replay", procs: 1}
	get := func(tag string) Sx { f, _ := s.Field(tag); return f }
	if f, ok := s.Field("thr"); ok {
		tc.thr = f.Args()[0].Int()
	}
	if f, ok := s.Field("timeout"); ok {
		fmt.Sscan(f.Args()[0].Atom, &tc.timeout)
	}
	if f, ok := s.Field("procs"); ok {
		tc.procs = f.Args()[0].Int()
	}
	if f, ok := s.Field("spin"); ok {
		tc.spin = f.Args()[0].Int()
	}
	for _, b := range get("blobs").Args() {
		var h plumbing.Hash
		for i, x := range b.List[0].List {
			if i < 20 {
				h[i] = byte(x.Int())
			}
		}
		tc.blobs = append(tc.blobs, blob{h, parseDesc(b.List[1])})
	}
	for _, ch := range get("changes").Args() {
		tc.changes = append(tc.changes, parseChange(ch))
	}
	return tc
}

// ---------- generators ----------

const hour = int64(time.Hour)

// adversarial hash patterns: hashes that agree except at a few positions where the bytes cross
// (a[i] < b[i] but a[j] > b[j]); these are the pairs on which "some byte smaller" is not an order
func patternHashes(c *Config, k int) []plumbing.Hash {
	r := c.Rng
	var base plumbing.Hash
	for i := range base {
		switch r.Intn(3) {
		case 0:
			base[i] = 0
		case 1:
			base[i] = 255
		default:
			base[i] = byte(r.Intn(256))
		}
	}
	npos := 1 + r.Intn(4)
	pos := r.Perm(20)[:npos]
	vals := []byte{0, 1, 2, 127, 128, 254, 255}
	hs := make([]plumbing.Hash, 0, k)
	seen := map[plumbing.Hash]bool{}
	for len(hs) < k {
		h := base
		for _, p := range pos {
			h[p] = vals[r.Intn(len(vals))]
		}
		if r.Intn(6) == 0 {
			for i := range h {
				h[i] = byte(r.Intn(256))
			}
		}
		if !seen[h] {
			seen[h] = true
			hs = append(hs, h)
		} else if r.Intn(4) == 0 {
			h[r.Intn(20)] = byte(r.Intn(256))
			if !seen[h] {
				seen[h] = true
				hs = append(hs, h)
			}
		}
	}
	return hs
}

func tinyDesc(i int) blobDesc { return blobDesc{fam: i, nlines: 0, tail: i % 20} }

// all change lists of length <= n over {add h, delete h, modify} with h from 3 crossing hashes
func exhaustive(c *Config, n int) {
	hs := []plumbing.Hash{{}, {}, {}}
	hs[0][0], hs[0][1] = 1, 0
	hs[1][0], hs[1][1] = 0, 1
	hs[2][0], hs[2][1] = 1, 1
	blobs := make([]blob, 4)
	for i := 0; i < 3; i++ {
		blobs[i] = blob{hs[i], tinyDesc(i)}
	}
	var h3 plumbing.Hash
	h3[19] = 9
	blobs[3] = blob{h3, tinyDesc(3)}
	var rec func(prefix []change)
	rec = func(prefix []change) {
		tc := &tcase{kind: fmt.Sprintf("ex%d", len(prefix)), thr: 80, timeout: hour, procs: 1 + 15*(len(prefix)%2), blobs: blobs}
		tc.changes = append([]change{}, prefix...)
		emit(c, tc)
		if len(prefix) == n {
			return
		}
		nm := len(prefix)
		for h := 0; h < 3; h++ {
			rec(append(prefix, change{kind: "a", name: nm, to: h}))
			rec(append(prefix, change{kind: "d", name: nm + 40, from: h}))
		}
		rec(append(prefix, change{kind: "m", name: nm + 80, from: 3, to: h3idx(prefix)}))
	}
	rec(nil)
}

func h3idx(prefix []change) int { return len(prefix) % 3 }

// many identical hashes in adversarial byte patterns, tiny blobs: stage 1 only
func hashpat(c *Config, maxChanges int) *tcase {
	r := c.Rng
	k := 1 + r.Intn(6)
	hs := patternHashes(c, k)
	tc := &tcase{kind: "hashpat", thr: 80, timeout: hour, procs: 1 + 15*r.Intn(2)}
	for i, h := range hs {
		tc.blobs = append(tc.blobs, blob{h, tinyDesc(i)})
	}
	n := r.Intn(maxChanges + 1)
	for i := 0; i < n; i++ {
		switch r.Intn(7) {
		case 0, 1, 2:
			tc.changes = append(tc.changes, change{kind: "a", name: 2 * i, to: r.Intn(k)})
		case 3, 4, 5:
			tc.changes = append(tc.changes, change{kind: "d", name: 2*i + 1, from: r.Intn(k)})
		default:
			tc.changes = append(tc.changes, change{kind: "m", name: 2*i + 1, from: r.Intn(k), to: r.Intn(k)})
		}
	}
	return tc
}

func randHash(c *Config) plumbing.Hash {
	var h plumbing.Hash
	for i := range h {
		h[i] = byte(c.Rng.Intn(256))
	}
	return h
}

var thresholds = []int{0, 1, 30, 50, 79, 80, 81, 90, 99, 100, -1, 101, 250}

func pickThr(c *Config) int {
	if c.Rng.Intn(3) == 0 {
		return c.Rng.Intn(101)
	}
	return thresholds[c.Rng.Intn(len(thresholds))]
}

func pickTimeout(c *Config) int64 {
	switch c.Rng.Intn(8) {
	case 0:
		return 1 // already expired at the first test
	case 1:
		return int64(1+c.Rng.Intn(200)) * 1000 // 1..200 us
	case 2:
		return int64(time.Millisecond)
	case 3:
		return 0 // Initialize sets the default of 60 s
	}
	return hour
}

// families of similar text blobs (and some binary ones) with sizes >= 32: stage 2
func sim(c *Config, maxChanges int, kind string) *tcase {
	r := c.Rng
	tc := &tcase{kind: kind, thr: pickThr(c), timeout: pickTimeout(c), procs: 1 + 15*r.Intn(2), spin: r.Intn(3)}
	if kind == "sim" && r.Intn(2) == 0 {
		tc.timeout = hour
	}
	nfam := 1 + r.Intn(3)
	nb := 2 + r.Intn(10)
	for i := 0; i < nb; i++ {
		d := blobDesc{fam: r.Intn(nfam), nlines: 1 + r.Intn(8), width: 10 + r.Intn(30), variant: r.Intn(5), period: r.Intn(6), tail: r.Intn(12)}
		if r.Intn(3) == 0 {
			d.nlines = 3
			d.width = 20
		}
		if r.Intn(8) == 0 {
			d.bin = 1
		}
		if r.Intn(10) == 0 {
			d = blobDesc{fam: d.fam, nlines: 1, width: 22 + r.Intn(5)} // 30..34 bytes: around the minimum size
		}
		tc.blobs = append(tc.blobs, blob{randHash(c), d})
	}
	n := r.Intn(maxChanges + 1)
	usedA, usedD := map[int]bool{}, map[int]bool{}
	for i := 0; i < n; i++ {
		nm := r.Intn(64)
		switch r.Intn(7) {
		case 0, 1, 2:
			if !usedA[nm] && !usedD[nm] {
				usedA[nm] = true
				tc.changes = append(tc.changes, change{kind: "a", name: nm, to: r.Intn(nb)})
			}
		case 3, 4, 5:
			if !usedA[nm] && !usedD[nm] {
				usedD[nm] = true
				tc.changes = append(tc.changes, change{kind: "d", name: nm, from: r.Intn(nb)})
			}
		default:
			tc.changes = append(tc.changes, change{kind: "m", name: 100 + i, from: r.Intn(nb), to: r.Intn(nb)})
		}
	}
	return tc
}

// one-line blobs whose sizes sit on both sides of the similarity threshold and of the 32-byte minimum
func thresh(c *Config) *tcase {
	r := c.Rng
	tc := &tcase{kind: "thresh", thr: pickThr(c), timeout: hour, procs: 1 + 15*r.Intn(2), spin: r.Intn(2)}
	base := 32 + r.Intn(200)
	nb := 2 + r.Intn(8)
	// exact boundary of sizesAreClose: sizes S and S*thr/100 give abs*10000/S == (100-thr)*100
	boundary := r.Intn(2) == 0
	eff := tc.thr
	if eff < 0 || eff > 100 {
		eff = 80
	}
	if boundary {
		base = 100 * (1 + r.Intn(3))
	}
	for i := 0; i < nb; i++ {
		sz := base
		if boundary && i > 0 {
			sz = base*eff/100 + r.Intn(3) - 1
			if r.Intn(4) == 0 {
				sz = base
			}
			if sz < 8 {
				sz = 8
			}
			tc.blobs = append(tc.blobs, blob{randHash(c), blobDesc{fam: 0, nlines: 1, width: sz - 7}})
			continue
		}
		switch r.Intn(4) {
		case 0:
			sz = base * (100 - r.Intn(101)) / 100
		case 1:
			sz = base + r.Intn(5) - 2
		case 2:
			sz = 30 + r.Intn(5)
		}
		if sz < 8 {
			sz = 8
		}
		// "f0 l0 " + width + "\n" = 7 + width bytes
		tc.blobs = append(tc.blobs, blob{randHash(c), blobDesc{fam: 0, nlines: 1, width: sz - 7, bin: 0}})
	}
	n := 2 + r.Intn(12)
	for i := 0; i < n; i++ {
		if r.Intn(2) == 0 {
			tc.changes = append(tc.changes, change{kind: "a", name: 2 * i, to: r.Intn(nb)})
		} else {
			tc.changes = append(tc.changes, change{kind: "d", name: 2*i + 1, from: r.Intn(nb)})
		}
	}
	return tc
}

// malformed input: a change with both sides empty somewhere; duplicate paths; a path both added and deleted
func weird(c *Config) *tcase {
	tc := sim(c, 10, "weird")
	r := c.Rng
	tc.timeout = hour
	for k := r.Intn(3); k > 0 && len(tc.changes) > 0; k-- {
		src := tc.changes[r.Intn(len(tc.changes))]
		dup := src
		if r.Intn(2) == 0 && dup.kind == "a" {
			dup.kind, dup.from = "d", dup.to
		}
		tc.changes = append(tc.changes, dup)
	}
	if r.Intn(3) == 0 {
		at := r.Intn(len(tc.changes) + 1)
		tc.changes = append(tc.changes[:at], append([]change{{kind: "e"}}, tc.changes[at:]...)...)
	}
	return tc
}

// the candidate cap: one deleted blob, 55..75 added blobs of about its size of which exactly one is similar,
// placed around rank RenameAnalysisMaxCandidates of the Levenshtein order of the names
func capCase(c *Config) *tcase {
	r := c.Rng
	tc := &tcase{kind: "cap", thr: 80, timeout: hour, procs: 1 + 15*r.Intn(2), spin: r.Intn(2)}
	width := 60 + r.Intn(40)
	tc.blobs = append(tc.blobs, blob{randHash(c), blobDesc{fam: 1, nlines: 2, width: width}})          // deleted
	tc.blobs = append(tc.blobs, blob{randHash(c), blobDesc{fam: 1, nlines: 2, width: width, tail: 1}}) // similar
	tc.blobs = append(tc.blobs, blob{randHash(c), blobDesc{fam: 1, nlines: 2, width: width, fill: 5}}) // dissimilar
	tc.blobs = append(tc.blobs, blob{randHash(c), blobDesc{fam: 1, nlines: 2, width: width, fill: 9, tail: 2}})
	n := 55 + r.Intn(21)
	names := r.Perm(200)[:n+1]
	dname := names[n]
	lev := api.LevenshteinContext{}
	type nd struct{ name, dist int }
	nds := make([]nd, n)
	for i := 0; i < n; i++ {
		nds[i] = nd{names[i], lev.Distance(filepath.Base(nameOf(dname)), filepath.Base(nameOf(names[i])))}
	}
	sort.SliceStable(nds, func(i, j int) bool { return nds[i].dist < nds[j].dist })
	rank := api.RenameAnalysisMaxCandidates - 3 + r.Intn(7)
	if rank >= n {
		rank = n - 1
	}
	similar := nds[rank].name
	tc.changes = append(tc.changes, change{kind: "d", name: dname, from: 0})
	for i := 0; i < n; i++ {
		b := 2 + r.Intn(2)
		if names[i] == similar {
			b = 1
		}
		tc.changes = append(tc.changes, change{kind: "a", name: names[i], to: b})
	}
	if r.Intn(2) == 0 {
		// the same the other way round: matchB's cap
		for i := range tc.changes {
			ch := &tc.changes[i]
			if ch.kind == "a" {
				ch.kind, ch.from = "d", ch.to
			} else {
				ch.kind, ch.to = "a", ch.from
			}
		}
	}
	return tc
}

// more than RenameAnalysisSetSizeLimit leftovers: the candidate cap drops to 1
func big(c *Config, n int) *tcase {
	r := c.Rng
	tc := &tcase{kind: "big", thr: 80, timeout: hour, procs: 16, spin: 0}
	if r.Intn(3) == 0 {
		tc.timeout = int64(1+r.Intn(20)) * int64(time.Millisecond)
	}
	// size classes far apart (x1.5) so that the windows stay small; three blobs per class
	classes := 12
	sz := 40
	for k := 0; k < classes; k++ {
		for v := 0; v < 3; v++ {
			// additions take variants 0 ('x') and 1 ('b'), deletions variant 2 ('x'): a deleted blob is similar to
			// the variant-0 additions of its class only, so the second candidate often decides
			tc.blobs = append(tc.blobs, blob{randHash(c), blobDesc{fam: k, nlines: 1, width: sz - 7 + v, variant: v, fill: (v % 2) * 2}})
		}
		sz = sz * 3 / 2
	}
	tc.blobs = append(tc.blobs, blob{randHash(c), tinyDesc(1)})
	for i := 0; i < n; i++ {
		k := r.Intn(classes)
		b := 3*k + r.Intn(2) // additions take variants 0 and 1, deletions variant 2: few shared hashes
		if i%2 == 1 {
			b = 3*k + 2
		}
		if r.Intn(25) == 0 {
			b = 3 * k
		}
		if r.Intn(50) == 0 {
			b = 3 * classes
		}
		if i%2 == 0 {
			tc.changes = append(tc.changes, change{kind: "a", name: 2 * i, to: b})
		} else {
			tc.changes = append(tc.changes, change{kind: "d", name: 2*i + 1, from: b})
		}
	}
	return tc
}

func main() {
	c := Setup()
	defer c.Close()
	// RenameAnalysis.Initialize logs every adjusted threshold through a logger it creates on os.Stderr
	if devnull, err := os.OpenFile(os.DevNull, os.O_WRONLY, 0); err == nil {
		os.Stderr = devnull
	}
	if c.Replay != "" {
		for _, cs := range c.ReplayCases() {
			emit(c, replayCase(cs))
		}
		return
	}
	if c.Thorough() {
		exhaustive(c, 5)
	} else {
		exhaustive(c, 4)
	}
	for i := c.Count(1500, 40000); i > 0; i-- {
		emit(c, hashpat(c, 40))
	}
	for i := c.Count(200, 5000); i > 0; i-- {
		emit(c, hashpat(c, 200))
	}
	for i := c.Count(1500, 40000); i > 0; i-- {
		emit(c, sim(c, 24, "sim"))
	}
	for i := c.Count(600, 15000); i > 0; i-- {
		emit(c, sim(c, 60, "timeout"))
	}
	for i := c.Count(800, 20000); i > 0; i-- {
		emit(c, thresh(c))
	}
	for i := c.Count(300, 6000); i > 0; i-- {
		emit(c, weird(c))
	}
	for i := c.Count(150, 3000); i > 0; i-- {
		emit(c, capCase(c))
	}
	for i := c.Count(1, 12); i > 0; i-- {
		emit(c, big(c, 2300))
	}
}
