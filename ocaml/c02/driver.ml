(* C02: every plan the real planner produced is validated by the extracted, proved-sound [plan_ok]
   (theorem C02_checker_sound).  There is no Gallina mirror of the planner: a rejected plan is a
   property failure (translation validation), never a mere mismatch. *)
open C02_model
open Conv

let action_of_sx (s : sx) : action =
  let k = match tag s with
    | "C" -> KCommit | "F" -> KFork | "M" -> KMerge | "E" -> KEmerge
    | "D" -> KDelete | "H" -> KHibernate | "B" -> KBoot
    | t -> failwith ("unknown action " ^ t) in
  match args s with
  | c :: its ->
      let c = int_of_sx c in
      { kind = k; commit = (if c >= 0 then Some (nat_of_int c) else None);
        items = List.map (fun x -> z_of_int (int_of_sx x)) its }
  | [] -> failwith "action without commit field"

let graph_of_case (c : sx) : nat list list =
  let n = int_of_sx (List.hd (args (field "n" c))) in
  let ps = Array.make n [] in
  List.iter (fun e -> match list_of_sx e with
    | [ch; p] -> let ch = int_of_sx ch and p = int_of_sx p in
        if p >= 0 then ps.(ch) <- p :: ps.(ch)
    | _ -> failwith "edge") (args (field "edges" c));
  Array.to_list (Array.map (fun l -> List.map nat_of_int (List.rev l)) ps)

let add k n = Hashtbl.replace counters k (n + try Hashtbl.find counters k with Not_found -> 0)

let () =
  iter_cases (fun id c ->
    let g = graph_of_case c in
    let obs = args (field "obs" c) in
    let mult = match List.filter (fun x -> tag x = "mult") obs with
      | m :: _ -> int_of_sx (List.hd (args m)) | [] -> 1 in
    let plans = List.find (fun x -> tag x = "plans") obs in
    add "graph_orders_or_plannings" mult;
    (match args plans with
     | [p] when tag p = "panic" ->
         propfail id ("the planner panicked (" ^ string_of_sx p ^ ") on a commit graph")
     | ps ->
         List.iteri (fun i p ->
           add "plans_produced" mult;
           count "plans_validated";
           let plan = List.map action_of_sx (args p) in
           if plan_ok g plan then count "plans_accepted"
           else propfail id (Printf.sprintf "plan #%d of the real planner is rejected by plan_ok: %s" (i + 1) (string_of_sx p)))
           ps))
