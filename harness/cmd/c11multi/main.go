// Harness for C11, stream c11multi: several changes per FileDiff.Consume call (see verifharness/c11core/multi.go).
package main

import "verifharness/c11core"

func main() { c11core.MainMulti() }
