(* Code blocks "delete nodes" + "prepare" + "finish" for a replacement (insLength > 0, delLength > 0). *)
From Coq Require Import List ZArith Lia Bool.
Import ListNotations.
From Herc Require Import File.Model File.Spec File.NodeLists File.Locate File.DelLoop File.Values.
Open Scope Z_scope.

Ltac fin := zb; try (exfalso; lia); auto; try (f_equal; lia).

Section Replace.
Variables (t P ins del : Z).
Hypothesis Hdel : 0 < del.
Hypothesis Hins : 0 < ins.
Hypothesis HP0 : 0 <= P.
Hypothesis Ht32 : 0 <= t <= MaxU32.
Hypothesis Ht : t <> TreeEnd.
Let Q := P + del.
Let dlt := ins - del.

Theorem replace_spec L ok ov R :
  WF2 (L ++ (ok, ov) :: R) -> ok <= P -> first_gt P R ->
  P + del <= slen (L ++ (ok, ov) :: R) -> slen (L ++ (ok, ov) :: R) + ins - del <= MaxU32 ->
  compat_list t (P + del) (ok, ov) R ->
  exists s', update_body t P ins del L (ok, ov) R = Ok (s', rep t t ins ++ rep_list t P (P + del) (ok, ov) R) /\ WF2 s' /\
     slen s' = slen (L ++ (ok, ov) :: R) + ins - del /\
     forall i, 0 <= i -> sval s' i = spec_val (L ++ (ok, ov) :: R) t P ins del i.
Proof.
  intros (Hinc & Hend & Hz) Hok Hgt HPQ Hlen32 Hcompat.
  assert (HP32 : 0 <= P <= MaxU32) by lia.
  unfold update_body.
  replace (del =? 0) with false by (symmetry; apply Z.eqb_neq; lia).
  replace (ins >? 0) with true by (symmetry; apply Z.gtb_lt; lia).
  rewrite update_time_self. cbv iota.
  destruct (inc_decomp _ _ _ Hinc) as (HL & HLo & HR). cbn [fst] in *.
  set (prevOrigin := match last_opt L with Some p => p | None => (ok, ov) end).
  fold Q in Hcompat |- *.
  pose proof (take_drop Q R) as ER.
  assert (HD : inc ok (take_lt Q R)) by (apply take_lt_inc; auto).
  assert (HDk : klast ok (take_lt Q R) < Q) by (apply take_lt_lt; auto; unfold Q; lia).
  destruct (drop_lt Q R) as [|[sk sv] S'] eqn:ES.
  { exfalso. assert (klast ok R < Q) by (apply drop_nil_klast; auto; unfold Q; lia).
    unfold slen in HPQ. rewrite klast_app in HPQ. simpl in HPQ. unfold Q in *. lia. }
  rewrite (first_loop t P ins del Hdel HP32 R ok ov prevOrigin L (rep t t ins) (sk, sv) S' Hok HR Hgt ES Hcompat).
  fold Q.
  pose proof (drop_lt_ge Q R) as HSk. rewrite ES in HSk. simpl in HSk.
  set (D := take_lt Q R) in *.
  assert (HincS : inc (klast ok D) ((sk, sv) :: S')).
  { rewrite ER in HR. apply inc_app in HR. tauto. }
  destruct HincS as [HDS HS'].
  assert (HendS : vlast sv S' = TreeEnd).
  { rewrite vlast_app in Hend. simpl in Hend. rewrite ER in Hend. rewrite vlast_app in Hend. exact Hend. }
  assert (HlenS : slen (L ++ (ok, ov) :: R) = klast sk S').
  { unfold slen. rewrite klast_app. simpl. rewrite ER, klast_app. reflexivity. }
  set (LL := if ok <? P then L ++ [(ok, ov)] else L) in *.
  pose proof (LL_inc L R ok ov P Hinc) as HLLinc. fold LL in HLLinc.
  pose proof (LL_klast L R ok ov P Hinc Hok) as HLLk. fold LL in HLLk.
  pose proof (LL_nil L R ok ov P Hinc Hok Hz) as HLLnil. fold LL in HLLnil.
  pose proof (LL_head L R ok ov P Hinc Hok Hgt Hz) as HLLhead. fold LL in HLLhead.
  pose proof (LL_val L R ok ov P Hinc Hok Hgt Hz) as HLLval. fold LL in HLLval.
  (* value of the original state at or after Q *)
  assert (Hright : forall j, Q <= j -> sval (L ++ (ok, ov) :: R) j = vfrom (vlast ov D) ((sk, sv) :: S') j).
  { intros j Hj. rewrite ER. apply sval_right; [rewrite <- ER; auto| lia]. }
  (* the surviving nodes keep uint32 keys after the shift *)
  assert (HkS : keys_in Q (klast sk S') ((sk, sv) :: S')).
  { apply (keys_in_inc _ _ (sk - 1)); [simpl; split; [lia|auto]| lia | simpl; lia]. }
  replace (match D with [] => special P ins del (ok, ov) prevOrigin (sk, sv) S' | _ => false end) with false.
  2:{ destruct D; auto. unfold special. replace (ins =? 0) with false by (symmetry; apply Z.eqb_neq; lia).
      rewrite !andb_false_r. reflexivity. }
  cbv iota beta. rewrite (u32_id t Ht32), (u32_id P HP32). cbn [andb].
  rewrite (body_tail_eq t P ins del _ _ _ _ _ _ _ Q (klast sk S') Ht32 HP32)
    by (try exact HkS; unfold slen in *; cbn [klast] in *; unfold Q in *; lia).
  unfold prepare_i, finish_i. cbv zeta.
  replace (ins >? 0) with true by (symmetry; apply Z.gtb_lt; lia). cbv iota. cbn [andb].
  destruct (last_fst_snd D ok ov) as [Hdk Hdv].
  cbn [fst snd]. rewrite Hdk, Hdv.
  set (dk := klast ok D) in *. set (dv := vlast ov D) in *.
  fold dlt.
  assert (HshS : inc (sk + dlt) (shift dlt S')) by (apply inc_shift; auto).
  assert (Hdk_cases : (D = [] /\ dk = ok) \/ (D <> [] /\ P < dk)).
  { destruct D as [|d0 D'] eqn:ED'; [left; auto|right]. split; [congruence|].
    apply (first_gt_klast P (d0 :: D') ((sk, sv) :: S') ok); auto; try congruence. }
  assert (HLLP0 : P = 0 -> LL = []) by (apply inc_nonneg_nil; auto).
  destruct (negb (dv =? t) || (dk >=? P)) eqn:EA.
  - (* a node for the inserted lines is needed *)
    destruct ((sv =? t) && (sk - del =? P)) eqn:EB.
    + (* the survivor right after the deleted range already carries t: reuse it *)
      apply andb_prop in EB. destruct EB as [Esv Esk]. apply Z.eqb_eq in Esv, Esk.
      assert (HskQ : sk = Q) by (unfold Q; lia).
      assert (HS'ne : S' <> []).
      { intros ->. simpl in HendS. congruence. }
      destruct S' as [|[s2k s2v] S'']; [congruence|]. clear HS'ne.
      destruct HS' as [Hs2 HS'']. rewrite shift_cons in *.
      destruct (last_opt_cases LL) as [[HLLn HLLo]|(p & Hp & Hpv & Hpk & HLLne)].
      * (* edit at the very beginning *)
        rewrite HLLo. cbn [fst snd]. rewrite (Z.eqb_refl t). cbn [negb].
        assert (HP00 : P = 0) by auto.
        replace (P =? 0) with true by (symmetry; apply Z.eqb_eq; auto). cbn [app].
        rewrite shift_cons.
        assert (E1 : insert P t ((P, sv) :: (s2k + dlt, s2v) :: shift dlt S'') = (P, sv) :: (s2k + dlt, s2v) :: shift dlt S'').
        { apply (insert_dup P t [] sv _ (-1)); simpl; auto; lia. }
        rewrite E1. eexists. split; [reflexivity|].
        assert (Hinc' : inc (-1) ((P, sv) :: (s2k + dlt, s2v) :: shift dlt S'')).
        { cbn [inc]. split; [lia|]. split; [unfold Q, dlt in *; lia|]. apply (inc_shift s2k S'' dlt); auto. }
        split; [split; [exact Hinc'|split]|split].
        -- cbn [vlast]. rewrite vlast_shift. exact HendS.
        -- rewrite HP00. eauto.
        -- rewrite HlenS. unfold slen. cbn [klast]. rewrite (klast_shift s2k S'' dlt). unfold dlt. lia.
        -- intros i Hi. unfold spec_val. replace (i <? P) with false by (symmetry; apply Z.ltb_ge; lia).
           unfold sval. cbn [vfrom]. rewrite vfrom_shift.
           destruct (Z.ltb_spec i (P + ins)).
           ++ subst sv. unfold Q, dlt in *. fin; try (apply (vfrom_lt _ _ _ s2k); auto; lia).
           ++ rewrite Hright by (unfold Q; lia). cbn [vfrom]. unfold Q, dlt in *. fin.
      * rewrite Hp. cbv iota.
        assert (HPpos : P <> 0) by (intros E; apply HLLP0 in E; congruence).
        destruct (Z.eqb_spec (snd p) t) as [Ept|Npt].
        -- (* previous interval has value t too: drop the survivor's node *)
           cbn [fst snd]. rewrite (Z.eqb_refl t). cbn [negb].
           replace (P =? 0) with false by (symmetry; apply Z.eqb_neq; lia).
           rewrite ?shift_cons.
           eexists. split; [reflexivity|].
           assert (Hinc' : inc (-1) (LL ++ (s2k + dlt, s2v) :: shift dlt S'')).
           { apply inc_app. split; auto. cbn [inc]. split; [unfold Q, dlt in *; lia|]. apply (inc_shift s2k S'' dlt); auto. }
           split; [split; [exact Hinc'|split]|split].
           ++ rewrite vlast_app. cbn [vlast]. rewrite vlast_shift. exact HendS.
           ++ apply HLLhead. auto.
           ++ rewrite HlenS. unfold slen. rewrite klast_app. cbn [klast]. rewrite (klast_shift s2k S'' dlt). unfold dlt. lia.
           ++ intros i Hi. unfold spec_val. rewrite sval_L_cons by exact Hinc'. rewrite vfrom_shift.
              destruct (Z.ltb_spec i P).
              ** rewrite HLLval by lia. unfold Q, dlt in *. fin.
              ** rewrite (Hpv 0). destruct (Z.ltb_spec i (P + ins)).
                 --- unfold Q, dlt in *. fin; try (apply (vfrom_lt _ _ _ s2k); auto; lia).
                 --- rewrite Hright by (unfold Q; lia). cbn [vfrom]. subst sv. unfold Q, dlt in *. fin.
        -- (* move the survivor's start back to pos *)
           cbn [fst snd]. rewrite (Z.eqb_refl t). cbn [negb].
           replace (P =? 0) with false by (symmetry; apply Z.eqb_neq; lia).
           rewrite ?shift_cons.
           eexists. split; [reflexivity|].
           rewrite <- app_assoc. cbn [app].
           assert (Hinc' : inc (-1) (LL ++ (P, sv) :: (s2k + dlt, s2v) :: shift dlt S'')).
           { apply inc_app. split; auto. cbn [inc]. split; [lia|]. split; [unfold Q, dlt in *; lia|]. apply (inc_shift s2k S'' dlt); auto. }
           split; [split; [exact Hinc'|split]|split].
           ++ rewrite vlast_app. cbn [vlast]. rewrite vlast_shift. exact HendS.
           ++ apply HLLhead. auto.
           ++ rewrite HlenS. unfold slen. rewrite klast_app. cbn [klast]. rewrite (klast_shift s2k S'' dlt). unfold dlt. lia.
           ++ intros i Hi. unfold spec_val. rewrite sval_L_cons by exact Hinc'. cbn [vfrom]. rewrite vfrom_shift.
              destruct (Z.ltb_spec i P).
              ** rewrite HLLval by lia. unfold Q, dlt in *. fin.
              ** destruct (Z.ltb_spec i (P + ins)).
                 --- subst sv. unfold Q, dlt in *. fin; try (apply (vfrom_lt _ _ _ s2k); auto; lia).
                 --- rewrite Hright by (unfold Q; lia). cbn [vfrom]. unfold Q, dlt in *. fin.
    + (* a fresh node (pos, t) is inserted *)
      cbn [fst snd]. rewrite ?Hdk, ?Hdv. rewrite <- app_assoc. cbn [app]. rewrite shift_cons.
      assert (HEB : ~ (sv = t /\ sk = Q)).
      { intros [E1 E2]. apply andb_false_iff in EB. destruct EB as [EB|EB].
        - apply Z.eqb_neq in EB. congruence.
        - apply Z.eqb_neq in EB. unfold Q in *. lia. }
      assert (Hinc3 : inc (-1) (LL ++ (P, t) :: (sk + dlt, sv) :: shift dlt S')).
      { apply inc_app. split; auto. cbn [inc]. split; [lia|]. split; [unfold Q, dlt in *; lia|auto]. }
      destruct (Z.eqb_spec dv t) as [Edv|Ndv]; cbn [negb].
      * (* the last touched interval has value t: no continuation node *)
        assert (E1 : (if P =? 0 then insert P t (LL ++ (P, t) :: (sk + dlt, sv) :: shift dlt S')
                      else LL ++ (P, t) :: (sk + dlt, sv) :: shift dlt S') =
                     LL ++ (P, t) :: (sk + dlt, sv) :: shift dlt S').
        { destruct (Z.eqb_spec P 0); auto. apply (insert_dup _ _ _ _ _ (-1)); auto. }
        rewrite E1. eexists. split; [reflexivity|].
        split; [split; [exact Hinc3|split]|split].
        -- rewrite vlast_app. cbn [vlast]. rewrite vlast_shift. exact HendS.
        -- destruct LL as [|x LL'] eqn:ELL.
           ++ assert (P = 0) by auto. rewrite H. simpl. eauto.
           ++ apply HLLhead. congruence.
        -- rewrite HlenS. unfold slen. rewrite klast_app. cbn [klast]. rewrite (klast_shift sk S' dlt). unfold dlt. lia.
        -- intros i Hi. unfold spec_val. rewrite sval_L_cons by exact Hinc3. cbn [vfrom]. rewrite vfrom_shift.
           destruct (Z.ltb_spec i P).
           ++ rewrite HLLval by lia. unfold Q, dlt in *. fin.
           ++ destruct (Z.ltb_spec i (P + ins)).
              ** unfold Q, dlt in *. fin.
              ** rewrite Hright by (unfold Q; lia). cbn [vfrom]. fold dv. rewrite Edv. unfold Q, dlt in *. fin.
      * (* the partially deleted interval continues after the inserted lines *)
        destruct (Z.eq_dec sk Q) as [HskQ|HskQ].
        -- assert (E1 : insert (P + ins) dv (LL ++ (P, t) :: (sk + dlt, sv) :: shift dlt S') =
                        LL ++ (P, t) :: (sk + dlt, sv) :: shift dlt S').
           { replace (sk + dlt) with (P + ins) by (unfold Q, dlt in *; lia).
             replace (LL ++ (P, t) :: (P + ins, sv) :: shift dlt S') with ((LL ++ [(P, t)]) ++ (P + ins, sv) :: shift dlt S')
               by (rewrite <- app_assoc; reflexivity).
             apply (insert_dup _ _ _ _ _ (-1)).
             - apply inc_app. split; auto. cbn [inc]. split; [lia|auto].
             - rewrite klast_app. cbn [klast]. lia. }
           rewrite E1. eexists. split; [reflexivity|].
           split; [split; [exact Hinc3|split]|split].
           ++ rewrite vlast_app. cbn [vlast]. rewrite vlast_shift. exact HendS.
           ++ destruct LL as [|x LL'] eqn:ELL.
              ** assert (P = 0) by auto. rewrite H. simpl. eauto.
              ** apply HLLhead. congruence.
           ++ rewrite HlenS. unfold slen. rewrite klast_app. cbn [klast]. rewrite (klast_shift sk S' dlt). unfold dlt. lia.
           ++ intros i Hi. unfold spec_val. rewrite sval_L_cons by exact Hinc3. cbn [vfrom]. rewrite vfrom_shift.
              destruct (Z.ltb_spec i P).
              ** rewrite HLLval by lia. unfold Q, dlt in *. fin.
              ** destruct (Z.ltb_spec i (P + ins)).
                 --- unfold Q, dlt in *. fin.
                 --- rewrite Hright by (unfold Q; lia). cbn [vfrom]. unfold Q, dlt in *. fin.
        -- assert (E1 : insert (P + ins) dv (LL ++ (P, t) :: (sk + dlt, sv) :: shift dlt S') =
                        LL ++ (P, t) :: (P + ins, dv) :: (sk + dlt, sv) :: shift dlt S').
           { replace (LL ++ (P, t) :: (sk + dlt, sv) :: shift dlt S') with ((LL ++ [(P, t)]) ++ (sk + dlt, sv) :: shift dlt S')
               by (rewrite <- app_assoc; reflexivity).
             replace (LL ++ (P, t) :: (P + ins, dv) :: (sk + dlt, sv) :: shift dlt S')
               with ((LL ++ [(P, t)]) ++ (P + ins, dv) :: (sk + dlt, sv) :: shift dlt S')
               by (rewrite <- app_assoc; reflexivity).
             apply (insert_middle _ _ _ _ (-1)).
             - apply inc_app. split; auto. cbn [inc]. split; [lia|auto].
             - rewrite klast_app. cbn [klast]. lia.
             - lia.
             - cbn [inc]. split; [unfold Q, dlt in *; lia|auto]. }
           rewrite E1. eexists. split; [reflexivity|].
           assert (Hinc' : inc (-1) (LL ++ (P, t) :: (P + ins, dv) :: (sk + dlt, sv) :: shift dlt S')).
           { apply inc_app. split; auto. cbn [inc]. split; [lia|]. split; [lia|]. split; [unfold Q, dlt in *; lia|auto]. }
           split; [split; [exact Hinc'|split]|split].
           ++ rewrite vlast_app. cbn [vlast]. rewrite vlast_shift. exact HendS.
           ++ destruct LL as [|x LL'] eqn:ELL.
              ** assert (P = 0) by auto. rewrite H. simpl. eauto.
              ** apply HLLhead. congruence.
           ++ rewrite HlenS. unfold slen. rewrite klast_app. cbn [klast]. rewrite (klast_shift sk S' dlt). unfold dlt. lia.
           ++ intros i Hi. unfold spec_val. rewrite sval_L_cons by exact Hinc'. cbn [vfrom]. rewrite vfrom_shift.
              destruct (Z.ltb_spec i P).
              ** rewrite HLLval by lia. unfold Q, dlt in *. fin.
              ** destruct (Z.ltb_spec i (P + ins)).
                 --- unfold Q, dlt in *. fin.
                 --- rewrite Hright by (unfold Q; lia). cbn [vfrom]. fold dv. unfold Q, dlt in *. fin.
  - (* the containing interval has value t and nothing before pos was deleted: it simply grows *)
    apply orb_false_iff in EA. destruct EA as [EA1 EA2].
    apply negb_false_iff in EA1. apply Z.eqb_eq in EA1.
    assert (HdkP : dk < P) by (rewrite Z.geb_leb in EA2; apply Z.leb_gt in EA2; lia).
    destruct Hdk_cases as [[HDn Hdko]|[_ Hbad]]; [|lia].
    assert (HokP : ok < P) by lia.
    assert (Hov : ov = t) by (unfold dv in EA1; rewrite HDn in EA1; exact EA1).
    cbn [fst snd]. rewrite ?Hdk, ?Hdv. rewrite EA1. rewrite (Z.eqb_refl t). cbn [negb].
    assert (HPpos : P <> 0).
    { pose proof (klast_ge _ _ HL). lia. }
    replace (P =? 0) with false by (symmetry; apply Z.eqb_neq; lia).
    rewrite shift_cons. eexists. split; [reflexivity|].
    assert (Hinc' : inc (-1) (LL ++ (sk + dlt, sv) :: shift dlt S')).
    { apply inc_app. split; auto. cbn [inc]. split; [unfold Q, dlt in *; lia|auto]. }
    assert (HvLL : vlast 0 LL = t).
    { unfold LL. replace (ok <? P) with true by (symmetry; apply Z.ltb_lt; lia). rewrite vlast_app. simpl. auto. }
    assert (HLLne : LL <> []).
    { unfold LL. replace (ok <? P) with true by (symmetry; apply Z.ltb_lt; lia). destruct L; simpl; congruence. }
    split; [split; [exact Hinc'|split]|split].
    + rewrite vlast_app. cbn [vlast]. rewrite vlast_shift. exact HendS.
    + apply HLLhead. auto.
    + rewrite HlenS. unfold slen. rewrite klast_app. cbn [klast]. rewrite (klast_shift sk S' dlt). unfold dlt. lia.
    + intros i Hi. unfold spec_val. rewrite sval_L_cons by exact Hinc'. rewrite vfrom_shift.
      destruct (Z.ltb_spec i P).
      * rewrite HLLval by lia. unfold Q, dlt in *. fin.
      * rewrite HvLL. destruct (Z.ltb_spec i (P + ins)).
        -- unfold Q, dlt in *. fin.
        -- rewrite Hright by (unfold Q; lia). cbn [vfrom]. fold dv. rewrite EA1. unfold Q, dlt in *. fin.
Qed.
End Replace.
