// Harness for the execution stream of C02: runs the real hercules pipeline (NewPipeline / AddItem /
// Initialize / Run, public API only) on synthetic in-memory repositories with two STATEFUL recording
// items and writes, per case, the commit graph (format of harness/cmd/c02: topological numbering, edges)
// and the log of every Consume call: the commit, what this instance of the item had seen before (own
// Consume calls + what it inherited through Fork + what Merge gave it) and the commit it consumed last.
// The driver judges the log against the graph alone with the extracted exec_ok (the planner is not
// deterministic across calls, so no separately computed plan is involved).
//
//	item 0 (recCopy)   forks with hercules.ForkCopyPipelineItem and then deep-copies its state
//	item 1 (recManual) forks by constructing the clones itself; requires what item 0 provides
//
// Merge gives every participant the union of the participants' sets; "last" stays the instance's own.
//
// Every option of Pipeline.Initialize that the planner / interpreter reads varies: the hibernation distance (dist),
// Pipeline.DumpPlan and Pipeline.PrintActions (opts bit 0 / bit 1; what they print goes through the package sink
// of internal/core, which is swapped for a no-op through the verif hook verifapi/c14.SetPlanPrinter - nothing
// reaches stderr or the trace), and the committer timestamps of the commits (tmode, planlib.TimesFor: growing,
// equal, falling, random, skewed).  Kind wide: forks of more than eight branches and octopus merges of more than
// eight parents.  Kinds reuse-* (reuse.go): ONE Pipeline object and the same item instances run on several commit
// selections of one repository, every run judged like the run of a fresh pipeline.
package main

import (
	"fmt"
	"math/rand"
	"runtime/debug"
	"sort"
	"sync"
	"time"

	git "gopkg.in/src-d/go-git.v4"
	"gopkg.in/src-d/go-git.v4/plumbing"
	"gopkg.in/src-d/go-git.v4/plumbing/object"
	hercules "gopkg.in/src-d/hercules.v10"
	c14 "gopkg.in/src-d/hercules.v10/verifapi/c14"
	. "verifharness/lib"
	pl "verifharness/planlib"
	"verifharness/synth"
)

// the fact keys of --hibernation-distance, --dump-plan and --print-actions (core.ConfigPipelineHibernationDistance,
// ConfigPipelineDumpPlan, ConfigPipelinePrintActions in internal/core/pipeline.go; not re-exported by the root package)
const (
	factHibernationDistance = "Pipeline.HibernationDistance"
	factDumpPlan            = "Pipeline.DumpPlan"
	factPrintActions        = "Pipeline.PrintActions"
)

const (
	optDumpPlan     = 1
	optPrintActions = 2
)

const entA = "c02run.a"

// ---------------------------------------------------------------------------------------------
// recording items

type shared struct {
	id   map[plumbing.Hash]int
	logs [2][]Sx
	// error path (kinds reuse-*, a run with mode >= 10): the failAt-th Consume call of the providing item returns an error
	failAt, calls int
}

var errInjected = fmt.Errorf("injected failure")

// state of one instance; slices are shared by a by-value copy, so Fork must copy them
type recState struct {
	seen []int // sorted set of the commits incorporated
	last int   // the commit this instance consumed last, -1: none
}

func (s *recState) clone() recState {
	return recState{seen: append([]int(nil), s.seen...), last: s.last}
}

func (s *recState) consume(sh *shared, item int, deps map[string]interface{}) {
	c := -2
	if cm, ok := deps[hercules.DependencyCommit].(*object.Commit); ok {
		if x, ok := sh.id[cm.Hash]; ok {
			c = x
		}
	}
	xs := make([]Sx, 0, len(s.seen)+2)
	xs = append(xs, I(c), I(s.last))
	for _, x := range s.seen {
		xs = append(xs, I(x))
	}
	sh.logs[item] = append(sh.logs[item], T("r", xs...))
	s.seen = union(s.seen, []int{c})
	s.last = c
}

func union(ls ...[]int) []int {
	m := map[int]bool{}
	for _, l := range ls {
		for _, x := range l {
			m[x] = true
		}
	}
	r := make([]int, 0, len(m))
	for x := range m {
		r = append(r, x)
	}
	sort.Ints(r)
	return r
}

func mergeStates(all []*recState) {
	ls := make([][]int, len(all))
	for i, s := range all {
		ls[i] = s.seen
	}
	u := union(ls...)
	for _, s := range all {
		s.seen = append([]int(nil), u...)
	}
}

type recCopy struct {
	sh *shared
	st recState
}

func (it *recCopy) Name() string                                             { return "C02RunCopy" }
func (it *recCopy) Provides() []string                                       { return []string{entA} }
func (it *recCopy) Requires() []string                                       { return []string{} }
func (it *recCopy) ListConfigurationOptions() []hercules.ConfigurationOption { return nil }
func (it *recCopy) Configure(map[string]interface{}) error                   { return nil }
func (it *recCopy) Initialize(*git.Repository) error {
	it.st = recState{last: -1}
	return nil
}
func (it *recCopy) Consume(deps map[string]interface{}) (map[string]interface{}, error) {
	it.sh.calls++
	if it.sh.failAt > 0 && it.sh.calls == it.sh.failAt {
		return nil, errInjected
	}
	it.st.consume(it.sh, 0, deps)
	return map[string]interface{}{entA: len(it.st.seen)}, nil
}
func (it *recCopy) Fork(n int) []hercules.PipelineItem {
	clones := hercules.ForkCopyPipelineItem(it, n)
	for _, c := range clones {
		c.(*recCopy).st = it.st.clone()
	}
	return clones
}
func (it *recCopy) Merge(branches []hercules.PipelineItem) {
	all := []*recState{&it.st}
	for _, b := range branches {
		all = append(all, &b.(*recCopy).st)
	}
	mergeStates(all)
}

type recManual struct {
	sh *shared
	st recState
}

func (it *recManual) Name() string                                             { return "C02RunManual" }
func (it *recManual) Provides() []string                                       { return []string{} }
func (it *recManual) Requires() []string                                       { return []string{entA} }
func (it *recManual) ListConfigurationOptions() []hercules.ConfigurationOption { return nil }
func (it *recManual) Configure(map[string]interface{}) error                   { return nil }
func (it *recManual) Initialize(*git.Repository) error {
	it.st = recState{last: -1}
	return nil
}
func (it *recManual) Consume(deps map[string]interface{}) (map[string]interface{}, error) {
	it.st.consume(it.sh, 1, deps)
	return map[string]interface{}{}, nil
}
func (it *recManual) Fork(n int) []hercules.PipelineItem {
	clones := make([]hercules.PipelineItem, n)
	for i := range clones {
		clones[i] = &recManual{sh: it.sh, st: it.st.clone()}
	}
	return clones
}
func (it *recManual) Merge(branches []hercules.PipelineItem) {
	all := []*recState{&it.st}
	for _, b := range branches {
		all = append(all, &b.(*recManual).st)
	}
	mergeStates(all)
}

// recLight is the recording item of the LARGE runs (kinds scale-*): it keeps no set of commits (copying one at
// every fork is quadratic) but gives every instance an id and logs the calls: (root id) (fork src (ids)) (con id c)
// (merge id (ids)).  The driver reads the log as a plan over instance ids and judges it with the fast validator.
type lightShared struct {
	id     map[plumbing.Hash]int
	events []Sx
	next   int
}

type recLight struct {
	sh *lightShared
	id int
}

func (it *recLight) Name() string                                             { return "C02RunLight" }
func (it *recLight) Provides() []string                                       { return []string{} }
func (it *recLight) Requires() []string                                       { return []string{} }
func (it *recLight) ListConfigurationOptions() []hercules.ConfigurationOption { return nil }
func (it *recLight) Configure(map[string]interface{}) error                   { return nil }
func (it *recLight) Initialize(*git.Repository) error                         { return nil }
func (it *recLight) Consume(deps map[string]interface{}) (map[string]interface{}, error) {
	c := -2
	if cm, ok := deps[hercules.DependencyCommit].(*object.Commit); ok {
		if x, ok := it.sh.id[cm.Hash]; ok {
			c = x
		}
	}
	it.sh.events = append(it.sh.events, T("con", I(it.id), I(c)))
	return map[string]interface{}{}, nil
}
func (it *recLight) Fork(n int) []hercules.PipelineItem {
	clones := make([]hercules.PipelineItem, n)
	ids := make([]int, n)
	for i := range clones {
		ids[i] = it.sh.next
		it.sh.next++
		clones[i] = &recLight{sh: it.sh, id: ids[i]}
	}
	it.sh.events = append(it.sh.events, T("fork", I(it.id), Ints(ids)))
	return clones
}
func (it *recLight) Merge(branches []hercules.PipelineItem) {
	ids := make([]int, len(branches))
	for i, b := range branches {
		ids[i] = b.(*recLight).id
	}
	it.sh.events = append(it.sh.events, T("merge", I(it.id), Ints(ids)))
}

type scaleIn struct {
	shape              string
	size, hmode, tmode int
	gseed              int64
	dist, opts         int
}

// runScale executes one large history (planlib.ScaleGraph; hmode only chooses the slice order here, the hashes
// are real) and returns the case line.
func runScale(sp scaleIn) []Sx {
	g := pl.ScaleGraph(sp.shape, sp.size, sp.hmode, sp.tmode, sp.gseed)
	specs := make([]synth.CommitSpec, g.N)
	files := []synth.FileSpec{{Path: "f", Data: []byte("x\n")}}
	for i := range specs {
		t := int64(i) * 60
		if len(g.Times) == g.N {
			t = int64(g.Times[i])
		}
		specs[i] = synth.CommitSpec{AuthorName: "u", AuthorEmail: "u@x", AuthorWhen: time.Unix(pl.TimeBase+t, 0),
			Message: fmt.Sprintf("g%d c%d", sp.gseed, i), Files: files}
	}
	for _, e := range g.Edges {
		specs[e[0]].Parents = append(specs[e[0]].Parents, e[1])
	}
	repo, byNum := synth.BuildRepo(specs)
	sh := &lightShared{id: make(map[plumbing.Hash]int, g.N), next: 1}
	for i, c := range byNum {
		sh.id[c.Hash] = i
	}
	commits := make([]*object.Commit, g.N)
	for k, i := range g.Order {
		commits[k] = byNum[i]
	}
	pipeline := hercules.NewPipeline(repo)
	pipeline.AddItem(&recLight{sh: sh, id: 0})
	sh.events = append(sh.events, T("root", I(0)))
	facts := map[string]interface{}{
		hercules.ConfigPipelineCommits: commits,
		factHibernationDistance:        sp.dist,
		hercules.ConfigLogger:          nopLogger{},
	}
	if sp.opts&optDumpPlan != 0 {
		facts[factDumpPlan] = true
	}
	if sp.opts&optPrintActions != 0 {
		facts[factPrintActions] = true
	}
	status := "ok"
	var err error
	_, panicked := Catch(func() {
		if err = pipeline.Initialize(facts); err != nil {
			status = "initfail"
			return
		}
		debug.SetGCPercent(400)
		_, err = pipeline.Run(commits)
	})
	if panicked {
		status = "panic"
	} else if err != nil && status == "ok" {
		status = "err"
	}
	fs := []Sx{T("kind", A("scale-"+sp.shape)), T("nt", B(true))}
	fs = append(fs, pl.ScaleFields(sp.shape, sp.size, sp.hmode, sp.tmode, sp.gseed, g)...)
	fs = append(fs, T("dist", I(sp.dist)), T("opts", I(sp.opts)))
	return append(fs, T("obs", T("run", A(status)), T("log", sh.events...)))
}

type nopLogger struct{}

func (nopLogger) Info(...interface{})              {}
func (nopLogger) Infof(string, ...interface{})     {}
func (nopLogger) Warn(...interface{})              {}
func (nopLogger) Warnf(string, ...interface{})     {}
func (nopLogger) Error(...interface{})             {}
func (nopLogger) Errorf(string, ...interface{})    {}
func (nopLogger) Critical(...interface{})          {}
func (nopLogger) Criticalf(string, ...interface{}) {}

// ---------------------------------------------------------------------------------------------
// one case

type caseIn struct {
	Kind  string
	G     pl.Graph // Ranks are not an input here: the hashes are real, their order is observed
	Dist  int
	Salt  int
	Opts  int // optDumpPlan | optPrintActions
	TMode int // committer / author timestamps: tmode % 100: 0 = growing with the number (one minute apart), 1..6 planlib.TimesFor,
	// 7..11 extraTimes (r4.go: the future of the wall clock, the ends of the domain); tmode / 100 = 1: zone offsets, author
	// date != committer date, odd bytes in the names (r4.go)
	Twins []twin // pairs of commits whose real hashes share a prefix (r4.go)
}

// build writes the history into a fresh in-memory repository: the commits outside the analysed set
// (negative parents) come first as extra roots, then commits 0..N-1.
func build(in caseIn) (*git.Repository, []*object.Commit) {
	g := in.G
	next := 0
	for _, e := range g.Edges {
		if e[1] < 0 && -e[1] > next {
			next = -e[1]
		}
	}
	specs := make([]synth.CommitSpec, 0, next+g.N)
	files := theFiles
	when := func(i int) time.Time { return time.Unix(synth.BaseTime+1000+int64(i)*60, 0) }
	tm, zm := in.TMode%100, in.TMode/100
	// deterministic in (TMode, Salt, N); mode 0 of TimesFor (no timestamp) does not exist for real commits
	rng := rand.New(rand.NewSource(int64(in.Salt)*31 + int64(g.N)))
	if tm >= firstExtraTime {
		abs := extraTimes(tm, g.N, rng, time.Now().Unix())
		when = func(i int) time.Time { return time.Unix(abs[i], 0) }
	} else if tm > 0 {
		ts := pl.TimesFor(tm, g.N, rng)
		when = func(i int) time.Time { return time.Unix(pl.TimeBase+int64(ts[i]), 0) }
	}
	for k := 0; k < next; k++ {
		specs = append(specs, synth.CommitSpec{AuthorName: "u", AuthorEmail: "u@x",
			AuthorWhen: time.Unix(synth.BaseTime+int64(k), 0), Message: fmt.Sprintf("s%d ext%d", in.Salt, k), Files: files})
	}
	for i := 0; i < g.N; i++ {
		sp := synth.CommitSpec{Message: fmt.Sprintf("s%d c%d", in.Salt, i), Files: files}
		signature(&sp, i, zm, when(i), rng)
		specs = append(specs, sp)
	}
	for _, e := range g.Edges {
		p := next + e[1]
		if e[1] < 0 {
			p = -1 - e[1]
		}
		specs[next+e[0]].Parents = append(specs[next+e[0]].Parents, p)
	}
	if len(in.Twins) > 0 {
		ps := g.Parents()
		var isAnc func(a, b int) bool // a is a proper ancestor of b
		isAnc = func(a, b int) bool {
			for _, p := range ps[b] {
				if p == a || (p > a && isAnc(a, p)) {
					return true
				}
			}
			return false
		}
		twinMessages(specs, next, in.Twins, isAnc)
	}
	repo, all := synth.BuildRepo(specs)
	return repo, all[next:]
}

func runCase(in caseIn) []Sx {
	g := in.G
	repo, byNum := build(in)
	sh := &shared{id: map[plumbing.Hash]int{}}
	for i, c := range byNum {
		sh.id[c.Hash] = i
	}
	commits := make([]*object.Commit, g.N)
	for k, i := range g.Order {
		commits[k] = byNum[i]
	}
	// observed byte order of the hashes (what the planner's tie-breaks see)
	idx := pl.Identity(g.N)
	sort.Slice(idx, func(a, b int) bool { return byNum[idx[a]].Hash.String() < byNum[idx[b]].Hash.String() })
	ranks := make([]int, g.N)
	for r, i := range idx {
		ranks[i] = r
	}

	pipeline := hercules.NewPipeline(repo)
	pipeline.AddItem(&recManual{sh: sh})
	pipeline.AddItem(&recCopy{sh: sh})
	facts := map[string]interface{}{
		hercules.ConfigPipelineCommits: commits,
		factHibernationDistance:        in.Dist,
		hercules.ConfigLogger:          nopLogger{},
	}
	if in.Opts&optDumpPlan != 0 {
		facts[factDumpPlan] = true
	}
	if in.Opts&optPrintActions != 0 {
		facts[factPrintActions] = true
	}
	status := "ok"
	var err error
	_, panicked := Catch(func() {
		if err = pipeline.Initialize(facts); err != nil {
			status = "initfail"
			return
		}
		if in.Dist > 0 {
			// Initialize lowers the GC percentage globally when the distance is positive; that is irrelevant
			// for what is observed here and only slows the harness down
			debug.SetGCPercent(400)
		}
		if pipeline.HibernationDistance != in.Dist || pipeline.DumpPlan != (in.Opts&optDumpPlan != 0) ||
			pipeline.PrintActions != (in.Opts&optPrintActions != 0) {
			status = "nodist"
			return
		}
		_, err = pipeline.Run(commits)
	})
	if panicked {
		status = "panic"
	} else if err != nil && status == "ok" {
		status = "err"
	}
	fs := []Sx{T("kind", A(in.Kind)), T("nt", B(g.NonTrivial())), T("n", I(g.N)), T("dist", I(in.Dist)), T("salt", I(in.Salt)),
		T("opts", I(in.Opts)), T("tmode", I(in.TMode)), T("order", Ints(g.Order).List...)}
	es := make([]Sx, len(g.Edges))
	for i, e := range g.Edges {
		es[i] = L(I(e[0]), I(e[1]))
	}
	fs = append(fs, T("edges", es...))
	obs := []Sx{T("ranks", Ints(ranks).List...), T("run", A(status)), T("log0", sh.logs[0]...), T("log1", sh.logs[1]...)}
	if len(in.Twins) > 0 {
		// the pairs asked for, and what the search achieved: the number of leading hex digits the two real hashes share
		ts := make([]Sx, len(in.Twins))
		got := make([]Sx, len(in.Twins))
		for i, t := range in.Twins {
			ts[i] = L(I(t.A), I(t.B), I(t.K))
			got[i] = L(A(byNum[t.A].Hash.String()), A(byNum[t.B].Hash.String()), I(commonHex(byNum[t.A].Hash, byNum[t.B].Hash)))
		}
		fs = append(fs, T("twins", ts...))
		obs = append(obs, T("twinhashes", got...))
	}
	fs = append(fs, T("obs", obs...))
	return fs
}

// runAll executes the cases on several workers and writes them in order.
func runAll(c *Config, ins []caseIn, workers int) {
	out := make([][]Sx, len(ins))
	var wg sync.WaitGroup
	next := make(chan int, len(ins))
	for i := range ins {
		next <- i
	}
	close(next)
	for w := 0; w < workers; w++ {
		wg.Add(1)
		go func() {
			defer wg.Done()
			for i := range next {
				out[i] = runCase(ins[i])
			}
		}()
	}
	wg.Wait()
	for _, fs := range out {
		c.Emit(fs...)
	}
}

// ---------------------------------------------------------------------------------------------
// generators

type rnd interface {
	Intn(int) int
	Perm(int) []int
}

func randOrder(r rnd, n int) []int {
	switch r.Intn(3) {
	case 0:
		return pl.Identity(n)
	case 1:
		o := pl.Identity(n)
		for i, j := 0, n-1; i < j; i, j = i+1, j-1 {
			o[i], o[j] = o[j], o[i]
		}
		return o
	}
	return r.Perm(n)
}

// rootsGraph: k unrelated lines of development (each with its own root commit, some with several
// children per commit) that are merged together step by step: two-parent and octopus merges, criss-cross
// pairs, redundant (fast-forward) and duplicate parent edges, commits between the merges, a tail.
func rootsGraph(r rnd, k int) pl.Graph {
	var parents [][]int
	add := func(ps ...int) int {
		parents = append(parents, append([]int{}, ps...))
		return len(parents) - 1
	}
	var heads []int
	for i := 0; i < k; i++ {
		c := add()
		for j := r.Intn(3); j > 0; j-- {
			c = add(c)
		}
		heads = append(heads, c)
		if r.Intn(4) == 0 { // a second child of some commit of this line: a side branch that stays a head
			heads = append(heads, add(c))
		}
	}
	for len(heads) > 1 {
		// shuffle
		p := r.Perm(len(heads))
		hs := make([]int, len(heads))
		for i, j := range p {
			hs[i] = heads[j]
		}
		m := 2
		if len(hs) > 2 && r.Intn(3) == 0 {
			m = 3 + r.Intn(len(hs)-2) // octopus
		}
		ps := append([]int{}, hs[:m]...)
		rest := append([]int{}, hs[m:]...)
		switch x := r.Intn(10); {
		case x == 0 && m == 2: // criss-cross: two merges of the same two heads, both stay
			a := add(ps[0], ps[1])
			b := add(ps[1], ps[0])
			rest = append(rest, a, b)
		default:
			if x == 1 && len(parents[ps[0]]) > 0 { // redundant edge: also a parent of a parent
				ps = append(ps, parents[ps[0]][r.Intn(len(parents[ps[0]]))])
			}
			if x == 2 { // duplicate edge
				ps = append(ps, ps[0])
			}
			c := add(ps...)
			if x == 3 { // two children of the merge commit
				rest = append(rest, add(c))
			}
			for j := r.Intn(2); j > 0; j-- {
				c = add(c)
			}
			rest = append(rest, c)
		}
		heads = rest
		if len(parents) > 40 {
			break
		}
	}
	c := heads[0]
	for j := r.Intn(3); j > 0 && len(heads) == 1; j-- {
		c = add(c)
	}
	n := len(parents)
	// renumber along a random topological order so that the roots are not always the smallest numbers
	num := randomTopo(r, parents)
	g := pl.Graph{N: n, Ranks: pl.Identity(n), Order: randOrder(r, n)}
	inv := make([]int, n)
	for old, nw := range num {
		inv[nw] = old
	}
	for nw := 0; nw < n; nw++ {
		for _, p := range parents[inv[nw]] {
			g.Edges = append(g.Edges, [2]int{nw, num[p]})
		}
	}
	return g
}

// randomTopo returns old -> new numbers of a random topological order.
func randomTopo(r rnd, parents [][]int) []int {
	n := len(parents)
	done := make([]bool, n)
	num := make([]int, n)
	for k := 0; k < n; k++ {
		var ready []int
		for c := 0; c < n; c++ {
			if done[c] {
				continue
			}
			ok := true
			for _, p := range parents[c] {
				if !done[p] {
					ok = false
				}
			}
			if ok {
				ready = append(ready, c)
			}
		}
		c := ready[r.Intn(len(ready))]
		done[c] = true
		num[c] = k
	}
	return num
}

func rootsIn(g pl.Graph) int {
	k := 0
	for _, ps := range g.Parents() {
		if len(ps) == 0 {
			k++
		}
	}
	return k
}

func main() {
	c := Setup()
	defer c.Close()
	workers := 6
	if c.Thorough() {
		workers = 10
	}
	debug.SetGCPercent(400)
	// what DumpPlan / PrintActions print is discarded (the sink is a package variable: set once, before any run)
	c14.SetPlanPrinter(func(...interface{}) {})
	if c.Replay != "" {
		var ins []caseIn
		for _, cs := range c.ReplayCases() {
			if rin, ok := parseReuse(cs); ok {
				runAll(c, ins, 1)
				ins = ins[:0]
				c.Emit(runReuse(rin)...)
				continue
			}
			if shape, size, hmode, tmode, gseed, ok := pl.ParseScale(cs); ok {
				sp := scaleIn{shape: shape, size: size, hmode: hmode, tmode: tmode, gseed: gseed}
				if f, ok := cs.Field("dist"); ok {
					sp.dist = f.Args()[0].Int()
				}
				if f, ok := cs.Field("opts"); ok {
					sp.opts = f.Args()[0].Int()
				}
				if f, ok := cs.Field("drops"); ok {
					var drops []int
					for _, x := range f.Args() {
						drops = append(drops, x.Int())
					}
					runAll(c, ins, 1)
					ins = ins[:0]
					c.Emit(runBigReuse(bigIn{sp: sp, drops: drops})...)
					continue
				}
				runAll(c, ins, 1)
				ins = ins[:0]
				c.Emit(runScale(sp)...)
				continue
			}
			in := caseIn{Kind: "replay", G: pl.ParseGraph(cs)}
			if f, ok := cs.Field("dist"); ok {
				in.Dist = f.Args()[0].Int()
			}
			if f, ok := cs.Field("salt"); ok {
				in.Salt = f.Args()[0].Int()
			}
			if f, ok := cs.Field("opts"); ok {
				in.Opts = f.Args()[0].Int()
			}
			if f, ok := cs.Field("tmode"); ok {
				in.TMode = f.Args()[0].Int()
			}
			if f, ok := cs.Field("twins"); ok {
				for _, x := range f.Args() {
					t := twin{x.List[0].Int(), x.List[1].Int(), x.List[2].Int()}
					if t.A >= 0 && t.A < t.B && t.B < in.G.N {
						in.Twins = append(in.Twins, t)
					}
				}
			}
			if in.G.N >= 1 {
				ins = append(ins, in)
			}
		}
		runAll(c, ins, 1)
		return
	}
	var ins []caseIn
	flush := func() {
		runAll(c, ins, workers)
		ins = ins[:0]
	}
	// the plan dump / the action trace on in about a third of the runs each; growing timestamps in half of the runs
	opts := func() int {
		o := 0
		if c.Rng.Intn(3) == 0 {
			o |= optDumpPlan
		}
		if c.Rng.Intn(3) == 0 {
			o |= optPrintActions
		}
		return o
	}
	tmode := func() int { return tm(c.Rng) }
	// exhaustive: every DAG on <= 5 commits x hibernation distance 0..3 (hash order: whatever the salt gives)
	for n := 1; n <= 5; n++ {
		for m := 0; m < pl.NumMasks(n); m++ {
			for d := 0; d <= 3; d++ {
				g := pl.FromParents(pl.DagFromMask(n, m), pl.Identity(n))
				ins = append(ins, caseIn{Kind: fmt.Sprintf("ex%d", n), G: g, Dist: d, Salt: c.Rng.Intn(1 << 20),
					Opts: (m + d) % 4, TMode: (m/4+d)%numTimeModes + 100*((m/2+d/2)%2)})
			}
			// every DAG also with dates in the future of the wall clock / at the ends of the domain, x distance x options x zones
			ins = append(ins, caseIn{Kind: fmt.Sprintf("exfut%d", n), G: pl.FromParents(pl.DagFromMask(n, m), pl.Identity(n)), Dist: m % 4,
				Salt: c.Rng.Intn(1 << 20), Opts: (m / 4) % 4, TMode: firstExtraTime + m%(numTimeModes-firstExtraTime) + 100*((m/5)%2)})
		}
	}
	flush()
	twinStreams(c, &ins, flush)
	// thorough: every DAG on 6 commits, one distance each
	if c.Tier == "thorough" {
		for m := 0; m < pl.NumMasks(6); m++ {
			g := pl.FromParents(pl.DagFromMask(6, m), pl.Identity(6))
			ins = append(ins, caseIn{Kind: "ex6", G: g, Dist: c.Rng.Intn(4), Salt: c.Rng.Intn(1 << 20), Opts: opts(), TMode: tmode()})
			if len(ins) >= 4096 {
				flush()
			}
		}
		flush()
	}
	// 1..4 roots merged together
	for i := c.Count(14000, 160000); i > 0; i-- {
		k := 1 + c.Rng.Intn(4)
		if c.Rng.Intn(8) == 0 {
			k = 5 + c.Rng.Intn(2)
		}
		g := rootsGraph(c.Rng, k)
		ins = append(ins, caseIn{Kind: fmt.Sprintf("roots%d", rootsIn(g)), G: g, Dist: c.Rng.Intn(4), Salt: c.Rng.Intn(1 << 20), Opts: opts(), TMode: tmode()})
		if len(ins) >= 4096 {
			flush()
		}
	}
	flush()
	// the random histories of the plan stream (several roots, octopus, criss-cross, duplicate / redundant
	// edges, disconnected components, parents outside the set)
	for i := c.Count(10000, 160000); i > 0; i-- {
		g := pl.RandomGraph(c.Rng, 14)
		ins = append(ins, caseIn{Kind: "rnd", G: g, Dist: c.Rng.Intn(4), Salt: c.Rng.Intn(1 << 20), Opts: opts(), TMode: tmode()})
		if len(ins) >= 4096 {
			flush()
		}
	}
	for i := c.Count(500, 8000); i > 0; i-- {
		g := pl.RandomGraph(c.Rng, 40)
		ins = append(ins, caseIn{Kind: "rndbig", G: g, Dist: c.Rng.Intn(4), Salt: c.Rng.Intn(1 << 20), Opts: opts(), TMode: tmode()})
	}
	flush()
	// forks of more than eight branches and octopus merges of more than eight parents (planlib.WideGraph), with the
	// plan dump / action trace on in most of them
	for i := c.Count(300, 12000); i > 0; i-- {
		ps := pl.WideGraph(c.Rng, 14)
		g := pl.FromParents(ps, pl.Identity(len(ps)))
		g.Order = randOrder(c.Rng, g.N)
		o := opts()
		if c.Rng.Intn(2) == 0 {
			o = 1 + c.Rng.Intn(3)
		}
		ins = append(ins, caseIn{Kind: "wide", G: g, Dist: c.Rng.Intn(4), Salt: c.Rng.Intn(1 << 20), Opts: o, TMode: tmode()})
		if len(ins) >= 4096 {
			flush()
		}
	}
	flush()
	// large histories (10^3 commits / branches in every shape; thorough: 10^4, and more than 2^16 branch indexes),
	// one after the other: each needs up to a few hundred MB
	if c.Tier != "search" {
		mk := func(shape string, size int) {
			tm := c.Rng.Intn(pl.NumTimeModes)
			if tm == 0 {
				tm = 2
			}
			c.Emit(runScale(scaleIn{shape, size, c.Rng.Intn(3), tm, int64(c.Rng.Intn(1 << 30)), c.Rng.Intn(3), c.Rng.Intn(4)})...)
		}
		for _, sh := range pl.ScaleShapes {
			mk(sh, 1000+c.Rng.Intn(25))
		}
		// decimal widths of branch indexes / item counts (R4-5), with the plan dump and the action trace on
		for _, n := range []int{9, 10, 11, 99, 100, 101} { // 999 / 1000 / 1001: the plan stream, and the 10^3 cases above
			c.Emit(runScale(scaleIn{"starmerge", n, c.Rng.Intn(3), 2, int64(c.Rng.Intn(1 << 30)), c.Rng.Intn(3), 3})...)
		}
		if c.Thorough() {
			for _, sh := range []string{"comb", "diamonds", "roots", "ladder", "ffchain", "starmerge", "star"} {
				mk(sh, 10000+c.Rng.Intn(300))
			}
			mk("bush", 3000)
			mk("star", 65536+1+c.Rng.Intn(100))
			mk("comb", 65536+1+c.Rng.Intn(3000))
			mk("diamonds", 65536+1+c.Rng.Intn(1000))
		}
	}
	// shapes of synth.GenHist (one root, merges among the last four commits, optionally closed to one head)
	for i := c.Count(3000, 40000); i > 0; i-- {
		h := synth.GenHist(c.Rng, synth.GenOpts{MaxCommits: 4 + c.Rng.Intn(14), SingleHead: c.Rng.Intn(2) == 0, SameTick: true, Paths: 1, Authors: 1})
		g := pl.FromParents(h.Parents, pl.Identity(h.N))
		g.Order = randOrder(c.Rng, h.N)
		ins = append(ins, caseIn{Kind: "genhist", G: g, Dist: c.Rng.Intn(4), Salt: c.Rng.Intn(1 << 20), Opts: opts(), TMode: tmode()})
		if len(ins) >= 4096 {
			flush()
		}
	}
	flush()
	// object lifecycle: one Pipeline object and the same item instances run on several commit selections (reuse.go)
	reuseStreams(c, workers)
}
