(* C18 - the clause "re-indexes by merged developer IDENTITY".  The identity table is data for the models of C18
   (Model.v) and its correctness is the theorem domain of C16.  This file connects the two on the level of the
   executable statements: when the table a MergeResults call worked with passes C16's oracles
   [mtotal_okb] / [mcomponents_okb] (coq/theories/Plumbing/IdentityMerge.v, sound by
   IdentityMergeTheorems.mcomponents_okb_sound), two input identities are sent to the same merged developer
   - in the sense the models and specification functions of C18 use the table: [Final (lookup0 people s)] -
   exactly when they are connected by shared names / e-mails.  The replay driver of C18 evaluates these
   oracles on the table of the real calls: a wrong table is a failure of C18's re-indexing clause. *)
From Coq Require Import List ZArith Bool Lia.
From Herc Require Import Combine.Model Combine.Spec Combine.Facts
     Plumbing.IdStr Plumbing.IdentityMerge Plumbing.IdentityMergeProofs Plumbing.IdentityMergeTheorems.
Import ListNotations.
Open Scope Z_scope.

(* the table in the representation of C16: key -> (Final, First, Second) *)
Definition table_c16 (people : table) : list (list Z * (Z * Z * Z)) :=
  map (fun e => (fst e, (Final (snd e), First (snd e), Second (snd e)))) people.

Lemma name_eqb_str_eqb a b : name_eqb a b = str_eqb a b.
Proof. revert b; induction a as [|x a IH]; intros [|y b]; simpl; try reflexivity; f_equal; apply IH. Qed.

Lemma sget_table_c16 people s :
  sget (table_c16 people) s = option_map (fun m => (Final m, First m, Second m)) (lookup people s).
Proof.
  unfold lookup. induction people as [|[k m] people IH]; simpl; [reflexivity|].
  change (name_eqb s k) with (str_eqb s k). rewrite (str_eqb_sym s k). destruct (str_eqb k s); [reflexivity|exact IH].
Qed.

Lemma final_of_table people s m : lookup people s = Some m -> final_of (table_c16 people) s = Final (lookup0 people s).
Proof. intros H. unfold final_of, lookup0. rewrite sget_table_c16, H. reflexivity. Qed.

Theorem table_classes people rd1 rd2 merged :
  mtotal_okb rd1 rd2 (table_c16 people) merged = true ->
  mcomponents_okb rd1 rd2 (table_c16 people) = true ->
  forall s t, In s (rd1 ++ rd2) -> In t (rd1 ++ rd2) ->
  (Final (lookup0 people s) = Final (lookup0 people t) <-> connected (rd1 ++ rd2) s t).
Proof.
  intros Ht Hc s t Hs Hin.
  assert (Hl : forall x, In x (rd1 ++ rd2) -> exists m, lookup people x = Some m).
  { intros x Hx. destruct (mtotal_okb_sound _ _ _ _ Ht x Hx) as (mi & Hmi & _).
    rewrite sget_table_c16 in Hmi. destruct (lookup people x) as [m|]; [exists m; reflexivity|discriminate]. }
  destruct (Hl s Hs) as (ms & Hms). destruct (Hl t Hin) as (mt & Hmt).
  rewrite <- (final_of_table people s ms Hms), <- (final_of_table people t mt Hmt).
  apply (mcomponents_okb_sound rd1 rd2 _ Hc s t Hs Hin).
Qed.

(* every merged developer index in use is inside the merged list *)
Theorem table_finals_in_range people rd1 rd2 merged :
  mtotal_okb rd1 rd2 (table_c16 people) merged = true ->
  forall s, In s (rd1 ++ rd2) -> 0 <= Final (lookup0 people s) < lenZ merged.
Proof.
  intros Ht s Hs. destruct (mtotal_okb_sound _ _ _ _ Ht s Hs) as (mi & Hmi & Hr).
  rewrite sget_table_c16 in Hmi. unfold lookup0. destruct (lookup people s) as [m|]; [|discriminate].
  simpl in Hmi. injection Hmi as <-. unfold mi_final in Hr. simpl in *. unfold lenZ. exact Hr.
Qed.
