(* C18 - BurndownAnalysis.MergeResults: which input developers the history of a merged developer is computed
   from.  The code looks the MERGED identity string up in a table keyed by INPUT identity strings; this file
   proves when that is right (every input identity is spelled like its merged identity) and shows, with a
   concrete table, that it is wrong otherwise. *)
From Coq Require Import List ZArith Bool Lia.
From Herc Require Import Combine.Model Combine.Spec Combine.Facts.
Import ListNotations.
Open Scope Z_scope.

(* ---------- structure of the result ---------- *)
Section Structure.
  Variable mergeM : matrix -> matrix -> matrix.

  (* the history of merged developer n is mergeMatrices of the two histories picked by [selected] *)
  Theorem bd_merge_history people merged r1 r2 m :
    bd_merge mergeM people merged r1 r2 = Ok m ->
    nonempty (br_ph r1) || nonempty (br_ph r2) = true ->
    br_people m = merged /\ length (br_ph m) = length merged /\
    forall n key, nth_error merged n = Some key ->
      exists m1 m2, pick (br_ph r1) (fst (selected people key)) = Ok m1 /\
                    pick (br_ph r2) (snd (selected people key)) = Ok m2 /\
                    nth_error (br_ph m) n = Some (mergeM m1 m2).
  Proof.
    unfold bd_merge. destruct (br_ticksize r1 =? br_ticksize r2); simpl; [|discriminate].
    intros H Hne. destruct (nonempty merged) eqn:En.
    - rewrite Hne in H. inv_bind H. inv_bind H. inversion H; subst; clear H. simpl.
      destruct (mapM_nth _ _ _ Hv) as (L & N). split; [reflexivity|]. split; [assumption|].
      intros n key Hn. destruct (N n key Hn) as (b & Hb & Hh).
      unfold bd_history in Hh. inv_bind Hh. inv_bind Hh. inversion Hh; subst. eauto.
    - inversion H; subst; clear H. simpl. destruct merged; [|discriminate].
      split; [reflexivity|]. split; [reflexivity|]. intros [|n] key Hn; discriminate.
  Qed.

  Theorem bd_merge_summary people merged r1 r2 m :
    bd_merge mergeM people merged r1 r2 = Ok m ->
    br_ticksize r1 = br_ticksize r2 /\
    br_people m = merged /\
    br_ticksize m = (if br_ticksize r1 =? 0 then DefaultTickSize else br_ticksize r1) /\
    br_sampling m = Z.min (br_sampling r1) (br_sampling r2) /\
    br_granularity m = Z.min (br_granularity r1) (br_granularity r2) /\
    br_global m = (if nonempty (br_global r1) || nonempty (br_global r2)
                   then mergeM (br_global r1) (br_global r2) else []).
  Proof.
    unfold bd_merge. destruct (br_ticksize r1 =? br_ticksize r2) eqn:E; simpl; [|discriminate].
    apply Z.eqb_eq in E. intros H.
    assert (Hmin : forall a b, (if a <? b then a else b) = Z.min a b).
    { intros a b. destruct (a <? b) eqn:El; lia. }
    destruct (nonempty merged).
    - inv_bind H. inv_bind H. inversion H; subst; clear H. simpl. rewrite !Hmin. repeat split; assumption.
    - inversion H; subst; clear H. simpl. rewrite !Hmin. repeat split; assumption.
  Qed.
End Structure.

(* ---------- boolean reflection helpers ---------- *)
Lemma str_nodup_NoDup l : str_nodup l = true <-> NoDup l.
Proof.
  induction l as [|x r IH]; simpl.
  - split; [constructor|reflexivity].
  - rewrite andb_true_iff, negb_true_iff, IH. split.
    + intros [H1 H2]. constructor; [|assumption]. intros Hin.
      assert (existsb (name_eqb x) r = true); [|congruence].
      apply existsb_exists. exists x. split; [assumption|apply name_eqb_refl].
    + intros H. inversion H; subst. split; [|assumption].
      destruct (existsb (name_eqb x) r) eqn:E; [|reflexivity].
      apply existsb_exists in E. destruct E as (y & Hy & Ey). apply name_eqb_eq in Ey. subst. contradiction.
Qed.

Lemma seqZ_in start n x : In x (seqZ start n) <-> start <= x < start + Z.of_nat n.
Proof.
  revert start. induction n as [|n IH]; intros start; simpl; [lia|].
  rewrite IH. lia.
Qed.

Lemma nthZ_in {A} (l : list A) i d : 0 <= i < lenZ l -> In (nthZ l i d) l.
Proof.
  intros H. unfold nthZ. destruct (i <? 0) eqn:E; [apply Z.ltb_lt in E; lia|].
  apply nth_In. unfold lenZ in H. lia.
Qed.

Lemma nthZ_NoDup {A} (l : list A) i j d :
  NoDup l -> 0 <= i < lenZ l -> 0 <= j < lenZ l -> nthZ l i d = nthZ l j d -> i = j.
Proof.
  intros Hnd Hi Hj. unfold nthZ.
  destruct (i <? 0) eqn:Ei; [apply Z.ltb_lt in Ei; lia|].
  destruct (j <? 0) eqn:Ej; [apply Z.ltb_lt in Ej; lia|].
  intros H. unfold lenZ in *.
  assert (Z.to_nat i = Z.to_nat j); [|lia].
  eapply (proj1 (NoDup_nth l d) Hnd); [lia|lia|assumption].
Qed.

Lemma filter_single i start n :
  start <= i < start + Z.of_nat n -> filter (fun j => j =? i) (seqZ start n) = [i].
Proof.
  revert start. induction n as [|n IH]; intros start H; simpl; [lia|].
  destruct (start =? i) eqn:E.
  - apply Z.eqb_eq in E; subst. f_equal.
    assert (forall s m, i < s -> filter (fun j => j =? i) (seqZ s m) = []) as Hnil.
    { intros s m. revert s. induction m as [|m IHm]; intros s Hs; simpl; [reflexivity|].
      destruct (s =? i) eqn:E; [apply Z.eqb_eq in E; lia|]. apply IHm. lia. }
    apply Hnil. lia.
  - apply Z.eqb_neq in E. apply IH. lia.
Qed.

Lemma filter_none {A} (P : A -> bool) l : (forall x, In x l -> P x = false) -> filter P l = [].
Proof.
  induction l as [|a r IH]; simpl; intros H; [reflexivity|].
  rewrite (H a) by (left; reflexivity). apply IH. intros x Hx. apply H. right; assumption.
Qed.

Lemma list_eqb_refl l : list_eqb l l = true.
Proof. induction l as [|x r IH]; simpl; [reflexivity|]. rewrite Z.eqb_refl, IH. reflexivity. Qed.

Lemma list_eqb_eq a b : list_eqb a b = true -> a = b.
Proof.
  revert b. induction a as [|x r IH]; intros [|y s] H; simpl in H; try discriminate; [reflexivity|].
  apply andb_true_iff in H. destruct H as [H1 H2]. apply Z.eqb_eq in H1. subst. f_equal. auto.
Qed.

(* ---------- what a well-formed table gives ---------- *)
Record wf_table (people : table) (rd1 rd2 merged : list name) : Prop := {
  wf_entry : forall s m, lookup people s = Some m ->
     0 <= Final m < lenZ merged /\
     (First m = -1 \/ (0 <= First m < lenZ rd1 /\ nthZ rd1 (First m) [] = s)) /\
     (Second m = -1 \/ (0 <= Second m < lenZ rd2 /\ nthZ rd2 (Second m) [] = s));
  wf_first : forall s, In s rd1 -> exists m, lookup people s = Some m /\ 0 <= First m;
  wf_second : forall s, In s rd2 -> exists m, lookup people s = Some m /\ 0 <= Second m;
  wf_nd1 : NoDup rd1;
  wf_nd2 : NoDup rd2;
  wf_ndm : NoDup merged;
  wf_member : forall w, 0 <= w < lenZ merged ->
     members people rd1 w <> [] \/ members people rd2 w <> [] }.

Lemma lookup_in (people : table) s m : lookup people s = Some m -> In (s, m) people.
Proof.
  unfold lookup. induction people as [|[k v] r IH]; simpl; intros H; [discriminate|].
  destruct (name_eqb s k) eqn:E; [|auto]. apply name_eqb_eq in E; subst. inversion H; subst. left; reflexivity.
Qed.

Lemma wf_table_b_sound people rd1 rd2 merged :
  wf_table_b people rd1 rd2 merged = true -> wf_table people rd1 rd2 merged.
Proof.
  unfold wf_table_b. rewrite !andb_true_iff.
  intros [[[[[[[Hk He] Hf] Hs] N1] N2] Nm] Hm]. constructor.
  - intros s m Hl. apply lookup_in in Hl. rewrite forallb_forall in He. specialize (He _ Hl).
    unfold entry_ok in He. simpl in He. rewrite !andb_true_iff in He.
    destruct He as [[[A B] C] D]. split; [lia|]. split.
    + apply orb_true_iff in C. destruct C as [C|C]; [left; lia|right].
      rewrite !andb_true_iff in C. destruct C as [[C1 C2] C3]. apply name_eqb_eq in C3. split; [lia|assumption].
    + apply orb_true_iff in D. destruct D as [D|D]; [left; lia|right].
      rewrite !andb_true_iff in D. destruct D as [[D1 D2] D3]. apply name_eqb_eq in D3. split; [lia|assumption].
  - intros s Hin. rewrite forallb_forall in Hf. specialize (Hf _ Hin). unfold has_first in Hf.
    destruct (lookup people s); [|discriminate]. exists m. split; [reflexivity|lia].
  - intros s Hin. rewrite forallb_forall in Hs. specialize (Hs _ Hin). unfold has_second in Hs.
    destruct (lookup people s); [|discriminate]. exists m. split; [reflexivity|lia].
  - apply str_nodup_NoDup; assumption.
  - apply str_nodup_NoDup; assumption.
  - apply str_nodup_NoDup; assumption.
  - intros w Hw. rewrite forallb_forall in Hm.
    assert (Hin : In w (seqZ 0 (length merged))) by (apply seqZ_in; unfold lenZ in Hw; lia).
    specialize (Hm _ Hin). unfold has_member in Hm. apply orb_true_iff in Hm.
    destruct Hm as [Hm|Hm]; [left|right]; intros E; rewrite E in Hm; discriminate.
Qed.

Definition literal (people : table) (rd merged : list name) : Prop :=
  forall s, In s rd -> nthZ merged (Final (lookup0 people s)) [] = s.

Lemma literal_b_sound people rd merged : literal_b people rd merged = true -> literal people rd merged.
Proof.
  unfold literal_b, literal. rewrite forallb_forall. intros H s Hs. apply name_eqb_eq. auto.
Qed.

Lemma members_in people rd w i :
  In i (members people rd w) <-> 0 <= i < lenZ rd /\ Final (lookup0 people (nthZ rd i [])) = w.
Proof.
  unfold members. rewrite filter_In, seqZ_in, Z.eqb_eq. unfold lenZ. lia.
Qed.

(* ---------- the selection is exact when identities are literal ---------- *)
Section Exact.
  Variables (people : table) (rd1 rd2 merged : list name).
  Hypothesis WF : wf_table people rd1 rd2 merged.
  Hypothesis L1 : literal people rd1 merged.
  Hypothesis L2 : literal people rd2 merged.

  Lemma key_present w : 0 <= w < lenZ merged ->
    exists e, lookup people (nthZ merged w []) = Some e /\ Final e = w.
  Proof.
    intros Hw.
    assert (Hside : forall rd, literal people rd merged ->
              (forall s, In s rd -> exists m, lookup people s = Some m) ->
              members people rd w <> [] ->
              exists e, lookup people (nthZ merged w []) = Some e /\ Final e = w).
    { intros rd L Hl Hne. destruct (members people rd w) as [|i r] eqn:E; [congruence|].
      assert (Hi : In i (members people rd w)) by (rewrite E; left; reflexivity).
      apply members_in in Hi. destruct Hi as [Hr Hf].
      assert (Hin : In (nthZ rd i []) rd) by (apply nthZ_in; assumption).
      pose proof (L _ Hin) as Hlit. rewrite Hf in Hlit. rewrite Hlit.
      destruct (Hl _ Hin) as (m & Hm). exists m. split; [assumption|].
      unfold lookup0 in Hf. rewrite Hm in Hf. exact Hf. }
    destruct (wf_member _ _ _ _ WF w Hw) as [H|H].
    - apply (Hside rd1 L1); [|assumption]. intros s Hs. destruct (wf_first _ _ _ _ WF s Hs) as (m & Hm & _). eauto.
    - apply (Hside rd2 L2); [|assumption]. intros s Hs. destruct (wf_second _ _ _ _ WF s Hs) as (m & Hm & _). eauto.
  Qed.

  (* one side: rd with its pointer projection *)
  Lemma side_exact (rd : list name) (ptr : MI -> Z) w :
    0 <= w < lenZ merged -> NoDup rd -> literal people rd merged ->
    (forall s, In s rd -> exists m, lookup people s = Some m /\ 0 <= ptr m) ->
    (forall s m, lookup people s = Some m -> ptr m = -1 \/ (0 <= ptr m < lenZ rd /\ nthZ rd (ptr m) [] = s)) ->
    opt_list (if ptr (lookup0 people (nthZ merged w [])) >=? 0
              then Some (ptr (lookup0 people (nthZ merged w []))) else None) = members people rd w.
  Proof.
    intros Hw Hnd L Hhas Hptr.
    destruct (key_present w Hw) as (e & He & Hfe).
    set (key := nthZ merged w []) in *.
    unfold lookup0. rewrite He. simpl.
    (* every member of w is spelled [key] *)
    assert (Hmem : forall j, 0 <= j < lenZ rd -> Final (lookup0 people (nthZ rd j [])) = w -> nthZ rd j [] = key).
    { intros j Hj Hf. pose proof (L _ (nthZ_in rd j [] Hj)) as Hl. rewrite Hf in Hl. symmetry. exact Hl. }
    destruct (ptr e >=? 0) eqn:Ep.
    - (* the table points at position ptr e, which holds key *)
      destruct (Hptr _ _ He) as [Hm1|[Hr Hk]]; [lia|].
      simpl. unfold members. symmetry.
      rewrite (filter_ext_in _ (fun j => j =? ptr e)).
      + apply filter_single. unfold lenZ in Hr. lia.
      + intros j Hj. apply seqZ_in in Hj.
        assert (Hjr : 0 <= j < lenZ rd) by (unfold lenZ; lia).
        destruct (Z.eqb_spec j (ptr e)) as [->|Hne].
        * rewrite Hk. unfold lookup0. rewrite He. simpl. apply Z.eqb_eq. assumption.
        * apply Z.eqb_neq. intros Hf. apply Hne.
          apply (nthZ_NoDup rd j (ptr e) [] Hnd Hjr Hr). rewrite Hk. apply Hmem; assumption.
    - (* the table has no pointer: no position of rd may belong to w *)
      simpl. symmetry. unfold members. apply filter_none. intros j Hj. apply seqZ_in in Hj.
      assert (Hjr : 0 <= j < lenZ rd) by (unfold lenZ; lia).
      apply Z.eqb_neq. intros Hf.
      pose proof (Hmem j Hjr Hf) as Hkey.
      destruct (Hhas _ (nthZ_in rd j [] Hjr)) as (m & Hm & Hpos).
      rewrite Hkey in Hm. rewrite He in Hm. inversion Hm; subst. lia.
  Qed.

  Theorem selection_exact w :
    0 <= w < lenZ merged -> sel_exact_b people rd1 rd2 merged w = true.
  Proof.
    intros Hw. unfold sel_exact_b, selected. cbn [fst snd].
    rewrite (side_exact rd1 First w Hw (wf_nd1 _ _ _ _ WF) L1 (wf_first _ _ _ _ WF)).
    - rewrite (side_exact rd2 Second w Hw (wf_nd2 _ _ _ _ WF) L2 (wf_second _ _ _ _ WF)).
      + rewrite !list_eqb_refl. reflexivity.
      + intros s m Hl. destruct (wf_entry _ _ _ _ WF s m Hl) as (_ & _ & H). exact H.
    - intros s m Hl. destruct (wf_entry _ _ _ _ WF s m Hl) as (_ & H & _). exact H.
  Qed.
End Exact.

Theorem selection_exact_b people rd1 rd2 merged :
  wf_table_b people rd1 rd2 merged = true ->
  literal_b people rd1 merged = true -> literal_b people rd2 merged = true ->
  forall w, 0 <= w < lenZ merged -> sel_exact_b people rd1 rd2 merged w = true.
Proof.
  intros WF L1 L2 w Hw.
  apply selection_exact; auto using wf_table_b_sound, literal_b_sound.
Qed.

(* the history of every merged developer is mergeMatrices of exactly its members' histories *)
Theorem people_history_exact (mergeM : matrix -> matrix -> matrix) people merged r1 r2 m :
  wf_table_b people (br_people r1) (br_people r2) merged = true ->
  literal_b people (br_people r1) merged = true -> literal_b people (br_people r2) merged = true ->
  bd_merge mergeM people merged r1 r2 = Ok m ->
  nonempty (br_ph r1) || nonempty (br_ph r2) = true ->
  length (br_ph m) = length merged /\
  forall w, 0 <= w < lenZ merged ->
    exists m1 m2, nth_error (br_ph m) (Z.to_nat w) = Some (mergeM m1 m2) /\
                  hist_of (br_ph r1) (members people (br_people r1) w) m1 /\
                  hist_of (br_ph r2) (members people (br_people r2) w) m2.
Proof.
  intros WF L1 L2 H Hne. destruct (bd_merge_history mergeM _ _ _ _ _ H Hne) as (_ & Hlen & N).
  split; [assumption|]. intros w Hw.
  assert (Hkey : nth_error merged (Z.to_nat w) = Some (nthZ merged w [])).
  { unfold nthZ. destruct (w <? 0) eqn:E; [apply Z.ltb_lt in E; lia|].
    apply nth_error_nth'. unfold lenZ in Hw. lia. }
  destruct (N _ _ Hkey) as (m1 & m2 & A & B & C). exists m1, m2. split; [assumption|].
  pose proof (selection_exact_b _ _ _ _ WF L1 L2 w Hw) as Hs.
  unfold sel_exact_b in Hs. apply andb_true_iff in Hs. destruct Hs as [S1 S2].
  apply list_eqb_eq in S1, S2. rewrite <- S1, <- S2.
  assert (Hpick : forall ph o mm, pick ph o = Ok mm -> hist_of ph (opt_list o) mm).
  { intros ph [i|] mm Hp; simpl in Hp.
    - right. exists i. split; [reflexivity|assumption].
    - left. inversion Hp; subst. split; reflexivity. }
  split; apply Hpick; assumption.
Qed.

(* ---------- the converse: where the selection is exact although identities are not literal ---------- *)
(* If the history of merged developer w is computed from exactly its members, then either all its members are
   spelled like the merged identity, or the merged spelling is no input identity at all and the members are
   precisely position 0 of each list (the zero value of a missing map entry happens to point at them). *)
Theorem selection_exact_only_if people rd1 rd2 merged w :
  wf_table people rd1 rd2 merged -> 0 <= w < lenZ merged ->
  sel_exact_b people rd1 rd2 merged w = true ->
  ((forall i, In i (members people rd1 w) -> nthZ rd1 i [] = nthZ merged w []) /\
   (forall i, In i (members people rd2 w) -> nthZ rd2 i [] = nthZ merged w []))
  \/ (lookup people (nthZ merged w []) = None /\ members people rd1 w = [0] /\ members people rd2 w = [0]).
Proof.
  intros WF Hw H. unfold sel_exact_b, selected in H. cbn [fst snd] in H.
  apply andb_true_iff in H. destruct H as [H1 H2]. apply list_eqb_eq in H1, H2.
  set (key := nthZ merged w []) in *.
  destruct (lookup people key) as [e|] eqn:El.
  - left. unfold lookup0 in H1, H2. rewrite El in H1, H2. simpl in H1, H2.
    destruct (wf_entry _ _ _ _ WF key e El) as (_ & Hf & Hs). split.
    + intros i Hi. rewrite <- H1 in Hi. destruct (First e >=? 0) eqn:E; simpl in Hi; [|contradiction].
      destruct Hi as [<-|[]]. destruct Hf as [Hf|[_ Hf]]; [lia|assumption].
    + intros i Hi. rewrite <- H2 in Hi. destruct (Second e >=? 0) eqn:E; simpl in Hi; [|contradiction].
      destruct Hi as [<-|[]]. destruct Hs as [Hs|[_ Hs]]; [lia|assumption].
  - right. unfold lookup0 in H1, H2. rewrite El in H1, H2. simpl in H1, H2. auto.
Qed.

(* ---------- the refutation ---------- *)
(* "ann|a@x" and "bob|b@y" in the first result, "ann|c@z" in the second:
   MergeReversedDictsIdentities returns merged = ["bob|b@y"; "ann|a@x|c@z"] and the table below
   (recorded from the Go function by the harness, corpus/C18/c18.txt).  Merged developer 1 consists of
   position 1 of the first list and position 0 of the second, but people["ann|a@x|c@z"] does not exist, the
   zero value {0,0,0} selects position 0 of BOTH lists: the history of "bob|b@y" is merged into "ann". *)
Definition w_bob : name := [98;111;98;124;98;64;121].                 (* "bob|b@y" *)
Definition w_ann1 : name := [97;110;110;124;97;64;120].               (* "ann|a@x" *)
Definition w_ann2 : name := [97;110;110;124;99;64;122].               (* "ann|c@z" *)
Definition w_annm : name := [97;110;110;124;97;64;120;124;99;64;122]. (* "ann|a@x|c@z" *)
Definition w_rd1 := [w_bob; w_ann1].
Definition w_rd2 := [w_ann2].
Definition w_merged := [w_bob; w_annm].
Definition w_people : table :=
  [(w_ann1, mkMI 1 1 (-1)); (w_ann2, mkMI 1 (-1) 0); (w_bob, mkMI 0 0 (-1))].

Theorem people_selection_refuted :
  wf_table_b w_people w_rd1 w_rd2 w_merged = true /\
  members w_people w_rd1 1 = [1] /\ members w_people w_rd2 1 = [0] /\
  selected w_people (nthZ w_merged 1 []) = (Some 0, Some 0) /\
  sel_exact_b w_people w_rd1 w_rd2 w_merged 1 = false /\
  forall (mergeM : matrix -> matrix -> matrix) (hbob hann1 hann2 : matrix) r1 r2 m,
    br_people r1 = w_rd1 -> br_people r2 = w_rd2 ->
    br_ph r1 = [hbob; hann1] -> br_ph r2 = [hann2] ->
    bd_merge mergeM w_people w_merged r1 r2 = Ok m ->
    nth_error (br_ph m) 1 = Some (mergeM hbob hann2).
Proof.
  split; [vm_compute; reflexivity|]. split; [vm_compute; reflexivity|]. split; [vm_compute; reflexivity|].
  split; [vm_compute; reflexivity|]. split; [vm_compute; reflexivity|].
  intros mergeM hbob hann1 hann2 r1 r2 m P1 P2 H1 H2 H.
  destruct (bd_merge_history mergeM _ _ _ _ _ H) as (_ & _ & N).
  { rewrite H1. reflexivity. }
  destruct (N 1%nat w_annm eq_refl) as (m1 & m2 & A & B & C).
  rewrite H1 in A. rewrite H2 in B. vm_compute in A, B. inversion A; inversion B; subst. exact C.
Qed.
