(* C01_linear: on a linear history with ARBITRARY edit scripts the project matrix has no negative cell and
   every row sums to the number of tracked (text) lines alive at the sample.

   A linear history is a list of commits (author, tick, changes) consumed in normal mode on one branch.
   What TreeDiff/BlobCache guarantee is kept as the executable precondition [lin_wf]: the line counts that a
   change carries are those of the snapshots (path -> number of text lines) before and after the commit;
   the diff scripts are arbitrary.  The proof is the histogram invariant: for every birth tick k the column
   sum of the global sparse history equals the number of tracked lines whose value is k
   (this is C03's histogram theorem, which holds by construction for the array tracker [arr_update]). *)
From Coq Require Import List ZArith Lia Bool.
From Herc Require Import Burndown.Base Burndown.Dense Burndown.DenseProofs Burndown.Analysis
  Burndown.SparseFacts Burndown.AnalysisFacts Burndown.LifetimesFacts.
Import ListNotations.
Open Scope Z_scope.

Record lcommit := mkLC { lc_author : Z; lc_tick : Z; lc_changes : list change }.

Fixpoint lin_run (cf : cfg) (cs : list lcommit) (b : branch) (s : shared) : result (branch * shared) :=
  match cs with
  | [] => Ok (b, s)
  | c :: r => match consume cf (lc_author c) (lc_tick c) false (lc_changes c) b s with
              | Ok (b', s') => lin_run cf r b' s'
              | e => e
              end
  end.

(* snapshots: path -> number of text lines *)
Definition apply_change (snap : list (Z * Z)) (ch : change) : list (Z * Z) :=
  match ch with
  | CInsert p n => aset snap p n
  | CDelete p _ => adel snap p
  | CModify p _ n _ => aset snap p n
  end.
Definition opt_eqb (a : option Z) (b : option Z) : bool :=
  match a, b with Some x, Some y => x =? y | None, None => true | _, _ => false end.
Definition change_pre (snap : list (Z * Z)) (ch : change) : bool :=
  match ch with
  | CInsert p n => opt_eqb (aget snap p) None && (0 <=? n)
  | CDelete p n => opt_eqb (aget snap p) (Some n)
  | CModify p o n _ => (opt_eqb (aget snap p) (Some o) || opt_eqb (aget snap p) None) && (0 <=? n)
  end.
Fixpoint changes_pre (snap : list (Z * Z)) (chs : list change) : bool :=
  match chs with
  | [] => true
  | ch :: r => change_pre snap ch && changes_pre (apply_change snap ch) r
  end.
Definition snap_commit (snap : list (Z * Z)) (c : lcommit) : list (Z * Z) :=
  fold_left apply_change (lc_changes c) snap.
Definition snap_run (cs : list lcommit) (snap : list (Z * Z)) : list (Z * Z) := fold_left snap_commit cs snap.
Fixpoint lin_wf (prev : Z) (snap : list (Z * Z)) (cs : list lcommit) : bool :=
  match cs with
  | [] => true
  | c :: r => (prev <=? lc_tick c) && (lc_tick c <? mark) && (0 <=? lc_author c) &&
              changes_pre snap (lc_changes c) && lin_wf (lc_tick c) (snap_commit snap c) r
  end.
Definition snap_total (snap : list (Z * Z)) : Z := sum_z (map snd snap).

(* ---------- totals over association lists ---------- *)
Section Totals.
  Context {V : Type}.
  Variable g : V -> Z.
  Definition atotal (l : list (Z * V)) : Z := sum_z (map (fun kv => g (snd kv)) l).
  Definition gopt (o : option V) : Z := match o with Some v => g v | None => 0 end.

  Lemma atotal_aset l k v : atotal (aset l k v) = atotal l - gopt (aget l k) + g v.
  Proof.
    unfold atotal. induction l as [|[k' v'] r IH]; cbn [aset aget map snd].
    - rewrite !sum_z_cons. cbn. lia.
    - destruct (Z.eqb_spec k' k); cbn [map snd]; rewrite !sum_z_cons; cbn [gopt]; [lia|]. rewrite IH. lia.
  Qed.
  Lemma atotal_adel l k : atotal (adel l k) = atotal l - gopt (aget l k).
  Proof.
    unfold atotal. induction l as [|[k' v'] r IH]; cbn [adel aget map snd].
    - cbn. lia.
    - destruct (Z.eqb_spec k' k); cbn [map snd]; rewrite !sum_z_cons; cbn [gopt]; [lia|]. rewrite IH. lia.
  Qed.
End Totals.

Lemma aget_aset {V} (l : list (Z * V)) k v k' : aget (aset l k v) k' = if k =? k' then Some v else aget l k'.
Proof.
  induction l as [|[k0 v0] r IH]; cbn [aset aget].
  - destruct (Z.eqb_spec k k'); reflexivity.
  - destruct (Z.eqb_spec k0 k) as [->|Hne]; cbn [aget].
    + destruct (Z.eqb_spec k k'); reflexivity.
    + rewrite IH. destruct (Z.eqb_spec k0 k'), (Z.eqb_spec k k'); try reflexivity. congruence.
Qed.

Lemma in_aset {V} (l : list (Z * V)) k v x : In x (aset l k v) -> x = (k, v) \/ In x l.
Proof.
  induction l as [|[k0 v0] r IH]; cbn [aset In]; [intuition|].
  destruct (k0 =? k); cbn [In]; intuition.
Qed.
Lemma in_adel {V} (l : list (Z * V)) k x : In x (adel l k) -> In x l.
Proof.
  induction l as [|[k0 v0] r IH]; cbn [adel In]; [intuition|].
  destruct (k0 =? k); cbn [In]; intuition.
Qed.
Lemma aget_in {V} (l : list (Z * V)) k v : aget l k = Some v -> In (k, v) l.
Proof.
  induction l as [|[k0 v0] r IH]; cbn [aget]; [discriminate|].
  destruct (Z.eqb_spec k0 k) as [->|]; [intros E; inversion E; left; auto|right; auto].
Qed.

(* aget after adel needs distinct keys; the invariant keeps them distinct *)
Lemma aget_adel {V} (l : list (Z * V)) k k' : NoDup (map fst l) ->
  aget (adel l k) k' = if k =? k' then None else aget l k'.
Proof.
  induction l as [|[k0 v0] r IH]; cbn [adel aget map fst]; intros Hnd.
  - destruct (k =? k'); reflexivity.
  - inversion Hnd; subst. destruct (Z.eqb_spec k0 k) as [->|Hne]; cbn [aget].
    + destruct (Z.eqb_spec k k') as [->|Hne'].
      * destruct (aget r k') eqn:E; auto. apply aget_in in E. exfalso. apply H1.
        change k' with (fst (k', v)). apply in_map. auto.
      * reflexivity.
    + rewrite IH by auto. destruct (Z.eqb_spec k0 k'), (Z.eqb_spec k k'); try reflexivity. congruence.
Qed.
Lemma nodup_aset {V} (l : list (Z * V)) k v : NoDup (map fst l) -> NoDup (map fst (aset l k v)).
Proof.
  induction l as [|[k0 v0] r IH]; cbn [aset map fst]; intros Hnd.
  - constructor; [cbn; tauto|constructor].
  - inversion Hnd; subst. destruct (Z.eqb_spec k0 k) as [->|Hne]; cbn [map fst]; [constructor; auto|].
    constructor; auto. intros Hin. apply in_map_iff in Hin. destruct Hin as (x & E & Hin).
    apply in_aset in Hin. destruct Hin as [->|Hin]; [cbn in E; congruence|].
    apply H1. rewrite <- E. apply in_map. auto.
Qed.
Lemma nodup_adel {V} (l : list (Z * V)) k : NoDup (map fst l) -> NoDup (map fst (adel l k)).
Proof.
  induction l as [|[k0 v0] r IH]; cbn [adel map fst]; intros Hnd; auto.
  inversion Hnd; subst. destruct (k0 =? k); auto. cbn [map fst]. constructor; auto.
  intros Hin. apply in_map_iff in Hin. destruct Hin as (x & E & Hin). apply in_adel in Hin.
  apply H1. rewrite <- E. apply in_map. auto.
Qed.

(* ---------- counting values ---------- *)
Lemma count_app {A} (f : A -> bool) l1 l2 : count f (l1 ++ l2) = count f l1 + count f l2.
Proof. unfold count. rewrite filter_app, app_length. lia. Qed.
Lemma count_repeat {A} (f : A -> bool) x n : count f (repeat x n) = if f x then Z.of_nat n else 0.
Proof.
  induction n as [|n IH]; [destruct (f x); reflexivity|]. cbn [repeat]. rewrite count_cons, IH.
  destruct (f x); lia.
Qed.
Lemma count_le_length {A} (f : A -> bool) l : count f l <= Z.of_nat (length l).
Proof. induction l as [|x l IH]; [cbn; lia|]. rewrite count_cons. cbn [length]. destruct (f x); lia. Qed.

Section Hist.
  Variable cf : cfg.

  Definition cnt (Q : Z -> bool) (f : file) : Z := count (fun v => Q (tp cf v)) (f_vals f).
  Definition flen (f : file) : Z := Z.of_nat (length (f_vals f)).
  Definition vals_ok (T : Z) (vals : list Z) : Prop := forall v, In v vals -> is_mark v = false /\ 0 <= tp cf v <= T.
  Definition Qk (Q : Z -> bool) : Z -> Z -> bool := fun _ k => Q k.

  Lemma effs_nomark P t vs T : is_mark t = false -> vals_ok T vs ->
    effs cf P t vs = - count (fun v => P (tp cf t) (tp cf v)) vs.
  Proof.
    intros Hm Hv. unfold effs. induction vs as [|v r IH]; [reflexivity|].
    cbn [map]. rewrite sum_z_cons, count_cons, IH by (intros x Hx; apply Hv; right; auto).
    unfold eff. rewrite (proj1 (Hv v (or_introl eq_refl))), Hm.
    destruct (P (tp cf t) (tp cf v)); lia.
  Qed.

  (* one update keeps "column sums = histogram" *)
  Lemma arr_update_hist f s t pos ins del f' s' T :
    arr_update cf f s t pos ins del = Ok (f', s') ->
    is_mark t = false -> 0 <= tp cf t <= T -> vals_ok (tp cf t) (f_vals f) -> gh_ok T (s_gh s) ->
    f_hist f' = f_hist f /\ vals_ok (tp cf t) (f_vals f') /\ gh_ok T (s_gh s') /\
    (forall Q, wsum (Qk Q) (s_gh s') - cnt Q f' = wsum (Qk Q) (s_gh s) - cnt Q f) /\
    (forall P, (forall k, P (tp cf t) k = false) -> wsum P (s_gh s') = wsum P (s_gh s)).
  Proof.
    intros E Hm Ht Hv Hok.
    assert (Hok' : gh_ok T (s_gh s')).
    { eapply arr_update_ok; eauto. intros v Hin _. apply Hv; auto. }
    destruct (arr_update_spec cf _ _ _ _ _ _ _ _ E) as [(-> & -> & -> & ->)|(A & dead & B & E1 & E2 & LA & LD & Hins & Hh & Hw)].
    { split; [reflexivity|]. split; [exact Hv|]. split; [exact Hok|]. split; intros; lia. }
    assert (Hvd : vals_ok (tp cf t) dead) by (intros v Hin; apply Hv; rewrite E1; apply in_or_app; right; apply in_or_app; auto).
    split; auto. split.
    { intros v Hin. rewrite E2 in Hin. apply in_app_or in Hin. destruct Hin as [Hin|Hin].
      - apply Hv. rewrite E1. apply in_or_app; auto.
      - apply in_app_or in Hin. destruct Hin as [Hin|Hin].
        + apply repeat_spec in Hin. subst. split; auto. lia.
        + apply Hv. rewrite E1. apply in_or_app; right; apply in_or_app; auto. }
    split; auto. split.
    - intros Q. rewrite Hw. unfold cnt. rewrite E1, E2. rewrite !count_app, count_repeat.
      rewrite (effs_nomark _ _ _ _ Hm Hvd). unfold eff. rewrite Hm. unfold Qk. destruct (Q (tp cf t)); lia.
    - intros P HP. rewrite Hw. unfold eff. rewrite Hm, HP.
      assert (effs cf P t dead = 0); [|lia].
      unfold effs. clear - HP Hm. induction dead as [|v r IH]; [reflexivity|]. cbn [map]. rewrite sum_z_cons, IH.
      unfold eff. rewrite Hm, HP. destruct (is_mark v); lia.
  Qed.

  (* every value of the file has its tick among the keys of the global history *)
  Definition VK (f : file) (s : shared) : Prop := forall v, In v (f_vals f) -> In (tp cf v) (keys (s_gh s)).

  (* the relation one accepted tracker operation establishes; it is reflexive and transitive *)
  Definition rel (t T : Z) (x y : file * shared) : Prop :=
    f_hist (fst y) = f_hist (fst x) /\ vals_ok (tp cf t) (f_vals (fst y)) /\ gh_ok T (s_gh (snd y)) /\
    (forall Q, wsum (Qk Q) (s_gh (snd y)) - cnt Q (fst y) = wsum (Qk Q) (s_gh (snd x)) - cnt Q (fst x)) /\
    (forall P, (forall k, P (tp cf t) k = false) -> wsum P (s_gh (snd y)) = wsum P (s_gh (snd x))) /\
    (forall k, In k (keys (s_gh (snd x))) -> In k (keys (s_gh (snd y)))) /\
    (VK (fst x) (snd x) -> VK (fst y) (snd y)).

  Lemma rel_refl t T f s : vals_ok (tp cf t) (f_vals f) -> gh_ok T (s_gh s) -> rel t T (f, s) (f, s).
  Proof.
    intros Hv Hok. split; [reflexivity|]. split; [exact Hv|]. split; [exact Hok|].
    split; [intros; reflexivity|]. split; [intros; reflexivity|]. split; auto.
  Qed.

  Lemma rel_trans t T x y z : rel t T x y -> rel t T y z -> rel t T x z.
  Proof.
    intros (A1 & A2 & A3 & A4 & A5 & A6 & A7) (B1 & B2 & B3 & B4 & B5 & B6 & B7). split; [congruence|]. split; auto. split; auto.
    split; [intros Q; rewrite B4; apply A4|]. split; [intros P HP; rewrite B5 by auto; apply A5; auto|].
    split; auto.
  Qed.

  Lemma rel_update t T f s pos ins del f' s' :
    arr_update cf f s t pos ins del = Ok (f', s') -> is_mark t = false -> 0 <= tp cf t <= T ->
    vals_ok (tp cf t) (f_vals f) -> gh_ok T (s_gh s) -> rel t T (f, s) (f', s').
  Proof.
    intros E Hm Ht Hv Hok. destruct (arr_update_hist _ _ _ _ _ _ _ _ _ E Hm Ht Hv Hok) as (R1 & R2 & R3 & R4 & R5).
    destruct (arr_update_keys cf _ _ _ _ _ _ _ _ E) as [K1 K2].
    split; auto. split; auto. split; auto. split; auto. split; auto. split; auto. cbn [fst snd].
    intros HVK v Hin.
    destruct (arr_update_spec cf _ _ _ _ _ _ _ _ E) as [(-> & -> & -> & ->)|(A & dead & B & E1 & E2 & LA & LD & Hins & _)]; auto.
    rewrite E2 in Hin. apply in_app_or in Hin. destruct Hin as [Hin|Hin].
    - apply K1, HVK. rewrite E1. apply in_or_app; auto.
    - apply in_app_or in Hin. destruct Hin as [Hin|Hin].
      + apply repeat_spec in Hin as Hv'. subst v. apply K2; auto.
        destruct (Z.to_nat ins) eqn:En; [destruct Hin|lia].
      + apply K1, HVK. rewrite E1. apply in_or_app; right; apply in_or_app; auto.
  Qed.

  Lemma hm_loop_rel t T : is_mark t = false -> 0 <= tp cf t <= T ->
    forall diffs pos pending f s f' s',
    hm_loop cf t diffs pos pending f s = Ok (f', s') ->
    vals_ok (tp cf t) (f_vals f) -> gh_ok T (s_gh s) -> rel t T (f, s) (f', s').
  Proof.
    intros Hm Ht. induction diffs as [|[op len] rest IH]; intros pos pending f s f' s' E Hv Hok; cbn [hm_loop] in E.
    - destruct (0 <? snd pending).
      + destruct (fst pending).
        * destruct (arr_update cf f s t pos 0 (snd pending)) as [[f1 s1]| |] eqn:E1; try discriminate.
          inversion E; subst. eapply rel_update; eauto.
        * destruct (arr_update cf f s t pos (snd pending) 0) as [[f1 s1]| |] eqn:E1; try discriminate.
          inversion E; subst. eapply rel_update; eauto.
        * destruct (arr_update cf f s t pos 0 (snd pending)) as [[f1 s1]| |] eqn:E1; try discriminate.
          inversion E; subst. eapply rel_update; eauto.
      + inversion E; subst. apply rel_refl; auto.
    - destruct op.
      + (* DEq *)
        destruct (0 <? snd pending).
        * destruct (fst pending).
          -- destruct (arr_update cf f s t pos 0 (snd pending)) as [[f1 s1]| |] eqn:E1; try discriminate.
             pose proof (rel_update _ _ _ _ _ _ _ _ _ E1 Hm Ht Hv Hok) as R1.
             eapply rel_trans; [exact R1|]. destruct R1 as (_ & R2 & R3 & _). eapply IH; eauto.
          -- destruct (arr_update cf f s t pos (snd pending) 0) as [[f1 s1]| |] eqn:E1; try discriminate.
             pose proof (rel_update _ _ _ _ _ _ _ _ _ E1 Hm Ht Hv Hok) as R1.
             eapply rel_trans; [exact R1|]. destruct R1 as (_ & R2 & R3 & _). eapply IH; eauto.
          -- destruct (arr_update cf f s t pos 0 (snd pending)) as [[f1 s1]| |] eqn:E1; try discriminate.
             pose proof (rel_update _ _ _ _ _ _ _ _ _ E1 Hm Ht Hv Hok) as R1.
             eapply rel_trans; [exact R1|]. destruct R1 as (_ & R2 & R3 & _). eapply IH; eauto.
        * eapply IH; eauto.
      + (* DIns *)
        destruct (0 <? snd pending).
        * destruct (fst pending); try discriminate.
          -- destruct (arr_update cf f s t pos len (snd pending)) as [[f1 s1]| |] eqn:E1; try discriminate.
             pose proof (rel_update _ _ _ _ _ _ _ _ _ E1 Hm Ht Hv Hok) as R1.
             eapply rel_trans; [exact R1|]. destruct R1 as (_ & R2 & R3 & _). eapply IH; eauto.
          -- destruct (arr_update cf f s t pos len (snd pending)) as [[f1 s1]| |] eqn:E1; try discriminate.
             pose proof (rel_update _ _ _ _ _ _ _ _ _ E1 Hm Ht Hv Hok) as R1.
             eapply rel_trans; [exact R1|]. destruct R1 as (_ & R2 & R3 & _). eapply IH; eauto.
        * eapply IH; eauto.
      + (* DDel *)
        destruct (0 <? snd pending); [discriminate|]. eapply IH; eauto.
  Qed.
End Hist.

Section Inv.
  Variable cf : cfg.

  Definition stotal (snap : list (Z * Z)) : Z := atotal (fun n : Z => n) snap.

  Definition J (T : Z) (b : branch) (s : shared) (snap : list (Z * Z)) : Prop :=
    NoDup (map fst (b_files b)) /\ NoDup (map fst snap) /\
    (forall p, aget snap p = option_map flen (aget (b_files b) p)) /\
    stotal snap = atotal flen (b_files b) /\
    (forall p f, In (p, f) (b_files b) -> vals_ok cf T (f_vals f)) /\
    gh_ok T (s_gh s) /\
    (forall Q, wsum (Qk Q) (s_gh s) = atotal (cnt cf Q) (b_files b)) /\
    (forall p f, In (p, f) (b_files b) -> VK cf f s).

  (* nothing is booked at a tick other than the current one *)
  Definition frame (tick : Z) (s s' : shared) : Prop :=
    (forall P, (forall k, P tick k = false) -> wsum P (s_gh s') = wsum P (s_gh s)) /\
    (forall k, In k (keys (s_gh s)) -> In k (keys (s_gh s'))).

  Lemma frame_refl tick s : frame tick s s.
  Proof. split; [intros P _; reflexivity|auto]. Qed.
  Lemma frame_trans tick s1 s2 s3 : frame tick s1 s2 -> frame tick s2 s3 -> frame tick s1 s3.
  Proof. intros [A A'] [B B']. split; [intros P HP; rewrite B by auto; apply A; auto|auto]. Qed.

  Lemma vals_ok_mono T T' vals : T <= T' -> vals_ok cf T vals -> vals_ok cf T' vals.
  Proof. intros HT Hv v Hin. destruct (Hv v Hin). split; auto. lia. Qed.

  Lemma arr_update_len f s t pos ins del f' s' : arr_update cf f s t pos ins del = Ok (f', s') ->
    flen f' = flen f - del + ins.
  Proof.
    intros E. destruct (arr_update_spec cf _ _ _ _ _ _ _ _ E) as [(-> & -> & -> & ->)|(A & dead & B & E1 & E2 & LA & LD & Hins & _)].
    - lia.
    - unfold flen. rewrite E1, E2. rewrite !app_length, repeat_length. lia.
  Qed.

  Lemma bf_wf b x : b_files (with_files b x) = x. Proof. reflexivity. Qed.
  Lemma bt_wf b x : b_tick (with_files b x) = b_tick b. Proof. reflexivity. Qed.
  Lemma gh_wd s x : s_gh (with_dels s x) = s_gh s. Proof. reflexivity. Qed.
  Lemma gh_wn s x n : s_gh (with_names s x n) = s_gh s. Proof. reflexivity. Qed.

  Section Step.
    Variables (author tick : Z).
    Hypothesis Htick : 0 <= tick < mark.
    Hypothesis Hauthor : 0 <= author.
    Let t := pack cf author tick.

    Lemma t_nomark : is_mark t = false.
    Proof. unfold t. rewrite is_mark_pack by (unfold mark in *; lia). apply Z.eqb_neq. lia. Qed.
    Lemma t_tp : tp cf t = tick.
    Proof. unfold t. apply tp_pack; unfold mark in *; lia. Qed.

    Lemma update_time_norm hd s cur prev d s' : is_mark cur = false -> is_mark prev = false ->
      update_time cf hd s cur prev d = Ok s' -> s_gh s' = sp_add (s_gh s) (tp cf cur) (tp cf prev) d.
    Proof.
      intros Hc Hp E. destruct (update_time_cases _ _ _ _ _ _ _ E) as [(E1 & _)|[(_ & E2 & _)|(_ & _ & E3)]]; congruence.
    Qed.

    Lemma handle_insertion_J T b s snap p n b' s' :
      J T b s snap -> T <= tick -> b_tick b = tick -> aget snap p = None -> 0 <= n ->
      handle_insertion cf author b s p n = Ok (b', s') ->
      J tick b' s' (aset snap p n) /\ b_tick b' = tick /\ frame tick s s'.
    Proof.
      intros (J1 & J2 & J3 & J4 & J5 & J6 & J7 & J8) HT Hbt Hsn Hn E.
      assert (Hnone : aget (b_files b) p = None).
      { specialize (J3 p). rewrite Hsn in J3. destruct (aget (b_files b) p); [discriminate|reflexivity]. }
      unfold handle_insertion in E. rewrite Hnone in E.
      set (hs := if c_files cf then match aget (s_names s) p with
                   | Some h => (Some h, s)
                   | None => (Some (s_next s), with_fhs (with_names s (aset (s_names s) p (s_next s)) (s_next s + 1)) (aset (s_fhs s) (s_next s) []))
                   end else (None, s)) in *.
      assert (Hgh : s_gh (snd hs) = s_gh s).
      { unfold hs. destruct (c_files cf); [|reflexivity]. destruct (aget (s_names s) p); reflexivity. }
      destruct hs as [hd s1]. cbn [snd] in Hgh.
      assert (Et : (if c_people cf =? 0 then b_tick b else pack cf author (b_tick b)) = t).
      { unfold t. rewrite Hbt. unfold pack. destruct (c_people cf =? 0); reflexivity. }
      rewrite Et in E.
      destruct (update_time cf hd s1 t t n) as [s2| |] eqn:E2; try discriminate.
      pose proof (update_time_norm _ _ _ _ _ _ t_nomark t_nomark E2) as G2. rewrite t_tp, Hgh in G2.
      assert (Hbm : (b_tick b =? mark) = false) by (apply Z.eqb_neq; lia). rewrite Hbm in E.
      inversion E; subst b' s'. clear E. unfold J; rewrite ?bf_wf, ?bt_wf, ?gh_wd, ?gh_wn.
      set (newf := mkFile (repeat t (Z.to_nat n)) hd).
      assert (Hlen : flen newf = n) by (unfold flen, newf; cbn [f_vals]; rewrite repeat_length; lia).
      split; [|split; [exact Hbt|]].
      - split; [apply nodup_aset; auto|]. split; [apply nodup_aset; auto|]. split.
        { intros p'. rewrite !aget_aset. destruct (p =? p'); [cbn [option_map]; rewrite Hlen; reflexivity|apply J3]. }
        split.
        { unfold stotal. rewrite !atotal_aset, Hnone, Hsn. cbn [gopt]. fold (stotal snap). rewrite J4, Hlen. lia. }
        split.
        { intros p' f Hin. apply in_aset in Hin. destruct Hin as [Hin|Hin].
          - injection Hin as _ E3. rewrite E3. unfold newf. cbn [f_vals]. intros v Hv. apply repeat_spec in Hv. rewrite Hv. rewrite t_nomark, t_tp. split; auto. lia.
          - eapply vals_ok_mono; [exact HT|]. eapply J5; eauto. }
        split.
        { rewrite G2. destruct (gh_ok_mono T tick _ HT J6) as (K1 & K2 & K3).
          split; [apply nodup_keys_sp_add; auto|]. split; [apply inner_le_sp_add; auto; lia|].
          intros x Hx. apply keys_sp_add in Hx. destruct Hx as [->|Hx]; [lia|auto]. }
        split.
        { intros Q. rewrite G2, wsum_sp_add, J7, atotal_aset, Hnone. cbn [gopt]. unfold Qk.
          unfold cnt, newf. cbn [f_vals]. rewrite count_repeat, t_tp. destruct (Q tick); lia. }
        intros p' f Hin v Hv. rewrite gh_wd, G2. apply keys_sp_add. apply in_aset in Hin. destruct Hin as [Hin|Hin].
        { injection Hin as _ E3. rewrite E3 in Hv. unfold newf in Hv. cbn [f_vals] in Hv.
          apply repeat_spec in Hv. rewrite Hv, t_tp. left; reflexivity. }
        right. eapply J8; eauto.
      - split; [intros P HP; rewrite gh_wd, G2, wsum_sp_add, HP; lia|].
        intros k Hk. rewrite gh_wd, G2. apply keys_sp_add. auto.
    Qed.

    Lemma handle_deletion_J T b s snap p n b' s' :
      J T b s snap -> T <= tick -> b_tick b = tick -> aget snap p = Some n ->
      handle_deletion cf author b s p n = Ok (b', s') ->
      J tick b' s' (adel snap p) /\ b_tick b' = tick /\ frame tick s s'.
    Proof.
      intros (J1 & J2 & J3 & J4 & J5 & J6 & J7 & J8) HT Hbt Hsn E.
      pose proof (J3 p) as Hp. rewrite Hsn in Hp. destruct (aget (b_files b) p) as [f|] eqn:Ef; [|discriminate].
      cbn in Hp. inversion Hp as [Hfl]. clear Hp.
      unfold handle_deletion in E. rewrite Ef in E.
      assert (Hbm : (b_tick b =? mark) = false) by (apply Z.eqb_neq; lia). rewrite Hbm in E. cbn [andb] in E.
      rewrite Hbt in E. fold t in E.
      set (s1 := with_dels s (aset (s_dels s) p true)) in *.
      destruct (arr_update cf f s1 t 0 0 n) as [[f2 s2]| |] eqn:E2; try discriminate.
      inversion E; subst b' s'. clear E. unfold J; rewrite ?bf_wf, ?bt_wf, ?gh_wd, ?gh_wn.
      assert (Hvf : vals_ok cf (tp cf t) (f_vals f)).
      { rewrite t_tp. eapply vals_ok_mono; [exact HT|]. eapply J5. apply aget_in; eauto. }
      assert (Hok1 : gh_ok tick (s_gh s1)) by (apply (gh_ok_mono T); auto).
      assert (Htt : 0 <= tp cf t <= tick) by (rewrite t_tp; lia).
      destruct (rel_update cf t tick f s1 0 0 n f2 s2 E2 t_nomark Htt Hvf Hok1) as (R1 & R2 & R3 & R4 & R5 & R6 & R7).
      cbn [fst snd] in *.
      pose proof (arr_update_len _ _ _ _ _ _ _ _ E2) as Hl2.
      assert (Hf2 : f_vals f2 = []).
      { unfold flen in *. destruct (f_vals f2); [reflexivity|]. cbn [length] in Hl2. lia. }
      split; [|split; [exact Hbt|]].
      - split; [apply nodup_adel; auto|]. split; [apply nodup_adel; auto|]. split.
        { intros p'. rewrite !aget_adel by auto. destruct (p =? p'); [reflexivity|apply J3]. }
        split.
        { unfold stotal. rewrite !atotal_adel, Ef, Hsn. cbn [gopt]. fold (stotal snap). rewrite J4. lia. }
        split.
        { intros p' f' Hin. apply in_adel in Hin. eapply vals_ok_mono; [exact HT|]. eapply J5; eauto. }
        split; [exact R3|].
        split; [|intros p' f' Hin v Hv; rewrite gh_wn; apply R6; apply in_adel in Hin; eapply J8; eauto].
        intros Q. specialize (R4 Q). replace (cnt cf Q f2) with 0 in R4 by (unfold cnt; rewrite Hf2; reflexivity).
        rewrite atotal_adel, Ef. cbn [gopt]. change (s_gh s1) with (s_gh s) in R4. rewrite <- J7. lia.
      - split; [intros P HP; rewrite gh_wn; rewrite t_tp in R5; rewrite (R5 P HP); reflexivity|].
        intros k Hk. rewrite gh_wn. apply R6. exact Hk.
    Qed.

    Lemma handle_modification_J T b s snap p o n diffs b' s' :
      J T b s snap -> T <= tick -> b_tick b = tick ->
      (aget snap p = Some o \/ aget snap p = None) -> 0 <= n ->
      handle_modification cf author b s p o n diffs = Ok (b', s') ->
      J tick b' s' (aset snap p n) /\ b_tick b' = tick /\ frame tick s s'.
    Proof.
      intros HJ HT Hbt Hsn Hn E. unfold handle_modification in E.
      assert (Hbm : (b_tick b =? mark) = false) by (apply Z.eqb_neq; lia). rewrite Hbm in E.
      destruct HJ as (J1 & J2 & J3 & J4 & J5 & J6 & J7 & J8).
      destruct (aget (b_files b) p) as [f|] eqn:Ef.
      - pose proof (J3 p) as Hp. rewrite Ef in Hp. cbn in Hp.
        destruct (negb (Z.of_nat (length (f_vals f)) =? o)); [discriminate|].
        rewrite Hbt in E. fold t in E.
        destruct (hm_loop cf t diffs 0 (DEq, 0) f s) as [[f2 s2]| |] eqn:E2; try discriminate.
        destruct (negb (Z.of_nat (length (f_vals f2)) =? n)) eqn:En; [discriminate|].
        apply negb_false_iff, Z.eqb_eq in En.
        inversion E; subst b' s'. clear E. unfold J; rewrite ?bf_wf, ?bt_wf.
        assert (Hvf : vals_ok cf (tp cf t) (f_vals f)).
        { rewrite t_tp. eapply vals_ok_mono; [exact HT|]. eapply J5. apply aget_in; eauto. }
        assert (Hok1 : gh_ok tick (s_gh s)) by (apply (gh_ok_mono T); auto).
        assert (Htt : 0 <= tp cf t <= tick) by (rewrite t_tp; lia).
        destruct (hm_loop_rel cf t tick t_nomark Htt _ _ _ _ _ _ _ E2 Hvf Hok1) as (R1 & R2 & R3 & R4 & R5 & R6 & R7).
        cbn [fst snd] in *.
        split; [|split; [exact Hbt|]].
        + split; [apply nodup_aset; auto|]. split; [apply nodup_aset; auto|]. split.
          { intros p'. rewrite !aget_aset. destruct (p =? p'); [cbn [option_map]; unfold flen; rewrite En; reflexivity|apply J3]. }
          split.
          { unfold stotal. rewrite !atotal_aset, Ef, Hp. cbn [gopt option_map]. fold (stotal snap). rewrite J4.
            unfold flen in *. lia. }
          split.
          { intros p' f' Hin. apply in_aset in Hin. destruct Hin as [Hin|Hin].
            - injection Hin as _ E3. rewrite E3. rewrite <- t_tp. exact R2.
            - eapply vals_ok_mono; [exact HT|]. eapply J5; eauto. }
          split; [exact R3|]. split.
          { intros Q. rewrite atotal_aset, Ef. cbn [gopt]. specialize (R4 Q). rewrite <- J7. lia. }
          intros p' f' Hin. apply in_aset in Hin. destruct Hin as [Hin|Hin].
          { injection Hin as _ E3. rewrite E3. apply R7. eapply J8. apply aget_in; eauto. }
          intros v Hv. apply R6. eapply J8; eauto.
        + split; [intros P HP; rewrite t_tp in R5; apply R5; auto|exact R6].
      - assert (Hs : aget snap p = None).
        { specialize (J3 p). rewrite Ef in J3. exact J3. }
        apply (handle_insertion_J T b s snap p n b' s'); auto.
        split; [|split; [|split; [|split; [|split; [|split; [|split]]]]]]; assumption.
    Qed.

    Lemma handle_changes_J : forall chs T b s snap b' s',
      J T b s snap -> T <= tick -> b_tick b = tick -> changes_pre snap chs = true ->
      handle_changes cf author chs b s = Ok (b', s') ->
      J tick b' s' (fold_left apply_change chs snap) /\ b_tick b' = tick /\ frame tick s s'.
    Proof.
      induction chs as [|ch rest IH]; intros T b s snap b' s' HJ HT Hbt Hpre E.
      - cbn in E. injection E as <- <-. cbn [fold_left]. split; [|split; [auto|apply frame_refl]].
        destruct HJ as (J1 & J2 & J3 & J4 & J5 & J6 & J7 & J8).
        split; [exact J1|]. split; [exact J2|]. split; [exact J3|]. split; [exact J4|].
        split; [intros p0 f0 Hin; eapply vals_ok_mono; [exact HT|]; eapply J5; eauto|].
        split; [apply (gh_ok_mono T tick _ HT J6)|]. split; [exact J7|exact J8].
      - cbn [changes_pre] in Hpre. apply andb_prop in Hpre. destruct Hpre as [Hp1 Hp2].
        cbn [handle_changes] in E. cbn [fold_left].
        assert (Hstep : exists b1 s1, (match ch with
                  | CInsert p n => handle_insertion cf author b s p n
                  | CDelete p n => handle_deletion cf author b s p n
                  | CModify p o n d => handle_modification cf author b s p o n d end) = Ok (b1, s1) /\
                  handle_changes cf author rest b1 s1 = Ok (b', s')).
        { destruct (match ch with CInsert p n => _ | CDelete p n => _ | CModify p o n d => _ end) as [[b1 s1]| |]; try discriminate. eauto. }
        destruct Hstep as (b1 & s1 & E1 & E2).
        assert (Hone : J tick b1 s1 (apply_change snap ch) /\ b_tick b1 = tick /\ frame tick s s1).
        { destruct ch as [p n|p n|p o n d]; cbn [change_pre apply_change] in *.
          - apply andb_prop in Hp1. destruct Hp1 as [Ha Hb].
            eapply handle_insertion_J; eauto; [|lia]. destruct (aget snap p); [discriminate|reflexivity].
          - eapply handle_deletion_J; eauto. destruct (aget snap p); cbn in Hp1; [|discriminate].
            apply Z.eqb_eq in Hp1. congruence.
          - apply andb_prop in Hp1. destruct Hp1 as [Ha Hb].
            eapply handle_modification_J; eauto; [|lia].
            apply orb_prop in Ha. destruct Ha as [Ha|Ha]; destruct (aget snap p); cbn in Ha; try discriminate; auto.
            apply Z.eqb_eq in Ha. left; congruence. }
        destruct Hone as (HJ1 & Hb1 & F1).
        destruct (IH tick b1 s1 _ b' s' HJ1 (Z.le_refl _) Hb1 Hp2 E2) as (HJ2 & Hb2 & F2).
        split; auto. split; auto. eapply frame_trans; eauto.
    Qed.
  End Step.
End Inv.

Section Run.
  Variable cf : cfg.

  Lemma lin_wf_cons T snap c r : lin_wf T snap (c :: r) = true ->
    T <= lc_tick c /\ lc_tick c < mark /\ 0 <= lc_author c /\ changes_pre snap (lc_changes c) = true /\
    lin_wf (lc_tick c) (snap_commit snap c) r = true.
  Proof.
    cbn [lin_wf]. intros Hwf. apply andb_prop in Hwf. destruct Hwf as [Hwf W5].
    apply andb_prop in Hwf. destruct Hwf as [Hwf W4]. apply andb_prop in Hwf. destruct Hwf as [Hwf W3].
    apply andb_prop in Hwf. destruct Hwf as [W1 W2]. repeat split; auto; lia.
  Qed.

  Lemma J_files T b1 b2 s snap : b_files b1 = b_files b2 -> J cf T b1 s snap -> J cf T b2 s snap.
  Proof. unfold J. intros ->. auto. Qed.

  Lemma consume_J T b s snap author tick chs b' s' :
    J cf T b s snap -> T <= tick -> 0 <= tick < mark -> 0 <= author -> changes_pre snap chs = true ->
    consume cf author tick false chs b s = Ok (b', s') ->
    J cf tick b' s' (fold_left apply_change chs snap) /\ frame tick s s'.
  Proof.
    intros HJ HT Htick Ha Hpre E. unfold consume in E.
    set (b1 := on_new_tick (mkBranch (b_files b) (b_merged b) (b_mauthor b) tick (b_prev b))) in *.
    destruct (handle_changes cf author chs b1 s) as [[b2 s2]| |] eqn:E2; try discriminate.
    injection E as <- <-.
    assert (HJ1 : J cf T b1 s snap) by (apply (J_files T b); auto).
    destruct (handle_changes_J cf author tick Htick Ha chs T b1 s snap b2 s2 HJ1 HT eq_refl Hpre E2) as (HJ2 & _ & F).
    split; auto.
  Qed.

  Lemma J_init : J cf 0 branch0 shared0 [].
  Proof.
    split; [constructor|]. split; [constructor|]. split; [intros; reflexivity|]. split; [reflexivity|].
    split; [intros p f []|]. split; [apply gh_ok_nil|]. split; [intros; reflexivity|intros p f []].
  Qed.

  Definition last_tick (T : Z) (cs : list lcommit) : Z := fold_left (fun _ c => lc_tick c) cs T.

  Lemma last_tick_le : forall cs T e, T <= e -> (forall c, In c cs -> lc_tick c <= e) -> last_tick T cs <= e.
  Proof.
    induction cs as [|c r IH]; intros T e HT Hall; [exact HT|]. cbn [last_tick fold_left].
    apply IH; [apply Hall; left; auto|intros; apply Hall; right; auto].
  Qed.

  (* the run: J at the end, nothing booked at a tick <= e by commits after e, keys only grow *)
  Lemma lin_run_J : forall cs T b s snap b' s',
    J cf T b s snap -> 0 <= T -> lin_wf T snap cs = true -> lin_run cf cs b s = Ok (b', s') ->
    J cf (last_tick T cs) b' s' (snap_run cs snap) /\
      (forall e P, (forall c, In c cs -> e < lc_tick c) -> (forall t k, e < t -> P t k = false) ->
                   wsum P (s_gh s') = wsum P (s_gh s)) /\
      (forall k, In k (keys (s_gh s)) -> In k (keys (s_gh s'))).
  Proof.
    induction cs as [|c r IH]; intros T b s snap b' s' HJ HT0 Hwf E.
    - cbn in E. injection E as <- <-. split; auto.
    - destruct (lin_wf_cons _ _ _ _ Hwf) as (W1 & W2 & W3 & W4 & W5).
      cbn [lin_run] in E.
      destruct (consume cf (lc_author c) (lc_tick c) false (lc_changes c) b s) as [[b1 s1]| |] eqn:E1; try discriminate.
      assert (Htick : 0 <= lc_tick c < mark) by lia.
      destruct (consume_J T b s snap _ _ _ b1 s1 HJ W1 Htick W3 W4 E1) as (HJ1 & F1).
      destruct (IH (lc_tick c) b1 s1 (snap_commit snap c) b' s' HJ1 ltac:(lia) W5 E) as (HJ' & HF & HK).
      split; [exact HJ'|]. split.
      + intros e P Hall HP. rewrite (HF e P (fun x Hx => Hall x (or_intror Hx)) HP).
        apply (proj1 F1). intros k. apply HP. apply Hall. left; auto.
      + intros k Hk. apply HK. apply (proj2 F1). exact Hk.
  Qed.

  Lemma lin_run_app : forall pre suf b s, lin_run cf (pre ++ suf) b s =
    match lin_run cf pre b s with Ok (b1, s1) => lin_run cf suf b1 s1 | e => e end.
  Proof.
    induction pre as [|c r IH]; intros suf b s; [reflexivity|]. cbn [app lin_run].
    destruct (consume cf (lc_author c) (lc_tick c) false (lc_changes c) b s) as [[b1 s1]| |]; auto.
  Qed.

  Lemma lin_wf_lower : forall cs T snap, lin_wf T snap cs = true -> forall c, In c cs -> T <= lc_tick c.
  Proof.
    induction cs as [|c r IH]; intros T snap Hwf x Hin; [destruct Hin|].
    destruct (lin_wf_cons _ _ _ _ Hwf) as (W1 & W2 & W3 & W4 & W5).
    destruct Hin as [<-|Hin]; [lia|]. specialize (IH _ _ W5 x Hin). lia.
  Qed.

  Lemma lin_wf_app : forall pre suf T snap, lin_wf T snap (pre ++ suf) = true ->
    lin_wf T snap pre = true /\ lin_wf (last_tick T pre) (snap_run pre snap) suf = true.
  Proof.
    induction pre as [|c r IH]; intros suf T snap Hwf.
    - split; auto.
    - cbn [app] in Hwf. destruct (lin_wf_cons _ _ _ _ Hwf) as (V1 & V2 & V3 & V4 & V5).
      destruct (IH suf _ _ V5) as (W1 & W2).
      split; [cbn [lin_wf]; rewrite W1, V4; repeat (apply andb_true_intro; split); auto; lia|exact W2].
  Qed.

  Lemma last_tick_nonneg : forall cs T snap, 0 <= T -> lin_wf T snap cs = true -> 0 <= last_tick T cs.
  Proof.
    induction cs as [|c r IH]; intros T snap HT Hwf; [exact HT|].
    destruct (lin_wf_cons _ _ _ _ Hwf) as (V1 & V2 & V3 & V4 & V5). cbn [last_tick fold_left].
    assert (H0 : 0 <= lc_tick c) by lia. exact (IH _ _ H0 V5).
  Qed.

  Lemma lin_split : forall cs T snap e, lin_wf T snap cs = true ->
    exists pre suf, cs = pre ++ suf /\ (forall c, In c pre -> lc_tick c <= e) /\ (forall c, In c suf -> e < lc_tick c).
  Proof.
    induction cs as [|c r IH]; intros T snap e Hwf.
    - exists [], []. split; auto. split; intros ? [].
    - destruct (Z.le_gt_cases (lc_tick c) e) as [Hle|Hgt].
      + destruct (lin_wf_cons _ _ _ _ Hwf) as (V1 & V2 & V3 & V4 & V5).
        destruct (IH _ _ e V5) as (pre & suf & -> & H1' & H2').
        exists (c :: pre), suf. split; auto. split; auto. intros x [<-|Hx]; auto.
      + exists [], (c :: r). split; auto. split; [intros ? []|].
        destruct (lin_wf_cons _ _ _ _ Hwf) as (V1 & V2 & V3 & V4 & V5).
        intros x [<-|Hx]; [lia|]. pose proof (lin_wf_lower _ _ _ V5 x Hx). lia.
  Qed.
End Run.

(* ---------- from the invariant to the dense matrix ---------- *)
Lemma NoDup_nodup_zb l : NoDup l -> nodup_zb l = true.
Proof.
  induction 1 as [|x l Hn Hnd IH]; [reflexivity|]. cbn [nodup_zb]. rewrite IH, andb_true_r.
  apply negb_true_iff. destruct (existsb (Z.eqb x) l) eqn:E; auto.
  apply existsb_exists in E. destruct E as (y & Hy & Exy). apply Z.eqb_eq in Exy. subst. tauto.
Qed.

Lemma wsum_ext_keys P Q H : (forall t k, In t (keys H) -> P t k = Q t k) -> wsum P H = wsum Q H.
Proof.
  intros E. unfold wsum. f_equal. apply map_ext_in. intros [t row] Hin. cbn [fst snd].
  unfold rsum. f_equal. apply map_ext. intros [k d]. cbn [fst snd]. rewrite E; auto.
  unfold keys. change t with (fst (t, row)). apply in_map. auto.
Qed.

Lemma gh_ok_dense T H G S : gh_ok T H -> H <> [] -> 1 <= S -> 1 <= G ->
  exists M last, group_sparse_history G S H (-1) = Ok (M, last) /\
    (forall s b, 0 <= s <= last / S -> 0 <= b <= last / G ->
       cell M s b = wsum (fun t k => (Z.quot t S <=? s) && (Z.quot k G =? b)) H) /\
    (forall t, In t (keys H) -> 0 <= t <= last).
Proof.
  intros (K1 & K2 & K3) Hne HS HG.
  set (last := last_z (sort_z (map fst H)) 0).
  assert (Hmax : forall t, In t (keys H) -> 0 <= t <= last).
  { intros t Ht. split; [apply (K3 t Ht)|]. unfold last. apply last_z_max; [apply sort_z_sorted|].
    apply (Permutation.Permutation_in _ (sort_z_perm _)). exact Ht. }
  assert (Hdl : dense_last H (-1) = last) by reflexivity.
  destruct (C01_dense G S H (-1) HS HG Hne) as (M & EM & _ & _ & Hcell).
  - apply NoDup_nodup_zb. exact K1.
  - rewrite Hdl. unfold sparse_wfb. apply forallb_forall. intros tr Hin.
    assert (Hk : In (fst tr) (keys H)) by (unfold keys; apply in_map; auto).
    destruct (Hmax _ Hk). apply andb_true_intro. split; [apply andb_true_intro; split; lia|].
    apply forallb_forall. intros kd Hkd. pose proof (K2 tr Hin kd Hkd). lia.
  - rewrite Hdl in *. exists M, last. split; auto. split; auto.
    intros s b Hs Hb. rewrite Hcell by auto. apply spec_cell_wsum.
Qed.

Lemma atotal_nonneg {V} (g : V -> Z) l : (forall v, 0 <= g v) -> 0 <= atotal g l.
Proof. intros Hg. unfold atotal. induction l as [|x l IH]; [cbn; lia|]. cbn [map]. rewrite sum_z_cons. specialize (Hg (snd x)). lia. Qed.

Lemma sum_atotal {V} (g : Z -> V -> Z) (l : list (Z * V)) (bs : list Z) :
  sum_z (map (fun b => atotal (g b) l) bs) = atotal (fun v => sum_z (map (fun b => g b v) bs)) l.
Proof.
  unfold atotal. induction l as [|x l IH].
  - cbn. induction bs as [|b r IHb]; [reflexivity|]. cbn [map]. rewrite sum_z_cons. cbn in *. lia.
  - cbn [map]. rewrite sum_z_cons, <- IH. clear IH.
    induction bs as [|b r IHb]; [reflexivity|]. cbn [map]. rewrite !sum_z_cons. lia.
Qed.

Lemma atotal_ext_in {V} (g1 g2 : V -> Z) (l : list (Z * V)) :
  (forall kv, In kv l -> g1 (snd kv) = g2 (snd kv)) -> atotal g1 l = atotal g2 l.
Proof. intros E. unfold atotal. f_equal. apply map_ext_in. auto. Qed.

Definition sample_end (S sidx : Z) : Z := (sidx + 1) * S - 1.

Theorem C01_linear : forall cf G S cs b s M last,
  1 <= S -> 1 <= G -> lin_wf 0 [] cs = true -> lin_run cf cs branch0 shared0 = Ok (b, s) ->
  group_sparse_history G S (s_gh s) (-1) = Ok (M, last) ->
  forall sidx, 0 <= sidx <= last / S ->
    (forall bidx, 0 <= bidx <= last / G -> 0 <= cell M sidx bidx) /\
    (forall pre suf, cs = pre ++ suf ->
       (forall c, In c pre -> lc_tick c <= sample_end S sidx) ->
       (forall c, In c suf -> sample_end S sidx < lc_tick c) ->
       sum_z (map (cell M sidx) (zrange (last / G + 1))) = stotal (snap_run pre [])).
Proof.
  intros cf G S cs b s M last HS HG Hwf Erun Egsh sidx Hsidx.
  set (e := sample_end S sidx).
  assert (He0 : 0 <= e) by (unfold e, sample_end; nia).
  destruct (lin_run_J cf cs 0 branch0 shared0 [] b s (J_init cf) (Z.le_refl 0) Hwf Erun) as (HJend & _).
  assert (Hne : s_gh s <> []).
  { intros E0. rewrite E0 in Egsh. discriminate. }
  destruct HJend as (_ & _ & _ & _ & _ & Hok & _).
  destruct (gh_ok_dense _ (s_gh s) G S Hok Hne HS HG) as (M0 & last0 & E0 & Hcell & Hkeys).
  rewrite Egsh in E0. injection E0 as <- <-.
  (* the facts about a split at the end of the sample *)
  assert (Hsplit : forall pre suf, cs = pre ++ suf -> (forall c, In c pre -> lc_tick c <= e) ->
            (forall c, In c suf -> e < lc_tick c) ->
            exists b1 s1, J cf (last_tick 0 pre) b1 s1 (snap_run pre []) /\
              (forall bidx, 0 <= bidx <= last / G ->
                 cell M sidx bidx = atotal (cnt cf (fun k => Z.quot k G =? bidx)) (b_files b1)) /\
              (forall k, In k (keys (s_gh s1)) -> In k (keys (s_gh s)))).
  { intros pre suf Ecs Hpre Hsuf. subst cs.
    rewrite lin_run_app in Erun.
    destruct (lin_run cf pre branch0 shared0) as [[b1 s1]| |] eqn:E1; try discriminate.
    destruct (lin_wf_app pre suf 0 [] Hwf) as (W1 & W2).
    destruct (lin_run_J cf pre 0 branch0 shared0 [] b1 s1 (J_init cf) (Z.le_refl 0) W1 E1) as (HJ1 & _).
    pose proof (last_tick_le pre 0 e He0 Hpre) as HT1.
    pose proof (last_tick_nonneg pre 0 [] (Z.le_refl 0) W1) as HT0.
    destruct (lin_run_J cf suf _ b1 s1 _ b s HJ1 HT0 W2 Erun) as (_ & HF & HK).
    exists b1, s1. split; [exact HJ1|]. split; [|exact HK].
    intros bidx Hb. rewrite Hcell by auto.
    rewrite (HF e _ Hsuf).
    2:{ intros t k Ht. apply andb_false_iff. left. apply Z.leb_gt.
        unfold e, sample_end in Ht. rewrite Z.quot_div_nonneg by lia.
        assert (sidx + 1 <= t / S) by (apply Z.div_le_lower_bound; lia). lia. }
    destruct HJ1 as (_ & _ & _ & _ & _ & (_ & _ & Hk1) & H71 & _).
    rewrite <- H71. apply wsum_ext_keys. intros t k Ht. unfold Qk.
    specialize (Hk1 t Ht).
    assert (Z.quot t S <= sidx).
    { rewrite Z.quot_div_nonneg by lia.
      assert (t / S < sidx + 1); [|lia]. apply Z.div_lt_upper_bound; [lia|].
      unfold e, sample_end in HT1. nia. }
    destruct (Z.leb_spec (Z.quot t S) sidx); [reflexivity|lia]. }
  split.
  - intros bidx Hb. destruct (lin_split cs 0 [] e Hwf) as (pre & suf & Ecs & Hpre & Hsuf).
    destruct (Hsplit pre suf Ecs Hpre Hsuf) as (b1 & s1 & _ & Hc & _).
    rewrite Hc by auto. apply atotal_nonneg. intros f. apply count_nonneg.
  - intros pre suf Ecs Hpre Hsuf.
    destruct (Hsplit pre suf Ecs Hpre Hsuf) as (b1 & s1 & HJ1 & Hc & HK).
    destruct HJ1 as (_ & _ & _ & J4 & _ & _ & _ & J8). rewrite J4.
    rewrite (map_ext_in (cell M sidx) (fun bidx => atotal (cnt cf (fun k => Z.quot k G =? bidx)) (b_files b1))).
    2:{ intros bidx Hb. apply zrange_in in Hb. apply Hc. lia. }
    rewrite (sum_atotal (fun bidx f => cnt cf (fun k => Z.quot k G =? bidx) f)).
    apply atotal_ext_in. intros [p f] Hin. cbn [snd]. unfold cnt, zrange, flen.
    assert (0 <= last / G) by (apply Z.div_pos; [|lia]; destruct (s_gh s) as [|[t0 r0] l0] eqn:Eg; [congruence|];
       specialize (Hkeys t0 (or_introl eq_refl)); lia).
    rewrite (sum_bands (fun _ => true) (fun v => Z.quot (tp cf v) G) (f_vals f) 0).
    + unfold count. clear. induction (f_vals f) as [|x l IH]; [reflexivity|]. cbn [filter length]. lia.
    + intros v Hv _. specialize (J8 p f Hin v Hv). apply HK in J8. specialize (Hkeys _ J8).
      rewrite Z.quot_div_nonneg by lia.
      assert (0 <= tp cf v / G) by (apply Z.div_pos; lia).
      assert (tp cf v / G <= last / G) by (apply Z.div_le_mono; lia). lia.
Qed.

Print Assumptions C01_linear.
