(* From one operation to arbitrary operation sequences: the domain of the property is stated on the plain
   array; NewFile gives a well-formed tracker; induction over the operation list. *)
From Coq Require Import List ZArith Lia Bool.
Import ListNotations.
From Herc Require Import File.Model File.Spec File.NodeLists File.Locate File.DelLoop File.Values File.Refines
  File.Deltas File.Rejects.
Open Scope Z_scope.

(* ---------- the array-level domain implies the state-level one ---------- *)
Lemma zseq_In_iff a n i : In i (zseq a n) <-> a <= i < a + Z.of_nat n.
Proof.
  split; [apply zseq_In|]. intros H. unfold zseq. apply in_map_iff.
  exists (Z.to_nat (i - a)). split; [lia|]. apply in_seq. lia.
Qed.

Lemma firstn_skipn_tab (f : Z -> Z) P del n :
  0 <= P -> 0 <= del -> P + del <= n ->
  firstn (Z.to_nat del) (skipn (Z.to_nat P) (map f (zseq 0 (Z.to_nat n)))) = map f (zseq P (Z.to_nat del)).
Proof.
  intros HP Hd Hn.
  replace (Z.to_nat n) with (Z.to_nat P + (Z.to_nat del + Z.to_nat (n - P - del)))%nat by lia.
  rewrite !zseq_app, !map_app.
  rewrite skipn_app. rewrite skipn_all2 by (rewrite map_length, zseq_length; lia).
  rewrite map_length, zseq_length. replace (Z.to_nat P - Z.to_nat P)%nat with 0%nat by lia.
  cbn [app skipn].
  rewrite firstn_app. rewrite firstn_all2 by (rewrite map_length, zseq_length; lia).
  rewrite map_length, zseq_length. replace (Z.to_nat del - Z.to_nat del)%nat with 0%nat by lia.
  rewrite firstn_O, app_nil_r. replace (0 + Z.of_nat (Z.to_nat P)) with P by lia. reflexivity.
Qed.

Lemma mark_okb_lines s t P del :
  WF2 s -> 0 <= P -> 0 <= del -> P + del <= slen s ->
  mark_okb t P del (flatten s) = true -> compat_lines s t P del.
Proof.
  intros W HP Hd Hlen H. unfold mark_okb in H. rewrite (flatten_tab s W) in H.
  rewrite firstn_skipn_tab in H by auto. rewrite forallb_forall in H.
  intros i Hi. specialize (H (sval s i)). unfold compat. intros Hm.
  assert (Hin : In (sval s i) (map (sval s) (zseq P (Z.to_nat del)))).
  { apply in_map. apply zseq_In_iff. lia. }
  specialize (H Hin). rewrite Hm in H. cbn [negb orb] in H. apply Z.eqb_eq in H. exact H.
Qed.

Lemma lines_mark_okb s t P del :
  WF2 s -> 0 <= P -> 0 <= del -> P + del <= slen s ->
  compat_lines s t P del -> mark_okb t P del (flatten s) = true.
Proof.
  intros W HP Hd Hlen H. unfold mark_okb. rewrite (flatten_tab s W).
  rewrite firstn_skipn_tab by auto. apply forallb_forall. intros v Hin.
  apply in_map_iff in Hin. destruct Hin as (i & <- & Hi). apply zseq_In_iff in Hi.
  specialize (H i ltac:(lia)). unfold compat in H.
  destruct (is_mark (sval s i)); cbn [negb orb]; auto. apply Z.eqb_eq. auto.
Qed.

Lemma in_rangeb_range s t P ins del :
  WF2 s -> in_rangeb t P ins del (flatten s) = true -> in_range s t P ins del.
Proof.
  intros W H. unfold in_rangeb in H. rewrite (alen_flatten s W) in H.
  repeat (apply andb_prop in H; destruct H as [H ?]).
  unfold in_range. repeat split; try (apply Z.leb_le; assumption); try (apply Z.ltb_lt; assumption).
Qed.

(* ---------- one valid operation, everything at once ---------- *)
Theorem update_valid t P ins del s :
  WF s -> validb t P ins del (flatten s) = true ->
  exists s' ds, update t P ins del s = Ok (s', ds) /\ WF s' /\
    flatten s' = arr_update t P ins del (flatten s) /\
    len s' = len s + ins - del /\
    (is_mark t = false -> forall v, hist v (flatten s') = hist v (flatten s) + sumv v ds) /\
    (is_mark t = true -> ds = []).
Proof.
  intros HWF0 Hv. pose proof (WF_WF2 _ HWF0) as HWF.
  unfold validb in Hv. apply andb_prop in Hv. destruct Hv as [Hr Hm].
  pose proof (in_rangeb_range s t P ins del HWF Hr) as Hrange.
  destruct Hrange as (Ht & HP & Hi & Hd & Hlen & H32).
  assert (Hrange : in_range s t P ins del) by (unfold in_range; tauto).
  pose proof (mark_okb_lines s t P del HWF HP Hd Hlen Hm) as Hc.
  destruct (Z.eq_dec ins 0) as [Ei|Ni]; [destruct (Z.eq_dec del 0) as [Ed|Nd]|].
  - (* the empty request *)
    subst ins del. exists s, []. rewrite update_noop by (pose proof (slen_nonneg s HWF); destruct HWF0 as (_ & _ & _ & H0); rewrite len_slen in H0; lia).
    split; [reflexivity|]. split; [exact HWF0|]. split.
    + unfold arr_update. replace (P + 0) with P by lia. cbn [Z.to_nat repeat app].
      symmetry. apply firstn_skipn.
    + split; [lia|]. split; [intros _ v; cbn [sumv]; lia|reflexivity].
  - destruct (update_refines t P ins del s HWF0 Hrange ltac:(lia) Hc) as (s' & E & W & Hl & Hf).
    exists s', (upd_reports t P ins del s). split; [exact E|]. split; [exact W|]. split; [exact Hf|].
    split; [rewrite !len_slen; exact Hl|]. split.
    + intros Hmark. apply (update_hist t P ins del s s' _ HWF0 Hrange ltac:(lia) Hc Hmark E).
    + intros Hmark. apply (update_silent t P ins del s s' _ HWF0 Hrange ltac:(lia) Hc Hmark E).
  - destruct (update_refines t P ins del s HWF0 Hrange ltac:(lia) Hc) as (s' & E & W & Hl & Hf).
    exists s', (upd_reports t P ins del s). split; [exact E|]. split; [exact W|]. split; [exact Hf|].
    split; [rewrite !len_slen; exact Hl|]. split.
    + intros Hmark. apply (update_hist t P ins del s s' _ HWF0 Hrange ltac:(lia) Hc Hmark E).
    + intros Hmark. apply (update_silent t P ins del s s' _ HWF0 Hrange ltac:(lia) Hc Hmark E).
Qed.

(* in range, but a deleted line carries the merge mark with another tick: updateTime panics *)
Theorem update_mark_conflict t P ins del s :
  WF s -> in_rangeb t P ins del (flatten s) = true -> mark_okb t P del (flatten s) = false ->
  exists c, update t P ins del s = Panic c.
Proof.
  intros HWF0 Hr Hm. pose proof (WF_WF2 _ HWF0) as HWF.
  assert (Hs32 : slen s <= MaxU32) by (destruct HWF0 as (_ & _ & _ & H0); exact H0).
  destruct (in_rangeb_range s t P ins del HWF Hr) as (Ht & HP & Hi & Hd & Hlen & H32).
  assert (Hdel : 0 < del).
  { destruct (Z.eq_dec del 0) as [->|]; [|lia]. unfold mark_okb in Hm. cbn in Hm. discriminate. }
  assert (Hrange : in_range s t P ins del) by (unfold in_range; tauto).
  destruct (update_enter s t P ins del HWF Hs32 Hrange ltac:(lia)) as (L & ok & ov & R & Es & Hok & Hgt & Ef & E).
  rewrite E. subst s. destruct HWF as (Hinc & Hw).
  destruct (inc_decomp _ _ _ Hinc) as (HL & HLo & HR). cbn [fst] in *.
  assert (Hn : ~ compat_list t (P + del) (ok, ov) R).
  { intros Hc. rewrite (lines_mark_okb _ t P del (conj Hinc Hw) HP Hd Hlen) in Hm; [discriminate|].
    apply compat_list_lines; auto. }
  unfold update_body.
  destruct (ins >? 0); [rewrite update_time_self|];
    (replace (del =? 0) with false by (symmetry; apply Z.eqb_neq; lia));
    match goal with |- context [del_loop t P ins del (ok, ov) ?po L (ok, ov) R ?reps] =>
      destruct (first_loop_conflict t P ins del Hdel ltac:(lia) R ok ov po L reps Hok HR Hgt Hn) as (c & Ec);
      rewrite Ec; eexists; reflexivity
    end.
Qed.

(* ---------- NewFile ---------- *)
Lemma new_file_spec t0 n0 :
  0 <= t0 <= MaxU32 -> 0 <= n0 <= MaxU32 ->
  exists s, new_file t0 n0 = Ok (s, rep t0 t0 n0) /\ WF s /\
    flatten s = repeat t0 (Z.to_nat n0) /\ len s = n0.
Proof.
  intros Ht Hn. unfold new_file. rewrite update_time_self.
  replace (t0 <? 0) with false by (symmetry; apply Z.ltb_ge; lia).
  replace (t0 >? MaxU32) with false by (symmetry; rewrite Z.gtb_ltb; apply Z.ltb_ge; lia).
  replace (n0 >? MaxU32) with false by (symmetry; rewrite Z.gtb_ltb; apply Z.ltb_ge; lia).
  cbn [orb]. rewrite (u32_id t0 Ht), (u32_id n0 Hn).
  destruct (Z.gtb_spec n0 0) as [Hpos|Hz].
  - eexists. split; [reflexivity|]. cbn [insert].
    replace (n0 <? 0) with false by (symmetry; apply Z.ltb_ge; lia).
    replace (n0 =? 0) with false by (symmetry; apply Z.eqb_neq; lia).
    split.
    + unfold WF. cbn [inc vlast len klast]. repeat split; try lia; eauto.
    + split; [|reflexivity]. cbn [flatten flat]. replace (n0 - 0) with n0 by lia. apply app_nil_r.
  - assert (n0 = 0) by lia. subst n0. eexists. split; [reflexivity|]. cbn [insert].
    split.
    + unfold WF. cbn [inc vlast len klast]. unfold MaxU32. repeat split; try lia; eauto.
    + split; reflexivity.
Qed.

(* ---------- operation sequences ---------- *)
Lemma run_valid : forall ops s reps,
  WF s -> ops_validb (flatten s) ops = true ->
  exists s' ds, run ops s reps = Ok (s', reps ++ ds) /\ WF s' /\
    flatten s' = arr_run (flatten s) ops /\
    forall v, sumv v ds = expected_sum v (flatten s) ops.
Proof.
  induction ops as [|[[[t P] ins] del] ops IH]; intros s reps HWF Hv.
  - exists s, []. rewrite app_nil_r. split; [reflexivity|]. split; [exact HWF|]. split; [reflexivity|].
    intros v. reflexivity.
  - cbn [ops_validb] in Hv. apply andb_prop in Hv. destruct Hv as [Hv1 Hv2].
    destruct (update_valid t P ins del s HWF Hv1) as (s1 & d1 & E & W1 & Hf1 & Hl1 & Hh & Hs).
    rewrite <- Hf1 in Hv2.
    destruct (IH s1 (reps ++ d1) W1 Hv2) as (s' & ds & E' & W' & Hf' & Hsum).
    exists s', (d1 ++ ds). cbn [run]. rewrite E, E', app_assoc.
    split; [reflexivity|]. split; [exact W'|]. split.
    + cbn [arr_run]. rewrite <- Hf1. exact Hf'.
    + intros v. rewrite sumv_app, Hsum. cbn [expected_sum]. rewrite <- Hf1.
      destruct (is_mark t) eqn:Em.
      * rewrite (Hs eq_refl). cbn [sumv]. lia.
      * rewrite (Hh eq_refl v). lia.
Qed.

Lemma hist_repeat v t n : hist v (repeat t n) = if t =? v then Z.of_nat n else 0.
Proof.
  unfold hist. induction n as [|n IH]; cbn [repeat count_occ].
  - destruct (t =? v); reflexivity.
  - destruct (Z.eq_dec t v) as [E|E].
    + subst. rewrite Z.eqb_refl in *. lia.
    + replace (t =? v) with false in * by (symmetry; apply Z.eqb_neq; auto). exact IH.
Qed.

Theorem sequences t0 n0 ops :
  0 <= t0 <= MaxU32 -> 0 <= n0 <= MaxU32 ->
  ops_validb (repeat t0 (Z.to_nat n0)) ops = true ->
  exists s ds, run_file t0 n0 ops = Ok (s, ds) /\ WF s /\
    flatten s = arr_run (repeat t0 (Z.to_nat n0)) ops /\
    len s = alen (arr_run (repeat t0 (Z.to_nat n0)) ops) /\
    forall v, sumv v ds =
      (if is_mark t0 then 0 else hist v (repeat t0 (Z.to_nat n0))) + expected_sum v (repeat t0 (Z.to_nat n0)) ops.
Proof.
  intros Ht Hn Hv.
  destruct (new_file_spec t0 n0 Ht Hn) as (s0 & E0 & W0 & Hf0 & Hl0).
  rewrite <- Hf0 in Hv.
  destruct (run_valid ops s0 (rep t0 t0 n0) W0 Hv) as (s & ds & E & W & Hf & Hsum).
  exists s, (rep t0 t0 n0 ++ ds). unfold run_file. rewrite E0, E.
  split; [reflexivity|]. split; [exact W|]. rewrite <- Hf0. split; [exact Hf|]. split.
  - rewrite <- Hf. rewrite (alen_flatten s (WF_WF2 _ W)). reflexivity.
  - intros v. rewrite sumv_app, Hsum. f_equal.
    unfold rep. destruct (is_mark t0); [reflexivity|]. cbn [sumv].
    rewrite Hf0, hist_repeat. destruct (t0 =? v); lia.
Qed.

(* without merge marks the observers' histogram is the histogram of the array *)
Lemma expected_sum_plain v : forall ops a,
  no_mark_ops ops = true -> expected_sum v a ops = hist v (arr_run a ops) - hist v a.
Proof.
  induction ops as [|[[[t P] ins] del] ops IH]; intros a H; cbn [expected_sum arr_run]; [lia|].
  cbn [no_mark_ops forallb] in H. apply andb_prop in H. destruct H as [H1 H2].
  apply negb_true_iff in H1. rewrite H1. rewrite (IH _ H2). lia.
Qed.

Theorem sequences_histogram t0 n0 ops :
  0 <= t0 <= MaxU32 -> 0 <= n0 <= MaxU32 -> is_mark t0 = false -> no_mark_ops ops = true ->
  ops_validb (repeat t0 (Z.to_nat n0)) ops = true ->
  exists s ds, run_file t0 n0 ops = Ok (s, ds) /\
    forall v, hist v (flatten s) = sumv v ds.
Proof.
  intros Ht Hn Hm0 Hm Hv.
  destruct (sequences t0 n0 ops Ht Hn Hv) as (s & ds & E & W & Hf & Hl & Hsum).
  exists s, ds. split; [exact E|]. intros v. rewrite Hsum, Hm0, Hf.
  rewrite (expected_sum_plain v ops _ Hm). lia.
Qed.

(* ---------- the forms quoted in coq/props/C03.v ---------- *)
Lemma update_refines_valid t P ins del s :
  WF s -> validb t P ins del (flatten s) = true ->
  exists s' ds, update t P ins del s = Ok (s', ds) /\ WF s' /\
    flatten s' = arr_update t P ins del (flatten s) /\ len s' = len s + ins - del.
Proof.
  intros W V. destruct (update_valid t P ins del s W V) as (s' & ds & E & W' & Hf & Hl & _).
  exists s', ds. auto.
Qed.

Lemma update_deltas_valid t P ins del s s' ds :
  WF s -> validb t P ins del (flatten s) = true -> is_mark t = false ->
  update t P ins del s = Ok (s', ds) ->
  forall v, hist v (flatten s') = hist v (flatten s) + sumv v ds.
Proof.
  intros W V Hm E. destruct (update_valid t P ins del s W V) as (s2 & d2 & E2 & _ & _ & _ & Hh & _).
  rewrite E in E2. inversion E2; subst. auto.
Qed.

Lemma update_silent_valid t P ins del s s' ds :
  WF s -> validb t P ins del (flatten s) = true -> is_mark t = true ->
  update t P ins del s = Ok (s', ds) -> ds = [].
Proof.
  intros W V Hm E. destruct (update_valid t P ins del s W V) as (s2 & d2 & E2 & _ & _ & _ & _ & Hs).
  rewrite E in E2. inversion E2; subst. auto.
Qed.

Lemma new_file_plain t0 n0 : 0 <= t0 <= MaxU32 -> 0 <= n0 <= MaxU32 ->
  exists s, new_file t0 n0 = Ok (s, if is_mark t0 then [] else [(t0, t0, n0)]) /\ WF s /\
    flatten s = repeat t0 (Z.to_nat n0) /\ len s = n0.
Proof.
  intros Ht Hn. destruct (new_file_spec t0 n0 Ht Hn) as (s & E & H). exists s. split; [|exact H].
  rewrite E. unfold rep. destruct (is_mark t0); reflexivity.
Qed.

(* the boolean domain predicates say what they should *)
Lemma validb_spec t P ins del a :
  validb t P ins del a = true <->
  (0 <= t < MaxU32 /\ 0 <= P /\ 0 <= ins /\ 0 <= del /\ P + del <= alen a /\ alen a + ins - del <= MaxU32 /\
   forall v, In v (firstn (Z.to_nat del) (skipn (Z.to_nat P) a)) -> is_mark v = true -> v = t).
Proof.
  unfold validb, in_rangeb, mark_okb. rewrite !andb_true_iff, forallb_forall.
  rewrite !Z.leb_le, Z.ltb_lt. split.
  - intros H. repeat match goal with H : _ /\ _ |- _ => destruct H end. repeat split; auto.
    intros v Hin Hm.
    match goal with H8 : forall x, In x _ -> _ |- _ => specialize (H8 v Hin); rewrite Hm in H8;
      cbn [negb orb] in H8; apply Z.eqb_eq; auto end.
  - intros H. repeat match goal with H : _ /\ _ |- _ => destruct H end. repeat split; auto.
    intros v Hin. destruct (is_mark v) eqn:Em; cbn [negb orb]; auto. apply Z.eqb_eq; auto.
Qed.

Lemma must_panicb_spec t P ins del a :
  must_panicb t P ins del a = true <->
  (t < 0 \/ MaxU32 <= t \/ P < 0 \/ MaxU32 < P \/ ins < 0 \/ del < 0 \/ MaxU32 < ins \/ MaxU32 < del \/
   ((ins <> 0 \/ del <> 0) /\ (alen a < P \/ alen a < P + del))).
Proof.
  unfold must_panicb. rewrite !orb_true_iff, andb_true_iff, orb_true_iff, negb_true_iff, andb_false_iff.
  rewrite !Z.ltb_lt, !Z.gtb_lt, Z.geb_le, !Z.eqb_neq. tauto.
Qed.

Theorem update_rejects_prop t P ins del s :
  WF s ->
  (t < 0 \/ MaxU32 <= t \/ P < 0 \/ MaxU32 < P \/ ins < 0 \/ del < 0 \/ MaxU32 < ins \/ MaxU32 < del \/
   ((ins <> 0 \/ del <> 0) /\ (len s < P \/ len s < P + del))) ->
  exists c, update t P ins del s = Panic c.
Proof.
  intros W H. apply update_rejects; auto. apply must_panicb_spec.
  rewrite (alen_flatten s (WF_WF2 _ W)). exact H.
Qed.

Lemma wfb_WF s : wfb s = true <-> WF s.
Proof.
  unfold wfb, WF. rewrite !andb_true_iff, Z.leb_le, Z.eqb_eq.
  assert (Hi : forall s k, incb k s = true <-> inc k s).
  { induction s0 as [|[a b] r IH]; intros k; cbn [incb inc]; [tauto|].
    rewrite andb_true_iff, Z.ltb_lt, IH. tauto. }
  rewrite Hi. split.
  - intros (((H1 & H2) & H3) & H4). repeat split; auto.
    destruct s as [|[k v] r]; [discriminate|]. apply Z.eqb_eq in H3. subst. eauto.
  - intros (H1 & H2 & (v & r & ->) & H4).
    split; [split; [split; [exact H1|exact H2]|apply Z.eqb_refl]|exact H4].
Qed.

(* Known finding F18: the empty request is let through BEFORE the position is compared with the end of the
   file, so a position beyond the end is not rejected when nothing is inserted or deleted. *)
Lemma empty_request_beyond_end_refuted :
  exists s t pos, WF s /\ 0 <= t < MaxU32 /\ len s < pos <= MaxU32 /\ update t pos 0 0 s = Ok (s, []).
Proof.
  exists [(0, 0); (10, TreeEnd)], 1, 12. split; [apply wfb_WF; vm_compute; reflexivity|].
  split; [unfold MaxU32; lia|]. split; [unfold MaxU32; cbn; lia|]. vm_compute. reflexivity.
Qed.
