(* C15, after fix F26 - every byte string is a legal node name.

   The model names nodes by integers; the correspondence check gives the Go code arbitrary distinct byte
   strings (the empty string included) and runs the model on the RANK of each name in byte order, a
   number >= 0.  FindCycle's "no parent" mark - the [root] flag of the Go code since the repair, the empty
   string before it - is the integer [nobody] = -1 of the model, which is the rank of no name.  This file
   states the run-level theorems for exactly that encoding: the operation sequence names nodes by
   non-negative integers and obeys the graph preconditions (an edge is added towards an existing node and
   only once, only existing edges are removed); NO condition on names remains.  Before the repair the
   hypothesis "the empty name is not a node" was a restriction of the Go code's inputs (finding F26);
   now it is a property of the encoding, proved here. *)
From Coq Require Import List ZArith Lia Bool Permutation.
From Herc Require Import Toposort.Model Toposort.Paths Toposort.Reach Toposort.Main.
Import ListNotations.
Open Scope Z_scope.

(* the graph preconditions alone *)
Definition op_ok_graph (s : st) (o : op) : bool :=
  match o with
  | OAddEdge a b => is_node s b && negb (has_edge s a b)
  | ORemoveEdge a b => has_edge s a b
  | _ => true
  end.

Fixpoint valid_graph_ops (s : st) (ops : list op) : bool :=
  match ops with
  | [] => true
  | o :: r => op_ok_graph s o && valid_graph_ops (fst (step s o)) r
  end.

(* every node is added under the rank of a name *)
Definition ranked_op (o : op) : bool :=
  match o with
  | OAddNode n => 0 <=? n
  | _ => true
  end.

Definition ranked (ops : list op) : bool := forallb ranked_op ops.

Lemma ranked_op_ok s o : ranked_op o = true -> op_ok_graph s o = true -> op_ok s o = true.
Proof.
  destruct o as [n|a b|a b|n| |n|n|seed]; cbn [ranked_op op_ok_graph op_ok]; intros Hr Hg; try exact Hg; try reflexivity.
  unfold nobody. apply negb_true_iff. apply Z.eqb_neq. apply Z.leb_le in Hr. lia.
Qed.

Lemma ranked_valid : forall ops s, ranked ops = true -> valid_graph_ops s ops = true -> valid_ops s ops = true.
Proof.
  induction ops as [|o r IH]; intros s Hr Hv; [reflexivity|].
  cbn [ranked forallb] in Hr. apply andb_true_iff in Hr. destruct Hr as [Ho Hr].
  cbn [valid_graph_ops] in Hv. apply andb_true_iff in Hv. destruct Hv as [Hg Hv].
  cbn [valid_ops]. apply andb_true_iff. split.
  - apply ranked_op_ok; assumption.
  - apply IH; assumption.
Qed.

(* the mark is never a node of a graph built from ranks *)
Theorem ranked_nobody ops : ranked ops = true -> valid_graph_ops empty ops = true ->
  is_node (fst (run empty ops)) nobody = false.
Proof. intros Hr Hv. apply reach_nobody. apply ranked_valid; assumption. Qed.

(* FindCycle over all byte-string names: sound and complete, for every iteration order of Go's maps *)
Theorem ranked_cycle_correct ops : ranked ops = true -> valid_graph_ops empty ops = true ->
  forall s, s = fst (run empty ops) ->
  forall ord, (forall n l, Permutation (ord n l) l) -> forall seed,
    (find_cycle ord s seed <> [] <-> spath s seed seed) /\
    (find_cycle ord s seed <> [] ->
       cycle_ok s seed (find_cycle ord s seed) = true /\
       exists r, find_cycle ord s seed = seed :: r /\ is_walk s (seed :: r ++ [seed])).
Proof. intros Hr Hv. apply run_cycle_correct. apply ranked_valid; assumption. Qed.

(* Toposort over all byte-string names *)
Theorem ranked_sort_correct ops : ranked ops = true -> valid_graph_ops empty ops = true -> dirty [] ops = [] ->
  forall s, s = fst (run empty ops) ->
  exists L ok, snd (step s OSort) = RSort (SortOk L ok) /\
    (ok = true <-> acyclic s) /\
    (ok = true -> Permutation L (node_list s) /\ forall a b, has_edge s a b = true -> before a b L).
Proof. intros Hr Hv Hd. apply run_sort_correct; [apply ranked_valid; assumption|exact Hd]. Qed.

(* non-vacuity: the witness of F26 - the node of rank 0 is the empty name "", the node of rank 1 is "s",
   edges s -> "" and "" -> s - is inside the hypotheses, and the cycle through either node is found *)
Definition f26_witness : list op := [OAddNode 0; OAddNode 1; OAddEdge 1 0; OAddEdge 0 1].

Example f26_witness_in_domain :
  ranked f26_witness = true /\ valid_graph_ops empty f26_witness = true /\
  find_cycle id_ord (fst (run empty f26_witness)) 1 = [1; 0] /\
  find_cycle id_ord (fst (run empty f26_witness)) 0 = [0; 1].
Proof. vm_compute. repeat split; reflexivity. Qed.
