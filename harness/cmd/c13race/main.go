// Supporting evidence for the data-race clause of C13 (which the Coq model cannot state): in the thorough
// tier this wrapper builds the C13 harness with the Go race detector (`go build -race`) and runs its
// quick-sized case set under it; any report of the detector makes the run fail.  The trace it writes is
// replayed through the model like any other.  In the quick tier it writes an empty trace.
package main

import (
	"crypto/md5"
	"encoding/hex"
	"fmt"
	"os"
	"os/exec"
	"path/filepath"
	"strings"
)

func main() {
	tier, out, seed, scale, replay := "quick", "trace.txt", "1", "1.0", ""
	args := os.Args[1:]
	for i := 0; i+1 < len(args); i += 2 {
		switch strings.TrimLeft(args[i], "-") {
		case "tier":
			tier = args[i+1]
		case "out":
			out = args[i+1]
		case "seed":
			seed = args[i+1]
		case "scale":
			scale = args[i+1]
		case "replay":
			replay = args[i+1]
		}
	}
	_ = scale
	if tier != "thorough" || replay != "" {
		// nothing to do: the plain harness covers the quick tier, the search after a break and all replays
		if err := os.WriteFile(out, nil, 0o644); err != nil {
			fmt.Println(err)
			os.Exit(2)
		}
		return
	}
	exe, err := os.Executable()
	if err != nil {
		fmt.Println(err)
		os.Exit(2)
	}
	hdir := filepath.Dir(filepath.Dir(exe)) // .../harness
	root := filepath.Dir(hdir)
	bin := filepath.Join(root, "work", "c13-race-bin")
	build := []string{"build", "-race", "-tags", "verif"}
	if repo := os.Getenv("VERIF_REPO"); repo != "" {
		if abs, err := filepath.Abs(repo); err == nil && abs != "/repo" {
			sum := md5.Sum([]byte(abs))
			build = append(build, "-modfile", filepath.Join(root, "work", "mod-"+hex.EncodeToString(sum[:])[:8], "go.mod"))
			bin += "-" + hex.EncodeToString(sum[:])[:8]
		}
	}
	build = append(build, "-o", bin, "./cmd/c13")
	cmd := exec.Command("go", build...)
	cmd.Dir = hdir
	if outp, err := cmd.CombinedOutput(); err != nil {
		fmt.Printf("go build -race failed: %v\n%s\n", err, outp)
		os.Exit(2)
	}
	run := exec.Command(bin, "-seed", seed, "-tier", "quick", "-out", out)
	run.Env = append(os.Environ(), "GORACE=halt_on_error=1 exitcode=66")
	outp, err := run.CombinedOutput()
	if err != nil {
		fmt.Printf("the C13 harness under the race detector failed: %v\n%s\n", err, outp)
		os.Exit(1)
	}
}
