(* C13: replay the harness trace through the extracted Gallina model of renames.go.

   The model takes its external functions as arguments.  This driver supplies them:
     sort oracles   = a port of Go 1.23's pdqsort (sort.Sort / sort.Slice), cross-checked on every case against
                      the permutation the real sort.Sort produced on the real sortableChanges (field `sorts`)
                      and against one real sortRenameCandidates call (field `csort`);
     blobs_close    = the table of answers of the real blobsAreClose recorded by the harness;
     cand_order     = sort.Slice by the recorded Levenshtein distances of the base names.
   A wrong oracle can only produce a MISMATCH (the model output is compared with the implementation's
   output), never hide one; the property oracles (repairing_b, exact_b) use no oracle at all. *)
open C13_model
open Conv

(* ---------- Go's pdqsort (sort/zsortinterface.go, Go 1.19 .. 1.23) on an array with an element order ---------- *)
let go_sort (lt : 'a -> 'a -> bool) (arr : 'a array) : unit =
  let less i j = lt arr.(i) arr.(j) in
  let swap i j = let t = arr.(i) in arr.(i) <- arr.(j); arr.(j) <- t in
  let insertion_sort a b =
    for i = a + 1 to b - 1 do
      let j = ref i in
      while !j > a && less !j (!j - 1) do swap !j (!j - 1); decr j done
    done in
  let sift_down lo hi first =
    let root = ref lo in
    (try while true do
       let child = ref (2 * !root + 1) in
       if !child >= hi then raise Exit;
       if !child + 1 < hi && less (first + !child) (first + !child + 1) then incr child;
       if not (less (first + !root) (first + !child)) then raise Exit;
       swap (first + !root) (first + !child);
       root := !child
     done with Exit -> ()) in
  let heap_sort a b =
    let first = a and lo = 0 and hi = b - a in
    let i = ref ((hi - 1) / 2) in
    while !i >= 0 do sift_down !i hi first; decr i done;
    let i = ref (hi - 1) in
    while !i >= 0 do swap first (first + !i); sift_down lo !i first; decr i done in
  let bits_len n = let r = ref 0 and m = ref n in while !m > 0 do incr r; m := !m lsr 1 done; !r in
  let break_patterns a b =
    let length = b - a in
    if length >= 8 then begin
      let random = ref (Int64.of_int length) in
      let next () =
        random := Int64.logxor !random (Int64.shift_left !random 13);
        random := Int64.logxor !random (Int64.shift_right_logical !random 17);
        random := Int64.logxor !random (Int64.shift_left !random 5);
        !random in
      let modulus = 1 lsl (bits_len length) in
      let idx = ref (a + (length / 4) * 2 - 1) in
      while !idx <= a + (length / 4) * 2 + 1 do
        let other = ref (Int64.to_int (Int64.logand (next ()) (Int64.of_int (modulus - 1)))) in
        if !other >= length then other := !other - length;
        swap !idx (a + !other);
        incr idx
      done
    end in
  let order2 a b swaps = if less b a then (incr swaps; (b, a)) else (a, b) in
  let median a b c swaps =
    let (a, b) = order2 a b swaps in
    let (b, c) = order2 b c swaps in
    ignore c;
    let (_, b) = order2 a b swaps in
    b in
  let median_adjacent a swaps = median (a - 1) a (a + 1) swaps in
  (* hints: 0 unknown, 1 increasing, 2 decreasing *)
  let choose_pivot a b =
    let l = b - a in
    let swaps = ref 0 in
    let i = ref (a + l / 4 * 1) and j = ref (a + l / 4 * 2) and k = ref (a + l / 4 * 3) in
    if l >= 8 then begin
      if l >= 50 then begin
        i := median_adjacent !i swaps;
        j := median_adjacent !j swaps;
        k := median_adjacent !k swaps
      end;
      j := median !i !j !k swaps
    end;
    if !swaps = 0 then (!j, 1) else if !swaps = 12 then (!j, 2) else (!j, 0) in
  let reverse_range a b =
    let i = ref a and j = ref (b - 1) in
    while !i < !j do swap !i !j; incr i; decr j done in
  let partial_insertion_sort a b =
    let max_steps = 5 and shortest_shifting = 50 in
    let i = ref (a + 1) in
    let result = ref None in
    let j = ref 0 in
    while !result = None && !j < max_steps do
      while !i < b && not (less !i (!i - 1)) do incr i done;
      if !i = b then result := Some true
      else if b - a < shortest_shifting then result := Some false
      else begin
        swap !i (!i - 1);
        if !i - a >= 2 then begin
          let jj = ref (!i - 1) in
          (try while !jj >= 1 do
             if not (less !jj (!jj - 1)) then raise Exit;
             swap !jj (!jj - 1); decr jj
           done with Exit -> ())
        end;
        if b - !i >= 2 then begin
          let jj = ref (!i + 1) in
          (try while !jj < b do
             if not (less !jj (!jj - 1)) then raise Exit;
             swap !jj (!jj - 1); incr jj
           done with Exit -> ())
        end
      end;
      incr j
    done;
    (match !result with Some r -> r | None -> false) in
  let partition_equal a b pivot =
    swap a pivot;
    let i = ref (a + 1) and j = ref (b - 1) in
    (try while true do
       while !i <= !j && not (less a !i) do incr i done;
       while !i <= !j && less a !j do decr j done;
       if !i > !j then raise Exit;
       swap !i !j; incr i; decr j
     done with Exit -> ());
    !i in
  let partition a b pivot =
    swap a pivot;
    let i = ref (a + 1) and j = ref (b - 1) in
    while !i <= !j && less !i a do incr i done;
    while !i <= !j && not (less !j a) do decr j done;
    if !i > !j then begin swap !j a; (!j, true) end
    else begin
      swap !i !j; incr i; decr j;
      (try while true do
         while !i <= !j && less !i a do incr i done;
         while !i <= !j && not (less !j a) do decr j done;
         if !i > !j then raise Exit;
         swap !i !j; incr i; decr j
       done with Exit -> ());
      swap !j a; (!j, false)
    end in
  let rec pdqsort a b limit =
    let a = ref a and b = ref b and limit = ref limit in
    let was_balanced = ref true and was_partitioned = ref true in
    (try while true do
       let length = !b - !a in
       if length <= 12 then begin insertion_sort !a !b; raise Exit end;
       if !limit = 0 then begin heap_sort !a !b; raise Exit end;
       if not !was_balanced then begin break_patterns !a !b; decr limit end;
       let (pivot, hint) = choose_pivot !a !b in
       let pivot = ref pivot and hint = ref hint in
       if !hint = 2 then begin
         reverse_range !a !b;
         pivot := (!b - 1) - (!pivot - !a);
         hint := 1
       end;
       if !was_balanced && !was_partitioned && !hint = 1 && partial_insertion_sort !a !b then raise Exit;
       if !a > 0 && not (less (!a - 1) !pivot) then begin
         let mid = partition_equal !a !b !pivot in
         a := mid
       end else begin
         let (mid, already) = partition !a !b !pivot in
         was_partitioned := already;
         let left_len = mid - !a and right_len = !b - mid in
         let balance_threshold = length / 8 in
         if left_len < right_len then begin
           was_balanced := left_len >= balance_threshold;
           pdqsort !a mid !limit;
           a := mid + 1
         end else begin
           was_balanced := right_len >= balance_threshold;
           pdqsort (mid + 1) !b !limit;
           b := mid
         end
       end
     done with Exit -> ()) in
  let n = Array.length arr in
  (* sort.Sort returns early for n <= 1; sort.Slice does not, with the same effect *)
  if n > 1 then pdqsort 0 n (bits_len n)

let go_sort_list lt l = let a = Array.of_list l in go_sort lt a; Array.to_list a

(* The extracted model (and Coq's merge sort) recurse along the lists: the large cases (10^5 .. 10^6 changes) need
   more than the default 8 MB of stack.  The driver restarts itself once under a larger stack limit. *)
let () =
  if (try Sys.getenv "C13_DRIVER_STACK" with Not_found -> "") = "" then begin
    Unix.putenv "C13_DRIVER_STACK" "1";
    (try Unix.execv "/bin/sh"
           [| "/bin/sh"; "-c"; "ulimit -s 16000000 2>/dev/null || ulimit -s unlimited 2>/dev/null; exec \"$0\""; Sys.executable_name |]
     with _ -> ())
  end

(* ---------- helpers ---------- *)
(* the tree-entry mode is no part of the model's entry record: the driver packs it into the (opaque) path
   number, e_name = 8 * path + mode, for the fine correspondence (so the model carries it along untouched and
   entry_eqb compares it), and strips it for the property oracles, which are about paths and content hashes *)
let mode_names = [| "100644"; "100755"; "120000"; "100664"; "160000"; "tree-pointer-changed"; "base-name-changed"; "unknown-mode" |]
let show_side = function
  | None -> "-"
  | Some e -> Printf.sprintf "%d/%s:%s" (int_of_n e.e_name / 8) mode_names.(int_of_n e.e_name mod 8)
                (String.concat "." (List.map (fun b -> string_of_int (int_of_n b)) e.e_hash))
let strip_entry e = { e with e_name = n_of_int (int_of_n e.e_name / 8) }
let strip_side = function None -> None | Some e -> Some (strip_entry e)
let strip_changes l = List.map (fun (f, t) -> (strip_side f, strip_side t)) l
let show_change (f, t) = "(" ^ show_side f ^ " " ^ show_side t ^ ")"
let show_changes l =
  let n = List.length l in
  if n <= 40 then String.concat " " (List.map show_change l)
  else String.concat " " (List.map show_change (List.filteri (fun i _ -> i < 12) l)) ^ Printf.sprintf " ... (%d changes)" n
let rec take n l = if n <= 0 then [] else match l with [] -> [] | x :: r -> x :: take (n - 1) r
let hkey (h : n list) : string = String.concat "," (List.map (fun b -> string_of_int (int_of_n b)) h)

(* development aid: C13_DRIVER_TIMING=1 prints the time spent in the phases of every large case on stderr *)
let timing = (try Sys.getenv "C13_DRIVER_TIMING" with Not_found -> "") <> ""
let last_tick = ref (Unix.gettimeofday ())
let tick what =
  if timing then begin
    let t = Unix.gettimeofday () in
    Printf.eprintf "  %-28s %.2fs\n%!" what (t -. !last_tick); last_tick := t
  end

(* above this many changes the quadratic oracles are replaced by the fast ones *)
let large = 4000

exception Skip

let () =
  iter_cases (fun id c -> try
    tick "parse";
    let thr = z_of_int (int_of_sx (List.hd (args (field "thr" c)))) in
    let timeout = float_of_string (atom (List.hd (args (field "timeout" c)))) in
    let kind = atom (List.hd (args (field "kind" c))) in
    let obs = field "obs" c in
    (* the supervisor of the harness records a case whose run killed the child process (a panic inside a matcher
       goroutine cannot be recovered by the caller of Consume) or never returned: nothing else was observed *)
    (match atom (List.hd (args (field "res" obs))) with
     | "crash" -> count "res_crash";
         propfail id "Consume did not return a re-pairing: the process died (a panic inside Consume or one of its matcher goroutines; replaying this input crashes the harness child again)";
         raise Skip
     | "hang" -> count "res_hang";
         propfail id "Consume did not return (deadlock or livelock): the run was killed by the watchdog of the harness";
         raise Skip
     | _ -> ());
    let sizes = Array.of_list (ints_of_sx (L (args (field "sizes" obs)))) in
    (* blobs: hash and size; the same hash twice means the same cache entry (first wins) *)
    let blob_of_hash : (string, int) Hashtbl.t = Hashtbl.create 16 in
    let blobs = Array.of_list (List.mapi (fun i b ->
      let h = List.map (fun x -> n_of_int (int_of_sx x)) (list_of_sx (List.hd (list_of_sx b))) in
      if not (Hashtbl.mem blob_of_hash (hkey h)) then Hashtbl.replace blob_of_hash (hkey h) i;
      h) (args (field "blobs" c))) in
    let mk name b mode = { e_name = n_of_int (8 * name + mode); e_hash = blobs.(b); e_size = z_of_int sizes.(b) } in
    let inp = List.map (fun ch ->
      let av = Array.of_list (args ch) in
      let a i = int_of_sx av.(i) in
      let m i = if i < Array.length av then int_of_sx av.(i) else 0 in
      match tag ch with
      | "a" -> (None, Some (mk (a 0) (a 1) (m 2)))
      | "d" -> (Some (mk (a 0) (a 1) (m 2)), None)
      | "m" -> (Some (mk (a 0) (a 1) (m 3)), Some (mk (a 0) (a 2) (m 4)))
      | _ -> (None, None)) (args (match field_opt "changes" c with Some f -> f | None -> field "bigchanges" c)) in
    let n_changes = List.length inp in
    tick "input";
    (* ----- oracle tables ----- *)
    let close_tab : (int * int, bool * bool) Hashtbl.t = Hashtbl.create 64 in
    List.iter (fun p -> match list_of_sx p with
      | [bd; ba; x; y] ->
          if atom x = "err" || atom y = "err" then failwith "blobsAreClose returned an error";
          (* a panic of the direct call: the model has no such answer (blobs_close is a total predicate) *)
          let ans what v = if atom v = "panic" then begin
              mismatch id (Printf.sprintf "blobsAreClose(%s) panicked in a direct call on blobs %d and %d (sizes %d, %d)" what
                             (int_of_sx bd) (int_of_sx ba) sizes.(int_of_sx bd) sizes.(int_of_sx ba)); false end
            else bool_of_sx v in
          Hashtbl.replace close_tab (int_of_sx bd, int_of_sx ba) (ans "deleted, added" x, ans "added, deleted" y);
          (* fine correspondence of sizesAreClose: the harness lists only pairs the real function accepts *)
          let s1 = z_of_int sizes.(int_of_sx bd) and s2 = z_of_int sizes.(int_of_sx ba) in
          let t = effective_threshold thr in
          if not (sizes_close t s1 s2 && sizes_close t s2 s1) then
            mismatch id (Printf.sprintf "sizesAreClose(%d,%d) holds in the implementation but not in the model" sizes.(int_of_sx bd) sizes.(int_of_sx ba))
      | _ -> failwith "close entry") (args (field "close" obs));
    let dist_tab : (int * int, int * int) Hashtbl.t = Hashtbl.create 64 in
    List.iter (fun p -> match ints_of_sx p with
      | [nd; na; x; y] -> Hashtbl.replace dist_tab (nd, na) (x, y)
      | _ -> failwith "dist entry") (args (field "dist" obs));
    let bidx e = try Hashtbl.find blob_of_hash (hkey e.e_hash) with Not_found -> failwith "unknown hash" in
    let lookup_close d a = try Hashtbl.find close_tab (bidx d, bidx a)
      with Not_found -> failwith (Printf.sprintf "the model asks blobsAreClose for a pair the implementation's sizesAreClose rejects (sizes %d %d)"
                                    (int_of_z d.e_size) (int_of_z a.e_size)) in
    let lookup_dist d a = try Hashtbl.find dist_tab (int_of_n d.e_name / 8, int_of_n a.e_name / 8)
      with Not_found -> failwith (Printf.sprintf "the model takes a pair as candidates that the implementation's sizesAreClose rejects (sizes %d %d)"
                                    (int_of_z d.e_size) (int_of_z a.e_size)) in
    let close_a me cand = fst (lookup_close me cand) in        (* matchA: blobsAreClose(deleted, added) *)
    let close_b me cand = snd (lookup_close cand me) in        (* matchB: blobsAreClose(added, deleted) *)
    let order dist me (cands : (nat * entry) list) : nat list =
      let arr = Array.of_list (List.map (fun (i, x) -> (i, dist me x)) cands) in
      go_sort (fun (_, d1) (_, d2) -> d1 < d2) arr;
      List.map fst (Array.to_list arr) in
    let order_a = order (fun me x -> fst (lookup_dist me x)) in
    let order_b = order (fun me x -> snd (lookup_dist x me)) in
    (* sort.Sort by hash; the model sorts exactly the additions and the deletions of the input, which the
       cross-check below sorts too: remember these two results *)
    let sorted_memo : (entry list * entry list) list ref = ref [] in
    let sort_hash l =
      match List.find_opt (fun (k, _) -> k == l || k = l) !sorted_memo with
      | Some (_, r) -> r
      | None -> let r = go_sort_list (fun x y -> less x.e_hash y.e_hash) l in
                sorted_memo := (l, r) :: !sorted_memo; r in
    let sort_size l = go_sort_list (fun x y -> int_of_z x.e_size < int_of_z y.e_size) l in
    (* ----- cross-checks of the sort port against the real sort.Sort / sortRenameCandidates ----- *)
    (match args (field "sorts" obs) with
     | [pd; pa] ->
         let chk what l p =
           let arr = Array.of_list l in
           let real = List.map (fun i -> arr.(i)) (ints_of_sx p) in
           (* compare positions, not values: tag every element with its index *)
           let tagged = List.mapi (fun i e -> (i, e)) l in
           let sorted = go_sort_list (fun (_, x) (_, y) -> less x.e_hash y.e_hash) tagged in
           let mine = List.map fst sorted in
           ignore real;
           sorted_memo := (l, List.map snd sorted) :: !sorted_memo;
           if mine <> ints_of_sx p then mismatch id ("sort.Sort of the " ^ what ^ " by hash: the driver's pdqsort port gives another permutation than Go") in
         chk "deletions" (dels inp) pd; chk "additions" (adds inp) pa
     | _ -> failwith "sorts");
    tick "sort cross-check";
    (match args (field "csort" obs) with
     | [ds; res] ->
         let arr = Array.of_list (List.mapi (fun i d -> (i, d)) (ints_of_sx ds)) in
         go_sort (fun (_, d1) (_, d2) -> d1 < d2) arr;
         if List.map fst (Array.to_list arr) <> ints_of_sx res then
           mismatch id "sortRenameCandidates: the driver's sort.Slice port gives another order than Go"
     | _ -> ());
    (* sizesAreClose on the recorded size pairs (any sizes) *)
    (match field_opt "szq" c, field_opt "szc" obs with
     | Some q, Some r ->
         List.iter2 (fun q r -> match list_of_sx q with
           | [x; y] ->
               let x = int_of_sx x and y = int_of_sx y in
               count "sizes_close_compared";
               if sizes_close (effective_threshold thr) (z_of_int x) (z_of_int y) <> bool_of_sx r then
                 mismatch id (Printf.sprintf "sizesAreClose(%d,%d): implementation %b, model %b" x y (bool_of_sx r) (not (bool_of_sx r)))
           | _ -> failwith "szq") (args q) (args r)
     | _ -> ());
    (* ----- the implementation's result ----- *)
    let res = field "res" obs in
    let rkind = atom (List.hd (args res)) in
    let unknown = { e_name = n_of_int 999999999; e_hash = []; e_size = Z0 } in
    let side s = match s with
      | A "-" -> None
      | L [n; b] -> let n = int_of_sx n and b = int_of_sx b in
          if n < 0 || b < 0 then Some unknown else Some (mk n b 0)
      | L [n; b; m] -> let n = int_of_sx n and b = int_of_sx b and m = int_of_sx m in
          if n < 0 || b < 0 || m < 0 || m > 7 then Some unknown else Some (mk n b m)
      | _ -> failwith "side" in
    let out = if rkind = "ok" then
        List.map (fun p -> match list_of_sx p with [f; t] -> (side f, side t) | _ -> failwith "out") (list_of_sx (List.nth (args res) 1))
      else [] in
    count ("res_" ^ rkind);
    tick "output";
    if malformed inp then begin
      count "malformed";
      if rkind <> "err" then mismatch id ("malformed change set: the model returns an error, the implementation " ^ rkind)
    end else begin
      (* ----- property oracles on the implementation's own output ----- *)
      if rkind = "panic" then propfail id "Consume panicked on a well-formed change set"
      else if rkind = "err" then propfail id "Consume returned an error on a well-formed change set"
      else begin
        let inp_p = strip_changes inp and out_p = strip_changes out in
        if n_changes <= large then begin
          if not (repairing_b inp_p out_p) then
            propfail id ("the output is not a re-pairing of the input: " ^ show_changes out);
          if wf_hashes_b inp_p then begin
            count "exact_checked";
            if not (exact_b inp_p out_p) then
              propfail id ("identical content missed or over-reported: the number of exact renames differs from min(#added,#deleted) for some hash: " ^ show_changes out)
          end
        end else begin
          (* large case: the fast oracles of RenamesFast.v (C13_repairing_fast_oracle_sound, C13_exact_by_buckets_sound) *)
          count "large_cases";
          count (Printf.sprintf "large_1e%d" (String.length (string_of_int n_changes) - 1));
          tick "  stripped";
          if not (repairing_fast_b inp_p out_p) then begin
            (* the fast oracle is sound, and complete when the output begins with the modifications in input order
               (C13_repairing_fast_oracle_complete); otherwise the slow one decides, where it is affordable *)
            let m = mods inp_p in
            if take (List.length m) out_p = m then
              propfail id ("the output is not a re-pairing of the input (" ^ string_of_int n_changes ^ " changes): " ^ show_changes out)
            else if n_changes <= 150000 && repairing_b inp_p out_p then count "fast_oracle_rejects_slow_accepts"
            else propfail id ("the output is not a re-pairing of the input (" ^ string_of_int n_changes ^ " changes, the modifications are not at the front): " ^ show_changes out)
          end;
          tick "  repairing_fast_b";
          if wf_hashes_b inp_p then begin
            count "exact_checked";
            (* per hash h: exact_at on the sub-lists of the changes that carry h on some side, in order
               (= filter (touches h)) *)
            let buckets : (string, n list * (entry option * entry option) list ref * (entry option * entry option) list ref) Hashtbl.t =
              Hashtbl.create 1024 in
            let keys = ref [] in
            let bucket h =
              let k = hkey h in
              try Hashtbl.find buckets k with Not_found ->
                let b = (h, ref [], ref []) in Hashtbl.replace buckets k b; keys := k :: !keys; b in
            let put sel ((f, t) as ch) =
              let hf = match f with Some e -> Some e.e_hash | None -> None
              and ht = match t with Some e -> Some e.e_hash | None -> None in
              (match hf with Some h -> let r = sel (bucket h) in r := ch :: !r | None -> ());
              (match ht with Some h when hf <> ht -> let r = sel (bucket h) in r := ch :: !r | _ -> ()) in
            List.iter (put (fun (_, i, _) -> i)) inp_p;
            List.iter (put (fun (_, _, o) -> o)) out_p;
            let bad = ref 0 and first_bad = ref "" in
            List.iter (fun k ->
              let (h, i, o) = Hashtbl.find buckets k in
              if not (exact_at (List.rev !i) (List.rev !o) h) then begin
                incr bad;
                if !first_bad = "" then
                  first_bad := Printf.sprintf "hash %s: %d change(s) in, %d out carry it; out: %s" (String.concat "." (String.split_on_char ',' k))
                                 (List.length !i) (List.length !o) (show_changes (List.map (fun (f, t) ->
                                    let up = function None -> None | Some e -> Some { e with e_name = n_of_int (8 * int_of_n e.e_name) } in
                                    (up f, up t)) (List.rev !o)))
              end) (List.rev !keys);
            if !bad > 0 then
              propfail id (Printf.sprintf "identical content missed or over-reported: the number of exact renames differs from min(#added,#deleted) for %d hash(es) (%d changes); %s"
                             !bad n_changes !first_bad)
          end
        end
      end;
      (* ----- fine correspondence ----- *)
      tick "property oracles";
      if rkind = "ok" then begin
        let (((mds, exact), sa), sd) = stage1 sort_hash inp in
        tick "  model stage 1";
        let prefix = mds @ List.map c_ren exact in
        if List.length exact > 0 then count "with_exact_renames";
        if take (List.length prefix) out <> prefix then
          mismatch id ("stage 1 differs: model " ^ show_changes prefix ^ " implementation " ^ show_changes (take (List.length prefix) out))
        else begin
          tick "  stage 1 compared";
          let t = effective_threshold thr in
          let maxc = cap_of sa sd in
          if int_of_z maxc = 1 then count "cap_reduced_to_1";
          let ab = sort_size (filter not_small sa) and db = sort_size (filter not_small sd) in
          let na = List.length ab and nd = List.length db in
          if na > 0 && nd > 0 then count "stage2_nonempty";
          (* which (winner, cut) pairs explain the output; without a short timeout only the full run *)
          let short = timeout > 0.0 && timeout < 1e9 in
          let run_a cut = match match_a order_a close_a t maxc (nat_of_int cut) ab db with
            | Some r -> Some (stage3 mds exact r sa sd) | None -> None in
          let run_b cut = match match_b order_b close_b t maxc (nat_of_int cut) ab db with
            | Some r -> Some (stage3 mds exact r sa sd) | None -> None in
          tick "  sizes sorted";
          let full_a = run_a nd and full_b = run_b na in
          tick "  model stage 2";
          if full_a = None || full_b = None then mismatch id "the model panics (candidate index out of range)";
          (* the output of a run cut after k iterations depends only on the number of matches found so far
             (unmatched elements stay in their original order), and that number grows with k: search the
             smallest k that yields as many similarity renames as the implementation reports *)
          let npre = List.length prefix in
          let renames o = List.length (List.filter (fun (f, t) -> f <> None && t <> None) (List.filteri (fun i _ -> i >= npre) o)) in
          let target = renames out in
          let explain run n full =
            if full = Some out then [n]
            else if not short then []
            else begin
              let cnt k = match run k with Some o -> renames o | None -> max_int in
              let lo = ref 0 and hi = ref n in
              while !lo < !hi do
                let mid = (!lo + !hi) / 2 in
                if cnt mid >= target then hi := mid else lo := mid + 1
              done;
              if run !lo = Some out then [!lo] else []
            end in
          let expl_a = explain run_a nd full_a and expl_b = explain run_b na full_b in
          (match expl_a, expl_b with
           | [], [] ->
               mismatch id (Printf.sprintf "stage 2 differs: no winner/cut explains the output; implementation %s ; model matchA %s ; model matchB %s"
                              (show_changes out)
                              (match full_a with Some o -> show_changes o | None -> "panic")
                              (match full_b with Some o -> show_changes o | None -> "panic"))
           | _ :: _, [] -> count "explained_by_matchA_only"
           | [], _ :: _ -> count "explained_by_matchB_only"
           | _, _ -> count "explained_by_both");
          if full_a <> full_b then count "matchA_and_matchB_differ";
          if short && Some out <> full_a && Some out <> full_b && (expl_a <> [] || expl_b <> []) then count "timeout_cut_observed";
          (match full_a with Some o when List.exists (fun (f, t) -> f <> None && t <> None) (List.filteri (fun i _ -> i >= npre) o) -> count "with_similarity_renames" | _ -> ())
        end
      end
    end;
    tick "correspondence";
    (match field_opt "warm" c with Some w when int_of_sx (List.hd (args w)) > 0 -> count "instance_reused" | _ -> ());
    ignore kind
    with Skip -> ());
  tick "end"
