(* Red-black invariants are preserved by Insert. *)
From Coq Require Import List ZArith Lia Bool.
Import ListNotations.
From Herc Require Import RBTree.Model.
Open Scope Z_scope.

(* RB t c n: t is a valid subtree of black height n below a parent of colour c *)
Inductive RB : tree -> color -> nat -> Prop :=
| RB_E : forall c, RB E c 0
| RB_r : forall l i k v r n, RB l Red n -> RB r Red n -> RB (T Red l i k v r) Black n
| RB_b : forall c l i k v r n, RB l Black n -> RB r Black n -> RB (T Black l i k v r) c (S n).

(* like RB below a black parent, but a red root may have (at most) one red child *)
Inductive nearRB : tree -> nat -> Prop :=
| nr_rl : forall l i k v r n, RB l Black n -> RB r Red n -> nearRB (T Red l i k v r) n
| nr_rr : forall l i k v r n, RB l Red n -> RB r Black n -> nearRB (T Red l i k v r) n
| nr_b : forall l i k v r n, RB l Black n -> RB r Black n -> nearRB (T Black l i k v r) (S n).

#[local] Hint Constructors RB nearRB : core.

Ltac inv H := inversion H; subst; clear H.

Lemma RB_weaken t n : RB t Red n -> RB t Black n.
Proof. intros H. inv H; auto. Qed.
#[local] Hint Resolve RB_weaken : core.

Lemma RB_any_black t c n : RB t c n -> RB t Black n.
Proof. destruct c; auto. Qed.

Lemma RB_near t n : RB t Black n -> t <> E -> nearRB t n.
Proof. intros H Hn. inv H; try congruence; auto. Qed.

Lemma not_red_RB t n : RB t Black n -> is_red t = false -> RB t Red n.
Proof. intros H Hr. inv H; simpl in *; try discriminate; auto. Qed.

Lemma blacken_red t n : RB t Black n -> is_red t = true -> forall c, RB (blacken t) c (S n).
Proof. intros H Hr c. destruct t as [|[] ? ? ? ? ?]; simpl in *; try discriminate. inv H. auto. Qed.

(* ---------- insertion ---------- *)

Lemma balL_red l i k v r : balL Red l i k v r = T Red l i k v r.
Proof. reflexivity. Qed.
Lemma balR_red l i k v r : balR Red l i k v r = T Red l i k v r.
Proof. destruct r as [|[] [|[] ? ? ? ? ?] ? ? ? [|[] ? ? ? ? ?]]; reflexivity. Qed.

Ltac invRB :=
  repeat match goal with
  | H : nearRB (T _ _ _ _ _ _) _ |- _ => inv H
  | H : nearRB E _ |- _ => inv H
  | H : RB (T _ _ _ _ _ _) _ _ |- _ => inv H
  | H : RB E _ (S _) |- _ => inv H
  end.

Ltac brk :=
  repeat match goal with
  | |- context [match ?t with E => _ | T _ _ _ _ _ _ => _ end] => destruct t
  | |- context [match ?c with Red => _ | Black => _ end] => destruct c
  | |- context [if is_red ?t then _ else _] => destruct (is_red t) eqn:?
  end.

Ltac fin :=
  simpl in *; try discriminate; try congruence;
  eauto 8 using RB_weaken, not_red_RB, blacken_red.

Lemma balL_RB l i k v r n :
  nearRB l n -> RB r Black n -> RB (balL Black l i k v r) Black (S n).
Proof.
  intros Hl Hr. unfold balL. brk; invRB; fin.
Qed.

Lemma balR_RB l i k v r n :
  RB l Black n -> nearRB r n -> RB (balR Black l i k v r) Black (S n).
Proof.
  intros Hl Hr. unfold balR. brk; invRB; fin.
Qed.

Lemma ins_RB ni nk nv : forall t n,
  (RB t Black n -> nearRB (ins ni nk nv t) n) /\ (RB t Red n -> RB (ins ni nk nv t) Black n).
Proof.
  induction t as [|c l IHl i k v r IHr]; intros n.
  - split; intros H; inv H; simpl; auto.
  - split; intros H.
    + simpl. destruct (nk <? k); [|destruct (k <? nk)].
      * inv H.
        -- rewrite balL_red. apply nr_rl; auto. apply IHl; auto.
        -- apply RB_near; [|unfold balL; brk; congruence]. apply balL_RB; auto. apply IHl; auto.
      * inv H.
        -- rewrite balR_red. apply nr_rr; auto. apply IHr; auto.
        -- apply RB_near; [|unfold balR; brk; congruence]. apply balR_RB; auto. apply IHr; auto.
      * apply RB_near; auto. congruence.
    + simpl. inv H. destruct (nk <? k); [|destruct (k <? nk)]; auto.
      * apply balL_RB; auto. apply IHl; auto.
      * apply balR_RB; auto. apply IHr; auto.
Qed.

Definition is_redblack (t : tree) : Prop := exists n, RB t Red n.

Theorem insert_RB ni nk nv t : is_redblack t -> is_redblack (fst (fst (insert ni nk nv t))).
Proof.
  intros [n H]. unfold insert. destruct (mem nk t); [exists n; auto|].
  destruct (ins_RB ni nk nv t n) as [H1 _]. specialize (H1 (RB_weaken _ _ H)).
  inv H1; simpl; eexists; apply RB_b; eauto using RB_weaken.
Qed.
