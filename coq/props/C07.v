(* C07 - merging tracked files resolves every line by the oldest real tick.
   Only statements closed by [exact] and their assumptions; the proofs live in theories/FileMerge.
   Model: theories/FileMerge/Model.v (File.Merge = lines_merge on flattened copies + rebuild;
   BurndownAnalysis.Merge = merge_keys / analysis_merge). *)
From Coq Require Import List ZArith Bool.
From Herc Require Import FileMerge.Model FileMerge.LineProofs FileMerge.RebuildProofs FileMerge.AnalysisProofs.
Import ListNotations.
Open Scope Z_scope.

(* ------------------------------------------------------------------ the per-line rule and the reports *)
(* For any number of copies of any (equal) length: column i of [cols] holds the i-th value of self and of every
   other copy, in that order; line i of the result is the value of the FIRST copy among the copies without the
   merge mark whose tick (low 14 bits) is minimal, or [day] when every copy carries the mark; the updaters
   receive exactly one (day, day, +1) per line that is marked in every copy (none when [day] itself is marked:
   updateTime is silent then). *)
Theorem C07_line_rule : forall day self others m reps,
  lines_merge day self (map Some others) = Ok (m, reps) ->
  let cols := columns (length self) (self :: others) in
  length cols = length self /\
  (forall i col, nth_error cols i = Some col ->
     Forall2 (fun c v => nth_error c i = Some v) (self :: others) col) /\
  Forall2 (fun col r =>
     ((forall w, In w col -> mark w = true) /\ r = day) \/
     (exists pre post, col = pre ++ r :: post /\ mark r = false /\
        (forall w, In w pre -> mark w = false -> tick r < tick w) /\
        (forall w, In w post -> mark w = false -> tick r <= tick w))) cols m /\
  (mark day = false -> reps = repeat (day, day, 1) (length (filter (forallb mark) cols))) /\
  (mark day = true -> reps = []).
Proof. exact lines_merge_rule. Qed.
Print Assumptions C07_line_rule.

(* the same rule as an equation with the executable specification that the replay driver evaluates on the
   implementation's inputs and outputs *)
Theorem C07_line_rule_exec : forall day self others m reps,
  lines_merge day self (map Some others) = Ok (m, reps) ->
  m = spec_lines day self others /\
  (mark day = false -> reps = repeat (day, day, 1) (spec_report_count self others)).
Proof. exact lines_merge_spec. Qed.
Print Assumptions C07_line_rule_exec.

(* spec_line really is "first copy with the minimal real tick, else day" *)
Theorem C07_spec_line_meaning : forall vs,
  match first_min_val vs with
  | Some b => exists pre post, vs = pre ++ b :: post /\ mark b = false /\
                (forall w, In w pre -> mark w = false -> tick b < tick w) /\
                (forall w, In w post -> mark w = false -> tick b <= tick w)
  | None => forall w, In w vs -> mark w = true
  end.
Proof. exact first_min_val_spec. Qed.
Print Assumptions C07_spec_line_meaning.

(* File.Merge on trees (node lists): the flattened result is the line-level result, the reports are the same,
   and the rebuilt tree is well formed.  Hypotheses: node values and the merge tick are uint32 values, the
   file has fewer than 2^32 lines. *)
Theorem C07_file_level : forall day self others ns reps,
  Forall (fun n : Z * Z => 0 <= snd n < 4294967296) self ->
  Forall (fun o : list (Z * Z) => Forall (fun n : Z * Z => 0 <= snd n < 4294967296) o) others ->
  0 <= day < 4294967296 ->
  Z.of_nat (length (flatten self)) < 4294967296 ->
  file_merge day self (map Some others) = Ok (ns, reps) ->
  lines_merge day (flatten self) (map Some (map flatten others)) = Ok (flatten ns, reps) /\
  (mark day = false ->
     (exists v rest, ns = (0, v) :: rest) /\
     (exists front k, ns = front ++ [(k, TreeEnd)]) /\
     (forall i a b, nth_error ns i = Some a -> nth_error ns (S i) = Some b -> fst a < fst b) /\
     (forall i a b, nth_error ns i = Some a -> nth_error ns (S i) = Some b -> snd a <> snd b)).
Proof. exact file_merge_lines. Qed.
Print Assumptions C07_file_level.

(* ------------------------------------------------------------------ length and marks *)
Theorem C07_length_and_no_mark : forall day self others m reps,
  lines_merge day self others = Ok (m, reps) ->
  length m = length self /\ (mark day = false -> Forall (fun v => mark v = false) m).
Proof. exact lines_merge_length_no_mark. Qed.
Print Assumptions C07_length_and_no_mark.

(* ------------------------------------------------------------------ rebuilding the tree *)
Theorem C07_rebuild_flatten : forall l,
  Forall (fun v => 0 <= v < 4294967296) l -> Z.of_nat (length l) < 4294967296 ->
  flatten (rebuild l) = l /\
  (exists v rest, rebuild l = (0, v) :: rest) /\
  (exists front, rebuild l = front ++ [(Z.of_nat (length l), TreeEnd)]) /\
  (forall i a b, nth_error (rebuild l) i = Some a -> nth_error (rebuild l) (S i) = Some b -> fst a < fst b) /\
  (Forall (fun v => v <> TreeEnd) l ->
   forall i a b, nth_error (rebuild l) i = Some a -> nth_error (rebuild l) (S i) = Some b -> snd a <> snd b).
Proof. exact rebuild_flatten_wf. Qed.
Print Assumptions C07_rebuild_flatten.

(* the checker applied to the implementation's node lists is sound for the readable well-formedness *)
Theorem C07_wf_checker_sound : forall ns, wf_nodes_b ns = true ->
  (exists v rest, ns = (0, v) :: rest) /\
  (exists front k, ns = front ++ [(k, TreeEnd)]) /\
  (forall i a b, nth_error ns i = Some a -> nth_error ns (S i) = Some b -> fst a < fst b) /\
  (forall i a b, nth_error ns i = Some a -> nth_error ns (S i) = Some b -> snd a <> snd b).
Proof. exact wf_nodes_b_sound. Qed.
Print Assumptions C07_wf_checker_sound.

(* ------------------------------------------------------------------ refusal *)
Theorem C07_refuses : forall day self others,
  In None others \/ (exists o, In (Some o) others /\ length o <> length self) ->
  exists c, lines_merge day self others = Panic c.
Proof. exact lines_merge_refuses. Qed.
Print Assumptions C07_refuses.

Theorem C07_refuses_file : forall day self others,
  In None others \/ (exists o, In (Some o) others /\ length (flatten o) <> length (flatten self)) ->
  exists c, file_merge day self others = Panic c.
Proof. exact file_merge_refuses. Qed.
Print Assumptions C07_refuses_file.

(* and nothing else is refused *)
Theorem C07_accepts : forall day self others,
  Forall (fun o => length (flatten o) = length (flatten self)) others ->
  exists ns reps, file_merge day self (map Some others) = Ok (ns, reps).
Proof. exact file_merge_accepts. Qed.
Print Assumptions C07_accepts.

(* ------------------------------------------------------------------ the analysis-level merge *)
(* [all] = the receiver followed by the other branches.  Every path recorded in some branch's mergedFiles
   (= touched by the merge commit) is held identically by all branches afterwards (present everywhere with
   the same lines, or absent everywhere). *)
Theorem C07_branches_agree : forall people author tk all all' reps,
  analysis_merge people author tk all = Ok (all', reps) ->
  length all' = length all /\
  forall k, (exists b, In b all /\ In k (map fst (merged b))) ->
    forall b1 b2, In b1 all' -> In b2 all' -> lookup k (files b1) = lookup k (files b2).
Proof. exact analysis_merge_agree. Qed.
Print Assumptions C07_branches_agree.

(* the same for ANY order in which Go's map iteration hands out the keys *)
Theorem C07_branches_agree_any_order : forall day ks all all' reps,
  merge_keys day ks all = Ok (all', reps) ->
  length all' = length all /\
  forall k, In k (map fst ks) ->
    forall b1 b2, In b1 all' -> In b2 all' -> lookup k (files b1) = lookup k (files b2).
Proof. exact merge_keys_agree. Qed.
Print Assumptions C07_branches_agree_any_order.

(* what they agree on: the line-rule merge of the non-nil copies in branch order (first non-nil = target) *)
Theorem C07_merged_content : forall day ks all all' reps k,
  NoDup (map fst ks) -> merge_keys day ks all = Ok (all', reps) -> In (k, true) ks ->
  match flat_map (fun o : option (list Z) => match o with Some f => [f] | None => [] end)
                 (map (fun b => lookup k (files b)) all) with
  | [] => map (fun b => lookup k (files b)) all' = repeat None (length all')
  | f0 :: rest => exists m r, lines_merge day f0 (map Some rest) = Ok (m, r) /\
      map (fun b => lookup k (files b)) all' = repeat (Some (flatten (rebuild m))) (length all')
  end.
Proof. exact merge_keys_content. Qed.
Print Assumptions C07_merged_content.

(* paths the merge commit did not touch are left alone in every branch *)
Theorem C07_untouched : forall day ks all all' reps k,
  merge_keys day ks all = Ok (all', reps) -> ~ In k (map fst ks) ->
  map (fun b => lookup k (files b)) all' = map (fun b => lookup k (files b)) all.
Proof. exact merge_keys_frame. Qed.
Print Assumptions C07_untouched.

(* the key set of Merge: exactly the paths in some mergedFiles, each once *)
Theorem C07_keys : forall all,
  NoDup (map fst (collect_keys all)) /\
  forall k, In k (map fst (collect_keys all)) <-> exists b, In b all /\ In k (map fst (merged b)).
Proof. exact collect_keys_spec. Qed.
Print Assumptions C07_keys.

(* ------------------------------------------------------------------ non-vacuity *)
(* three copies, four lines: ticks 5/3/3 with a tie between author 1 (second copy) and author 0 (third copy):
   the earlier copy wins; a column marked everywhere gets day 20 and one report; marked values never win *)
Example C07_ex_rule :
  lines_merge 20 [5; 16383; 16383; 7] (map Some [[16384 + 3; 9; 32767; 16383]; [3; 16384 + 9; 16383; 6]])
  = Ok ([16384 + 3; 9; 20; 6], [(20, 20, 1)]).
Proof. vm_compute. reflexivity. Qed.

Example C07_ex_spec :
  spec_lines 20 [5; 16383; 16383; 7] [[16384 + 3; 9; 32767; 16383]; [3; 16384 + 9; 16383; 6]] = [16384 + 3; 9; 20; 6] /\
  spec_report_count [5; 16383; 16383; 7] [[16384 + 3; 9; 32767; 16383]; [3; 16384 + 9; 16383; 6]] = 1%nat.
Proof. vm_compute. split; reflexivity. Qed.

Example C07_ex_refuses :
  lines_merge 20 [1; 2] [Some [1; 2]; Some [1]] = Panic PanicLength /\
  lines_merge 20 [1; 2] [Some [1; 2]; None] = Panic PanicNil.
Proof. vm_compute. split; reflexivity. Qed.

Example C07_ex_rebuild :
  rebuild [5; 5; 7; 7; 7; 5] = [(0, 5); (2, 7); (5, 5); (6, TreeEnd)] /\
  flatten [(0, 5); (2, 7); (5, 5); (6, TreeEnd)] = [5; 5; 7; 7; 7; 5] /\
  wf_nodes_b (rebuild [5; 5; 7; 7; 7; 5]) = true /\ rebuild [] = [(0, TreeEnd)].
Proof. vm_compute. repeat split; reflexivity. Qed.

Example C07_ex_file :
  file_merge 20 [(0, 5); (1, 16383); (3, TreeEnd)] [Some [(0, 3); (2, 16383); (3, TreeEnd)]]
  = Ok ([(0, 3); (2, 20); (3, TreeEnd)], [(20, 20, 1)]).
Proof. vm_compute. reflexivity. Qed.

(* three branches; path 1 modified by the merge commit (the second branch does not track it), path 2 deleted,
   path 3 untouched: afterwards path 1 is identical everywhere, path 2 is gone, path 3 is as before *)
Example C07_ex_analysis :
  let b0 := {| files := [(1, [4; 16383]); (3, [1])]; merged := [(1, true)] |} in
  let b1 := {| files := [(2, [2]); (3, [1; 1])]; merged := [(2, false)] |} in
  let b2 := {| files := [(1, [16383; 16383]); (2, [2])]; merged := [(1, true); (2, false)] |} in
  match analysis_merge 0 0 9 [b0; b1; b2] with
  | Ok (all', reps) =>
      map (fun b => lookup 1 (files b)) all' = repeat (Some [4; 9]) 3 /\
      map (fun b => lookup 2 (files b)) all' = repeat None 3 /\
      map (fun b => lookup 3 (files b)) all' = [Some [1]; Some [1; 1]; None] /\
      reps = [(9, 9, 1)]
  | Panic _ => False
  end.
Proof. vm_compute. repeat split; reflexivity. Qed.

(* a remark used to classify a mutant: the guard "continue when the other value is marked" of the first loop
   does not influence the stamped result of a line (step_noskip = the loop body without the guard) *)
From Herc Require Import FileMerge.SkipRedundant.
Theorem C07_skip_guard_redundant : forall day col a,
  (let r := fold_left step col a in if mark r then day else r) =
  (let r := fold_left (fun l ol => if mark l || (tick l >? tick ol) then ol else l) col a in if mark r then day else r).
Proof. exact skip_is_redundant. Qed.
Print Assumptions C07_skip_guard_redundant.
