CONFIG = dict(
        level='proof',
        streams=[dict(harness='c15', driver='c15', shrink_field='ops')],
        rule='operation sequences on one toposort.Graph (AddNode/AddEdge/RemoveEdge/ReindexNode, then Toposort on a copy x5, FindCycle, '
             'FindChildren, FindParents): all digraphs on <=3 nodes with self loops and on 4 nodes (quick: without self loops) in two insertion '
             'orders, random graphs up to 30 nodes with removal+reindex rounds, a DAG-biased stream and a malformed stream (duplicates, unknown '
             'endpoints, missing reindex). Non-trivial = at least 2 nodes and 1 edge; distinct = distinct operation list.',
        exhaustive_note='digraphs on <=3 nodes (with self loops) x 2 insertion orders enumerated completely; 4 nodes without self loops (quick) / with (thorough)',
        assumptions=['node names are fixed-width so that Go string order equals numeric order of the model',
                     'FindCycle/FindParents/BreadthSort iterate Go maps: the model fixes one order; only order-independent facts are compared (validity of the returned cycle, emptiness, parent set)'],
        trusted_base=['hand-written Gallina model coq/theories/Toposort/Model.v of internal/toposort/toposort.go, tied to the code by the replay of every harness case'],
    )
