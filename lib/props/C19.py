CONFIG = dict(
        level='proof',
        streams=[dict(harness='c19', driver='c19', shrink_field='ops')],
        rule='TODO',
    )
