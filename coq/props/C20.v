(* C20 - tree changes describe exactly the step from the branch's previous commit.
   Only statements closed by [exact] and their assumptions; the proofs are in coq/theories/TreeDiff.

   Reading guide.  [td_consume f s c dt] is TreeDiff.Consume on branch memory [s] for commit [c]; [dt] is
   what go-git's object.DiffTree returned for (previous tree, tree of c) - third-party code that is NOT
   modelled: wherever a theorem needs it to be right, it says [changes_ok all_pass prev cur dt = true],
   the verdict of the validator that the check evaluates on every replayed step (translation
   validation; [C20_changes_apply] is the soundness of that validator).  [f] holds the configured
   filter; enry.IsVendor, the name regexp, the language detection and the object store are opaque
   fields of [f] / [b] and universally quantified. *)
From Coq Require Import List NArith Bool.
From Herc Require Import TreeDiff.Model TreeDiff.ChangesProofs TreeDiff.FilterProofs TreeDiff.CacheProofs
  TreeDiff.ReplayProofs TreeDiff.FixedFilter TreeDiff.StrictProofs TreeDiff.ReuseProofs.
Import ListNotations.
Open Scope N_scope.

(* ---- a commit whose parents do not include the branch's previous commit is refused ---- *)

Theorem C20_parent_refusal : forall f s c dt,
  td_commit s <> 0 -> ~ In (td_commit s) (cm_parents c) ->
  td_consume f s c dt = Err EParent.
Proof. exact parent_refusal. Qed.
Print Assumptions C20_parent_refusal.

(* ... and nothing else is refused that way; an [Err] result carries neither changes nor a new memory *)
Theorem C20_parent_refusal_only : forall f s c dt,
  td_consume f s c dt = Err EParent ->
  td_commit s <> 0 /\ ~ In (td_commit s) (cm_parents c).
Proof. exact parent_refusal_only. Qed.
Print Assumptions C20_parent_refusal_only.

(* over every replay (consume / fork / initialize in any order over any number of branches): a commit
   that is accepted on a branch holding a tree is diffed against the tree of one of its own parents *)
Theorem C20_right_tree : forall f commits ops i c dt br prev s' cs,
  (forall x, In x commits -> cm_hash x <> 0) ->
  Forall (op_commits commits) ops ->
  nth_error (fold_left (run_op f) ops [br_zero]) i = Some br ->
  td_tree (br_td br) = Some prev ->
  td_consume f (br_td br) c dt = Ok (s', cs) ->
  exists p, In p commits /\ In (cm_hash p) (cm_parents c) /\ cm_tree p = prev.
Proof. exact replay_right_tree. Qed.
Print Assumptions C20_right_tree.

(* ---- re-use: a re-initialised item is as good as new - any commit (an unrelated root, the first commit of a second
        analysis) is accepted and reported as a first commit.  Finding F24 (repaired by 3598ee8): Initialize used to keep
        previousCommit and such a commit was refused ---- *)

Theorem C20_initialize_fresh : forall s, td_initialize s = td_zero.
Proof. exact initialize_fresh. Qed.
Print Assumptions C20_initialize_fresh.

Theorem C20_initialize_never_refuses : forall f s c dt, td_consume f (td_initialize s) c dt <> Err EParent.
Proof. exact initialize_never_refuses. Qed.
Print Assumptions C20_initialize_never_refuses.

Theorem C20_initialize_first_commit : forall f s c dt,
  (forall e, In e (cm_tree c) -> is_submodule e = false -> f_has_blob f (e_hash e) = true) ->
  tree_wfb (cm_tree c) = true -> f_vendor f [] = false ->
  td_consume f (td_initialize s) c dt =
    Ok (mkTD (Some (cm_tree c)) (cm_hash c), map ins (restrict f (filter is_file (cm_tree c)))).
Proof. exact initialize_first_commit. Qed.
Print Assumptions C20_initialize_first_commit.

Theorem C20_initialize_refused_before_fix : forall f s c dt,
  td_commit s <> 0 -> ~ In (td_commit s) (cm_parents c) ->
  td_consume f (td_initialize_before_fix s) c dt = Err EParent.
Proof. exact initialize_refused_before_fix. Qed.
Print Assumptions C20_initialize_refused_before_fix.

Example C20_example_reuse :
  let f := mkF [] (fun _ => false) false (fun _ => true) true (fun _ _ => true) (fun _ => true) in
  let s := mkTD (Some [mkE [97] 1 33188]) 7 in
  let root := mkCommit 9 [] [mkE [98] 2 33188] in
  td_consume f (td_initialize_before_fix s) root [] = Err EParent /\
  td_consume f (td_initialize s) root [] = Ok (mkTD (Some [mkE [98] 2 33188]) 9, [ins (mkE [98] 2 33188)]).
Proof. exact initialize_refused_before_fix_witness. Qed.

(* ---- the validator is sound: accepted changes, applied strictly, turn the restricted previous file set
        into the restricted current file set ---- *)

Theorem C20_changes_apply : forall f prev cur cs,
  tree_wfb prev = true -> tree_wfb cur = true ->
  changes_ok f prev cur cs = true ->
  exists m, apply_all cs (fs_of (restrict f prev)) = Some m /\
            forall p, m p = fs_of (restrict f cur) p.
Proof. exact changes_ok_apply. Qed.
Print Assumptions C20_changes_apply.

(* ---- hercules's own step: parent check + filterDiffs on a correct tree difference.
   The full statement (without [flip_free]) is FALSE of the code: see C20_language_flip_refuted. ---- *)

Theorem C20_consume_step_flip_free : forall f s c dt prev s' cs,
  td_tree s = Some prev ->
  tree_wfb prev = true -> tree_wfb (cm_tree c) = true -> f_vendor f [] = false ->
  flip_free f prev (cm_tree c) = true ->
  changes_ok all_pass prev (cm_tree c) dt = true ->
  td_consume f s c dt = Ok (s', cs) ->
  changes_ok f prev (cm_tree c) cs = true /\
  exists m, apply_all cs (fs_of (restrict f prev)) = Some m /\
            forall p, m p = fs_of (restrict f (cm_tree c)) p.
Proof. exact consume_diff_apply. Qed.
Print Assumptions C20_consume_step_flip_free.

Theorem C20_language_flip_refuted :
  exists f prev c dt s,
    td_tree s = Some prev /\ tree_wfb prev = true /\ tree_wfb (cm_tree c) = true /\
    f_vendor f [] = false /\ changes_ok all_pass prev (cm_tree c) dt = true /\
    exists s' cs, td_consume f s c dt = Ok (s', cs) /\
      ~ (exists m, apply_all cs (fs_of (restrict f prev)) = Some m /\
                   forall p, m p = fs_of (restrict f (cm_tree c)) p).
Proof. exact language_flip_refuted. Qed.
Print Assumptions C20_language_flip_refuted.

Theorem C20_language_flip_refuted_spurious :
  exists f prev c dt s,
    td_tree s = Some prev /\ tree_wfb prev = true /\ tree_wfb (cm_tree c) = true /\
    f_vendor f [] = false /\ changes_ok all_pass prev (cm_tree c) dt = true /\
    exists s' cs, td_consume f s c dt = Ok (s', cs) /\
      apply_all cs (fs_of (restrict f prev)) = None.
Proof. exact language_flip_refuted_spurious. Qed.
Print Assumptions C20_language_flip_refuted_spurious.

(* the candidate repair (judge the language of both sides of a modification; a disagreement becomes a
   deletion or an insertion - [filter_diffs_fixed], coq/theories/TreeDiff/FixedFilter.v) satisfies the
   full statement: no hypothesis on the language detection is left.  This is a statement about the
   proposed patch, not about the code in /repo. *)
Theorem C20_candidate_fix_sound : forall f prev cur dt,
  tree_wfb prev = true -> tree_wfb cur = true -> f_vendor f [] = false ->
  changes_ok all_pass prev cur dt = true ->
  exists m, apply_all (filter_diffs_fixed f dt) (fs_of (restrict f prev)) = Some m /\
            forall p, m p = fs_of (restrict f cur) p.
Proof. exact fixed_step_apply. Qed.
Print Assumptions C20_candidate_fix_sound.

(* ---- the first commit of a branch reports every passing file as an addition ---- *)

Theorem C20_first_commit : forall f s c dt,
  td_tree s = None -> parent_ok s c = true ->
  (forall e, In e (cm_tree c) -> is_submodule e = false -> f_has_blob f (e_hash e) = true) ->
  tree_wfb (cm_tree c) = true -> f_vendor f [] = false ->
  td_consume f s c dt =
    Ok (mkTD (Some (cm_tree c)) (cm_hash c), map ins (restrict f (filter is_file (cm_tree c)))).
Proof. exact first_commit. Qed.
Print Assumptions C20_first_commit.

Theorem C20_first_commit_apply : forall f t, tree_wfb t = true ->
  exists m, apply_all (map ins (restrict f t)) (fun _ => None) = Some m /\
            forall p, m p = fs_of (restrict f t) p.
Proof. exact first_commit_apply. Qed.
Print Assumptions C20_first_commit_apply.

(* ---- every blob referenced by a reported change is in the returned cache with its exact bytes;
        objects that the store does not have (submodule entries) are empty placeholders ---- *)

Theorem C20_cache_covers : forall b s cs s' out,
  faithful (b_store b) (bc_cache s) ->
  bc_consume b s cs = Ok (s', out) ->
  (forall c e, In c cs -> side e c ->
     exists cb, aget out (e_hash e) = Some cb /\ cb_data cb = bytes (b_store b) (e_hash e)) /\
  faithful (b_store b) (bc_cache s') /\ bc_log s' = bc_log s.
Proof. exact cache_covers. Qed.
Print Assumptions C20_cache_covers.

Theorem C20_cache_submodule_empty : forall b s cs s' out c e,
  faithful (b_store b) (bc_cache s) ->
  bc_consume b s cs = Ok (s', out) -> In c cs -> side e c -> b_store b (e_hash e) = None ->
  exists cb, aget out (e_hash e) = Some cb /\ cb_data cb = [].
Proof. exact cache_submodule_empty. Qed.
Print Assumptions C20_cache_submodule_empty.

(* the hypothesis [faithful] of the two theorems above holds in every reachable state *)
Theorem C20_cache_invariant_reachable : forall f store ops,
  Forall (op_store store) ops -> inv store (fold_left (run_op f) ops [br_zero]).
Proof. exact inv_reachable. Qed.
Print Assumptions C20_cache_invariant_reachable.

(* and a change list whose blobs all exist is never refused in the default submodule mode *)
Theorem C20_cache_no_refusal : forall b s cs, b_fail_missing b = false ->
  integral b cs -> well_shaped cs -> exists r, bc_consume b s cs = Ok r.
Proof. exact cache_no_refusal. Qed.
Print Assumptions C20_cache_no_refusal.

(* ... and in EITHER submodule mode, for every state of the rotating cache: a change list is never refused when every
   blob it references is available in the environment of the commit being consumed - the object is in the store, or the
   entry is a submodule entry and (FailOnMissingSubmodules is off or the path is a submodule name of THIS commit's parsed
   .gitmodules); the old side of a deletion only needs a readable .gitmodules.  [integral_b] (extracted) is the domain on
   which the check reports an error or a panic of the implementation's BlobCache.Consume as a violation. *)
Theorem C20_cache_no_refusal_strict : forall b s cs, integral_b b cs = true ->
  exists r, bc_consume b s cs = Ok r.
Proof. exact cache_no_refusal_strict. Qed.
Print Assumptions C20_cache_no_refusal_strict.

Example C20_example_strict_domain :
  let b := mkB (fun h => if h =? 1 then Some [65] else None) true (Some [[108; 105; 98]]) in
  integral_b b [mkC None (Some (mkE [108; 105; 98] 9 mode_submodule)); mkC (Some (mkE [97] 1 33188)) None] = true /\
  integral_b b [mkC None (Some (mkE [46; 99; 105] 9 mode_submodule))] = false.
Proof. exact integral_b_strict_example. Qed.

(* ---- forked branches are private (isolation holds by construction in the model; that the Go
        clones share nothing mutable is carried by the correspondence check, which compares every
        branch with its own model state after every step) ---- *)

Theorem C20_fork_private : forall f bs i c dt b j, j <> i ->
  nth_error (run_op f bs (OConsume i c dt b)) j = nth_error bs j.
Proof. exact fork_private. Qed.
Print Assumptions C20_fork_private.

Theorem C20_fork_copies : forall f bs i n br, nth_error bs i = Some br ->
  run_op f bs (OFork i n) = bs ++ repeat (mkBr (br_td br) (mkBC (bc_cache (br_bc br)) false)) n.
Proof. exact fork_copies. Qed.
Print Assumptions C20_fork_copies.

(* ---- non-vacuity ---- *)

Definition ex_cfg : fcfg :=
  mkF [[118; 47]] (fun _ => false) true (fun p => negb (path_eqb p [122])) false (fun p h => negb (h =? 9)) (fun _ => true).
Definition ex_a1 := mkE [97] 1 33188.          (* a, blob 1 *)
Definition ex_a2 := mkE [97] 2 33261.          (* a, blob 2, executable *)
Definition ex_b := mkE [100; 47; 98] 1 33188.  (* d/b, the same blob as a *)
Definition ex_v := mkE [118; 47; 120] 3 33188. (* v/x: skipped prefix *)
Definition ex_z := mkE [122] 4 33188.          (* z: name filter *)
Definition ex_s1 := mkE [115] 7 57344.         (* s: submodule entry *)
Definition ex_s2 := mkE [115] 8 57344.
Definition ex_prev := [ex_a1; ex_b; ex_v; ex_s1].
Definition ex_cur := [ex_a2; ex_v; ex_z; ex_s2; mkE [110] 5 33188].
Definition ex_dt := [mkC (Some ex_a1) (Some ex_a2); del ex_b; ins (mkE [110] 5 33188); mkC (Some ex_s1) (Some ex_s2); ins ex_z].
Definition ex_c := mkCommit 20 [10; 11] ex_cur.
Definition ex_s := mkTD (Some ex_prev) 10.

Example C20_example_step :
  tree_wfb ex_prev = true /\ tree_wfb ex_cur = true /\ f_vendor ex_cfg [] = false /\
  flip_free ex_cfg ex_prev ex_cur = true /\ changes_ok all_pass ex_prev ex_cur ex_dt = true /\
  td_consume ex_cfg ex_s ex_c ex_dt =
    Ok (mkTD (Some ex_cur) 20, [mkC (Some ex_a1) (Some ex_a2); del ex_b; ins (mkE [110] 5 33188); mkC (Some ex_s1) (Some ex_s2)]).
Proof. vm_compute. repeat split; reflexivity. Qed.

Example C20_example_refusal :
  td_consume ex_cfg (mkTD (Some ex_prev) 12) ex_c ex_dt = Err EParent /\
  td_consume ex_cfg (mkTD None 0) ex_c [] =
    Ok (mkTD (Some ex_cur) 20, [ins ex_a2; ins (mkE [110] 5 33188)]).
Proof. vm_compute. split; reflexivity. Qed.

Definition ex_store (h : N) : option (list N) :=
  match h with 1 => Some [1; 2; 3] | 2 => Some [4] | 5 => Some [] | _ => None end.
Definition ex_env := mkB ex_store false None.

Example C20_example_cache :
  bc_consume ex_env (mkBC [(1, mkCB 1 [1; 2; 3])] true) [mkC (Some ex_a1) (Some ex_a2); del ex_b; mkC (Some ex_s1) (Some ex_s2)]
  = Ok (mkBC [(2, mkCB 2 [4]); (8, mkCB 8 [])] true,
        [(2, mkCB 2 [4]); (1, mkCB 1 [1; 2; 3]); (8, mkCB 8 []); (7, mkCB 7 [])]).
Proof. vm_compute. reflexivity. Qed.
