(* C09 - model of how Pipeline.Run executes a plan with Hibernate / Boot actions
   (internal/core/pipeline.go Run, leaves/burndown.go Hibernate/Boot, the allocator's
   Hibernate/Boot/Serialize/Deserialize seen through an abstract interface).

   Definitions only.  The analysis item is abstract (record [ops]): its awake state [S], the
   compressed arena [H], what stays in memory once the arena was written to disk [K], the bytes of
   the temp file.  The theorems (Proofs.v) assume about these operations exactly what C06 proves of
   the allocator (boot after hibernate is the identity, the file format round-trips and detects
   every truncation to a proper prefix).  The file system is an association list name -> bytes;
   every I/O operation may fail as decided by an oracle, and an adversary may remove or truncate
   files before every plan step. *)
From Coq Require Import List ZArith Bool NArith.
Import ListNotations.
Open Scope Z_scope.

(* ---------------------------------------------------------------------------------------- *)
(* results *)

Inductive pclass :=
| PUseHibernated      (* Consume / Fork / Merge / Finalize reached a hibernated item *)
| PDoubleHibernate    (* "cannot hibernate an already hibernated Allocator" *)
| PSerializeAwake     (* "serialization requires the hibernated state" (defect F6, now guarded) *)
| PUndefined          (* the plan refers to a branch that does not exist: outside the model *)
| PItem (n : N).      (* a panic of the analysis itself *)

Inductive eclass :=
| ECreate | EClose | EWrite     (* Hibernate: ioutil.TempFile, file.Close, Serialize *)
| EOpen | ERead | ERemove       (* Boot: os.Open, reading / short read, os.Remove *)
| ENameCollision                (* the oracle proposed an existing name: TempFile never does *)
| EItem (n : N).                (* an error returned by Consume *)

Inductive result (A : Type) :=
| Ok (a : A)
| Panic (c : pclass)
| Err (e : eclass).
Arguments Ok {A} a.
Arguments Panic {A} c.
Arguments Err {A} e.

Definition io_err (e : eclass) : bool :=
  match e with
  | ECreate | EClose | EWrite | EOpen | ERead | ERemove => true
  | ENameCollision | EItem _ => false
  end.

(* ---------------------------------------------------------------------------------------- *)
(* plans: runAction of forks.go; Items is non-empty by construction (Run indexes Items[0] of every
   action), Commit / Emerge / Delete use Items[0] only *)

Notation branch := Z (only parsing).
Notation name := N (only parsing).

Inductive action :=
| ACommit (b : branch) (c : N)                 (* c: index of the commit *)
| AFork (b : branch) (news : list branch)      (* Items = b :: news *)
| AMerge (b : branch) (others : list branch)   (* Items = b :: others *)
| AEmerge (b : branch)
| ADelete (b : branch)
| AHibernate (b : branch) (others : list branch)
| ABoot (b : branch) (others : list branch).

Definition is_hb (a : action) : bool :=
  match a with AHibernate _ _ | ABoot _ _ => true | _ => false end.

(* the plan without hibernation *)
Definition erase_hb (p : list action) : list action := filter (fun a => negb (is_hb a)) p.

Definition root_branch : branch := 1.   (* rootBranchIndex *)

(* ---------------------------------------------------------------------------------------- *)
(* finite tables keyed by branch number (Go: map[int][]PipelineItem); [tset] keeps the position of an
   existing key and appends a new one, so that tables that receive the same updates keep the same
   key list *)

Section Tables.
  Context {V : Type}.
  Fixpoint tget (b : branch) (l : list (branch * V)) : option V :=
    match l with
    | [] => None
    | (x, v) :: l' => if Z.eqb x b then Some v else tget b l'
    end.
  Fixpoint tset (b : branch) (v : V) (l : list (branch * V)) : list (branch * V) :=
    match l with
    | [] => [(b, v)]
    | (x, w) :: l' => if Z.eqb x b then (b, v) :: l' else (x, w) :: tset b v l'
    end.
  Fixpoint tdel (b : branch) (l : list (branch * V)) : list (branch * V) :=
    match l with
    | [] => []
    | (x, w) :: l' => if Z.eqb x b then tdel b l' else (x, w) :: tdel b l'
    end.
  Fixpoint tset_all (l : list (branch * V)) (upd : list (branch * V)) : list (branch * V) :=
    match upd with
    | [] => l
    | (b, v) :: upd' => tset_all (tset b v l) upd'
    end.
End Tables.

(* getMasterBranch: the smallest key *)
Fixpoint min_key (ks : list branch) : option branch :=
  match ks with
  | [] => None
  | k :: ks' => match min_key ks' with None => Some k | Some m => Some (Z.min k m) end
  end.

(* ---------------------------------------------------------------------------------------- *)
(* the abstract analysis item *)

Record ops (S H K R byte : Type) := {
  size : S -> Z;                        (* fileAllocator.Size() *)
  compress : S -> H;                    (* Allocator.Hibernate when it does hibernate *)
  decompress : H -> S;                  (* Allocator.Boot *)
  strip : H -> K;                       (* what Serialize leaves in memory (hibernatedData := nil) *)
  encode : H -> list byte;              (* the bytes Serialize writes *)
  decode : K -> list byte -> option H;  (* Deserialize of these bytes into the stripped item *)
  consume : N -> N -> bool -> S -> result S;   (* commit, DependencyIndex, DependencyIsMerge *)
  clone : S -> S;                       (* one clone made by Fork *)
  merge : list S -> result (list S);    (* Merge updates every branch handed to it *)
  finalize : S -> result R;
  init : S                              (* the item after Initialize *)
}.
Arguments size {S H K R byte}.
Arguments compress {S H K R byte}.
Arguments decompress {S H K R byte}.
Arguments strip {S H K R byte}.
Arguments encode {S H K R byte}.
Arguments decode {S H K R byte}.
Arguments consume {S H K R byte}.
Arguments clone {S H K R byte}.
Arguments merge {S H K R byte}.
Arguments finalize {S H K R byte}.
Arguments init {S H K R byte}.

(* the state of the item of one branch *)
Inductive ist (S H K : Type) :=
| Awake (s : S)
| HibMem (h : H)                  (* arena compressed in memory *)
| HibDisk (k : K) (n : name).     (* arena in the temp file n (hibernatedFileName) *)
Arguments Awake {S H K} s.
Arguments HibMem {S H K} h.
Arguments HibDisk {S H K} k n.

(* ---------------------------------------------------------------------------------------- *)
(* file system, oracle, adversary *)

Section FS.
  Context {byte : Type}.
  Notation fsys := (list (name * list byte)).
  Fixpoint fs_get (n : name) (fs : fsys) : option (list byte) :=
    match fs with
    | [] => None
    | (m, bs) :: fs' => if N.eqb m n then Some bs else fs_get n fs'
    end.
  Definition fs_mem (n : name) (fs : fsys) : bool :=
    match fs_get n fs with Some _ => true | None => false end.
  Fixpoint fs_remove (n : name) (fs : fsys) : fsys :=
    match fs with
    | [] => []
    | (m, bs) :: fs' => if N.eqb m n then fs_remove n fs' else (m, bs) :: fs_remove n fs'
    end.
  (* overwrite the content of an existing file, or create it *)
  Fixpoint fs_write (n : name) (bs : list byte) (fs : fsys) : fsys :=
    match fs with
    | [] => [(n, bs)]
    | (m, old) :: fs' => if N.eqb m n then (n, bs) :: fs' else (m, old) :: fs_write n bs fs'
    end.

  (* what the adversary may do to a file between two plan steps *)
  Inductive tamper :=
  | TRemove (n : name)
  | TTrunc (n : name) (k : nat).    (* keep the first k bytes (no effect if the file is shorter) *)

  Definition apply_tamper (fs : fsys) (t : tamper) : fsys :=
    match t with
    | TRemove n => fs_remove n fs
    | TTrunc n k => map (fun e : name * list byte => if N.eqb (fst e) n then (fst e, firstn k (snd e)) else e) fs
    end.
  Definition apply_tampers (fs : fsys) (ts : list tamper) : fsys := fold_left apply_tamper ts fs.
End FS.

Inductive io_res := IoOk | IoFail (stage : nat).
(* one entry is consumed by every Hibernate that goes to disk and by every Boot that reads a file.
   Hibernate: stage 0 = TempFile fails, 1 = Close fails, 2 = os.Create in Serialize fails,
   3+k = a write fails after k bytes.  Boot: stage 0 = os.Open fails, 1 = a read fails,
   >= 2: os.Remove fails. *)
Record io_choice := { io_name : name; io_result : io_res }.

Record config := { thr : Z; disk : bool }.   (* HibernationThreshold, HibernationToDisk *)

(* what the run does to the items and the directory, for the correspondence check *)
Inductive event :=
| EvHibStay (b : branch) (sz : Z)             (* arena empty or below the threshold: stays awake *)
| EvHibMem (b : branch) (sz : Z)
| EvHibDisk (b : branch) (sz : Z) (n : name) (len : nat)
| EvHibFail (b : branch) (sz : Z) (e : eclass)
| EvBootNop (b : branch)
| EvBootMem (b : branch)
| EvBootDisk (b : branch) (n : name)
| EvBootFail (b : branch) (n : name) (e : eclass).

Section Run.
  Context {S H K R byte : Type}.
  Variable o : ops S H K R byte.
  Notation fsys := (list (name * list byte)).
  Notation item := (ist S H K).

  Record rstate := {
    br : list (branch * item);    (* branches *)
    fs : fsys;                    (* the hibernation directory *)
    nio : nat;                    (* oracle entries consumed *)
    cidx : N;                     (* commitIndex *)
    evs : list event              (* newest first *)
  }.

  Definition with_br (st : rstate) (b : list (branch * item)) : rstate :=
    {| br := b; fs := fs st; nio := nio st; cidx := cidx st; evs := evs st |}.
  Definition with_fs (st : rstate) (f : fsys) : rstate :=
    {| br := br st; fs := f; nio := nio st; cidx := cidx st; evs := evs st |}.
  Definition tick_io (st : rstate) : rstate :=
    {| br := br st; fs := fs st; nio := Datatypes.S (nio st); cidx := cidx st; evs := evs st |}.
  Definition next_commit (st : rstate) : rstate :=
    {| br := br st; fs := fs st; nio := nio st; cidx := N.succ (cidx st); evs := evs st |}.
  Definition log (st : rstate) (e : event) : rstate :=
    {| br := br st; fs := fs st; nio := nio st; cidx := cidx st; evs := e :: evs st |}.

  Variable cfg : config.
  Variable io : nat -> io_choice.
  Variable adv : nat -> list tamper.

  (* ------------------------------------------------------------------------------------ *)
  (* BurndownAnalysis.Hibernate (with Allocator.Hibernate and Serialize) on the item of branch b *)
  Definition hibernate_item (b : branch) (st : rstate) (it : item) : result item * rstate :=
    match it with
    | HibMem _ | HibDisk _ _ => (Panic PDoubleHibernate, st)
    | Awake s =>
        let sz := size o s in
        (* Allocator.Hibernate: returns early below the threshold and for an empty arena *)
        let it1 : item := if (sz <? thr cfg) || (sz =? 0) then Awake s else HibMem (compress o s) in
        (* the guard of BurndownAnalysis.Hibernate (fix of F6) *)
        if disk cfg && (0 <? sz) && (thr cfg <=? sz) then
          let c := io (nio st) in
          let st1 := tick_io st in
          match io_result c with
          | IoFail O => (Err ECreate, log st1 (EvHibFail b sz ECreate))
          | r =>
              if fs_mem (io_name c) (fs st1) then (Err ENameCollision, st1) else
              let st2 := with_fs st1 ((io_name c, []) :: fs st1) in    (* ioutil.TempFile *)
              match r with
              | IoFail 1 => (Err EClose, log st2 (EvHibFail b sz EClose))
              | _ =>
                  match it1 with
                  | HibMem h =>
                      match r with
                      | IoFail 2 => (Err EWrite, log st2 (EvHibFail b sz EWrite))
                      | IoFail (Datatypes.S (Datatypes.S (Datatypes.S k))) =>
                          (Err EWrite, log (with_fs st2 (fs_write (io_name c) (firstn k (encode o h)) (fs st2)))
                                           (EvHibFail b sz EWrite))
                      | _ =>
                          (Ok (HibDisk (strip o h) (io_name c)),
                           log (with_fs st2 (fs_write (io_name c) (encode o h) (fs st2)))
                               (EvHibDisk b sz (io_name c) (length (encode o h))))
                      end
                  | _ => (Panic PSerializeAwake, st2)   (* Serialize on an awake allocator *)
                  end
              end
          end
        else
          match it1 with
          | Awake _ => (Ok it1, log st (EvHibStay b sz))
          | _ => (Ok it1, log st (EvHibMem b sz))
          end
    end.

  (* BurndownAnalysis.Boot (with Deserialize, os.Remove, Allocator.Boot) *)
  Definition boot_item (b : branch) (st : rstate) (it : item) : result item * rstate :=
    match it with
    | Awake s => (Ok (Awake s), log st (EvBootNop b))      (* no file name, allocator not hibernated *)
    | HibMem h => (Ok (Awake (decompress o h)), log st (EvBootMem b))
    | HibDisk k n =>
        let c := io (nio st) in
        let st1 := tick_io st in
        match io_result c, fs_get n (fs st1) with
        | IoFail O, _ | _, None => (Err EOpen, log st1 (EvBootFail b n EOpen))
        | IoFail 1, _ => (Err ERead, log st1 (EvBootFail b n ERead))
        | r, Some bytes =>
            match decode o k bytes with
            | None => (Err ERead, log st1 (EvBootFail b n ERead))   (* EOF / incomplete read *)
            | Some h =>
                match r with
                | IoFail _ => (Err ERemove, log st1 (EvBootFail b n ERemove))
                | IoOk => (Ok (Awake (decompress o h)),
                           log (with_fs st1 (fs_remove n (fs st1))) (EvBootDisk b n))
                end
            end
        end
    end.

  (* the Hibernate / Boot action: every listed branch in turn, stopping at the first failure *)
  Fixpoint for_branches (f : branch -> rstate -> item -> result item * rstate)
           (bs : list branch) (st : rstate) : result unit * rstate :=
    match bs with
    | [] => (Ok tt, st)
    | b :: bs' =>
        match tget b (br st) with
        | None => (Panic PUndefined, st)
        | Some it =>
            match f b st it with
            | (Ok it', st') => for_branches f bs' (with_br st' (tset b it' (br st')))
            | (Panic c, st') => (Panic c, st')
            | (Err e, st') => (Err e, st')
            end
        end
    end.

  (* every other action needs the awake item *)
  Definition get_awake (st : rstate) (b : branch) : result S :=
    match tget b (br st) with
    | None => Panic PUndefined
    | Some (Awake s) => Ok s
    | Some _ => Panic PUseHibernated
    end.

  Fixpoint get_awakes (st : rstate) (bs : list branch) : result (list S) :=
    match bs with
    | [] => Ok []
    | b :: bs' =>
        match get_awake st b with
        | Ok s => match get_awakes st bs' with
                  | Ok ss => Ok (s :: ss)
                  | Panic c => Panic c
                  | Err e => Err e
                  end
        | Panic c => Panic c
        | Err e => Err e
        end
    end.

  (* isMerge of Run: the nearest action before (down to index 1, never index 0) and after the
     commit, skipping Hibernate / Boot actions, is a commit action with the same hash *)
  Fixpoint near_match (l : list action) (c : N) : bool :=
    match l with
    | [] => false
    | AHibernate _ _ :: l' | ABoot _ _ :: l' => near_match l' c
    | ACommit _ c' :: _ => N.eqb c' c
    | _ :: _ => false
    end.
  (* [done] holds the executed actions, newest first; its last element is plan[0] *)
  Definition is_merge (done rest : list action) (c : N) : bool :=
    near_match (removelast done) c || near_match rest c.

  (* one iteration of the loop over the plan; [done] / [rest] are the actions before / after [a] *)
  Definition step (done rest : list action) (a : action) (st0 : rstate) : result unit * rstate :=
    let st := with_fs st0 (apply_tampers (fs st0) (adv (length done))) in
    match a with
    | ACommit b c =>
        match get_awake st b with
        | Ok s =>
            match consume o c (cidx st) (is_merge done rest c) s with
            | Ok s' => (Ok tt, next_commit (with_br st (tset b (Awake s') (br st))))
            | Panic p => (Panic p, st)
            | Err e => (Err e, st)
            end
        | Panic p => (Panic p, st)
        | Err e => (Err e, st)
        end
    | AFork b news =>
        match get_awake st b with
        | Ok s => (Ok tt, with_br st (tset_all (br st) (map (fun n => (n, Awake (clone o s))) news)))
        | Panic p => (Panic p, st)
        | Err e => (Err e, st)
        end
    | AMerge b others =>
        match get_awakes st (b :: others) with
        | Ok ss =>
            match merge o ss with
            | Ok ss' => (Ok tt, with_br st (tset_all (br st) (combine (b :: others) (map Awake ss'))))
            | Panic p => (Panic p, st)
            | Err e => (Err e, st)
            end
        | Panic p => (Panic p, st)
        | Err e => (Err e, st)
        end
    | AEmerge b =>
        (* the root branch runs on the deployed items, any other root on a clone of rootClone *)
        let s := if Z.eqb b root_branch then init o else clone o (clone o (init o)) in
        (Ok tt, with_br st (tset b (Awake s) (br st)))
    | ADelete b => (Ok tt, with_br st (tdel b (br st)))
    | AHibernate b others => for_branches hibernate_item (b :: others) st
    | ABoot b others => for_branches boot_item (b :: others) st
    end.

  Fixpoint exec (done rest : list action) (st : rstate) : result unit * rstate :=
    match rest with
    | [] => (Ok tt, st)
    | a :: rest' =>
        match step done rest' a st with
        | (Ok _, st') => exec (a :: done) rest' st'
        | (Panic c, st') => (Panic c, st')
        | (Err e, st') => (Err e, st')
        end
    end.

  (* Finalize of the master branch (smallest index); no branch: no result *)
  Definition finish (st : rstate) : result (option R) :=
    match min_key (map fst (br st)) with
    | None => Ok None
    | Some b =>
        match get_awake st b with
        | Ok s => match finalize o s with
                  | Ok r => Ok (Some r)
                  | Panic c => Panic c
                  | Err e => Err e
                  end
        | Panic c => Panic c
        | Err e => Err e
        end
    end.

  Definition start (fs0 : fsys) : rstate := {| br := []; fs := fs0; nio := 0; cidx := 0%N; evs := [] |}.

  Definition run (p : list action) (fs0 : fsys) : result (option R) * rstate :=
    match exec [] p (start fs0) with
    | (Ok _, st) => (finish st, st)
    | (Panic c, st) => (Panic c, st)
    | (Err e, st) => (Err e, st)
    end.
End Run.

(* ---------------------------------------------------------------------------------------- *)
(* the lifecycle predicate of C04, executable: every action refers to branches that exist and are
   in the right state (absent -> live <-> hibernated -> absent), nothing sleeps at the end.
   The status table maps a branch to "hibernated?". *)

Fixpoint nodupb (l : list branch) : bool :=
  match l with
  | [] => true
  | x :: l' => negb (existsb (Z.eqb x) l') && nodupb l'
  end.

Definition live (stt : list (branch * bool)) (b : branch) : bool :=
  match tget b stt with Some false => true | _ => false end.
Definition asleep (stt : list (branch * bool)) (b : branch) : bool :=
  match tget b stt with Some true => true | _ => false end.
Definition absent (stt : list (branch * bool)) (b : branch) : bool :=
  match tget b stt with None => true | _ => false end.

Fixpoint lifecycle (stt : list (branch * bool)) (p : list action) : bool :=
  match p with
  | [] => forallb (fun e : branch * bool => negb (snd e)) stt
  | a :: p' =>
      match a with
      | ACommit b _ => live stt b && lifecycle stt p'
      | AFork b news =>
          live stt b && nodupb news && forallb (absent stt) news &&
          lifecycle (tset_all stt (map (fun n => (n, false)) news)) p'
      | AMerge b others =>
          nodupb (b :: others) && forallb (live stt) (b :: others) && lifecycle stt p'
      | AEmerge b => absent stt b && lifecycle (tset b false stt) p'
      | ADelete b => live stt b && lifecycle (tdel b stt) p'
      | AHibernate b others =>
          nodupb (b :: others) && forallb (live stt) (b :: others) &&
          lifecycle (tset_all stt (map (fun n => (n, true)) (b :: others))) p'
      | ABoot b others =>
          nodupb (b :: others) && forallb (asleep stt) (b :: others) &&
          lifecycle (tset_all stt (map (fun n => (n, false)) (b :: others))) p'
      end
  end.

Definition lifecycle_ok_h (p : list action) : bool := lifecycle [] p.
