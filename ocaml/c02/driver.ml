(* C02: every plan the real planner produced is validated by the extracted, proved-sound [plan_ok]
   (theorem C02_checker_sound).  There is no Gallina mirror of the planner: a rejected plan is a
   property failure (translation validation), never a mere mismatch.

   Mode [run] (driver argument, stream c02run): the log of the Consume calls of the real Pipeline.Run
   (one log per recording item) is judged against the commit graph alone by the extracted,
   proved-sound [exec_ok] (theorem C02_exec_checker_sound).  A rejected log, a panic or an error of
   Run is a property failure. *)
open C02_model
open Conv

let action_of_sx (s : sx) : action =
  let k = match tag s with
    | "C" -> KCommit | "F" -> KFork | "M" -> KMerge | "E" -> KEmerge
    | "D" -> KDelete | "H" -> KHibernate | "B" -> KBoot
    | t -> failwith ("unknown action " ^ t) in
  match args s with
  | c :: its ->
      let c = int_of_sx c in
      { kind = k; commit = (if c >= 0 then Some (nat_of_int c) else None);
        items = List.map (fun x -> z_of_int (int_of_sx x)) its }
  | [] -> failwith "action without commit field"

let graph_of_case (c : sx) : nat list list =
  let n = int_of_sx (List.hd (args (field "n" c))) in
  let ps = Array.make n [] in
  List.iter (fun e -> match list_of_sx e with
    | [ch; p] -> let ch = int_of_sx ch and p = int_of_sx p in
        if p >= 0 then ps.(ch) <- p :: ps.(ch)
    | _ -> failwith "edge") (args (field "edges" c));
  Array.to_list (Array.map (fun l -> List.map nat_of_int (List.rev l)) ps)

let add k n = Hashtbl.replace counters k (n + try Hashtbl.find counters k with Not_found -> 0)

(* (r commit last seen...) ; last = -1: the instance had consumed nothing *)
let record_of_sx (s : sx) : consume_record =
  match args s with
  | c :: l :: seen ->
      let c = int_of_sx c and l = int_of_sx l in
      if c < 0 then failwith "record of a commit outside the analysed set";
      { rc_commit = nat_of_int c; rc_seen = List.map (fun x -> nat_of_int (int_of_sx x)) seen;
        rc_last = (if l >= 0 then Some (nat_of_int l) else None) }
  | _ -> failwith "record"

let show_log (l : sx) : string =
  let s = string_of_sx l in if String.length s > 600 then String.sub s 0 600 ^ "..." else s

(* ---------- large plans: the fast validator (FastPlan.v, C02_fast_necessary) ---------- *)

let faction_of_sx (s : sx) : faction =
  let k = match tag s with
    | "C" -> KCommit | "F" -> KFork | "M" -> KMerge | "E" -> KEmerge
    | "D" -> KDelete | "H" -> KHibernate | "B" -> KBoot
    | t -> failwith ("unknown action " ^ t) in
  match args s with
  | c :: its ->
      let c = int_of_sx c in
      { fkind = k; fcommit = (if c >= 0 then Some (n_of_int c) else None);
        fitems = List.rev (List.rev_map (fun x -> z_of_int (int_of_sx x)) its) }
  | [] -> failwith "action without commit field"

let fplan_of (p : sx) : faction list = List.rev (List.rev_map faction_of_sx (args p))

(* parent table -> the [par] argument of fast_c02 *)
let par_of_array (ps : int list array) : n -> n list =
  let tab = Array.map (fun l -> List.map n_of_int l) ps in
  fun c -> let i = int_of_n c in if i >= 0 && i < Array.length tab then tab.(i) else []

(* diagnosis only (the verdict is fast_c02): the first action the per-action test rejects *)
let first_reject par (p : faction list) : string =
  let rec go k m = function
    | [] -> "no single action is rejected"
    | a :: r ->
        if fc02_chk par m a then go (k + 1) (fstep m a) r
        else begin
          let show b = match fget m b with
            | None -> "does not exist" | Some (FLive, Some c) -> Printf.sprintf "is live, analysed %d last" (int_of_n c)
            | Some (FLive, None) -> "is live and fresh" | Some (FHib, _) -> "is hibernated" | Some (FDisp, _) -> "has been disposed" in
          let its = String.concat " " (List.map (fun b -> string_of_int (int_of_z b)) a.fitems) in
          match a.fkind, a.fcommit, a.fitems with
          | KCommit, Some c, b :: _ ->
              Printf.sprintf "action %d: commit %d is replayed on branch %d which %s (parents of the commit: %s)" k (int_of_n c) (int_of_z b)
                (show b) (String.concat " " (List.map (fun q -> string_of_int (int_of_n q)) (par c)))
          | KMerge, _, _ ->
              Printf.sprintf "action %d: merge [%s]%s: %s" k (if String.length its > 200 then String.sub its 0 200 ^ "..." else its)
                (if fnodup a.fitems then "" else " lists a branch twice")
                (String.concat "; " (List.filteri (fun i _ -> i < 12) (List.map (fun b -> Printf.sprintf "%d %s" (int_of_z b) (show b)) a.fitems)))
          | _ -> Printf.sprintf "action %d" k
        end in
  go 0 finit p

(* a large run: the call log of the light recording item read as a plan over instance ids (root = emerge, Fork = fork
   onto the clones, Consume = commit, Merge = merge of the receiver and its arguments), judged by fast_c02 against the
   commit graph: every Consume on a live instance whose last commit is a parent of the commit (or a fresh instance for a
   commit without parents), merges of distinct instances that consumed the same commit last; and every commit consumed *)
let faction_of_event (e : sx) : faction =
  let z x = z_of_int (int_of_sx x) in
  match tag e, args e with
  | "root", [i] -> { fkind = KEmerge; fcommit = None; fitems = [z i] }
  | "fork", [s; ts] -> { fkind = KFork; fcommit = None; fitems = z s :: List.map z (list_of_sx ts) }
  | "con", [i; c] ->
      let c = int_of_sx c in
      if c < 0 then failwith "Consume of a commit outside the analysed set";
      { fkind = KCommit; fcommit = Some (n_of_int c); fitems = [z i] }
  | "merge", [i; os] -> { fkind = KMerge; fcommit = None; fitems = z i :: List.map z (list_of_sx os) }
  | _ -> failwith ("unknown event " ^ string_of_sx e)

let scale_run id c =
  let ps = Array.map ints_of_sx (Array.of_list (args (field "graph" c))) in
  let par = par_of_array ps in
  let obs = field "obs" c in
  let status = atom (List.hd (args (field "run" obs))) in
  count "runs"; count "scale_runs";
  if status <> "ok" then propfail id ("Pipeline.Run did not complete on a large commit graph: " ^ status)
  else begin
    let plan = List.rev (List.rev_map faction_of_event (args (field "log" obs))) in
    count "logs_judged"; add "scale_calls_judged" (List.length plan);
    let ninst = List.fold_left (fun m a -> List.fold_left (fun m b -> max m (int_of_z b)) m a.fitems) 0 plan in
    if ninst >= 65536 then count "scale_runs_with_65536_instances";
    let seen = Array.make (Array.length ps) false in
    List.iter (fun a -> match a.fkind, a.fcommit with
      | KCommit, Some c -> let i = int_of_n c in if i < Array.length seen then seen.(i) <- true
      | _ -> ()) plan;
    add "consume_records" (List.length (List.filter (fun a -> a.fkind = KCommit) plan));
    let missing = ref [] in
    Array.iteri (fun i b -> if not b then missing := i :: !missing) seen;
    if not (fast_c02 par plan) then
      propfail id ("the call log of the real Pipeline.Run on a large history is rejected by fast_c02 (instances as branches): " ^ first_reject par plan)
    else if !missing <> [] then
      propfail id (Printf.sprintf "Pipeline.Run on a large connected history never consumed %d of its commits, e.g. commit %d"
                     (List.length !missing) (List.hd (List.rev !missing)))
    else count "logs_accepted"
  end

(* ---------- object re-use: one Pipeline object (and the same item instances) run on several commit selections ----------
   Every run is judged like a run of a fresh pipeline: both Consume logs by exec_ok against the repository history
   RESTRICTED to the commits handed to that run (renumbered in ascending order, which keeps parents smaller; a parent
   outside the selection is a dangling edge).  A commit that was not handed to the run - consumed, or found in the
   state of an instance - is a property failure of its own: the run analysed something of an earlier run. *)
let reuse_case id c =
  let n = int_of_sx (List.hd (args (field "n" c))) in
  let ps = Array.make n [] in
  List.iter (fun e -> match list_of_sx e with
    | [ch; p] -> let ch = int_of_sx ch and p = int_of_sx p in
        if p >= 0 && ch >= 0 && ch < n then ps.(ch) <- p :: ps.(ch)
    | _ -> failwith "edge") (args (field "edges" c));
  let ps = Array.map List.rev ps in
  let sels = args (field "sels" c) in
  let runs = args (field "runs" (field "obs" c)) in
  if List.length sels <> List.length runs then failwith "reuse: sels and runs differ in length";
  count "reuse_cases";
  let prev = ref [] in
  List.iteri (fun k (sel, run) ->
    let mode, commits = (match args sel with
      | m :: _ :: _ :: cs -> (int_of_sx m, List.map int_of_sx cs) | _ -> failwith "sel") in
    let sorted = List.sort_uniq compare commits in
    let num = Hashtbl.create 16 in
    List.iteri (fun i c -> Hashtbl.replace num c i) sorted;
    let g = List.map (fun c -> List.filter_map (fun p -> match Hashtbl.find_opt num p with
        | Some i -> Some (nat_of_int i) | None -> None) ps.(c)) sorted in
    let status, logs = (match args run with
      | st :: logs -> (atom st, logs) | _ -> failwith "run") in
    count "runs"; count "reuse_runs";
    if mode >= 10 then begin
      (* error path: the run was made to fail half way; it is not judged (but for a panic), the runs after it are *)
      count "reuse_runs_made_to_fail";
      if status = "err" then count "reuse_runs_aborted_by_the_injected_failure";
      if status = "panic" then propfail id (Printf.sprintf "run #%d (made to fail at a Consume call): Pipeline.Run panicked" k)
    end else begin
    if k > 0 then begin
      count (Printf.sprintf "reuse_runs_mode_%d" mode);
      let p = !prev in
      if p <> commits && List.length p = List.length commits && p <> [] && List.hd p = List.hd commits
         && List.nth p (List.length p - 1) = List.nth commits (List.length commits - 1) then
        count "reuse_runs_same_length_and_ends_other_middle"
    end;
    prev := commits;
    let where = Printf.sprintf "run #%d of one Pipeline object (prepared by mode %d) over the commits [%s]" k mode
        (String.concat " " (List.map string_of_int commits)) in
    if status <> "ok" then propfail id (Printf.sprintf "%s: Pipeline.Run did not complete: %s" where status)
    else
      List.iter (fun l ->
        count "logs_judged";
        add "consume_records" (List.length (args l));
        (* translate the record into the numbering of the restricted history *)
        let stale = ref None in
        let tr x = match Hashtbl.find_opt num x with
          | Some i -> i | None -> (if !stale = None then stale := Some x); 0 in
        let recs = List.map (fun r -> match args r with
          | c :: l :: seen ->
              let c = int_of_sx c and l = int_of_sx l in
              let c' = if c < 0 then (stale := Some c; 0) else tr c in
              { rc_commit = nat_of_int c'; rc_seen = List.map (fun x -> nat_of_int (tr (int_of_sx x))) seen;
                rc_last = (if l >= 0 then Some (nat_of_int (tr l)) else None) }
          | _ -> failwith "record") (args l) in
        match !stale with
        | Some x ->
            propfail id (Printf.sprintf "%s: commit %d, which was not handed to this run, was analysed (consumed, or in the state of the consuming instance): %s=%s"
                           where x (tag l) (show_log l))
        | None ->
            if exec_ok g recs then count "logs_accepted"
            else propfail id (Printf.sprintf "%s: the Consume log is rejected by exec_ok against the history restricted to these commits: %s=%s"
                                where (tag l) (show_log l))) logs
    end)
    (List.combine sels runs)

(* large histories on one Pipeline object: run k was handed every commit but drops[k] (-1: all); each call log is read
   as a plan over instance ids and judged by fast_c02 against the history without that commit; every other commit must
   be consumed, the dropped one must not *)
let reuse_scale id c =
  let ps = Array.map ints_of_sx (Array.of_list (args (field "graph" c))) in
  let drops = List.map int_of_sx (args (field "drops" c)) in
  let runs = args (field "runs" (field "obs" c)) in
  if List.length drops <> List.length runs then failwith "reuse-big: drops and runs differ in length";
  count "reuse_cases";
  List.iteri (fun k (d, run) ->
    let where = Printf.sprintf "run #%d of one Pipeline object over a large history without commit %d" k d in
    let status, log = (match args run with [st; l] -> (atom st, l) | _ -> failwith "run") in
    count "runs"; count "scale_runs"; count "reuse_runs"; count "reuse_runs_large";
    if status <> "ok" then propfail id (Printf.sprintf "%s: Pipeline.Run did not complete: %s" where status)
    else begin
      let par = par_of_array (Array.mapi (fun i l -> if i = d then [] else List.filter (fun p -> p <> d) l) ps) in
      let plan = List.rev (List.rev_map faction_of_event (args log)) in
      count "logs_judged"; add "scale_calls_judged" (List.length plan);
      let seen = Array.make (Array.length ps) false in
      List.iter (fun a -> match a.fkind, a.fcommit with
        | KCommit, Some c -> let i = int_of_n c in if i < Array.length seen then seen.(i) <- true
        | _ -> ()) plan;
      add "consume_records" (List.length (List.filter (fun a -> a.fkind = KCommit) plan));
      let missing = ref [] in
      Array.iteri (fun i b -> if not b && i <> d then missing := i :: !missing) seen;
      if d >= 0 && d < Array.length seen && seen.(d) then
        propfail id (Printf.sprintf "%s: commit %d, which was not handed to this run, was consumed" where d)
      else if not (fast_c02 par plan) then
        propfail id (Printf.sprintf "%s: the call log is rejected by fast_c02 (instances as branches): %s" where (first_reject par plan))
      else if !missing <> [] then
        propfail id (Printf.sprintf "%s: %d of the commits handed to the run were never consumed, e.g. commit %d"
                       where (List.length !missing) (List.hd (List.rev !missing)))
      else count "logs_accepted"
    end) (List.combine drops runs)

let run_mode () =
  iter_cases (fun id c ->
    if field_opt "drops" c <> None then reuse_scale id c else
    if field_opt "sels" c <> None then reuse_case id c else
    if field_opt "shape" c <> None then scale_run id c else
    let g = graph_of_case c in
    let obs = field "obs" c in
    let status = atom (List.hd (args (field "run" obs))) in
    count "runs";
    (* round 4: what the values of the history are made of (the verdict does not depend on it) *)
    (match field_opt "tmode" c with
     | Some f -> let tm = int_of_sx (List.hd (args f)) in
         if tm mod 100 >= 7 then count "runs_with_commit_dates_in_the_future_or_at_the_ends_of_the_domain";
         if tm >= 100 then count "runs_with_zone_offsets_author_date_differing_and_odd_names"
     | None -> ());
    (match field_opt "twinhashes" obs with
     | Some f -> count "runs_with_twin_hashes";
         List.iter (fun t -> match list_of_sx t with
           | [_; _; k] -> let k = int_of_sx k in
               count (Printf.sprintf "twin_pairs_sharing_%s_hex_digits" (if k >= 8 then "8_or_more" else if k >= 5 then "5_to_7" else "1_to_4"))
           | _ -> ()) (args f)
     | None -> ());
    (* roots of the analysed component = Consume calls on an instance that had consumed nothing *)
    let roots = List.length (List.filter (fun r -> int_of_sx (List.nth (args r) 1) < 0) (args (field "log0" obs))) in
    count (Printf.sprintf "runs_with_%s_fresh_starts" (if roots >= 5 then "5plus" else string_of_int roots));
    if status <> "ok" then
      propfail id ("Pipeline.Run did not complete on a commit graph: " ^ status)
    else
      List.iter (fun name ->
        let l = field name obs in
        count "logs_judged";
        add "consume_records" (List.length (args l));
        let foreign = List.exists (fun r -> int_of_sx (List.hd (args r)) < 0) (args l) in
        if foreign then propfail id ("a commit outside the given commit set was consumed: " ^ name ^ "=" ^ show_log l)
        else if exec_ok g (List.map record_of_sx (args l)) then count "logs_accepted"
        else propfail id (Printf.sprintf "the Consume log of the real Pipeline.Run is rejected by exec_ok: %s=%s" name (show_log l)))
        ["log0"; "log1"])

let scale_case id c =
  let ps = Array.map ints_of_sx (Array.of_list (args (field "graph" c))) in
  let par = par_of_array ps in
  let obs = args (field "obs" c) in
  let plans = List.find (fun x -> tag x = "plans") obs in
  count "scale_graphs";
  match args plans with
  | [p] when tag p = "panic" ->
      propfail id ("the planner panicked (" ^ string_of_sx p ^ ") on a large commit graph")
  | pls ->
      List.iter (fun p ->
        let plan = fplan_of p in
        count "plans_produced"; count "plans_validated"; count "scale_plans_validated";
        add "scale_actions_validated" (List.length plan);
        let maxb = List.fold_left (fun m a -> List.fold_left (fun m b -> max m (int_of_z b)) m a.fitems) 0 plan in
        if maxb >= 65536 then count "scale_plans_with_branch_index_ge_65536";
        (* every commit of the (connected) history must be analysed at least once *)
        let seen = Array.make (Array.length ps) false in
        List.iter (fun a -> match a.fkind, a.fcommit with
          | KCommit, Some c -> let i = int_of_n c in if i < Array.length seen then seen.(i) <- true
          | _ -> ()) plan;
        let missing = ref [] in
        Array.iteri (fun i b -> if not b then missing := i :: !missing) seen;
        if fast_c02 par plan then begin
          if !missing <> [] then
            propfail id (Printf.sprintf "the plan of a large connected history does not analyse %d of its commits, e.g. commit %d"
                           (List.length !missing) (List.hd (List.rev !missing)))
          else count "plans_accepted"
        end else
          propfail id ("the plan of the real planner for a large history is rejected by fast_c02: " ^ first_reject par plan))
        pls

let plan_mode () =
  iter_cases (fun id c ->
    if field_opt "shape" c <> None then scale_case id c else
    let g = graph_of_case c in
    let obs = args (field "obs" c) in
    let mult = match List.filter (fun x -> tag x = "mult") obs with
      | m :: _ -> int_of_sx (List.hd (args m)) | [] -> 1 in
    let plans = List.find (fun x -> tag x = "plans") obs in
    add "graph_orders_or_plannings" mult;
    (match args plans with
     | [p] when tag p = "panic" ->
         propfail id ("the planner panicked (" ^ string_of_sx p ^ ") on a commit graph")
     | ps ->
         List.iteri (fun i p ->
           add "plans_produced" mult;
           count "plans_validated";
           let plan = List.map action_of_sx (args p) in
           (* the fast validator of the scale family runs on every small plan too: whatever plan_ok accepts it must
              accept (C02_fast_accepts_what_plan_ok_accepts) *)
           let par = par_of_array (Array.of_list (List.map (List.map int_of_nat) g)) in
           let fast = fast_c02 par (fplan_of p) in
           if plan_ok g plan then begin
             count "plans_accepted";
             if not fast then mismatch id ("fast_c02 rejects a plan that plan_ok accepts: " ^ string_of_sx p)
           end
           else propfail id (Printf.sprintf "plan #%d of the real planner is rejected by plan_ok: %s" (i + 1) (string_of_sx p)))
           ps))

let () =
  if Array.length Sys.argv > 1 && Sys.argv.(1) = "run" then run_mode () else plan_mode ()
