(* Composition C02 + C14 -> C12: the hypothesis [replay_ok] of C12 (LineStats/Model.v) - "the merge flag
   of a replay step says whether its commit is replayed more than once, and a commit is replayed at most
   once per parent" - derived from

     - C02's specification of validated plans (each commit is replayed once per non-redundant parent,
       Compose/PlanRun.v [spec_count]) and
     - C14's theorem about the flag Pipeline.Run hands to the items ([run_is_merge], through
       [run_is_merge_composed]),

   for the replay sequence of a COMPLETED run of the C14 interpreter ([ro_out = Done ..]; a run that is
   aborted between two replays of a merge commit has executed only one of them although both carry the
   flag, so [replay_ok] is a statement about completed runs). *)
From Coq Require Import List NArith ZArith Bool Arith Lia.
From Herc Require Import Pipeline.RunModel Pipeline.RunProofs Compose.PlanRun.
From Herc Require LineStats.Model LineStats.Once.
From Herc Require Plan.Syntax Plan.Spec Plan.Lifecycle Plan.CheckerSound.
Import ListNotations.

Module LM := Herc.LineStats.Model.
Module LO := Herc.LineStats.Once.

(* A replay step of C12 stands for a commit step of the run: same commit, the flag the run handed out,
   and commit.NumParents() is at least the number of parent entries of the commit in the analysed graph
   (the graph of C02 is the history restricted to the analysed commits).  Author, tick and tree changes
   are inputs of C12 that C14 does not speak about. *)
Definition step_matches {U} (g : list (list nat)) (s : LM.step) (cs : cstep U) : Prop :=
  LM.s_commit s = c_id (cs_commit cs) /\
  LM.s_ismerge s = cs_merge cs /\
  length (PS.parents g (N.to_nat (LM.s_commit s))) <= N.to_nat (LM.s_nparents s).

Definition cnt (h : N) (ids : list N) : nat := length (filter (fun x => N.eqb x h) ids).

Lemma hcount_cnt h q : hcount h q = cnt h (map fst (replays q)).
Proof.
  unfold hcount, cnt. induction (replays q) as [|p r IH]; [reflexivity|].
  cbn [filter map]. destruct (N.eqb (fst p) h); cbn [length]; rewrite IH; reflexivity.
Qed.

Lemma count_commit_cnt c l : LM.count_commit c l = N.of_nat (cnt c (map LM.s_commit l)).
Proof.
  unfold cnt. induction l as [|s r IH]; [reflexivity|].
  cbn [LM.count_commit map filter]. rewrite IH. destruct (N.eqb (LM.s_commit s) c); cbn [length]; lia.
Qed.

(* the commit steps of a run that executed the whole plan are the commit actions of the plan *)
Lemma csteps_replays {U} : forall (recs : list (srec U)) (q : list action),
  length recs = length q ->
  (forall i rc, nth_error recs i = Some rc -> exists a, nth_error q i = Some a /\
     match rc with
     | RCommit s => exists its, a = ACommit (cs_commit s) its
     | _ => is_commit a = false
     end) ->
  map (fun s => c_id (cs_commit s)) (csteps recs) = map fst (replays q).
Proof.
  induction recs as [|rc r IH]; intros q Hl H.
  - destruct q; [reflexivity|discriminate].
  - destruct q as [|a q']; [discriminate|]. cbn [length] in Hl. injection Hl as Hl.
    assert (IH' := IH q' Hl (fun i rc' Hn => H (S i) rc' Hn)).
    destruct (H 0 rc eq_refl) as [a0 [Ha Hm]]. cbn in Ha. injection Ha as <-.
    destruct rc as [s| | | | | |]; cbn [csteps].
    + destruct Hm as [its ->]. cbn [map replays fst]. rewrite IH'. reflexivity.
    + destruct a; [discriminate Hm|exact IH'].
    + destruct a; [discriminate Hm|exact IH'].
    + destruct a; [discriminate Hm|exact IH'].
    + destruct a; [discriminate Hm|exact IH'].
    + destruct a; [discriminate Hm|exact IH'].
    + destruct a; [discriminate Hm|exact IH'].
Qed.

Lemma csteps_in {U} (s : cstep U) recs : In s (csteps recs) -> In (RCommit s) recs.
Proof.
  induction recs as [|rc r IH]; [intros []|].
  destruct rc; cbn [csteps]; intro H; try (right; exact (IH H)).
  destruct H as [->|H]; [left; reflexivity|right; exact (IH H)].
Qed.

Lemma Forall2_in_l {A B} (R : A -> B -> Prop) l l' x :
  Forall2 R l l' -> In x l -> exists y, In y l' /\ R x y.
Proof.
  induction 1 as [|a b l l' Hab _ IH]; [intros []|].
  intros [->|H]; [exists b; split; [left; reflexivity|exact Hab]|].
  destruct (IH H) as [y [Hy Ry]]. exists y. split; [right; exact Hy|exact Ry].
Qed.

Lemma matches_ids {U} g (l : list LM.step) (l' : list (cstep U)) :
  Forall2 (step_matches g) l l' -> map LM.s_commit l = map (fun s => c_id (cs_commit s)) l'.
Proof.
  induction 1 as [|s cs r r' [E _] _ IH]; [reflexivity|]. cbn [map]. rewrite E, IH. reflexivity.
Qed.

Section Replay.
  Variables St U : Type.
  Variable sm : sem St U.
  Variable items : list item.
  Variable g : list (list nat).
  Variable q : list action.
  Variable nc : N.
  Hypothesis V : PL.c04_ok g (back_plan q) = true.
  Hypothesis Hc : head_carriesb q = true.

  Let out := run St U sm items q nc.

  Variables (fins : list (fincall U)) (sm' : summary).
  Hypothesis HD : ro_out out = Done fins sm'.

  Variable l : list LM.step.
  Hypothesis HL : Forall2 (step_matches g) l (csteps (ro_recs out)).

  Lemma replay_ids : map LM.s_commit l = map fst (replays q).
  Proof.
    destruct (run_done St U sm items q nc fins sm' HD) as [Hlen _].
    rewrite <- (csteps_replays (ro_recs out) q Hlen).
    - exact (matches_ids g _ _ HL).
    - intros i rc Hn. destruct (run_steps St U sm items q nc i rc Hn) as [a [Ha Hm]].
      exists a. split; [exact Ha|]. destruct rc; try exact Hm.
      destruct Hm as [its [E _]]. exists its. exact E.
  Qed.

  Theorem replay_ok_composed : LM.replay_ok l = true.
  Proof.
    unfold LM.replay_ok. apply forallb_forall. intros s Hs.
    destruct (Forall2_in_l _ _ _ _ HL Hs) as [cs [Hcs [E1 [E2 E3]]]].
    apply csteps_in in Hcs. destruct (In_nth_error _ _ Hcs) as [i Hn].
    destruct (run_is_merge_composed St U sm items g q nc V Hc i cs Hn) as [M _].
    destruct (validators_imply_predicates g q V) as [_ [_ [D _]]].
    rewrite (replay_branches_count q _ D) in M.
    destruct (run_steps St U sm items q nc i _ Hn) as [a [Ha [its [-> _]]]].
    assert (H1 : 1 <= hcount (c_id (cs_commit cs)) q).
    { apply hcount_pos_iff. exists (ACommit (cs_commit cs) its). split; [eapply nth_error_In; exact Ha|].
      cbn. apply N.eqb_refl. }
    destruct (c04_ok_parts _ _ V) as [_ PO].
    destruct (spec_count g q (PCS.checker_sound g _ PO) _ H1) as [Hmax _].
    rewrite count_commit_cnt, replay_ids, <- hcount_cnt, E1.
    rewrite <- E1 in Hmax at 2. rewrite E2.
    set (k := hcount (c_id (cs_commit cs)) q) in *.
    apply andb_true_iff. split.
    - destruct (cs_merge cs) eqn:Em.
      + assert (2 <= k) by (apply M; reflexivity). cbn [Bool.eqb].
        destruct (N.ltb_spec 1 (N.of_nat k)); [reflexivity|lia].
      + destruct (N.ltb_spec 1 (N.of_nat k)) as [Hlt|]; [|reflexivity].
        exfalso. assert (Hk : 2 <= k) by lia. apply M in Hk. discriminate.
    - apply N.leb_le. lia.
  Qed.

  (* C12_once with its hypothesis discharged *)
  Theorem devs_once_composed (cec : bool) :
    NoDup (map LM.s_commit (LO.attributed cec l)) /\
    (forall c, In c (map LM.s_commit l) ->
       (cec = true \/ forall s, In s l -> LM.s_commit s = c -> LM.s_changes s <> []) ->
       In c (map LM.s_commit (LO.attributed cec l))) /\
    (forall s, In s (LO.attributed cec l) -> In s l /\ (cec = true \/ LM.s_changes s <> [])).
  Proof. exact (LO.devs_once cec l replay_ok_composed). Qed.
End Replay.
