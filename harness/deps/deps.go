// Package deps pins the dependency closure of the harness module (imports everything any harness may need),
// so that go.mod is complete and builds never have to rewrite it.
package deps

import (
	_ "gopkg.in/src-d/go-git.v4"
	_ "gopkg.in/src-d/go-git.v4/storage/memory"
	_ "gopkg.in/src-d/hercules.v10"
	_ "gopkg.in/src-d/hercules.v10/leaves"
)
