(* C17 - codec lemmas for internal/pb/utils.go:
   of_sparse (to_sparse m) = clamp m   (trailing zero columns are restored as zeros),
   csr_to_dense (dense_to_csr m) = m,  csr_to_maps (map_to_csr m) = m. *)
From Coq Require Import List ZArith Bool Lia.
From Herc Require Import Results.PB Results.MapProofs.
Import ListNotations.
Open Scope Z_scope.

(* ---------------------------------------------------------------- small facts *)
Lemma len_nonneg {A} (l : list A) : 0 <= len l.
Proof. unfold len. lia. Qed.

Lemma len_cons {A} (x : A) l : len (x :: l) = len l + 1.
Proof. unfold len. cbn [length]. lia. Qed.

Lemma len_app {A} (a b : list A) : len (a ++ b) = len a + len b.
Proof. unfold len. rewrite app_length. lia. Qed.

Lemma len_map {A B} (f : A -> B) l : len (map f l) = len l.
Proof. unfold len. rewrite map_length. reflexivity. Qed.

Lemma len_repeat {A} (x : A) k : len (repeat x k) = Z.of_nat k.
Proof. unfold len. rewrite repeat_length. reflexivity. Qed.

Lemma wrap_i32_id : forall z, in_i32 z = true -> wrap_i32 z = z.
Proof.
  intros z H. unfold in_i32 in H. apply andb_true_iff in H. destruct H as [H1 H2].
  apply Z.leb_le in H1. apply Z.ltb_lt in H2. unfold wrap_i32.
  rewrite Z.mod_small by lia. lia.
Qed.

Lemma wrap_i32_small : forall z, 0 <= z < 2147483648 -> wrap_i32 z = z.
Proof. intros z H. unfold wrap_i32. rewrite Z.mod_small by lia. lia. Qed.

Lemma wrap_u32_small : forall z, 0 <= z < 4294967296 -> wrap_u32 z = z.
Proof. intros z H. unfold wrap_u32. apply Z.mod_small. exact H. Qed.

Lemma clamp_nonneg : forall v, 0 <= clamp v.
Proof. intros v. unfold clamp. destruct (v <? 0) eqn:E; [lia | apply Z.ltb_ge in E; exact E]. Qed.

Lemma clamp_le : forall v b, v < b -> 0 < b -> clamp v < b.
Proof. intros v b H Hb. unfold clamp. destruct (v <? 0); lia. Qed.

Lemma mapM_ok {A B} (f : A -> res B) (g : A -> B) : forall l,
  (forall x, In x l -> f x = Ok (g x)) -> mapM f l = Ok (map g l).
Proof.
  induction l as [|x l IH]; intros H; cbn; [reflexivity|].
  rewrite (H x (or_introl eq_refl)). cbn. rewrite IH; [reflexivity|].
  intros y Hy. apply H. right. exact Hy.
Qed.

Lemma mapM_ext {A B} (f g : A -> res B) : forall l, (forall x, In x l -> f x = g x) -> mapM f l = mapM g l.
Proof.
  induction l as [|x l IH]; intros H; cbn; [reflexivity|].
  rewrite (H x (or_introl eq_refl)). rewrite IH; [reflexivity|].
  intros y Hy. apply H. right. exact Hy.
Qed.

Lemma mapM_map {A B C} (f : B -> res C) (h : A -> B) : forall l, mapM f (map h l) = mapM (fun x => f (h x)) l.
Proof. induction l as [|x l IH]; cbn; [reflexivity|]. rewrite IH. reflexivity. Qed.

Lemma firstn_len_all {A} (l : list A) : firstn (Z.to_nat (len l)) l = l.
Proof. unfold len. rewrite Nat2Z.id. apply firstn_all. Qed.

Lemma map_id_in {A} (f : A -> A) : forall l, (forall x, In x l -> f x = x) -> map f l = l.
Proof.
  induction l as [|x l IH]; intros H; cbn; [reflexivity|].
  rewrite (H x (or_introl eq_refl)). f_equal. apply IH. intros y Hy. apply H. right. exact Hy.
Qed.

(* ---------------------------------------------------------------- rectangular matrices *)
Lemma rect_cons : forall (r0 : list Z) t,
  rect (r0 :: t) = forallb (fun r => len r =? len r0) t && dim_ok (r0 :: t) && dim_ok r0.
Proof. reflexivity. Qed.

Lemma dim_ok_lt : forall A (l : list A), dim_ok l = true -> len l < 2147483648.
Proof. intros A l H. unfold dim_ok in H. apply Z.ltb_lt in H. exact H. Qed.

Lemma rect_inv : forall m, rect m = true ->
  exists r0 t, m = r0 :: t /\ (forall r, In r m -> len r = len r0) /\ len m < 2147483648 /\ len r0 < 2147483648.
Proof.
  intros [|r0 t] H; [discriminate H|]. rewrite rect_cons in H.
  apply andb_true_iff in H. destruct H as [H H3]. apply andb_true_iff in H. destruct H as [H1 H2].
  exists r0, t. split; [reflexivity|]. split; [|split].
  - intros r [<-|Hr]; [reflexivity|]. rewrite forallb_forall in H1. apply Z.eqb_eq. apply H1. exact Hr.
  - apply dim_ok_lt. exact H2.
  - apply dim_ok_lt. exact H3.
Qed.

Lemma last_in {A} (d : A) : forall l, l <> [] -> In (last l d) l.
Proof.
  induction l as [|x l IH]; intros H; [contradiction|].
  destruct l as [|y l']; [left; reflexivity|]. right. apply IH. discriminate.
Qed.

(* ---------------------------------------------------------------- ToBurndownSparseMatrix *)
Definition cw (v : Z) : Z := wrap_u32 (clamp v).

Lemma scan_row_true : forall l, scan_row true l = map cw l.
Proof. induction l as [|v t IH]; cbn; [reflexivity|]. rewrite IH. reflexivity. Qed.

Lemma scan_row_false : forall l, exists k, map cw l = repeat 0 k ++ scan_row false l.
Proof.
  induction l as [|v t IH]; cbn [scan_row map].
  - exists O. reflexivity.
  - destruct (clamp v =? 0) eqn:E; cbn [negb orb].
    + destruct IH as [k Hk]. exists (S k). cbn [repeat app]. rewrite <- Hk.
      apply Z.eqb_eq in E. unfold cw. rewrite E. reflexivity.
    + exists O. cbn [repeat app]. rewrite scan_row_true. reflexivity.
Qed.

Lemma rev_repeat {A} (x : A) : forall k, rev (repeat x k) = repeat x k.
Proof.
  induction k as [|k IH]; cbn; [reflexivity|]. rewrite IH.
  clear IH. induction k as [|k IH]; cbn; [reflexivity|]. rewrite IH. reflexivity.
Qed.

Lemma sparse_row_spec : forall row, exists k, map cw row = sparse_row row ++ repeat 0 k.
Proof.
  intros row. destruct (scan_row_false (rev row)) as [k Hk]. exists k.
  unfold sparse_row. rewrite map_rev in Hk.
  apply (f_equal (@rev Z)) in Hk. rewrite rev_involutive, rev_app_distr, rev_repeat in Hk. exact Hk.
Qed.

Lemma dense_row_sparse_row : forall row,
  forallb (fun v => v <? 4294967296) row = true ->
  dense_row (len row) (sparse_row row) = Ok (map clamp row).
Proof.
  intros row Hr. destruct (sparse_row_spec row) as [k Hk].
  assert (Hcw : map cw row = map clamp row).
  { apply map_ext_in. intros v Hv. rewrite forallb_forall in Hr. specialize (Hr v Hv). apply Z.ltb_lt in Hr.
    unfold cw. apply wrap_u32_small. split; [apply clamp_nonneg | apply clamp_le; lia]. }
  rewrite Hcw in Hk.
  assert (Hlen : len row = len (sparse_row row) + Z.of_nat k).
  { rewrite <- (len_map clamp row), Hk, len_app, len_repeat. reflexivity. }
  unfold dense_row.
  pose proof (len_nonneg row). pose proof (len_nonneg (sparse_row row)).
  destruct (len row <? 0) eqn:E1; [apply Z.ltb_lt in E1; lia|].
  destruct (len row <? len (sparse_row row)) eqn:E2; [apply Z.ltb_lt in E2; lia|].
  replace (Z.to_nat (len row - len (sparse_row row))) with k by lia.
  rewrite Hk. reflexivity.
Qed.

Definition sparse_of (m : list (list Z)) (nm : list Z) : sparse_matrix :=
  {| sm_name := nm; sm_rows := wrap_i32 (len m); sm_cols := wrap_i32 (len (last m [])); sm_data := map sparse_row m |}.

Lemma to_sparse_ok : forall m nm, m <> [] -> to_sparse m nm = Ok (sparse_of m nm).
Proof. intros [|r t] nm H; [contradiction | reflexivity]. Qed.

Lemma of_sparse_sparse_of : forall m nm, rect m = true -> cells_u32 m = true ->
  of_sparse (sparse_of m nm) = Ok (clamp_matrix m).
Proof.
  intros m nm Hrect Hcells. destruct (rect_inv m Hrect) as [r0 [t [Hm [Hrows [Hd1 Hd2]]]]].
  assert (Hne : m <> []) by (rewrite Hm; discriminate).
  assert (Hlast : len (last m []) = len r0) by (apply Hrows; apply last_in; exact Hne).
  unfold of_sparse, sparse_of. cbn [sm_rows sm_cols sm_data sm_name].
  pose proof (len_nonneg m). pose proof (len_nonneg r0).
  rewrite (wrap_i32_small (len m)) by lia. rewrite Hlast, (wrap_i32_small (len r0)) by lia.
  destruct (len m <? 0) eqn:E1; [apply Z.ltb_lt in E1; lia|].
  rewrite len_map. rewrite Z.ltb_irrefl.
  rewrite <- (len_map sparse_row m) at 1. rewrite firstn_len_all.
  rewrite mapM_map. unfold clamp_matrix. apply mapM_ok.
  intros row Hrow. rewrite <- (Hrows row Hrow). apply dense_row_sparse_row.
  unfold cells_u32 in Hcells. rewrite forallb_forall in Hcells. apply Hcells. exact Hrow.
Qed.

(* of_sparse (to_sparse m) = clamp m *)
Theorem sparse_roundtrip : forall m nm, rect m = true -> cells_u32 m = true ->
  bind (to_sparse m nm) of_sparse = Ok (clamp_matrix m).
Proof.
  intros m nm Hrect Hcells. destruct (rect_inv m Hrect) as [r0 [t [Hm _]]].
  rewrite to_sparse_ok by (rewrite Hm; discriminate). cbn [bind].
  apply of_sparse_sparse_of; assumption.
Qed.

(* the truncation is real: a row is stored up to its last non-zero clamped cell only *)
Lemma sparse_row_zeros : forall k, sparse_row (repeat 0 k) = [].
Proof.
  intros k. unfold sparse_row. rewrite rev_repeat.
  induction k as [|k IH]; cbn; [reflexivity|]. exact IH.
Qed.

(* ---------------------------------------------------------------- CSR: slices *)
Lemma slice_app {A} : forall (pre x rest : list A),
  slice (len pre) (len pre + len x) (pre ++ x ++ rest) = Ok x.
Proof.
  intros pre x rest. unfold slice.
  pose proof (len_nonneg pre). pose proof (len_nonneg x). pose proof (len_nonneg rest).
  destruct (len pre + len x <=? len pre) eqn:E.
  - apply Z.leb_le in E. assert (Hx : len x = 0) by lia.
    destruct x; [reflexivity | rewrite len_cons in Hx; pose proof (len_nonneg x); lia].
  - rewrite !len_app.
    destruct (len pre <? 0) eqn:E1; [apply Z.ltb_lt in E1; lia|].
    destruct (len pre + (len x + len rest) <? len pre + len x) eqn:E2; [apply Z.ltb_lt in E2; lia|].
    cbn [orb]. f_equal.
    replace (Z.to_nat (len pre)) with (length pre) by (unfold len; lia).
    replace (Z.to_nat (len pre + len x - len pre)) with (length x) by (unfold len; lia).
    rewrite skipn_app, skipn_all, Nat.sub_diag. cbn [skipn app].
    rewrite firstn_app, firstn_all, Nat.sub_diag. cbn [firstn]. apply app_nil_r.
Qed.

Fixpoint pairs_from (acc : Z) (counts : list Z) : list (Z * Z) :=
  match counts with
  | [] => []
  | c :: t => (acc, acc + c) :: pairs_from (acc + c) t
  end.

Lemma pairs_indptr : forall counts acc, pairs (acc :: indptr_from acc counts) = pairs_from acc counts.
Proof.
  induction counts as [|c t IH]; intros acc; [reflexivity|].
  unfold pairs in *. cbn [indptr_from tl combine pairs_from]. f_equal. apply IH.
Qed.

Lemma len_indptr_from : forall counts acc, len (indptr_from acc counts) = len counts.
Proof. induction counts as [|c t IH]; intros acc; [reflexivity|]. cbn [indptr_from]. rewrite !len_cons, IH. reflexivity. Qed.

Lemma pairs_from_length : forall counts acc, length (pairs_from acc counts) = length counts.
Proof. induction counts as [|c t IH]; intros acc; cbn; [reflexivity|]. rewrite IH. reflexivity. Qed.

Definition wi (e : Z * Z) : Z := wrap_i32 (fst e).

Lemma combine_fst_snd {A B C} (f : A * B -> C) : forall l : list (A * B),
  combine (map f l) (map snd l) = map (fun e => (f e, snd e)) l.
Proof. induction l as [|x l IH]; cbn; [reflexivity|]. rewrite IH. reflexivity. Qed.

(* walking the Indptr pairs over the concatenated rows visits exactly the rows *)
Lemma csr_rows_walk {X} (f : list (Z * Z) -> res X) : forall rows c pre_i pre_d,
  csr_indices c = pre_i ++ concat (map (map wi) rows) ->
  csr_data c = pre_d ++ concat (map (map snd) rows) ->
  len pre_i = len pre_d ->
  mapM (fun lohi => bind (csr_entries c lohi) f) (pairs_from (len pre_i) (map len rows))
  = mapM (fun row => f (map (fun e => (wi e, snd e)) row)) rows.
Proof.
  induction rows as [|row rows IH]; intros c pre_i pre_d Hi Hd Hl; [reflexivity|].
  cbn [map pairs_from mapM concat] in *.
  assert (He : csr_entries c (len pre_i, len pre_i + len row) = Ok (map (fun e => (wi e, snd e)) row)).
  { unfold csr_entries. cbn [fst snd]. rewrite Hi.
    rewrite <- (len_map wi row) at 1. rewrite slice_app. cbn [bind].
    rewrite Hd, Hl. rewrite <- (len_map snd row) at 1. rewrite slice_app. cbn [bind].
    rewrite combine_fst_snd. reflexivity. }
  rewrite He. cbn [bind].
  specialize (IH c (pre_i ++ map wi row) (pre_d ++ map snd row)).
  rewrite !len_app, !len_map in IH. rewrite IH; [reflexivity | | | lia].
  - rewrite Hi, <- app_assoc. reflexivity.
  - rewrite Hd, <- app_assoc. reflexivity.
Qed.

(* ---------------------------------------------------------------- dense CSR *)
Lemma set_nth_app {A} (v x : A) : forall pre t, set_nth (length pre) v (pre ++ x :: t) = Some (pre ++ v :: t).
Proof. induction pre as [|p pre IH]; intros t; cbn; [reflexivity|]. rewrite IH. reflexivity. Qed.

Definition assign_step (acc : res (list Z)) (e : Z * Z) : res (list Z) :=
  bind acc (fun r =>
    if fst e <? 0 then Panic
    else match set_nth (Z.to_nat (fst e)) (snd e) r with Some r' => Ok r' | None => Panic end).

Lemma assign_nz : forall row pre,
  fold_left assign_step (nz_from (len pre) row) (Ok (pre ++ repeat 0 (length row))) = Ok (pre ++ row).
Proof.
  induction row as [|c t IH]; intros pre; [cbn; reflexivity|].
  cbn [nz_from length repeat].
  assert (Hl : len pre + 1 = len (pre ++ [c])) by (rewrite len_app; reflexivity).
  assert (Hl0 : len pre + 1 = len (pre ++ [0])) by (rewrite len_app; reflexivity).
  destruct (c =? 0) eqn:E.
  - apply Z.eqb_eq in E. subst c. rewrite Hl0.
    replace (pre ++ 0 :: repeat 0 (length t)) with ((pre ++ [0]) ++ repeat 0 (length t)) by (rewrite <- app_assoc; reflexivity).
    rewrite IH. rewrite <- app_assoc. reflexivity.
  - cbn [fold_left]. unfold assign_step at 2. cbn [bind fst snd].
    pose proof (len_nonneg pre).
    destruct (len pre <? 0) eqn:E1; [apply Z.ltb_lt in E1; lia|].
    replace (Z.to_nat (len pre)) with (length pre) by (unfold len; lia).
    rewrite set_nth_app. rewrite Hl.
    replace (pre ++ c :: repeat 0 (length t)) with ((pre ++ [c]) ++ repeat 0 (length t)) by (rewrite <- app_assoc; reflexivity).
    rewrite IH. rewrite <- app_assoc. reflexivity.
Qed.

Lemma assign_row_nz : forall row, assign_row (len row) (nz_from 0 row) = Ok row.
Proof.
  intros row. unfold assign_row. pose proof (len_nonneg row).
  destruct (len row <? 0) eqn:E; [apply Z.ltb_lt in E; lia|].
  replace (Z.to_nat (len row)) with (length row) by (unfold len; lia).
  change (fold_left _ (nz_from 0 row) (Ok (repeat 0 (length row))))
    with (fold_left assign_step (nz_from (len (@nil Z)) row) (Ok ([] ++ repeat 0 (length row)))).
  rewrite assign_nz. reflexivity.
Qed.

Lemma nz_from_bounds : forall row x e, In e (nz_from x row) -> x <= fst e < x + len row.
Proof.
  induction row as [|c t IH]; intros x e H; [destruct H|].
  cbn [nz_from] in H. rewrite len_cons. pose proof (len_nonneg t).
  destruct (c =? 0).
  - specialize (IH _ _ H). lia.
  - destruct H as [<-|H]; [cbn; lia|]. specialize (IH _ _ H). lia.
Qed.

Lemma csr_indptr_ok : forall (rows : list (list (Z * Z))),
  firstn (length rows) (pairs (0 :: indptr_from 0 (map len rows))) = pairs_from 0 (map len rows).
Proof.
  intros rows. rewrite pairs_indptr.
  rewrite <- (map_length len rows), <- (pairs_from_length (map len rows) 0). apply firstn_all.
Qed.

(* csr_to_dense (dense_to_csr m) = m *)
Theorem csr_dense_roundtrip : forall m, rect m = true -> bind (dense_to_csr m) csr_to_dense = Ok m.
Proof.
  intros m Hrect. destruct (rect_inv m Hrect) as [r0 [t [Hm [Hrows [Hd1 Hd2]]]]].
  unfold dense_to_csr. rewrite Hm at 1. cbn [bind].
  unfold csr_to_dense, csr_of_rows. cbn [csr_rows csr_cols csr_indptr].
  pose proof (len_nonneg m). pose proof (len_nonneg r0).
  rewrite (wrap_i32_small (len m)) by lia. rewrite (wrap_i32_small (len r0)) by lia.
  destruct (len m <? 0) eqn:E1; [apply Z.ltb_lt in E1; lia|].
  rewrite len_cons, len_indptr_from, !len_map.
  destruct ((0 <? len m) && (len m + 1 <? len m + 1)) eqn:E2;
    [apply andb_true_iff in E2; destruct E2 as [_ E2]; apply Z.ltb_lt in E2; lia|].
  replace (Z.to_nat (len m)) with (length (map (nz_from 0) m)) by (rewrite map_length; unfold len; lia).
  rewrite csr_indptr_ok.
  set (c := {| csr_rows := len m; csr_cols := len r0;
               csr_data := concat (map (map snd) (map (nz_from 0) m));
               csr_indices := concat (map (map (fun e => wrap_i32 (fst e))) (map (nz_from 0) m));
               csr_indptr := 0 :: indptr_from 0 (map len (map (nz_from 0) m)) |}).
  change 0 with (len (@nil Z)) at 1.
  rewrite (csr_rows_walk (assign_row (len r0)) (map (nz_from 0) m) c [] []); [| reflexivity | reflexivity | reflexivity].
  rewrite mapM_map. rewrite <- (map_id m) at 2. apply mapM_ok.
  intros row Hrow.
  rewrite map_id_in.
  - rewrite <- (Hrows row Hrow). apply assign_row_nz.
  - intros e He. destruct e as [x v]. cbn [snd]. f_equal. unfold wi. cbn [fst].
    apply nz_from_bounds in He. cbn [fst] in He. apply wrap_i32_small.
    rewrite (Hrows row Hrow) in He. lia.
Qed.

(* ---------------------------------------------------------------- map CSR (couples) *)
Lemma in_i32_bounds : forall z, in_i32 z = true -> -2147483648 <= z < 2147483648.
Proof.
  intros z H. apply andb_true_iff in H. destruct H as [H1 H2].
  apply Z.leb_le in H1. apply Z.ltb_lt in H2. lia.
Qed.

Lemma len_pairs_from : forall counts acc, len (pairs_from acc counts) = len counts.
Proof. intros. unfold len. rewrite pairs_from_length. reflexivity. Qed.

(* csr_to_maps (map_to_csr m) = m *)
Theorem csr_maps_roundtrip : forall m,
  dim_ok m = true ->
  forallb (msortedb Z.compare) m = true ->
  forallb (forallb (fun e => in_i32 (fst e))) m = true ->
  csr_to_maps (map_to_csr m) = Ok m.
Proof.
  intros m Hdim Hsorted Hrange. apply dim_ok_lt in Hdim. pose proof (len_nonneg m).
  unfold csr_to_maps, map_to_csr, csr_of_rows. cbn [csr_rows csr_cols csr_indptr].
  rewrite (wrap_i32_small (len m)) by lia.
  destruct (len m <? 0) eqn:E1; [apply Z.ltb_lt in E1; lia|].
  rewrite pairs_indptr, len_pairs_from, len_map, Z.ltb_irrefl.
  set (c := {| csr_rows := len m; csr_cols := len m;
               csr_data := concat (map (map snd) m);
               csr_indices := concat (map (map (fun e => wrap_i32 (fst e))) m);
               csr_indptr := 0 :: indptr_from 0 (map len m) |}).
  change 0 with (len (@nil Z)) at 1.
  rewrite (csr_rows_walk (fun es => Ok (map_of_list Z.compare es)) m c [] []); [| reflexivity | reflexivity | reflexivity].
  rewrite (mapM_ok _ (fun row => row)).
  - cbn [bind]. rewrite map_id. replace (Z.to_nat (len m) - length m)%nat with O by (unfold len; lia).
    cbn [repeat]. rewrite app_nil_r. reflexivity.
  - intros row Hrow. f_equal.
    rewrite forallb_forall in Hsorted, Hrange.
    rewrite map_id_in.
    + apply (map_of_list_id Z.compare Zcompare_ok). apply (msortedb_sorted Z.compare Zcompare_ok).
      apply Hsorted. exact Hrow.
    + intros [k v] He. cbn [snd]. f_equal. unfold wi. cbn [fst].
      specialize (Hrange row Hrow). rewrite forallb_forall in Hrange. specialize (Hrange _ He). cbn [fst] in Hrange.
      apply wrap_i32_id. exact Hrange.
Qed.
