#!/bin/sh
# usage: ocaml/build.sh <cxx>   - extract the Coq model and build the replay driver of one property
set -e
p="$1"; P=$(echo "$p" | tr a-z A-Z)
root=$(cd "$(dirname "$0")/.." && pwd)
gen="$root/ocaml/$p/gen"
mkdir -p "$gen"
cd "$gen"
rm -f ${p}_model.ml ${p}_model.mli
timeout 600 coqc -Q "$root/coq/theories" Herc "$root/coq/extract/Extract$P.v" -o "$gen/Extract$P.vo" > extract.log 2>&1 || { cat extract.log; exit 1; }
cp "$root/ocaml/common/conv.ml" conv.ml
cp "$root/ocaml/$p/"*.ml .
mod=$(echo "${p}_model" | sed 's/^./\U&/')
ocamlfind ocamlopt -w -a -c ${p}_model.mli ${p}_model.ml
ocamlfind ocamlopt -w -a -c -open $mod conv.ml
ocamlfind ocamlopt -w -a -c -open $mod driver.ml
ocamlfind ocamlopt -w -a -package str,unix -linkpkg ${p}_model.cmx conv.cmx driver.cmx -o "$root/ocaml/$p/driver"
