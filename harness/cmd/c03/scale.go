// Scale families of the C03 harness: long operation sequences on the real burndown.File that build files of
// 10^3 .. 10^5 intervals (10^6 in the thorough tier), mass deletions spanning thousands of intervals,
// replacements whose tick equals far-away intervals' ticks, and files of 2^31-1 .. 2^32-1 lines with many
// intervals on both sides of 2^31.
//
// A scale case is observed lightly after every operation (panic class or Len() and the Updater calls) and
// fully (node list of the tree + File.flatten in run-length form) at checkpoints: every `every` operations
// and at the end.  The operation list is in the field `script` (not `ops`: a 10^5-operation case is not
// handed to the generic shrinker: the driver names the first failing operation instead).
package main

import (
	"sort"

	"gopkg.in/src-d/hercules.v10/verifapi"
	. "verifharness/lib"
)

// ---------- observation ----------

func (tr *tracked) nodeList() []Sx {
	var nodes []Sx
	for it := tr.file.VerifTree().Min(); !it.Limit(); it = it.Next() {
		nodes = append(nodes, L(I(int(it.Item().Key)), I(int(it.Item().Value))))
	}
	return nodes
}

func (tr *tracked) keys() []int {
	var ks []int
	for it := tr.file.VerifTree().Min(); !it.Limit(); it = it.Next() {
		ks = append(ks, int(it.Item().Key))
	}
	return ks
}

// runs = File.flatten() in run-length form (value count)
func (tr *tracked) runs() []Sx {
	lines := tr.file.VerifFlatten()
	var rs []Sx
	for i := 0; i < len(lines); {
		j := i
		for j < len(lines) && lines[j] == lines[i] {
			j++
		}
		rs = append(rs, L(I(lines[i]), I(j-i)))
		i = j
	}
	return rs
}

func (tr *tracked) light() Sx {
	xs := make([]Sx, 0, 1+len(tr.cbs))
	xs = append(xs, I(tr.file.Len()))
	for _, c := range tr.cbs {
		xs = append(xs, L(I(c[0]), I(c[1]), I(c[2])))
	}
	tr.cbs = tr.cbs[:0]
	return T("s", xs...)
}

func (tr *tracked) checkpoint(i int, flat bool) Sx {
	if flat {
		return T("chk", I(i), T("nodes", tr.nodeList()...), T("runs", tr.runs()...))
	}
	return T("chk", I(i), T("nodes", tr.nodeList()...))
}

// recorder: applies the operations of a scale case to the implementation and records the observations as it goes
// (the generators look at the implementation's interval starts while they build the script, so generation and
// observation share one run; a replay feeds the recorded script through the same code).
// flat = the lines can be materialised (File.flatten allocates one int per line); model = the driver should also
// step the Gallina model.
type recorder struct {
	tr          *tracked
	t0, n0      int
	every       int
	flat, model bool
	ops         []op
	obs         []Sx
	changed     bool
	dead        bool // a panic was observed: nothing more is applied
	lastChk     int
}

func newRecorder(t0, n0, every int, flat, model bool) *recorder {
	rc := &recorder{t0: t0, n0: n0, every: every, flat: flat, model: model, lastChk: -1}
	tr := &tracked{}
	if _, p := Catch(func() {
		tr.file = verifapi.NewFile(t0, n0, verifapi.NewAllocator(), func(cur, prev, delta int) {
			tr.cbs = append(tr.cbs, [3]int{cur, prev, delta})
		})
	}); !p {
		rc.tr = tr
	}
	if rc.tr == nil {
		rc.obs = append(rc.obs, T("panic", A("new")))
		rc.dead = true
	} else {
		rc.obs = append(rc.obs, rc.tr.light(), rc.tr.checkpoint(-1, flat))
	}
	return rc
}

// apply one operation; false after a panic
func (rc *recorder) apply(o op) bool {
	rc.ops = append(rc.ops, o)
	if rc.dead {
		return false
	}
	msg, p := Catch(func() { rc.tr.file.Update(o.t, o.pos, o.ins, o.del) })
	if p {
		rc.obs = append(rc.obs, T("panic", A(panicClass(msg))))
		rc.dead = true
		return false
	}
	rc.obs = append(rc.obs, rc.tr.light())
	if o.ins > 0 || o.del > 0 {
		rc.changed = true
	}
	if i := len(rc.ops) - 1; (i+1)%rc.every == 0 {
		rc.obs = append(rc.obs, rc.tr.checkpoint(i, rc.flat))
		rc.lastChk = i
	}
	return true
}

func (rc *recorder) emit(c *Config, kind string) {
	if !rc.dead && rc.lastChk != len(rc.ops)-1 {
		rc.obs = append(rc.obs, rc.tr.checkpoint(len(rc.ops)-1, rc.flat))
	}
	c.Emit(T("kind", A(kind)), T("nt", B(rc.changed)), T("t0", I(rc.t0)), T("n0", I(rc.n0)), T("every", I(rc.every)),
		T("flat", B(rc.flat)), T("model", B(rc.model)), opsSx2("script", rc.ops), T("obs", rc.obs...))
}

// runScale replays a recorded script
func runScale(c *Config, kind string, t0, n0 int, ops []op, every int, flat, model bool) {
	rc := newRecorder(t0, n0, every, flat, model)
	for _, o := range ops {
		rc.apply(o)
	}
	rc.emit(c, kind)
}

func opsSx2(tag string, ops []op) Sx {
	l := make([]Sx, len(ops))
	for i, o := range ops {
		l[i] = L(I(o.t), I(o.pos), I(o.ins), I(o.del))
	}
	return T(tag, l...)
}

// ---------- generators ----------

// valueFn: the value of the i-th stamp; periodic with period p (2^k, 2^k+-1), optionally with a packed author
// whose period is q, optionally shifted to the top of the uint32 range.  The merge mark only when mk > 0: then every
// mk-th stamp is a merge-mode stamp of one of mq authors (author 0 = the bare constant 16383), round 4.
type valueFn struct {
	base, p, q int
	top        bool
	mk, mq     int
}

func (v valueFn) at(i int) int {
	if v.mk > 0 && i%v.mk == v.mk-1 {
		return mark | ((i/v.mk)%v.mq)<<14
	}
	t := v.base + i%v.p
	if t&mark == mark {
		t--
	}
	if v.q > 0 {
		t |= (1 + i%v.q) << 14
	}
	if v.top {
		t |= 0x3ffff << 14 // values just below 2^32 (the low 14 bits are not all ones, so t <= 2^32-2)
	}
	return t
}

type scaleGen struct {
	c       *Config
	rc      *recorder // the implementation, run while generating (positions are taken from its real interval starts)
	length  int
	neutral int // churn: out of 8 operations this many keep the length (the tracker shifts every later key otherwise: O(n))
	v       valueFn
	stamp   int
	keys    []int // snapshot of the interval starts, refreshed now and then
	vals    []int // ... and of the intervals' values
	fresh   int   // the snapshot is refreshed every fresh churn operations
}

// fixMarks (cases with merge-mode stamps): a deleted line that carries the merge mark must carry the request's own
// value, anything else panics by design.  Read from the real tree: the first marked interval in the range decides the
// value when the range starts in it, the range is cut in front of any other conflicting marked interval.
func (g *scaleGen) fixMarks(o op) op {
	if g.rc.dead || o.del == 0 {
		return o
	}
	end := o.pos + o.del
	it := g.rc.tr.file.VerifTree().Min()
	for !it.Limit() {
		k, v := int(it.Item().Key), int(it.Item().Value)
		it = it.Next()
		if it.Limit() || k >= end {
			break
		}
		next := int(it.Item().Key)
		if next <= o.pos || v&mark != mark || v == o.t {
			continue
		}
		if k <= o.pos {
			o.t = v
		} else {
			end = k
			break
		}
	}
	o.del = end - o.pos
	if o.del == 0 && o.ins == 0 {
		o.ins = 1
	}
	return o
}

// resolveMarks: delete (or overwrite in two steps) every merge-marked interval, from the end of the file to its start
func (g *scaleGen) resolveMarks() {
	if g.rc.dead || g.v.mk == 0 {
		return
	}
	type iv struct{ k, n, v int }
	var ivs []iv
	it := g.rc.tr.file.VerifTree().Min()
	for !it.Limit() {
		k, v := int(it.Item().Key), int(it.Item().Value)
		it = it.Next()
		if it.Limit() {
			break
		}
		if v&mark == mark {
			ivs = append(ivs, iv{k, int(it.Item().Key) - k, v})
		}
	}
	for i := len(ivs) - 1; i >= 0; i-- {
		x := ivs[i]
		if !g.emit(op{x.v, x.k, 0, x.n}) {
			return
		}
		if i%2 == 0 && !g.emit(op{g.v.at(g.v.mk*(1+i)), x.k, x.n, 0}) {
			return
		}
	}
}

func (g *scaleGen) emit(o op) bool {
	if g.v.mk > 0 {
		o = g.fixMarks(o)
	}
	return g.emitRaw(o)
}

func (g *scaleGen) emitRaw(o op) bool {
	if !g.rc.apply(o) {
		return false
	}
	g.length += o.ins - o.del
	return true
}

func (g *scaleGen) next() int { g.stamp++; return g.v.at(g.stamp) }

func (g *scaleGen) refresh() {
	if g.rc.dead {
		return
	}
	g.keys, g.vals = g.keys[:0], g.vals[:0]
	for it := g.rc.tr.file.VerifTree().Min(); !it.Limit(); it = it.Next() {
		g.keys = append(g.keys, int(it.Item().Key))
		g.vals = append(g.vals, int(it.Item().Value))
	}
}

// aligned: a replacement (or deletion / insertion) whose range starts and ends at interval starts of the snapshot,
// stamped with the value of the interval behind or in front of the range, or with a merge-mode / other-author
// variant of it (round 4: the values that a normalisation would make equal to the neighbour's)
func (g *scaleGen) aligned() (op, bool) {
	r := g.c.Rng
	m := len(g.keys) - 1 // the last key is the end of the file
	if m < 2 {
		return op{}, false
	}
	j := r.Intn(m)
	e := minInt(m, j+r.Intn(4))
	pos, end := g.keys[j], g.keys[e]
	if pos > g.length || end > g.length || end < pos {
		return op{}, false
	}
	o := op{pos: pos, del: end - pos}
	switch r.Intn(4) {
	case 0:
		o.ins = o.del
	case 1:
		o.ins = 0
	default:
		o.ins = 1 + r.Intn(3)
	}
	t := g.v.at(r.Intn(1 << 20))
	switch r.Intn(4) {
	case 0:
		if e < m {
			t = g.vals[e]
		}
	case 1:
		if j > 0 {
			t = g.vals[j-1]
		}
	case 2: // the neighbour's tick with another author / the neighbour's author with another tick
		if e < m {
			t = g.vals[e] ^ (1+r.Intn(3))<<14
			if r.Intn(2) == 0 {
				t = g.vals[e] ^ (1 + r.Intn(3))
			}
		}
	}
	if t < 0 || t >= maxU32 {
		t = g.v.at(0)
	}
	if g.v.mk == 0 && t&mark == mark { // a case without merge-mode stamps stays without them
		t--
	}
	o.t = t
	if o.ins == 0 && o.del == 0 {
		o.ins = 1
	}
	return o, true
}

// a position: an interval start of the snapshot (possibly +-1), the ends, or uniform
func (g *scaleGen) position() int {
	r := g.c.Rng
	pos := 0
	switch r.Intn(8) {
	case 0:
		pos = 0
	case 1:
		pos = g.length
	case 2, 3, 4:
		if len(g.keys) > 0 {
			pos = g.keys[r.Intn(len(g.keys))] + r.Intn(3) - 1
		}
	default:
		pos = r.Intn(g.length + 1)
	}
	if pos < 0 {
		pos = 0
	}
	if pos > g.length {
		pos = g.length
	}
	return pos
}

// build: k stamps of width 1 at the positions given by shape, w lines apart, so that k intervals (2k when w > 1) arise
func (g *scaleGen) build(shape string, k, w int) {
	r := g.c.Rng
	order := make([]int, k)
	for i := range order {
		order[i] = i
	}
	switch shape {
	case "desc":
		for i := range order {
			order[i] = k - 1 - i
		}
	case "rnd":
		r.Shuffle(k, func(i, j int) { order[i], order[j] = order[j], order[i] })
	case "evenodd": // all even blocks first, then the odd ones: every second stamp lands between two stamped neighbours
		order = order[:0]
		for i := 0; i < k; i += 2 {
			order = append(order, i)
		}
		for i := 1; i < k; i += 2 {
			order = append(order, i)
		}
	}
	for _, b := range order {
		pos := b * w
		if pos >= g.length {
			continue
		}
		// the value depends on the block, not on the order: neighbours differ, far-away blocks repeat
		if !g.emit(op{g.v.at(b), pos, 1, 1}) {
			return
		}
	}
}

// churn: n random small operations: replacements stamped with the value of a far-away interval, insertions, deletions
func (g *scaleGen) churn(n int) {
	r := g.c.Rng
	for i := 0; i < n; i++ {
		if i%g.fresh == 0 {
			g.refresh()
		}
		if r.Intn(5) == 0 {
			if o, ok := g.aligned(); ok && g.length+o.ins-o.del <= maxU32 {
				if !g.emit(o) {
					return
				}
				continue
			}
		}
		pos := g.position()
		room := g.length - pos
		o := op{t: g.v.at(r.Intn(1 << 20)), pos: pos}
		k := r.Intn(3)
		if r.Intn(8) < g.neutral {
			k = 3
		}
		switch k {
		case 0: // insertion
			o.ins = 1 + r.Intn(3)
		case 1: // deletion
			o.del = minInt(room, 1+r.Intn(5))
		case 2: // a longer replacement across several intervals
			o.del = minInt(room, 1+r.Intn(40))
			o.ins = 1 + r.Intn(3)
		default: // length-neutral replacement
			o.del = minInt(room, 1+r.Intn(3))
			o.ins = o.del
		}
		if o.ins == 0 && o.del == 0 {
			o.ins = 1
		}
		if g.length+o.ins-o.del > maxU32 {
			o.ins = 0
			if o.del == 0 {
				continue
			}
		}
		if !g.emit(o) {
			return
		}
	}
}

// massDelete: one deletion spanning about frac of the file, from / to an interval start or the middle of an interval,
// pure or with an insertion whose tick equals the interval before, after or far away
func (g *scaleGen) massDelete(num, den int) {
	r := g.c.Rng
	g.resolveMarks()
	g.refresh()
	if g.length == 0 {
		return
	}
	span := g.length * num / den
	if span < 1 {
		span = 1
	}
	pos := r.Intn(g.length - span + 1)
	if len(g.keys) > 2 && r.Intn(3) != 0 {
		i := sort.SearchInts(g.keys, pos)
		if i < len(g.keys) && g.keys[i]+span <= g.length {
			pos = g.keys[i]
		}
	}
	end := pos + span
	if len(g.keys) > 2 && r.Intn(2) == 0 {
		i := sort.SearchInts(g.keys, end)
		if i < len(g.keys) && g.keys[i] <= g.length && g.keys[i] > pos {
			end = g.keys[i]
		}
	}
	o := op{t: g.next(), pos: pos, del: end - pos}
	switch r.Intn(4) {
	case 0:
		o.ins = 1 + r.Intn(3)
	case 1:
		o.ins = 1 + r.Intn(span)
	}
	g.emit(o)
}

func newScaleGen(c *Config, t0, n0 int, v valueFn, every int, flat, model bool) *scaleGen {
	return &scaleGen{c: c, rc: newRecorder(t0, n0, every, flat, model), length: n0, v: v, neutral: 4, fresh: 2000}
}

// scaleCase: a file of about k intervals built in the given order, churned, hit by mass deletions, rebuilt, emptied
func scaleCase(c *Config, shape string, k, w, churn int, v valueFn, every int, model bool) {
	r := c.Rng
	n0 := k*w + 1 + r.Intn(7) // never a multiple of 8 on purpose: k*w + 1..7
	t0 := v.at(0)
	g := newScaleGen(c, t0, n0, v, every, true, model)
	if k > 20000 {
		g.neutral = 7
	}
	if k <= 1100 { // small enough to read the interval starts before every churn operation: aligned requests are exact
		g.fresh = 1
	}
	g.build(shape, k, w)
	g.churn(churn / 2)
	g.massDelete(1, 3)
	g.churn(churn / 4)
	g.massDelete(1, 2)
	// regrow: one big insertion, then stamps across it
	g.emit(op{g.next(), g.position(), k * w / 2, 0})
	g.build("evenodd", k/2, w)
	g.churn(churn / 4)
	// empty the file in three cuts (middle, tail, head), then a few more operations on the empty / tiny file
	g.resolveMarks()
	if g.length > 3 {
		a, b := g.length/3, 2*g.length/3
		g.emit(op{g.next(), a, 0, b - a})
		g.emit(op{g.next(), a, 0, g.length - a})
		g.emit(op{g.next(), 0, 0, g.length})
	}
	g.emit(op{g.next(), 0, 3, 0})
	g.emit(op{g.next(), 1, 1, 1})
	g.emit(op{g.next(), 0, 0, g.length})
	g.rc.emit(c, "scale-"+shape)
}

// spineCase: appending (or prepending) one line at a time with a changing tick: the deepest right (left) spine the
// tree allows, k nodes; then deletions from the other end
func spineCase(c *Config, front bool, k int, v valueFn, every int, model bool) {
	t0 := v.at(0)
	g := newScaleGen(c, t0, 1, v, every, true, model)
	g.neutral = 7
	for i := 1; i <= k; i++ {
		pos := g.length
		if front {
			pos = 0
		}
		if !g.emit(op{g.v.at(i), pos, 1, 0}) {
			break
		}
	}
	g.churn(minInt(k/4, 20000))
	for g.length > 0 && len(g.rc.ops) < 3*k {
		d := minInt(g.length, 1+k/16)
		pos := 0
		if front {
			pos = g.length - d
		}
		if !g.emit(op{g.next(), pos, 0, d}) {
			break
		}
	}
	kind := "scale-append"
	if front {
		kind = "scale-prepend"
	}
	g.rc.emit(c, kind)
}

// hugeManyCase: a file of n0 >= 2^31-1 lines (never materialised) with k intervals around each of the anchors
// (100, 2^31, the end), then mass deletions across 2^31, replacements near the anchors, and optionally one final
// request that runs past the end with pos+del at or above 2^32 (must be rejected)
func hugeManyCase(c *Config, n0, k int, bad bool, every int) {
	r := c.Rng
	v := valueFn{base: 1 + r.Intn(100), p: []int{2, 3, 7, 8, 9}[r.Intn(5)]}
	if r.Intn(3) == 0 {
		v.q = 5
	}
	if r.Intn(2) == 0 { // round 4: merge-mode stamps of three authors (one of them the bare mark) among the intervals
		v.mk, v.mq = 2+r.Intn(3), 3
	}
	g := newScaleGen(c, 0, n0, v, every, false, true)
	anchors := []int{100, 1 << 31, n0 - 100, 1<<31 - 1000, 1<<31 + 1000}
	if n0 > 3000000000 {
		anchors = append(anchors, 3000000000)
	}
	stampAround := func(a int) {
		for i := 0; i < k; i++ {
			pos := a - k + 2*i
			if pos < 0 || pos >= g.length {
				continue
			}
			if !g.emit(op{g.v.at(i), pos, 1, 1}) {
				return
			}
		}
	}
	for _, a := range anchors {
		stampAround(a)
	}
	for i := 0; i < 4*k; i++ {
		a := anchors[r.Intn(len(anchors))] + r.Intn(4*k+1) - 2*k
		if a < 0 {
			a = 0
		}
		if a > g.length {
			a = g.length
		}
		room := g.length - a
		o := op{t: g.v.at(r.Intn(1000)), pos: a}
		switch r.Intn(5) {
		case 0:
			o.ins = minInt(maxU32-g.length, 1+r.Intn(3))
		case 1:
			o.del = minInt(room, 1+r.Intn(2*k))
		case 2: // a deletion across 2^31 (or a long one towards the end)
			if a < 1<<31 && g.length > 1<<31 {
				o.del = 1<<31 - a + r.Intn(k+1)
			} else {
				o.del = minInt(room, 1+r.Intn(1<<20))
			}
			if r.Intn(2) == 0 {
				o.ins = 1
			}
		default:
			o.del = minInt(room, 1+r.Intn(3))
			o.ins = o.del
		}
		if o.ins == 0 && o.del == 0 {
			continue
		}
		if g.length+o.ins-o.del > maxU32 {
			o.ins = 0
			if o.del == 0 {
				continue
			}
		}
		if !g.emit(o) {
			break
		}
	}
	kind := "hugemany"
	if bad {
		kind = "hugebad"
		// pos and del each pass the argument guards, pos+del does not fit a uint32 (or lands just around 2^32)
		pos := g.length - r.Intn(minInt(g.length, 1000)+1)
		if r.Intn(3) == 0 {
			pos = r.Intn(g.length + 1)
		}
		del := 1<<32 - pos + []int{-1, 0, 1, 5, 100, 1 << 20}[r.Intn(6)]
		if del > maxU32 {
			del = maxU32
		}
		if pos+del <= g.length { // in range after all (pos + del = 2^32 - 1 on a full file): make it run past the end
			del = g.length - pos + 1 + r.Intn(3)
		}
		g.emitRaw(op{7, pos, r.Intn(2), del})
		g.emitRaw(op{8, 0, 1, 0}) // never applied when the request is rejected
	}
	g.rc.emit(c, kind)
}

var hugeSizes = []int{1<<31 - 1, 1 << 31, 1<<31 + 1, 1<<31 + 4097, 3000000000, 3000000007, maxU32 - 1000, maxU32 - 1}

func periods(r interface{ Intn(int) int }) int {
	k := 1 + r.Intn(10)
	return 1<<uint(k) + r.Intn(3) - 1 + boolInt(k == 1) // 2^k-1, 2^k, 2^k+1 (never 1)
}

func boolInt(b bool) int {
	if b {
		return 1
	}
	return 0
}

// scaleFamily: the large cases of one run
func scaleFamily(c *Config) {
	r := c.Rng
	quick := c.Tier == "quick" || c.Tier == "search"
	val := func() valueFn {
		v := valueFn{base: 1 + r.Intn(1000), p: periods(r)}
		switch r.Intn(4) {
		case 0:
			v.q = periods(r)
		case 1:
			v.q, v.top = 3, true
		}
		return v
	}
	// round 4: merge-mode stamps of 2..4 authors (author 0 = the bare mark) every 2nd..5th stamp, with or without
	// packed authors on the regular stamps
	valM := func() valueFn {
		v := valueFn{base: 1 + r.Intn(1000), p: periods(r), mk: 2 + r.Intn(4), mq: 2 + r.Intn(3)}
		if r.Intn(2) == 0 {
			v.q = 2 + r.Intn(3)
		}
		return v
	}
	shapes := []string{"asc", "desc", "rnd", "evenodd"}
	for _, k := range []int{100, 255, 257, 1000} {
		// a checkpoint every 50 operations: the generator reads the marked intervals from the implementation, so a
		// tracker that has lost one soon produces a request outside the domain, after which nothing is judged
		scaleCase(c, shapes[r.Intn(4)], k, 1+r.Intn(3), 4*k, valM(), 50, k < 1000 || !quick)
	}
	spineCase(c, r.Intn(2) == 0, 500, valM(), 50, true)
	if !quick {
		for _, sh := range shapes {
			scaleCase(c, sh, 1025, 1+r.Intn(3), 8000, valM(), 100, true)
		}
		scaleCase(c, shapes[r.Intn(4)], 10000, 1, 20000, valM(), 1000, false)
	}
	// sizes straddle 2^8, 2^10, 2^15, 2^16 interval counts; the model is stepped where it is fast enough
	for _, k := range []int{255, 257, 1000, 1025} {
		for _, sh := range shapes {
			scaleCase(c, sh, k, 1+r.Intn(3), 4*k, val(), 1000, k < 1000 || !quick)
		}
	}
	for _, sh := range shapes {
		scaleCase(c, sh, 10000, 1+r.Intn(2), 20000, val(), 10000, false)
	}
	scaleCase(c, shapes[r.Intn(4)], 32769, 1, 20000, val(), 20000, false)
	scaleCase(c, shapes[r.Intn(4)], 65537+r.Intn(5000), 1, 16000, val(), 50000, false)
	spineCase(c, false, 500, val(), 500, true)
	spineCase(c, true, 500, val(), 500, true)
	spineCase(c, false, 3000, val(), 1000, false)
	spineCase(c, true, 3000, val(), 1000, false)
	if !quick {
		spineCase(c, false, 1500, val(), 500, true)
		spineCase(c, true, 1500, val(), 500, true)
	}
	spineCase(c, false, 70000, val(), 50000, false)
	if !quick {
		for _, sh := range shapes {
			scaleCase(c, sh, 100000, 1+r.Intn(2), 60000, val(), 50000, false)
		}
		scaleCase(c, shapes[r.Intn(4)], 1000000, 1, 24000, val(), 400000, false)
		spineCase(c, false, 1000000, val(), 500000, false)
		spineCase(c, true, 30000, val(), 10000, false)
	}
	// files of 2^31-1 .. 2^32-1 lines with many intervals, judged on the run-length array
	for _, n0 := range hugeSizes {
		hugeManyCase(c, n0, 20, false, 1)
		hugeManyCase(c, n0, 5+r.Intn(40), true, 1)
	}
	hugeManyCase(c, 3000000000, c.Count(120, 400), false, 100)
	hugeManyCase(c, 1<<31+1, c.Count(120, 400), false, 100)
}

// values at the machine limits: around 2^14 (the mark / the first author bit), 2^15, 2^16, 2^31 and the largest
// admissible value 2^32-2; a tenth of the draws carry the merge mark in the low 14 bits (2^15-1, 2^16-1, 2^31-1, ...)
var limitValues = []int{16382, 16384, 16385, 1 << 15, 1<<15 + 1, 1<<15 - 2, 1 << 16, 1<<16 + 1, 1<<16 - 2,
	1<<31 - 2, 1 << 31, 1<<31 + 1, 1<<32 - 2, 1<<32 - 3, 1<<32 - 16385, 3 << 30, 1<<31 + 16382}
var limitMarks = []int{1<<15 - 1, 1<<16 - 1, 1<<31 - 1, 1<<32 - 1 - 16384}

// bigValueCase: a random sequence (as rnd) whose values are mostly drawn from limitValues, on files whose length
// is small or straddles 2^8
func bigValueCase(c *Config) {
	r := c.Rng
	g := &gen{c: c, marks: r.Intn(3) == 0}
	g.pool = append(g.pool, limitValues...)
	if g.marks {
		g.pool = append(g.pool, limitMarks...)
	}
	n0 := r.Intn(13)
	if r.Intn(4) == 0 {
		n0 = 250 + r.Intn(12)
	}
	now := 1 + r.Intn(50)
	t0 := g.tick(now - 1)
	tr, _ := newTracked(t0, n0)
	if tr == nil {
		runCase(c, "bigval", t0, n0, nil)
		return
	}
	var ops []op
	for k := 1 + r.Intn(25); k > 0; k-- {
		o := g.randomOp(tr.file.VerifFlatten(), now)
		ops = append(ops, o)
		if _, ok := tr.step(o); !ok {
			break
		}
		if r.Intn(3) == 0 {
			now++
		}
	}
	runCase(c, "bigval", t0, n0, ops)
}
