// Harness for C01: runs the real pipeline with a BurndownAnalysis leaf on synthetic repositories built from
// declarative histories (conflict-free DAG histories and linear histories with arbitrary edits) and records
// the run plan, the dense result, the sparse histories and the final per-line values of every file.
package main

import (
	"fmt"
	"io/ioutil"
	"log"
	"math/rand"
	"os"
	"runtime/debug"
	"sort"
	"strconv"
	"strings"
	"time"

	git "gopkg.in/src-d/go-git.v4"
	"gopkg.in/src-d/go-git.v4/plumbing"
	"gopkg.in/src-d/go-git.v4/plumbing/object"
	hercules "gopkg.in/src-d/hercules.v10"
	"gopkg.in/src-d/hercules.v10/leaves"
	"gopkg.in/src-d/hercules.v10/verifapi"

	. "verifharness/lib"
	"verifharness/synth"
)

// silent is a hercules.Logger that drops everything.
type silent struct{}

func (silent) Info(...interface{})              {}
func (silent) Infof(string, ...interface{})     {}
func (silent) Warn(...interface{})              {}
func (silent) Warnf(string, ...interface{})     {}
func (silent) Error(...interface{})             {}
func (silent) Errorf(string, ...interface{})    {}
func (silent) Critical(...interface{})          {}
func (silent) Criticalf(string, ...interface{}) {}

// input is everything that determines one case.
type input struct {
	kind    string
	g, s    int
	files   bool
	people  bool
	hib     int
	hibmode string // none | mem | disk | thr
	thr     int
	keep    []int
	h       *synth.Hist        // conflict-free history (full), or nil
	pd      *pdInfo            // path events of h (kinds *-pathdel), or nil
	lin     []synth.LinearStep // linear history (full) when h == nil
	light   bool               // large case: the sparse histories and final files are not rendered
	reuse   int                // 1: the BurndownAnalysis instance has analysed another repository before (R3-1);
	//                            2: that earlier analysis ended in a panic (only a binary file: F11) - fail, then re-use (R3-2)
	enc   int        // rendering of the line identities (content.go), 0 = "L<id>"
	nenc  int        // rendering of the path names, 0 = plain
	modes bool       // regular / executable entries alternate
	nt    *nameTable // set by emit when nenc > 0
}

var hibDir string

// core.ConfigPipelineHibernationDistance is not re-exported by the root package.
const configHibernationDistance = "Pipeline.HibernationDistance"

// ---------------------------------------------------------------------------------------------
// The plan that Run really follows.  prepareRunPlan iterates over Go maps (the parents of a merge, the
// garbage collector's ties), so a second call of the planner may order the actions differently from the
// call inside Pipeline.Run.  A recorder item deployed next to the analysis logs what happens to it
// (Consume, Fork, Merge, Hibernate, Boot, each with the identity of the instance); the plan is rebuilt from
// that log with the numbering rule of generatePlan (branch indices are handed out in plan order).

const recorderKey = "verif_c01_recorder"

type recEvent struct {
	kind   byte // C F M H B
	inst   int
	commit *object.Commit
	others []int // F: the new instances, M: the other merged instances
}

type recLog struct {
	next   int
	events []recEvent
}

type recorder struct {
	log *recLog
	id  int
}

func (r *recorder) Name() string                                             { return "VerifC01Recorder" }
func (r *recorder) Provides() []string                                       { return []string{recorderKey} }
func (r *recorder) Requires() []string                                       { return []string{} }
func (r *recorder) ListConfigurationOptions() []hercules.ConfigurationOption { return nil }
func (r *recorder) Configure(map[string]interface{}) error                   { return nil }
func (r *recorder) Initialize(*git.Repository) error                         { return nil }

func (r *recorder) Consume(deps map[string]interface{}) (map[string]interface{}, error) {
	c, _ := deps[hercules.DependencyCommit].(*object.Commit)
	r.log.events = append(r.log.events, recEvent{kind: 'C', inst: r.id, commit: c})
	return map[string]interface{}{recorderKey: r.id}, nil
}

func (r *recorder) Fork(n int) []hercules.PipelineItem {
	res := make([]hercules.PipelineItem, n)
	ev := recEvent{kind: 'F', inst: r.id}
	for i := range res {
		r.log.next++
		res[i] = &recorder{log: r.log, id: r.log.next}
		ev.others = append(ev.others, r.log.next)
	}
	r.log.events = append(r.log.events, ev)
	return res
}

func (r *recorder) Merge(branches []hercules.PipelineItem) {
	ev := recEvent{kind: 'M', inst: r.id}
	for _, b := range branches {
		ev.others = append(ev.others, b.(*recorder).id)
	}
	r.log.events = append(r.log.events, ev)
}

func (r *recorder) Hibernate() error {
	r.log.events = append(r.log.events, recEvent{kind: 'H', inst: r.id})
	return nil
}

func (r *recorder) Boot() error {
	r.log.events = append(r.log.events, recEvent{kind: 'B', inst: r.id})
	return nil
}

func actionKey(a verifapi.VerifAction, sortItems bool) string {
	items := append([]int{}, a.Items...)
	if sortItems {
		sort.Ints(items)
	}
	h := ""
	if a.Action == verifapi.ActionCommit && a.Commit != nil {
		h = a.Commit.Hash.String()
	}
	return fmt.Sprint(a.Action, h, items)
}

// realPlan rebuilds the executed plan from the recorder's log; problem is "" when the rebuilt plan agrees
// with the observed hibernate/boot calls and is a reordering of what the planner returns when asked again.
func realPlan(lg *recLog, commits []*object.Commit, hib int) (plan []verifapi.VerifAction, problem string) {
	if len(lg.events) == 0 || lg.events[0].kind != 'F' || lg.events[0].inst != 0 || len(lg.events[0].others) != 1 {
		return nil, "log"
	}
	rootClone := lg.events[0].others[0]
	branch := map[int]int{0: verifapi.RootBranchIndex}
	counter := verifapi.RootBranchIndex + 1
	var p0 []verifapi.VerifAction
	p0 = append(p0, verifapi.VerifAction{Action: verifapi.ActionEmerge, Items: []int{verifapi.RootBranchIndex}})
	type hbGroup struct {
		action int
		items  []int
	}
	var seen []hbGroup
	lastHB := byte(0)
	bad := false
	get := func(inst int) int {
		b, ok := branch[inst]
		if !ok {
			bad = true
		}
		return b
	}
	for _, ev := range lg.events[1:] {
		switch ev.kind {
		case 'C':
			p0 = append(p0, verifapi.VerifAction{Action: verifapi.ActionCommit, Commit: ev.commit, Items: []int{get(ev.inst)}})
		case 'F':
			if ev.inst == rootClone {
				if len(ev.others) != 1 {
					bad = true
					break
				}
				branch[ev.others[0]] = counter
				p0 = append(p0, verifapi.VerifAction{Action: verifapi.ActionEmerge, Items: []int{counter}})
				counter++
				break
			}
			items := []int{get(ev.inst)}
			for _, o := range ev.others {
				branch[o] = counter
				items = append(items, counter)
				counter++
			}
			p0 = append(p0, verifapi.VerifAction{Action: verifapi.ActionFork, Items: items})
		case 'M':
			items := []int{get(ev.inst)}
			for _, o := range ev.others {
				items = append(items, get(o))
			}
			p0 = append(p0, verifapi.VerifAction{Action: verifapi.ActionMerge, Items: items})
		case 'H', 'B':
			act := verifapi.ActionHibernate
			if ev.kind == 'B' {
				act = verifapi.ActionBoot
			}
			if lastHB == ev.kind {
				seen[len(seen)-1].items = append(seen[len(seen)-1].items, get(ev.inst))
			} else {
				seen = append(seen, hbGroup{act, []int{get(ev.inst)}})
			}
		}
		lastHB = 0
		if ev.kind == 'H' || ev.kind == 'B' {
			lastHB = ev.kind
		}
	}
	if bad {
		return nil, "log"
	}
	plan = verifapi.CollectGarbage(p0)
	if hib > 0 {
		plan = verifapi.InsertHibernateBoot(plan, hib)
	}
	k := 0
	for _, a := range plan {
		if a.Action != verifapi.ActionHibernate && a.Action != verifapi.ActionBoot {
			continue
		}
		if k >= len(seen) || seen[k].action != a.Action || fmt.Sprint(seen[k].items) != fmt.Sprint(a.Items) {
			return plan, "hb"
		}
		k++
	}
	if k != len(seen) {
		return plan, "hb"
	}
	// a fresh run of the planner must give the same actions up to the order (hibernate/boot excluded:
	// where they are inserted depends on the order)
	cnt := map[string]int{}
	isHB := func(a verifapi.VerifAction) bool {
		return a.Action == verifapi.ActionHibernate || a.Action == verifapi.ActionBoot
	}
	for _, a := range verifapi.PrepareRunPlan(commits, hib) {
		if !isHB(a) {
			cnt[actionKey(a, true)]++
		}
	}
	for _, a := range plan {
		if !isHB(a) {
			cnt[actionKey(a, true)]--
		}
	}
	for _, v := range cnt {
		if v != 0 {
			return plan, "sample"
		}
	}
	return plan, ""
}

// ---------------------------------------------------------------------------------------------
// restriction to a subset of the commits

func restrict(h *synth.Hist, keep []int) *synth.Hist {
	kept := make([]bool, h.N)
	newIdx := make([]int, h.N)
	for i := range newIdx {
		newIdx[i] = -1
	}
	k := 0
	for _, c := range keep {
		if c < 0 || c >= h.N || kept[c] {
			panic(fmt.Sprintf("bad keep index %d", c))
		}
		kept[c] = true
	}
	for c := 0; c < h.N; c++ {
		if kept[c] {
			newIdx[c] = k
			k++
		}
	}
	r := &synth.Hist{N: k, Paths: append([]string{}, h.Paths...), Seqs: map[string][]*synth.Line{}}
	// eff[c]: the kept commits (old numbering) that stand for c in a child's parent list
	eff := make([][]int, h.N)
	base := 0
	first := true
	for c := 0; c < h.N; c++ {
		var ps []int
		seen := map[int]bool{}
		for _, p := range h.Parents[c] {
			for _, q := range eff[p] {
				if !seen[q] {
					seen[q] = true
					ps = append(ps, q)
				}
			}
		}
		if !kept[c] {
			eff[c] = ps
			continue
		}
		eff[c] = []int{c}
		nps := make([]int, len(ps))
		for i, q := range ps {
			nps[i] = newIdx[q]
		}
		if len(nps) == 0 {
			nps = nil
		}
		if first {
			base = h.Tick[c]
			first = false
		}
		r.Parents = append(r.Parents, nps)
		r.Tick = append(r.Tick, h.Tick[c]-base)
		r.Author = append(r.Author, h.Author[c])
	}
	for _, p := range h.Paths {
		for _, l := range h.Seqs[p] {
			if !kept[l.Born] {
				continue
			}
			nl := &synth.Line{ID: l.ID, Born: newIdx[l.Born], Killer: -1}
			if l.Killer >= 0 && kept[l.Killer] {
				nl.Killer = newIdx[l.Killer]
			}
			r.Seqs[p] = append(r.Seqs[p], nl)
		}
	}
	return r
}

func restrictLinear(steps []synth.LinearStep, keep []int) []synth.LinearStep {
	var r []synth.LinearStep
	base := 0
	prev := -1
	for i, c := range keep {
		if c <= prev || c >= len(steps) {
			panic(fmt.Sprintf("bad keep index %d", c))
		}
		prev = c
		if i == 0 {
			base = steps[c].Tick
		}
		r = append(r, synth.LinearStep{Tick: steps[c].Tick - base, Files: steps[c].Files})
	}
	return r
}

// ---------------------------------------------------------------------------------------------
// observations

func row(v []int64) Sx {
	l := make([]Sx, len(v))
	for i, x := range v {
		l[i] = I64(x)
	}
	return L(l...)
}

func rows(m [][]int64) []Sx {
	l := make([]Sx, len(m))
	for i, r := range m {
		l[i] = row(r)
	}
	return l
}

func sortedKeys(m map[int]map[int]int64) []int {
	ks := make([]int, 0, len(m))
	for k := range m {
		ks = append(ks, k)
	}
	sort.Ints(ks)
	return ks
}

func sparseRow(m map[int]int64) []Sx {
	ks := make([]int, 0, len(m))
	for k := range m {
		ks = append(ks, k)
	}
	sort.Ints(ks)
	l := make([]Sx, len(ks))
	for i, k := range ks {
		l[i] = L(I(k), I64(m[k]))
	}
	return l
}

// sparse renders (T (TB D)...)...
func sparse(m map[int]map[int]int64) []Sx {
	var l []Sx
	for _, t := range sortedKeys(m) {
		l = append(l, L(append([]Sx{I(t)}, sparseRow(m[t])...)...))
	}
	return l
}

func devNumber(s string) int {
	i := strings.IndexByte(s, '|')
	name := s
	if i >= 0 {
		name = s[:i]
	}
	if name == "u" {
		return 0
	}
	if strings.HasPrefix(name, "dev") {
		if n, err := strconv.Atoi(name[3:]); err == nil && n >= 0 {
			return n
		}
	}
	return -9
}

func errorClass(msg string) string {
	switch {
	case strings.Contains(msg, "internal integrity error"):
		return "integrity"
	case strings.Contains(msg, "already exists"):
		return "exists"
	case strings.Contains(msg, "unexpectedly became binary"):
		return "binary"
	}
	return "other"
}

func panicClass(msg string) string {
	switch {
	case strings.Contains(msg, "empty history"):
		return "empty-history"
	case strings.Contains(msg, "index out of range"):
		return "index"
	case strings.Contains(msg, "nil pointer"), strings.Contains(msg, "invalid memory address"):
		return "nil"
	case strings.Contains(msg, "ticks corruption"):
		return "ticks"
	}
	return "other"
}

func planSx(plan []verifapi.VerifAction, idx map[plumbing.Hash]int) Sx {
	acts := make([]Sx, 0, len(plan))
	for _, a := range plan {
		var name string
		switch a.Action {
		case verifapi.ActionCommit:
			ci := -1
			if a.Commit != nil {
				if i, ok := idx[a.Commit.Hash]; ok {
					ci = i
				}
			}
			acts = append(acts, T("commit", append([]Sx{I(ci)}, Ints(a.Items).List...)...))
			continue
		case verifapi.ActionFork:
			name = "fork"
		case verifapi.ActionMerge:
			name = "merge"
		case verifapi.ActionEmerge:
			name = "emerge"
		case verifapi.ActionDelete:
			name = "delete"
		case verifapi.ActionHibernate:
			name = "hibernate"
		case verifapi.ActionBoot:
			name = "boot"
		default:
			name = "unknown" + strconv.Itoa(a.Action)
		}
		acts = append(acts, T(name, Ints(a.Items).List...))
	}
	return T("plan", acts...)
}

// runPipeline runs the real code on the given commits and renders the observation.
func runPipeline(in *input, repo *git.Repository, commits []*object.Commit) (obs Sx) {
	defer debug.SetGCPercent(100) // Initialize lowers it when hibernation is on
	defer func() {
		if r := recover(); r != nil {
			obs = T("panic", A(panicClass(fmt.Sprint(r))))
		}
	}()
	idx := map[plumbing.Hash]int{}
	for i, c := range commits {
		idx[c.Hash] = i
	}
	p := hercules.NewPipeline(repo)
	b := &leaves.BurndownAnalysis{}
	if in.reuse > 0 {
		warmUp(b, in.reuse == 2)
	}
	p.DeployItem(b)
	lg := &recLog{}
	p.DeployItem(&recorder{log: lg})
	facts := map[string]interface{}{
		hercules.ConfigLogger:            silent{},
		hercules.ConfigPipelineCommits:   commits,
		leaves.ConfigBurndownGranularity: in.g,
		leaves.ConfigBurndownSampling:    in.s,
		leaves.ConfigBurndownTrackFiles:  in.files,
		leaves.ConfigBurndownTrackPeople: in.people,
	}
	if in.hib > 0 {
		facts[configHibernationDistance] = in.hib
		switch in.hibmode {
		case "disk":
			facts[leaves.ConfigBurndownHibernationToDisk] = true
			facts[leaves.ConfigBurndownHibernationDirectory] = hibDir
		case "thr":
			facts[leaves.ConfigBurndownHibernationThreshold] = in.thr
		}
	}
	if err := p.Initialize(facts); err != nil {
		return T("error", A(errorClass(err.Error())))
	}
	out, err := p.Run(commits)
	if err != nil {
		return T("error", A(errorClass(err.Error())))
	}
	res := out[b].(leaves.BurndownResult)
	plan, planProblem := realPlan(lg, commits, in.hib)

	var fhist []Sx
	{
		var paths []string
		for k := range res.FileHistories {
			paths = append(paths, k)
		}
		sort.Strings(paths)
		for _, k := range paths {
			fhist = append(fhist, L(append([]Sx{A(in.nt.plainName(k))}, rows(res.FileHistories[k])...)...))
		}
	}
	var owner []Sx
	{
		var paths []string
		for k := range res.FileOwnership {
			paths = append(paths, k)
		}
		sort.Strings(paths)
		for _, k := range paths {
			m := res.FileOwnership[k]
			var devs []int
			for d := range m {
				devs = append(devs, d)
			}
			sort.Ints(devs)
			item := []Sx{A(in.nt.plainName(k))}
			for _, d := range devs {
				item = append(item, L(I(d), I(m[d])))
			}
			owner = append(owner, L(item...))
		}
	}
	var dict, phist, pmatrix []Sx
	if in.people {
		rd, _ := facts[hercules.FactIdentityDetectorReversedPeopleDict].([]string)
		for _, s := range rd {
			dict = append(dict, I(devNumber(s)))
		}
		for i, ph := range res.PeopleHistories {
			phist = append(phist, L(append([]Sx{I(i)}, rows(ph)...)...))
		}
		pmatrix = rows(res.PeopleMatrix)
	}
	if in.light {
		ok := []Sx{
			planSx(plan, idx),
			T("global", rows(res.GlobalHistory)...),
			T("fhist", fhist...),
			T("dict", dict...),
			T("phist", phist...),
			T("owner", owner...),
			T("pmatrix"),
		}
		if planProblem != "" {
			ok = append(ok, T("planproblem", A(planProblem)))
		}
		return T("ok", ok...)
	}
	var sfh []Sx
	{
		m := leaves.VerifC01FileHist(b)
		var paths []string
		for k := range m {
			paths = append(paths, k)
		}
		sort.Strings(paths)
		for _, k := range paths {
			sfh = append(sfh, L(append([]Sx{A(in.nt.plainName(k))}, sparse(m[k])...)...))
		}
	}
	var sph, smx []Sx
	for i, m := range leaves.VerifC01PeopleHist(b) {
		if m != nil {
			sph = append(sph, L(append([]Sx{I(i)}, sparse(m)...)...))
		}
	}
	for i, m := range leaves.VerifC01Matrix(b) {
		if m != nil {
			smx = append(smx, L(append([]Sx{I(i)}, sparseRow(m)...)...))
		}
	}
	var final []Sx
	{
		m := leaves.VerifC01Files(b)
		var paths []string
		for k := range m {
			paths = append(paths, k)
		}
		sort.Strings(paths)
		for _, k := range paths {
			final = append(final, L(append([]Sx{A(in.nt.plainName(k))}, Ints(m[k]).List...)...))
		}
	}
	ok := []Sx{
		planSx(plan, idx),
		T("global", rows(res.GlobalHistory)...),
		T("fhist", fhist...),
		T("dict", dict...),
		T("phist", phist...),
		T("owner", owner...),
		T("pmatrix", pmatrix...),
		T("sparse", T("gh", sparse(leaves.VerifC01Global(b))...), T("fh", sfh...), T("ph", sph...), T("mx", smx...)),
		T("final", final...),
	}
	if planProblem != "" {
		ok = append(ok, T("planproblem", A(planProblem)))
	}
	return T("ok", ok...)
}

func leftover() int {
	ents, err := ioutil.ReadDir(hibDir)
	if err != nil {
		return -1
	}
	n := len(ents)
	for _, e := range ents {
		os.RemoveAll(hibDir + "/" + e.Name())
	}
	return n
}

func emit(c *Config, in *input) {
	fields := []Sx{T("kind", A(in.kind))}
	var histFields []Sx
	var repo *git.Repository
	var commits []*object.Commit
	nt := false
	if in.h != nil {
		r := restrict(in.h, in.keep)
		killed := false
		for _, p := range r.Paths {
			for _, l := range r.Seqs[p] {
				if l.Killer >= 0 {
					killed = true
				}
			}
		}
		nt = r.N >= 3 && killed
		rs := r.Sx()
		rs.List[0] = A("rhist")
		histFields = []Sx{in.h.Sx(), rs}
		if in.pd != nil {
			rpd := in.pd.restrict(in.keep, in.h.N)
			histFields = append(histFields, in.pd.sx("pd", in.h), rpd.sx("rpd", r))
			if in.enc > 0 || in.nenc > 0 || in.modes {
				if in.nenc > 0 {
					in.nt = newNameTable(in.nenc, caseNames(in.h, in.pd), in.h.N)
				}
				repo, commits = buildRendered(r, rpd, in.enc, in.nt, in.modes)
			} else {
				repo, commits = pdBuild(r, rpd)
			}
		} else if in.enc > 0 || in.nenc > 0 || in.modes {
			if in.nenc > 0 {
				in.nt = newNameTable(in.nenc, caseNames(in.h, nil), in.h.N)
			}
			repo, commits = buildRendered(r, nil, in.enc, in.nt, in.modes)
		} else {
			repo, commits = r.Build()
		}
	} else {
		r := restrictLinear(in.lin, in.keep)
		nt = len(r) >= 3
		in.enc, in.nenc, in.modes = 0, 0, false
		rs := synth.LinearSx(r)
		rs.List[0] = A("rlinear")
		histFields = []Sx{synth.LinearSx(in.lin), rs}
		repo, commits = synth.BuildRepo(synth.LinearSpecs(r))
	}
	obs := runPipeline(in, repo, commits)
	if in.hibmode == "disk" {
		if n := leftover(); n != 0 {
			obs.List = append(obs.List, T("leftover", I(n)))
		}
	}
	fields = append(fields, T("nt", B(nt)), T("g", I(in.g)), T("s", I(in.s)), T("files", B(in.files)),
		T("people", B(in.people)), T("hib", I(in.hib)), T("hibmode", A(in.hibmode)), T("thr", I(in.thr)),
		T("keep", Ints(in.keep).List...))
	if in.reuse > 0 {
		fields = append(fields, T("reuse", I(in.reuse)))
	}
	if in.enc > 0 {
		fields = append(fields, T("enc", I(in.enc)))
	}
	if in.nenc > 0 {
		fields = append(fields, T("nenc", I(in.nenc)))
	}
	if in.modes {
		fields = append(fields, T("modes", I(1)))
	}
	fields = append(fields, histFields...)
	fields = append(fields, T("obs", obs))
	c.Emit(fields...)
}

// ---------------------------------------------------------------------------------------------
// generators

func allIdx(n int) []int {
	r := make([]int, n)
	for i := range r {
		r[i] = i
	}
	return r
}

// params draws granularity, sampling, flags and the hibernation setting.
func params(rng *rand.Rand, in *input, allowHib bool) {
	if rng.Intn(6) == 0 {
		in.g = 5 + rng.Intn(3)
	} else {
		in.g = 1 + rng.Intn(4)
	}
	if rng.Intn(3) == 0 {
		in.s = in.g
	} else {
		in.s = 1 + rng.Intn(in.g)
	}
	in.files = rng.Intn(2) == 0
	in.people = rng.Intn(2) == 0
	in.reuse = 0
	if rng.Intn(6) == 0 {
		in.reuse = 1 + rng.Intn(2)
	}
	in.hibmode = "none"
	if allowHib && rng.Intn(4) == 0 {
		in.hib = 1 + rng.Intn(3)
		switch rng.Intn(3) {
		case 0:
			in.hibmode = "mem"
		case 1:
			in.hibmode = "disk"
		case 2:
			in.hibmode = "thr"
			in.thr = 1 + rng.Intn(40)
		}
	}
	drawContent(rng.Intn, in)
}

func histCase(c *Config, kind string, h *synth.Hist) {
	in := &input{kind: kind, h: h, keep: allIdx(h.N)}
	params(c.Rng, in, true)
	emit(c, in)
}

type shape struct {
	kind    string
	parents [][]int
	same    bool
}

func shapes(rng *rand.Rand) []shape {
	// octopus: a root, three branches of 1-2 commits each, a merge of the three tips
	octo := [][]int{{}}
	var tips []int
	for b := 0; b < 3; b++ {
		tip := 0
		for k := 1 + rng.Intn(2); k > 0; k-- {
			octo = append(octo, []int{tip})
			tip = len(octo) - 1
		}
		tips = append(tips, tip)
	}
	if rng.Intn(2) == 0 {
		// interleave the branches: renumber in a random topological order
		octo, tips = shuffleTopo(rng, octo, tips)
	}
	octo = append(octo, tips)
	if rng.Intn(2) == 0 {
		octo = append(octo, []int{len(octo) - 1})
	}
	diamond := [][]int{{}, {0}, {0}, {1, 2}}
	if rng.Intn(2) == 0 {
		diamond = [][]int{{}, {0}, {0}, {1}, {3, 2}, {4}}
	}
	sameShapes := [][][]int{
		{{}, {0}, {1}, {2}},
		{{}, {0}, {0}, {1, 2}, {3}},
		{{}, {0}, {0}, {1, 2}, {1, 2}, {3, 4}},
	}
	tworoots := [][]int{{}, {}, {0, 1}}
	switch rng.Intn(3) {
	case 1:
		tworoots = [][]int{{}, {}, {0}, {1}, {2, 3}, {4}}
	case 2:
		tworoots = [][]int{{}, {0}, {}, {2}, {1, 3}}
	}
	return []shape{
		{kind: "shape-diamond", parents: diamond},
		{kind: "shape-criss", parents: [][]int{{}, {0}, {0}, {1, 2}, {1, 2}, {3, 4}}},
		{kind: "shape-nested", parents: [][]int{{}, {0}, {0}, {1}, {1}, {3, 4}, {2}, {5, 6}, {7}}},
		{kind: "shape-chain", parents: [][]int{{}, {0}, {0}, {1, 2}, {0}, {3, 4}, {3}, {5, 6}}},
		{kind: "shape-octo", parents: octo},
		{kind: "shape-sametick", parents: sameShapes[rng.Intn(len(sameShapes))], same: true},
		{kind: "shape-tworoots", parents: tworoots},
	}
}

// shuffleTopo renumbers the commits in a random topological order.
func shuffleTopo(rng *rand.Rand, parents [][]int, tips []int) ([][]int, []int) {
	n := len(parents)
	placed := make([]int, n) // old -> new
	for i := range placed {
		placed[i] = -1
	}
	var res [][]int
	for len(res) < n {
		var ready []int
		for c := 0; c < n; c++ {
			if placed[c] >= 0 {
				continue
			}
			ok := true
			for _, p := range parents[c] {
				if placed[p] < 0 {
					ok = false
				}
			}
			if ok {
				ready = append(ready, c)
			}
		}
		c := ready[rng.Intn(len(ready))]
		var ps []int
		for _, p := range parents[c] {
			ps = append(ps, placed[p])
		}
		placed[c] = len(res)
		res = append(res, ps)
	}
	nt := make([]int, len(tips))
	for i, t := range tips {
		nt[i] = placed[t]
	}
	return res, nt
}

func notext(rng *rand.Rand) []synth.LinearStep {
	n := 2 + rng.Intn(3)
	names := []string{"a", "b", "c"}
	blob := func() []byte {
		switch rng.Intn(3) {
		case 0:
			return []byte{}
		case 1:
			return []byte{0}
		}
		b := []byte(fmt.Sprintf("w%d\n", rng.Intn(4)))
		b = append(b, 0)
		for k := rng.Intn(3); k > 0; k-- {
			b = append(b, byte('x'+rng.Intn(3)), '\n')
		}
		return b
	}
	files := map[string][]byte{}
	var steps []synth.LinearStep
	tick := 0
	for c := 0; c < n; c++ {
		for e := 1 + rng.Intn(2); e > 0; e-- {
			nm := names[rng.Intn(len(names))]
			if _, ok := files[nm]; ok && rng.Intn(5) == 0 {
				delete(files, nm)
			} else {
				files[nm] = blob()
			}
		}
		if c > 0 && rng.Intn(3) > 0 {
			tick += rng.Intn(3)
		}
		snap := map[string][]byte{}
		for k, v := range files {
			snap[k] = v
		}
		steps = append(steps, synth.LinearStep{Tick: tick, Files: snap})
	}
	return steps
}

func ints(s Sx) []int {
	var r []int
	for _, x := range s.Args() {
		r = append(r, x.Int())
	}
	return r
}

func fieldInt(cs Sx, name string, def int) int {
	if f, ok := cs.Field(name); ok && len(f.Args()) == 1 {
		return f.Args()[0].Int()
	}
	return def
}

// fail reports a malformed replay file.
func fail(msg string) {
	fmt.Fprintln(os.Stderr, msg)
	os.RemoveAll(hibDir)
	os.Exit(2)
}

func replay(c *Config) {
	for _, cs := range c.ReplayCases() {
		in := &input{kind: "replay", hibmode: "none"}
		if f, ok := cs.Field("kind"); ok && len(f.Args()) == 1 {
			in.kind = f.Args()[0].Atom
		}
		in.g = fieldInt(cs, "g", 1)
		in.s = fieldInt(cs, "s", 1)
		in.files = fieldInt(cs, "files", 0) != 0
		in.people = fieldInt(cs, "people", 0) != 0
		in.hib = fieldInt(cs, "hib", 0)
		in.thr = fieldInt(cs, "thr", 0)
		in.reuse = fieldInt(cs, "reuse", 0)
		in.enc = fieldInt(cs, "enc", 0)
		in.nenc = fieldInt(cs, "nenc", 0)
		in.modes = fieldInt(cs, "modes", 0) != 0
		if f, ok := cs.Field("hibmode"); ok && len(f.Args()) == 1 {
			in.hibmode = f.Args()[0].Atom
		}
		n := 0
		if f, ok := cs.Field("dlinear"); ok {
			emitLinScale(c, in, dlinearFromSx(f))
			continue
		}
		if _, ok := cs.Field("scale"); ok {
			// a scale / option case: the history is the (unrestricted) rhist, the commit times come with it
			f, ok := cs.Field("rhist")
			if !ok {
				fail("scale replay line without rhist")
			}
			sh := &scaleHist{h: synth.HistFromSx(f)}
			if sf, ok := cs.Field("secs"); ok {
				sh.secs = ints(sf)
			}
			for len(sh.secs) < sh.h.N {
				sh.secs = append(sh.secs, len(sh.secs)%86400)
			}
			emitScale(c, in, sh, fieldInt(cs, "model", 0) != 0)
			continue
		}
		if f, ok := cs.Field("hist"); ok {
			in.h = synth.HistFromSx(f)
			n = in.h.N
			if pf, ok := cs.Field("pd"); ok {
				in.pd = pdFromSx(pf)
			}
		} else if f, ok := cs.Field("linear"); ok {
			in.lin = synth.LinearFromSx(f)
			n = len(in.lin)
		} else {
			fail("replay line without hist/linear")
		}
		if f, ok := cs.Field("keep"); ok {
			in.keep = ints(f)
			sort.Ints(in.keep)
			for i, k := range in.keep {
				if k < 0 || k >= n || (i > 0 && in.keep[i-1] == k) {
					fail(fmt.Sprint("replay line with a bad keep index: ", k))
				}
			}
		} else {
			in.keep = allIdx(n)
		}
		emit(c, in)
	}
}

func main() {
	log.SetOutput(ioutil.Discard)
	c := Setup()
	defer c.Close()
	dir, err := os.MkdirTemp("", "c01-hib")
	if err != nil {
		fmt.Fprintln(os.Stderr, err)
		os.Exit(2)
	}
	hibDir = dir
	defer os.RemoveAll(dir)
	if c.Replay != "" {
		replay(c)
		return
	}
	rng := c.Rng
	if only := os.Getenv("C01_ONLY"); only != "" { // development aid: one family alone
		switch only {
		case "opt":
			optFamily(c)
		case "scale":
			scaleFamily(c)
		case "linscale":
			linScaleFamily(c)
		case "lincombo":
			linComboFamily(c)
		case "pathdel":
			pathDelFamily(c)
		}
		return
	}
	maxc := 12
	if c.Thorough() {
		maxc = 40
	}
	size := func() int {
		// mostly small histories, the large ones only in a fraction of the thorough cases
		if maxc > 12 && rng.Intn(4) == 0 {
			return 13 + rng.Intn(maxc-12)
		}
		return 12
	}
	for i := c.Count(320, 5000); i > 0; i-- {
		histCase(c, "linear-cf", synth.GenHist(rng, synth.GenOpts{Linear: true, SingleHead: true, MaxCommits: size()}))
	}
	for i := c.Count(1200, 20000); i > 0; i-- {
		histCase(c, "dag1", synth.GenHist(rng, synth.GenOpts{SingleHead: true, MergeAddsPr: 3, MaxCommits: size()}))
	}
	for i := c.Count(320, 5000); i > 0; i-- {
		histCase(c, "dag1-addm", synth.GenHist(rng, synth.GenOpts{SingleHead: true, MergeAddsPr: 1, MaxCommits: size()}))
	}
	for i := c.Count(320, 5000); i > 0; i-- {
		var h *synth.Hist
		for {
			h = synth.GenHist(rng, synth.GenOpts{MergeAddsPr: 3, MaxCommits: size()})
			if len(h.Heads()) >= 2 {
				break
			}
		}
		in := &input{kind: "multi", h: h, keep: allIdx(h.N)}
		params(rng, in, true)
		in.files = i%2 == 0
		emit(c, in)
	}
	for i := c.Count(70, 1000); i > 0; i-- {
		for _, sh := range shapes(rng) {
			o := synth.GenOpts{MergeAddsPr: 3, SameTick: sh.same}
			if rng.Intn(3) == 0 {
				o.MergeAddsPr = 1
			}
			h := synth.GenHistShape(rng, sh.parents, o)
			in := &input{kind: sh.kind, h: h, keep: allIdx(h.N)}
			params(rng, in, true)
			if sh.kind == "shape-tworoots" {
				in.files = i%2 == 0
			}
			emit(c, in)
		}
	}
	for i := c.Count(20, 300); i > 0; i-- {
		lin := notext(rng)
		in := &input{kind: "notext", lin: lin, keep: allIdx(len(lin))}
		params(rng, in, false)
		emit(c, in)
	}
	optFamily(c)
	scaleFamily(c)
	linScaleFamily(c)
	linComboFamily(c)
	pathDelFamily(c)
	for i := c.Count(480, 10000); i > 0; i-- {
		lin := synth.GenLinear(rng, 10)
		in := &input{kind: "lin", lin: lin, keep: allIdx(len(lin))}
		params(rng, in, false)
		emit(c, in)
	}
}

// warmUp lets the analysis instance analyse another repository first (Configure / Initialize / Run of a different
// pipeline): a history with the path names of the generated cases in which a file is renamed and deleted on a branch,
// re-created, flipped to binary, with three authors, file and people tracking on.  Whatever it leaves behind in the
// instance (deletions, renames, histories, files, ticks) must be reset by the Initialize of the observed run.
var warmRepo, failRepo *git.Repository
var warmCommits, failCommits []*object.Commit

func warmUp(b *leaves.BurndownAnalysis, failing bool) {
	defer func() { recover() }()
	if failRepo == nil {
		failRepo, failCommits = synth.BuildRepo([]synth.CommitSpec{{AuthorName: "dev0", AuthorEmail: "dev0@x",
			AuthorWhen: time.Unix(synth.BaseTime, 0), Files: []synth.FileSpec{{Path: "a", Data: []byte{'x', 0, '\n'}}}}})
	}
	if warmRepo == nil {
		txt := func(n int, tag string) []byte {
			var d []byte
			for i := 0; i < n; i++ {
				d = append(d, fmt.Sprintf("%s%d\n", tag, i)...)
			}
			return d
		}
		f := func(path string, data []byte) synth.FileSpec { return synth.FileSpec{Path: path, Data: data} }
		at := func(day, c int) time.Time { return time.Unix(synth.BaseTime+int64(day)*86400+int64(c), 0) }
		cs := []synth.CommitSpec{
			{AuthorName: "dev0", AuthorEmail: "dev0@x", AuthorWhen: at(0, 0), Files: []synth.FileSpec{f("a", txt(9, "A")), f("b", txt(4, "B")), f("c", txt(3, "C")), f("big", txt(20, "G"))}},
			{Parents: []int{0}, AuthorName: "dev1", AuthorEmail: "dev1@x", AuthorWhen: at(1, 1), Files: []synth.FileSpec{f("g", txt(9, "A")), f("b", txt(4, "B")), f("c", append(txt(3, "C"), 0)), f("big", txt(20, "G"))}},
			{Parents: []int{0}, AuthorName: "dev2", AuthorEmail: "dev2@x", AuthorWhen: at(1, 2), Files: []synth.FileSpec{f("a", txt(9, "A")), f("b", txt(6, "B")), f("c", txt(3, "C")), f("big", txt(20, "G"))}},
			{Parents: []int{1}, AuthorName: "dev1", AuthorEmail: "dev1@x", AuthorWhen: at(2, 3), Files: []synth.FileSpec{f("b", txt(4, "B")), f("c", append(txt(3, "C"), 0)), f("a", txt(2, "N"))}},
			{Parents: []int{3, 2}, AuthorName: "dev0", AuthorEmail: "dev0@x", AuthorWhen: at(3, 4), Files: []synth.FileSpec{f("b", txt(6, "B")), f("c", append(txt(3, "C"), 0)), f("a", txt(2, "N"))}},
			{Parents: []int{4}, AuthorName: "dev2", AuthorEmail: "dev2@x", AuthorWhen: at(9, 5), Files: []synth.FileSpec{f("b", txt(1, "B")), f("p0", txt(2, "P"))}},
		}
		warmRepo, warmCommits = synth.BuildRepo(cs)
	}
	repo, commits := warmRepo, warmCommits
	if failing {
		repo, commits = failRepo, failCommits // Finalize panics "empty history"; the panic is swallowed here
	}
	p := hercules.NewPipeline(repo)
	p.DeployItem(b)
	facts := map[string]interface{}{
		hercules.ConfigLogger:            silent{},
		hercules.ConfigPipelineCommits:   commits,
		leaves.ConfigBurndownGranularity: 3,
		leaves.ConfigBurndownSampling:    2,
		leaves.ConfigBurndownTrackFiles:  true,
		leaves.ConfigBurndownTrackPeople: true,
	}
	if err := p.Initialize(facts); err != nil {
		return
	}
	p.Run(commits)
}
