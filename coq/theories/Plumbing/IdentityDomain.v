(* The domain in which MergeReversedDictsIdentities is correct (no part in two entries of one list) is
   satisfied by every ReversedPeopleDict that GeneratePeopleDict produces from names and e-mails
   without "|": generate-then-merge is safe, finding F7 concerns other lists only. *)
From Coq Require Import List ZArith Lia Bool Permutation Sorted Arith.
From Herc Require Import Plumbing.IdStr Plumbing.Identity Plumbing.IdentityProofs Plumbing.IdentityMerge.
Import ListNotations.
Local Open Scope nat_scope.

Lemma disjointb_complete vs :
  (forall i j p, i < length vs -> j < length vs -> In p (nth i vs []) -> In p (nth j vs []) -> i = j) ->
  disjointb vs = true.
Proof.
  induction vs as [|v r IH]; intros H; simpl; [reflexivity|].
  apply andb_true_iff. split.
  - apply forallb_forall. intros w Hw. apply negb_true_iff.
    destruct (existsb (fun p => smem p w) v) eqn:E; [|reflexivity]. exfalso.
    apply existsb_exists in E. destruct E as [p [Hp Hpw]]. apply smem_In in Hpw.
    destruct (In_nth r w [] Hw) as [n [Hn En]].
    assert (X : 0 = S n); [|discriminate].
    apply (H 0 (S n) p); simpl; try lia; [assumption|rewrite En; assumption].
  - apply IH. intros i j p Hi Hj Hpi Hpj.
    assert (X : S i = S j); [|lia]. apply (H (S i) (S j) p); simpl; try lia; assumption.
Qed.

Lemma split_join2 ns es : ns <> [] -> Forall nobar ns -> es <> [] -> Forall nobar es ->
  split (join ns ++ bar :: join es) = ns ++ es.
Proof.
  intros Hne Hns Hee Hes. induction ns as [|x r IH]; [congruence|].
  inversion Hns as [|? ? Hx Hr]; subst. destruct r as [|y r'].
  - cbn [join app]. rewrite split_app_bar by assumption. f_equal. apply split_join; assumption.
  - change (join (x :: y :: r')) with (x ++ bar :: join (y :: r')).
    rewrite <- app_assoc. cbn [app]. rewrite split_app_bar by assumption. cbn [app]. f_equal.
    apply IH; [discriminate|assumption].
Qed.

Lemma lower_ascii_nobar s : nobar s -> nobar (lower_ascii s).
Proof.
  unfold nobar, lower_ascii. intros H Hin. apply in_map_iff in Hin. destruct Hin as [c [E Hc]].
  assert (c = bar); [|subst; contradiction].
  unfold lower_byte, bar in *. destruct (Z.leb_spec 65 c), (Z.leb_spec c 90); simpl in E; lia.
Qed.

Section Domain.
  Variable lower : str -> str.
  Hypothesis lower_nobar : forall s, nobar s -> nobar (lower s).

  Notation names_of devs d := (fst (nth d devs (@nil (list Z), @nil (list Z)))).
  Notation emails_of devs d := (snd (nth d devs (@nil (list Z), @nil (list Z)))).

  Definition clean (c : commit) : Prop := nobar (c_name c) /\ nobar (c_email c).

  Lemma g_nonempty cs : forall d, d < length (g_devs (g_run lower cs)) ->
    names_of (g_devs (g_run lower cs)) d <> [] /\ emails_of (g_devs (g_run lower cs)) d <> [].
  Proof.
    induction cs as [|c cs IH] using rev_ind; [simpl; intros; lia|].
    rewrite g_run_snoc. pose proof (GInv_run lower cs) as I. set (s := g_run lower cs) in *.
    unfold g_step.
    destruct (sget (g_dict s) (lower (c_email c))) as [ide|] eqn:Ee;
      destruct (sget (g_dict s) (lower (c_name c))) as [idn|] eqn:En; cbn [g_devs].
    - assumption.
    - intros d. rewrite add_name_length. intros Hd.
      rewrite nth_add_name by (apply (gi_range _ _ _ I _ _ Ee)).
      destruct (Nat.eqb d ide); cbn [fst snd]; [|apply IH; assumption].
      split; [intros E; apply app_eq_nil in E; destruct E; discriminate|apply IH; assumption].
    - intros d. rewrite add_email_length. intros Hd.
      rewrite nth_add_email by (apply (gi_range _ _ _ I _ _ En)).
      destruct (Nat.eqb d idn); cbn [fst snd]; [|apply IH; assumption].
      split; [apply IH; assumption|intros E; apply app_eq_nil in E; destruct E; discriminate].
    - intros d. rewrite app_length. simpl. intros Hd.
      destruct (Nat.ltb_spec d (length (g_devs s))) as [H|H].
      + rewrite app_nth1 by assumption. apply IH. assumption.
      + assert (d = length (g_devs s)) by lia. subst d. rewrite app_nth2, Nat.sub_diag by lia.
        simpl. split; discriminate.
  Qed.

  Lemma key_clean exact cs k : Forall clean cs -> key_used lower exact cs k = true -> nobar k.
  Proof.
    intros Hc H. rewrite Forall_forall in Hc. destruct exact; unfold key_used in H;
      apply existsb_exists in H; destruct H as [c [Hin E]]; destruct (Hc c Hin) as [Hn He].
    - apply str_eqb_eq in E. subst k. apply lower_nobar. unfold sig_string, nobar.
      rewrite !in_app_iff. simpl. unfold bar. unfold nobar, bar in Hn, He.
      intros [H|[[H|[H|[]]]|[H|[H|[]]]]]; try contradiction; discriminate.
    - apply orb_true_iff in E. destruct E as [E|E]; apply str_eqb_eq in E; subst k; apply lower_nobar; assumption.
  Qed.

  (* every part of a description is a key of that developer *)
  Lemma description_parts exact order cs dict rev : order_ok order -> Forall clean cs ->
    generate_people_dict lower exact order cs = Some (dict, rev) ->
    forall d p, d < length rev -> In p (split (nth d rev [])) -> sget dict p = Some d.
  Proof.
    intros Ho Hc H d p Hd Hp.
    assert (Hk : forall k d0, sget dict k = Some d0 -> nobar k).
    { intros k d0 Hk. apply (key_clean exact cs k Hc). apply (gen_dict_keys lower exact order cs dict rev H). eauto. }
    destruct exact.
    - destruct (gen_description_exact lower order cs dict rev Ho H d Hd) as [H1 _].
      rewrite split_single in Hp by (eapply Hk; exact H1). destruct Hp as [<-|[]]. assumption.
    - destruct (gen_description_loose lower order cs dict rev Ho H d Hd) as [ns [es [E [_ [_ [_ [_ [Hns [Hes _]]]]]]]]].
      pose proof H as H'. apply gen_loose_inv in H'. destruct H' as [Ed Er].
      assert (Hd' : d < length (g_devs (g_run lower cs))) by (rewrite Er, g_reverse_length in Hd; assumption).
      destruct (g_nonempty cs d Hd') as [N1 N2].
      (* ns and es are permutations of the developer's name and e-mail lists, hence non-empty *)
      pose proof (GInv_run lower cs) as I.
      assert (Hns' : ns <> []).
      { destruct (names_of (g_devs (g_run lower cs)) d) as [|k r] eqn:En; [congruence|].
        assert (In k ns).
        { apply Hns. rewrite Ed. apply (gi_names _ _ _ I d k Hd'). rewrite En. left. reflexivity. }
        intros ->. contradiction. }
      assert (Hes' : es <> []).
      { destruct (emails_of (g_devs (g_run lower cs)) d) as [|k r] eqn:En; [congruence|].
        assert (In k es).
        { apply Hes. rewrite Ed. apply (gi_emails _ _ _ I d k Hd'). rewrite En. left. reflexivity. }
        intros ->. contradiction. }
      rewrite E, split_join2 in Hp; try assumption.
      + apply in_app_iff in Hp. destruct Hp as [Hp|Hp]; [apply (proj1 (Hns p)) in Hp|apply (proj1 (Hes p)) in Hp]; apply (proj1 Hp).
      + apply Forall_forall. intros k Hin. apply (proj1 (Hns k)) in Hin. eapply Hk. apply (proj1 Hin).
      + apply Forall_forall. intros k Hin. apply (proj1 (Hes k)) in Hin. eapply Hk. apply (proj1 Hin).
  Qed.

  Theorem generated_disjoint exact order cs dict rev : order_ok order -> Forall clean cs ->
    generate_people_dict lower exact order cs = Some (dict, rev) ->
    disjointb (map split rev) = true.
  Proof.
    intros Ho Hc H. apply disjointb_complete. intros i j p. rewrite map_length. intros Hi Hj Hpi Hpj.
    assert (Hn : forall n, n < length rev -> nth n (map split rev) [] = split (nth n rev [])).
    { intros n Hn. rewrite (nth_indep _ [] (split [])) by (rewrite map_length; assumption). apply map_nth. }
    rewrite Hn in Hpi, Hpj by assumption.
    pose proof (description_parts exact order cs dict rev Ho Hc H i p Hi Hpi) as E1.
    pose proof (description_parts exact order cs dict rev Ho Hc H j p Hj Hpj) as E2.
    congruence.
  Qed.
End Domain.

Theorem generated_in_domain lower exact order1 order2 cs1 cs2 dict1 rev1 dict2 rev2 :
  (forall s, nobar s -> nobar (lower s)) -> order_ok order1 -> order_ok order2 ->
  Forall (fun c => nobar (c_name c) /\ nobar (c_email c)) cs1 ->
  Forall (fun c => nobar (c_name c) /\ nobar (c_email c)) cs2 ->
  generate_people_dict lower exact order1 cs1 = Some (dict1, rev1) ->
  generate_people_dict lower exact order2 cs2 = Some (dict2, rev2) ->
  merge_domb rev1 rev2 = true.
Proof.
  intros Hl O1 O2 C1 C2 G1 G2. unfold merge_domb. apply andb_true_iff. split.
  - exact (generated_disjoint lower Hl exact order1 cs1 dict1 rev1 O1 C1 G1).
  - exact (generated_disjoint lower Hl exact order2 cs2 dict2 rev2 O2 C2 G2).
Qed.
