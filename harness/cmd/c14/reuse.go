// Two families added after the third round of seeded changes (semantic corners):
//
// kind special (R3-5, special but legal values): recording items publish, for a DECLARED entity at chosen commit
// indices (or at every step), the untyped nil interface, typed nil slices / maps / pointers, "", 0, false, an empty
// slice or uint64(0) instead of a digest (type special in main.go).  Run must store the value under the key and go
// on; the downstream items must receive exactly that value; only an ABSENT key is a missing output.
//
// kinds reuse-* (R3-1 object lifecycle, R3-2 error paths): ONE hercules.Pipeline object and the SAME item instances
// analyse several commit selections of one repository, one after the other - selections of equal length with the same
// first and last commit and another middle (each side of a merge; the same window with another commit dropped),
// sub-histories, a history that grows between the runs, the same selection again - re-initialised in between
// (Pipeline.Initialize, once or twice), or just run again after the harness has reset the counters of the original
// item instances (what the tests of internal/core do).  A run may carry an injected failure (the next run then
// re-uses a Pipeline whose last Run was aborted).  Every run is judged exactly like the single run of a fresh
// pipeline: the extracted interpreter is the fresh-instance twin (call log and result compared event by event), the
// oracles judge the observed log, and in addition every commit of the executed plan must be one of the commits
// handed to THAT run.  The plan is read from the DumpPlan dump or - in half of the later runs, because a dump forces
// re-planning in more than one plausible cache - from what PrintActions prints while Run executes.
//
// The pipelines hold recording items only.  The stock TreeDiff cannot be re-run on one Pipeline object in the
// unmodified tree (TreeDiff.Initialize does not clear previousCommit; the first commit of the second run fails its
// parent test) - outside what these pipelines exercise.
package main

import (
	. "verifharness/lib"
	"verifharness/synth"
)

func runReuse(in *caseIn) ([]Sx, bool, error) {
	s := newSession(*in)
	known := map[int]bool{}
	for _, c := range in.Commits {
		known[c.ID] = true
	}
	var obs []Sx
	var done []runSpec
	nt := false
	for _, r := range in.Runs {
		var sel []int
		for _, id := range r.Sel {
			if known[id] {
				sel = append(sel, id)
			}
		}
		if len(sel) == 0 {
			continue
		}
		r.Sel = sel
		if !s.ready && r.Mode == 1 {
			r.Mode = 0
		}
		if r.Mode == 1 {
			r.Dist, r.PA, r.Dump = s.dist, s.pa, s.dump
		}
		if !r.Dump {
			r.PA = true
			r.Inj = injection{Kind: "none"}
		}
		o, n, fatal := s.run(r)
		if fatal != nil {
			return nil, false, fatal
		}
		obs = append(obs, T("run", o...))
		done = append(done, r)
		nt = nt || n
	}
	in.Runs = done
	if len(done) == 0 {
		return []Sx{T("initfail")}, false, nil
	}
	return obs, nt, nil
}

// ---------------------------------------------------------------------------------------------
// special values

func providers(its []itemSpec) []itemSpec {
	var r []itemSpec
	for _, s := range its {
		if len(s.Provides) > 0 {
			r = append(r, s)
		}
	}
	return r
}

func pickSpecials(c *Config, its []itemSpec, ncommits int) []special {
	r := c.Rng
	ps := providers(its)
	if len(ps) == 0 {
		return nil
	}
	var sp []special
	for k := 1 + r.Intn(3); k > 0; k-- {
		it := ps[r.Intn(len(ps))]
		x := special{Item: it.Name, Ent: it.Provides[r.Intn(len(it.Provides))], Code: 1 + r.Intn(numSpecialCodes)}
		if r.Intn(3) == 0 {
			x.Code = 1 // the untyped nil interface
		}
		switch r.Intn(5) {
		case 0:
			x.K = -1
		case 1:
			x.K = 0
		case 2:
			x.K = ncommits - 1
		default:
			x.K = r.Intn(ncommits + 1)
		}
		sp = append(sp, x)
	}
	return sp
}

func specialStreams(c *Config) {
	r := c.Rng
	// every value x four fixed pipelines x (every step, the first step, the step of a merge replay) on a diamond with a tail
	dia := []commitSpec{{ID: 0, Time: baseTime}, {ID: 1, Time: baseTime + 10, Parents: []int{0}}, {ID: 2, Time: baseTime + 20, Parents: []int{0}},
		{ID: 3, Time: baseTime + 30, Parents: []int{1, 2}}, {ID: 4, Time: baseTime + 40, Parents: []int{3}}}
	for code := 1; code <= numSpecialCodes; code++ {
		for k := 0; k < 4; k++ {
			for _, at := range []int{-1, 0, 3} {
				its := fixedPipeline(k, c)
				p := providers(its)
				var sp []special
				// the first provider publishes the value for its first entity; with at = -1 the last provider does so too
				sp = append(sp, special{Item: p[0].Name, Ent: p[0].Provides[0], K: at, Code: code})
				if at < 0 {
					l := p[len(p)-1]
					sp = append(sp, special{Item: l.Name, Ent: l.Provides[len(l.Provides)-1], K: -1, Code: 1 + code%numSpecialCodes})
				}
				emit(c, caseIn{Kind: "special", Dist: (code + k) % 2, Items: its, Inj: injection{Kind: "none"}, Commits: dia, Specials: sp, PA: code%3 == 0})
			}
		}
	}
	for i := c.Count(700, 10000); i > 0; i-- {
		var its []itemSpec
		switch r.Intn(4) {
		case 0:
			its = withProbe(c, shuffled(c, fixedPipeline(r.Intn(4), c)))
		case 1:
			its = shuffled(c, samePipeline(c, r.Intn(9)))
		case 2:
			its = pickPipeline(c)
		default:
			its = shuffled(c, richPipeline(c, 1+r.Intn(6), r.Intn(4) == 0))
		}
		cs := smallHistory(c)
		d := []int{0, 0, 1, 2, 3}[r.Intn(5)]
		inj := injection{Kind: "none"}
		if r.Intn(3) == 0 {
			inj = richInjection(c, its, len(cs), d)
		}
		emit(c, caseIn{Kind: "special", Dist: d, Items: its, Inj: inj, Commits: cs, Specials: pickSpecials(c, its, len(cs)), PA: r.Intn(5) == 0})
	}
}

// ---------------------------------------------------------------------------------------------
// re-use of one Pipeline object

func idsIn(cs []commitSpec, set map[int]bool) []int {
	var r []int
	for _, c := range cs {
		if set[c.ID] {
			r = append(r, c.ID)
		}
	}
	return r
}

func allIDs(cs []commitSpec) map[int]bool {
	s := map[int]bool{}
	for _, c := range cs {
		s[c.ID] = true
	}
	return s
}

func ancIDs(cs []commitSpec, head int) map[int]bool {
	s := map[int]bool{}
	var walk func(i int)
	walk = func(i int) {
		if s[i] {
			return
		}
		s[i] = true
		for _, p := range cs[i].Parents {
			if p >= 0 && p < i {
				walk(p)
			}
		}
	}
	walk(head)
	return s
}

// sidesHistory: a trunk, k arms of equal length between the last trunk commit and a merge commit, a tail; the arms
// are written round-robin so that they interleave in the commit list.  Returns the commits, the arms, the rest.
func sidesHistory(c *Config, k, armLen, trunk, tail int) (cs []commitSpec, arms [][]int, common []int) {
	add := func(ps ...int) int {
		cs = append(cs, commitSpec{ID: len(cs), Parents: append([]int{}, ps...)})
		return len(cs) - 1
	}
	t := add()
	common = append(common, t)
	for i := 1; i < trunk; i++ {
		t = add(t)
		common = append(common, t)
	}
	tips := make([]int, k)
	arms = make([][]int, k)
	for a := range tips {
		tips[a] = t
	}
	for j := 0; j < armLen; j++ {
		for a := 0; a < k; a++ {
			tips[a] = add(tips[a])
			arms[a] = append(arms[a], tips[a])
		}
	}
	m := add(tips...)
	common = append(common, m)
	for j := 0; j < tail; j++ {
		m = add(m)
		common = append(common, m)
	}
	ts := randomTimes(c, len(cs))
	for i := range cs {
		cs[i].Time = ts[i]
	}
	return
}

func reuseHistory(c *Config) []commitSpec {
	r := c.Rng
	switch r.Intn(3) {
	case 0:
		return randomDag(c, 12)
	case 1:
		return fromHist(c, synth.GenHist(r, synth.GenOpts{MaxCommits: 4 + r.Intn(8), SingleHead: r.Intn(2) == 0}))
	}
	return smallHistory(c)
}

// selections: the sets of commit ids handed to the runs, in order
func selections(c *Config, fam string) ([]commitSpec, []map[int]bool) {
	r := c.Rng
	var sets []map[int]bool
	switch fam {
	case "sides":
		k := 2 + r.Intn(2)
		cs, arms, common := sidesHistory(c, k, 1+r.Intn(3), 1+r.Intn(2), r.Intn(3))
		side := func(as ...int) map[int]bool {
			s := map[int]bool{}
			for _, x := range common {
				s[x] = true
			}
			for _, a := range as {
				for _, x := range arms[a] {
					s[x] = true
				}
			}
			return s
		}
		p := r.Perm(k)
		for _, a := range p {
			sets = append(sets, side(a))
		}
		switch r.Intn(4) {
		case 0:
			sets = append(sets, allIDs(cs), side(p[0]))
		case 1:
			sets = append([]map[int]bool{allIDs(cs)}, sets...)
		case 2:
			sets = append(sets, side(p[0]), side(p[0], p[1]))
		}
		return cs, sets
	case "mid":
		cs := reuseHistory(c)
		n := len(cs)
		if n <= 2 {
			return cs, []map[int]bool{allIDs(cs), allIDs(cs)}
		}
		keep := 2 + r.Intn(n-2)
		if r.Intn(2) == 0 {
			keep = n - 1
		}
		for k := 2 + r.Intn(2); k > 0; k-- {
			s := map[int]bool{0: true, n - 1: true}
			for _, j := range r.Perm(n - 2)[:keep-2] {
				s[1+j] = true
			}
			sets = append(sets, s)
		}
		if r.Intn(3) == 0 {
			sets = append(sets, allIDs(cs), sets[0])
		}
		return cs, sets
	case "sub":
		cs := reuseHistory(c)
		for k := 2 + r.Intn(2); k > 0; k-- {
			h := r.Intn(len(cs))
			s := ancIDs(cs, h)
			if r.Intn(3) == 0 {
				for x := range ancIDs(cs, r.Intn(len(cs))) {
					s[x] = true
				}
			}
			sets = append(sets, s)
		}
		if r.Intn(2) == 0 {
			sets = append(sets, allIDs(cs))
		}
		return cs, sets
	}
	// grow: prefixes of the commit list, then everything, sometimes the first prefix again
	cs := reuseHistory(c)
	j := 1 + r.Intn(len(cs))
	first := j
	for k := 0; k < 3 && j <= len(cs); k++ {
		s := map[int]bool{}
		for x := 0; x < j; x++ {
			s[x] = true
		}
		sets = append(sets, s)
		j += 1 + r.Intn(3)
	}
	sets = append(sets, allIDs(cs))
	if r.Intn(2) == 0 {
		s := map[int]bool{}
		for x := 0; x < first; x++ {
			s[x] = true
		}
		sets = append(sets, s)
	}
	return cs, sets
}

func reuseStreams(c *Config) {
	r := c.Rng
	for i := c.Count(900, 12000); i > 0; i-- {
		fam := []string{"sides", "sides", "mid", "mid", "sub", "grow"}[r.Intn(6)]
		cs, sets := selections(c, fam)
		var its []itemSpec
		switch r.Intn(4) {
		case 0:
			its = shuffled(c, richPipeline(c, 1+r.Intn(5), r.Intn(4) == 0))
		case 1:
			its = withProbe(c, shuffled(c, fixedPipeline(r.Intn(4), c)))
		default:
			its = pickPipeline(c)
		}
		dist := []int{0, 0, 1, 2, 3}[r.Intn(5)]
		in := caseIn{Kind: "reuse-" + fam, Dist: dist, Items: its, Inj: injection{Kind: "none"}, Commits: cs}
		if r.Intn(4) == 0 {
			in.Specials = pickSpecials(c, its, len(cs))
		}
		for k, s := range sets {
			sel := idsIn(cs, s)
			if len(sel) == 0 {
				continue
			}
			rs := runSpec{Mode: []int{0, 0, 1, 3}[r.Intn(4)], Dist: dist, PA: r.Intn(4) == 0, Dump: true, Inj: injection{Kind: "none"}, Sel: sel}
			if r.Intn(8) == 0 {
				rs.Dist = r.Intn(4)
			}
			if k > 0 && r.Intn(2) == 0 {
				rs.Dump = false
			}
			if rs.Dump && r.Intn(4) == 0 {
				rs.Inj = richInjection(c, its, len(sel), rs.Dist)
			}
			in.Runs = append(in.Runs, rs)
		}
		if len(in.Runs) == 0 {
			continue
		}
		emit(c, in)
	}
	// the seeded scenario of the class, spelled out: R - A1 - A2 - M - T and R - B1 - B2 - M; side A, side B, everything, side A
	cs, arms, common := sidesHistory(c, 2, 2, 1, 1)
	mk := func(a int) []int {
		s := map[int]bool{}
		for _, x := range common {
			s[x] = true
		}
		for _, x := range arms[a] {
			s[x] = true
		}
		return idsIn(cs, s)
	}
	for d := 0; d <= 1; d++ {
		for dump := 0; dump <= 1; dump++ {
			in := caseIn{Kind: "reuse-sides", Dist: d, Items: fixedPipeline(0, c), Inj: injection{Kind: "none"}, Commits: cs}
			for k, sel := range [][]int{mk(0), mk(1), idsIn(cs, allIDs(cs)), mk(0)} {
				in.Runs = append(in.Runs, runSpec{Mode: 0, Dist: d, Dump: k == 0 || dump == 1, Inj: injection{Kind: "none"}, Sel: sel})
			}
			emit(c, in)
		}
	}
}
