(* C11, proofs about LineCount.v: the line counter, the line splitter of the diff and stripWhitespace. *)
From Coq Require Import List ZArith Bool Arith Lia.
From Herc Require Import Plumbing.LineCount.
Import ListNotations.

(* ---------------------------------------------------------------- the splitter as a structural function *)

Fixpoint lines_of (b : bytes) : list bytes :=
  match b with
  | [] => []
  | c :: r =>
      if is_nl c then [c] :: lines_of r
      else match lines_of r with
           | [] => [[c]]
           | l :: ls => (c :: l) :: ls
           end
  end.

Lemma lines_of_nil_iff : forall b, lines_of b = [] <-> b = [].
Proof.
  destruct b as [|c r]; cbn; [tauto|].
  destruct (is_nl c); [split; discriminate|].
  destruct (lines_of r); split; discriminate.
Qed.

Lemma take_line_length : forall b, length (snd (take_line b)) <= length b.
Proof.
  induction b as [|c r IH]; cbn; [lia|].
  destruct (is_nl c); cbn; [lia|].
  destruct (take_line r) as [l r']; cbn in *; lia.
Qed.

Lemma take_line_lt : forall c r, length (snd (take_line (c :: r))) < length (c :: r).
Proof.
  intros c r; cbn. destruct (is_nl c); cbn; [lia|].
  pose proof (take_line_length r) as H. destruct (take_line r) as [l r']; cbn in *; lia.
Qed.

(* one turn of the loop peels off the first line *)
Lemma lines_of_take_line : forall c r,
  lines_of (c :: r) = fst (take_line (c :: r)) :: lines_of (snd (take_line (c :: r))).
Proof.
  intros c r; revert c. induction r as [|d r IH]; intros c.
  - cbn. destruct (is_nl c); reflexivity.
  - cbn [lines_of take_line]. destruct (is_nl c) eqn:Ec; [reflexivity|].
    specialize (IH d). cbn [lines_of take_line] in IH. rewrite IH.
    destruct (is_nl d); cbn; [reflexivity|].
    destruct (take_line r) as [l r']; reflexivity.
Qed.

Lemma munge_fuel : forall fuel b, length b <= fuel -> munge fuel b = lines_of b.
Proof.
  induction fuel as [|f IH]; intros b Hb.
  - destruct b; [reflexivity|cbn in Hb; lia].
  - destruct b as [|c r]; [reflexivity|].
    cbn [munge]. rewrite lines_of_take_line.
    pose proof (take_line_lt c r) as Hlt.
    destruct (take_line (c :: r)) as [l r'] eqn:E. cbn [fst snd] in *.
    rewrite IH; [reflexivity|]. cbn in Hb, Hlt |- *; lia.
Qed.

(* the fuel given by [split_lines] is enough: the loop of diffLinesToRunesMunge always runs to the end *)
Theorem split_lines_spec : forall b, split_lines b = lines_of b.
Proof. intros b; apply munge_fuel; lia. Qed.

(* ---------------------------------------------------------------- what the lines are *)

Theorem split_lines_concat : forall b, concat (split_lines b) = b.
Proof.
  intros b; rewrite split_lines_spec. induction b as [|c r IH]; [reflexivity|].
  cbn. destruct (is_nl c); [cbn; now rewrite IH|].
  destruct (lines_of r) as [|l ls]; cbn in *; [now rewrite <- IH|now rewrite <- IH].
Qed.

(* a line is a non-empty run without '\n' except possibly as its last byte *)
Definition line_shape (l : bytes) : Prop :=
  exists body, has_nl body = false /\ (l = body ++ [10%Z] \/ (l = body /\ body <> [])).

Lemma is_nl_true : forall c, is_nl c = true -> c = 10%Z.
Proof. intros c H; now apply Z.eqb_eq in H. Qed.

Theorem split_lines_shape : forall b, Forall line_shape (split_lines b).
Proof.
  intros b; rewrite split_lines_spec. induction b as [|c r IH]; [constructor|].
  cbn. destruct (is_nl c) eqn:Ec.
  - constructor; [|exact IH]. exists []. split; [reflexivity|]. left. now rewrite (is_nl_true _ Ec).
  - destruct (lines_of r) as [|l ls].
    + constructor; [|constructor]. exists [c]. split; [cbn; now rewrite Ec|]. right; split; [reflexivity|discriminate].
    + inversion IH as [|? ? [body [Hb Hl]] Hls]; subst. constructor; [|exact Hls].
      exists (c :: body). split; [cbn; now rewrite Ec|].
      destruct Hl as [->|[-> Hne]]; [left; reflexivity|right; split; [reflexivity|discriminate]].
Qed.

(* every line but the last one ends with '\n' *)
Lemma lines_of_cons_ends : forall b l l' ls, lines_of b = l :: l' :: ls -> last_byte l = Some 10%Z.
Proof.
  induction b as [|c r IH]; intros l l' ls H; [discriminate|].
  cbn in H. destruct (is_nl c) eqn:Ec.
  - injection H as <- _. cbn. now rewrite (is_nl_true _ Ec).
  - destruct (lines_of r) as [|m ms] eqn:Er; [discriminate|].
    injection H as <- ->. specialize (IH m l' ls eq_refl).
    destruct m; [discriminate|]. exact IH.
Qed.

(* ---------------------------------------------------------------- counting *)

Definition ends_open (b : bytes) : bool :=
  match last_byte b with Some c => negb (is_nl c) | None => false end.

Lemma last_byte_cons : forall c d r, last_byte (c :: d :: r) = last_byte (d :: r).
Proof. reflexivity. Qed.

Lemma length_lines_of : forall b,
  length (lines_of b) = count_nl b + (if ends_open b then 1 else 0).
Proof.
  induction b as [|c r IH]; [reflexivity|].
  cbn [lines_of count_nl]. destruct (is_nl c) eqn:Ec.
  - cbn [length]. rewrite IH. unfold ends_open.
    destruct r as [|d r']; [cbn; rewrite Ec; reflexivity|]. rewrite last_byte_cons. lia.
  - destruct (lines_of r) as [|l ls] eqn:Er.
    + apply lines_of_nil_iff in Er. subst r. cbn. unfold ends_open. cbn. rewrite Ec. reflexivity.
    + cbn [length] in *. rewrite IH. unfold ends_open.
      destruct r as [|d r']; [discriminate|]. rewrite last_byte_cons. reflexivity.
Qed.

Lemma last_byte_some : forall c r, exists d, last_byte (c :: r) = Some d.
Proof.
  intros c r; revert c; induction r as [|e r IH]; intros c; [now exists c|].
  rewrite last_byte_cons. apply IH.
Qed.

(* C11, clause "the line counts agree with the line counter": for every blob that CountLines does not
   classify as binary, CountLines returns the number of lines the diff splits the same bytes into. *)
Theorem count_split : forall b, textb b = true -> count_lines b = Lines (length (split_lines b)).
Proof.
  intros b Ht. rewrite split_lines_spec, length_lines_of.
  unfold count_lines, textb in *. destruct b as [|c r]; [reflexivity|].
  apply negb_true_iff in Ht. rewrite Ht. unfold ends_open.
  destruct (last_byte_some c r) as [d Hd]. rewrite Hd.
  destruct (is_nl d); cbn; f_equal; lia.
Qed.

(* and a blob with a NUL in the sniffed prefix is binary, whatever else it contains *)
Theorem count_binary : forall b, textb b = false -> b <> [] -> count_lines b = Binary.
Proof.
  intros b Ht Hne. unfold count_lines, textb in *. destruct b; [congruence|].
  apply negb_false_iff in Ht. now rewrite Ht.
Qed.

(* CountLines never hits its index expression on an empty slice *)
Theorem count_no_panic : forall b, count_lines b <> CountPanic.
Proof.
  intros b. unfold count_lines. destruct b as [|c r]; [discriminate|].
  destruct (has_nul _); [discriminate|].
  destruct (last_byte_some c r) as [d ->]. destruct (is_nl d); discriminate.
Qed.

(* ---------------------------------------------------------------- stripWhitespace *)

Lemma is_sp_not_nl : forall c, is_sp c = true -> is_nl c = false.
Proof. intros c H. apply Z.eqb_eq in H. subst. reflexivity. Qed.

Lemma strip_cons : forall c r,
  remove_spaces (c :: r) = if is_sp c then remove_spaces r else c :: remove_spaces r.
Proof. intros c r. unfold remove_spaces. cbn [filter]. destruct (is_sp c); reflexivity. Qed.

Lemma count_nl_strip : forall b, count_nl (remove_spaces b) = count_nl b.
Proof.
  induction b as [|c r IH]; [reflexivity|].
  rewrite strip_cons. cbn [count_nl]. destruct (is_sp c) eqn:Es.
  - rewrite (is_sp_not_nl _ Es). exact IH.
  - cbn [count_nl]. destruct (is_nl c); now rewrite IH.
Qed.

Lemma has_nl_strip : forall b, has_nl (remove_spaces b) = has_nl b.
Proof.
  induction b as [|c r IH]; [reflexivity|].
  rewrite strip_cons. unfold has_nl in *. cbn [existsb]. destruct (is_sp c) eqn:Es.
  - rewrite (is_sp_not_nl _ Es). exact IH.
  - cbn [existsb]. now rewrite IH.
Qed.

Lemma last_seg_no_nl : forall b, has_nl b = false -> last_seg b = b.
Proof.
  destruct b as [|c r]; [reflexivity|]. unfold has_nl. cbn [existsb last_seg]. intros H.
  apply orb_false_iff in H as [H1 H2]. rewrite H1. unfold has_nl. now rewrite H2.
Qed.

Lemma last_seg_strip : forall b, last_seg (remove_spaces b) = remove_spaces (last_seg b).
Proof.
  induction b as [|c r IH]; [reflexivity|].
  rewrite strip_cons. cbn [last_seg]. destruct (is_sp c) eqn:Es.
  - rewrite (is_sp_not_nl _ Es). rewrite IH.
    destruct (has_nl r) eqn:Hr; [reflexivity|].
    rewrite (last_seg_no_nl _ Hr). rewrite strip_cons. now rewrite Es.
  - cbn [last_seg]. destruct (is_nl c); [exact IH|].
    rewrite has_nl_strip. destruct (has_nl r); [exact IH|]. rewrite strip_cons. now rewrite Es.
Qed.

Lemma ends_open_last_seg : forall b, ends_open b = negb (match last_seg b with [] => true | _ => false end).
Proof.
  induction b as [|c r IH]; [reflexivity|].
  unfold ends_open in *. cbn [last_seg].
  destruct r as [|d r'].
  - cbn. destruct (is_nl c); reflexivity.
  - rewrite last_byte_cons. destruct (is_nl c); [exact IH|].
    destruct (has_nl (d :: r')) eqn:Hn; [exact IH|].
    cbn [negb]. destruct (last_byte_some d r') as [e He]. rewrite He.
    (* no newline anywhere in d :: r', so its last byte is not one *)
    assert (Hall : forall l x, has_nl l = false -> last_byte l = Some x -> is_nl x = false).
    { induction l as [|y l IHl]; intros x Hl Hx; [discriminate|].
      cbn in Hl. apply orb_false_iff in Hl as [Hy Hl].
      destruct l as [|z l']; [cbn in Hx; now injection Hx as <-|].
      rewrite last_byte_cons in Hx. now apply IHl. }
    now rewrite (Hall _ _ Hn He).
Qed.

Lemma strip_nil_iff : forall s, remove_spaces s = [] <-> forallb is_sp s = true.
Proof.
  induction s as [|c r IH]; [cbn; tauto|].
  rewrite strip_cons. cbn [forallb]. destruct (is_sp c); cbn [andb]; [exact IH|]. split; discriminate.
Qed.

(* The exact effect of WhitespaceIgnore on the number of lines the diff sees: one line less precisely when the
   last line is non-empty and made of spaces only, and no change otherwise. *)
Theorem strip_loc_exact : forall b,
  length (split_lines (remove_spaces b)) + (if last_blank b then 1 else 0) = length (split_lines b).
Proof.
  intros b. rewrite !split_lines_spec, !length_lines_of, count_nl_strip, !ends_open_last_seg, last_seg_strip.
  unfold last_blank. destruct (last_seg b) as [|c s] eqn:E; [cbn; lia|].
  destruct (forallb is_sp (c :: s)) eqn:Ef.
  - apply strip_nil_iff in Ef. rewrite Ef. cbn. lia.
  - destruct (remove_spaces (c :: s)) eqn:Es; [apply strip_nil_iff in Es; congruence|]. cbn. lia.
Qed.

(* BEFORE the repair (commit 3944bd2): with the option off nothing is stripped; with the option on the diff and the
   line counter agreed on every text blob outside the class of the finding ... *)
Theorem diff_loc_agrees_before_fix : forall ws b, textb b = true -> (ws = false \/ last_blank b = false) ->
  count_lines b = Lines (diff_loc_before_fix ws b).
Proof.
  intros ws b Ht H. rewrite (count_split b Ht). f_equal. unfold diff_loc_before_fix, strip_before_fix.
  destruct ws; [|reflexivity]. destruct H as [H|H]; [discriminate|].
  pose proof (strip_loc_exact b) as E. rewrite H in E. lia.
Qed.

(* ... and inside that class they always disagreed, by exactly one line *)
Theorem diff_loc_disagrees_before_fix : forall b, textb b = true -> last_blank b = true ->
  count_lines b = Lines (S (diff_loc_before_fix true b)).
Proof.
  intros b Ht H. rewrite (count_split b Ht). f_equal. unfold diff_loc_before_fix, strip_before_fix.
  pose proof (strip_loc_exact b) as E. rewrite H in E. lia.
Qed.

(* The unconditional clause was false with WhitespaceIgnore: witness "é\n  " (finding F9). *)
Definition f9_witness : bytes := [195; 169; 10; 32; 32]%Z.

Theorem strip_refuted_before_fix :
  exists b, textb b = true /\ count_lines b = Lines 2 /\ diff_loc_before_fix true b = 1 /\ diff_loc_before_fix false b = 2.
Proof. exists f9_witness. vm_compute. repeat split; reflexivity. Qed.

(* ---------------------------------------------------------------- stripping and splitting commute *)

Definition nonempty (l : bytes) : bool := match l with [] => false | _ => true end.

Lemma strip_keeps : forall l c, last_byte l = Some c -> is_sp c = false -> remove_spaces l <> [].
Proof.
  induction l as [|x l IH]; intros c Hl Hc; [discriminate|].
  rewrite strip_cons. destruct l as [|y l'].
  - cbn in Hl. injection Hl as ->. rewrite Hc. discriminate.
  - rewrite last_byte_cons in Hl. destruct (is_sp x); [eapply IH; eauto|discriminate].
Qed.

(* the lines of the stripped blob are the stripped lines of the blob, minus a last line that was spaces only *)
Theorem lines_of_strip : forall b,
  lines_of (remove_spaces b) = filter nonempty (map remove_spaces (lines_of b)).
Proof.
  induction b as [|c r IH]; [reflexivity|].
  rewrite strip_cons. cbn [lines_of]. destruct (is_sp c) eqn:Es.
  - rewrite (is_sp_not_nl _ Es). rewrite IH.
    destruct (lines_of r) as [|l ls].
    + cbn [map filter]. rewrite strip_cons, Es. reflexivity.
    + cbn [map filter]. rewrite (strip_cons c l), Es. reflexivity.
  - cbn [lines_of]. destruct (is_nl c) eqn:En.
    + cbn [map filter]. rewrite strip_cons, Es. cbn [nonempty]. now rewrite IH.
    + rewrite IH. destruct (lines_of r) as [|l ls] eqn:Er.
      * cbn [map filter]. rewrite strip_cons, Es. reflexivity.
      * cbn [map filter]. rewrite (strip_cons c l), Es. cbn [nonempty].
        destruct (remove_spaces l) as [|x l'] eqn:El; [|reflexivity].
        cbn [nonempty].
        destruct ls as [|l2 ls2]; [reflexivity|].
        exfalso. pose proof (lines_of_cons_ends r l l2 ls2 Er) as Hl.
        exact (strip_keeps l 10%Z Hl eq_refl El).
Qed.

Lemma filter_length_le' : forall {A} (p : A -> bool) l, length (filter p l) <= length l.
Proof. induction l as [|x l IH]; [cbn; lia|]. cbn. destruct (p x); cbn; lia. Qed.

Lemma filter_same_length : forall {A} (p : A -> bool) l, length (filter p l) = length l -> filter p l = l.
Proof.
  induction l as [|x l IH]; [reflexivity|]. cbn. destruct (p x); cbn; intros H.
  - f_equal. apply IH. lia.
  - pose proof (filter_length_le' p l). lia.
Qed.

Theorem split_lines_strip : forall b, last_blank b = false ->
  split_lines (remove_spaces b) = map remove_spaces (split_lines b).
Proof.
  intros b H. pose proof (strip_loc_exact b) as E. rewrite H in E.
  rewrite !split_lines_spec in *. rewrite lines_of_strip in *.
  apply filter_same_length. rewrite map_length. lia.
Qed.

(* ---------------------------------------------------------------- stripWhitespace as repaired (current code) *)

Lemma count_nl_app : forall x y, count_nl (x ++ y) = count_nl x + count_nl y.
Proof. induction x as [|c x IH]; intros y; [reflexivity|]. cbn. destruct (is_nl c); rewrite IH; lia. Qed.

Lemma last_byte_snoc : forall x c, last_byte (x ++ [c]) = Some c.
Proof.
  induction x as [|d x IH]; intros c; [reflexivity|].
  cbn [app]. destruct x as [|e x']; [reflexivity|]. cbn [app] in *. rewrite last_byte_cons. apply IH.
Qed.

Lemma last_byte_strip : forall b c, last_byte b = Some c -> is_sp c = false ->
  last_byte (remove_spaces b) = Some c.
Proof.
  induction b as [|x b IH]; intros c Hl Hc; [discriminate|].
  rewrite strip_cons. destruct b as [|y b'].
  - cbn in Hl. injection Hl as ->. now rewrite Hc.
  - rewrite last_byte_cons in Hl. specialize (IH c Hl Hc).
    destruct (is_sp x); [exact IH|].
    destruct (remove_spaces (y :: b')) as [|z t]; [discriminate|]. now rewrite last_byte_cons.
Qed.

(* the diff and the line counter agree on EVERY blob *)
Theorem strip_loc : forall b,
  length (split_lines (strip_whitespace b)) = length (split_lines b).
Proof.
  intros b. rewrite !split_lines_spec, !length_lines_of. unfold strip_whitespace.
  destruct (last_byte b) as [c|] eqn:Hl.
  - destruct (is_sp c) eqn:Es.
    + assert (Eb : ends_open b = true) by (unfold ends_open; rewrite Hl, (is_sp_not_nl _ Es); reflexivity).
      rewrite Eb.
      assert (Snoc : forall r, count_nl (r ++ [32%Z]) + (if ends_open (r ++ [32%Z]) then 1 else 0) = count_nl r + 1).
      { intros r. rewrite count_nl_app. unfold ends_open. rewrite last_byte_snoc. cbn. lia. }
      destruct (last_byte (remove_spaces b)) as [d|] eqn:Hr.
      * destruct (is_nl d) eqn:Ed.
        -- rewrite Snoc, count_nl_strip. reflexivity.
        -- rewrite count_nl_strip. unfold ends_open. rewrite Hr, Ed. reflexivity.
      * rewrite Snoc, count_nl_strip. reflexivity.
    + rewrite count_nl_strip. unfold ends_open. rewrite Hl, (last_byte_strip b c Hl Es). reflexivity.
  - destruct b as [|x b']; [reflexivity|]. destruct (last_byte_some x b') as [d Hd]. congruence.
Qed.

Theorem diff_loc_agrees : forall ws b, textb b = true -> count_lines b = Lines (diff_loc ws b).
Proof.
  intros ws b Ht. unfold diff_loc, strip. destruct ws; [rewrite strip_loc|]; now apply count_split.
Qed.

(* the line identifiers after the shift of commit 742df3d: still distinct, never a UTF-16 surrogate, and valid code
   points as long as there are fewer than 1 112 064 - 2 048 distinct lines *)
Theorem shift_id_spec : forall i j : Z,
  (shift_id i = shift_id j -> i = j)
  /\ ~ (55296 <= shift_id i <= 57343)%Z
  /\ (0 <= i < 1112064 - 2048 -> 0 <= shift_id i <= 1114111)%Z.
Proof.
  intros i j. unfold shift_id.
  destruct (Z.leb_spec 55296 i); destruct (Z.leb_spec 55296 j); repeat split; lia.
Qed.
