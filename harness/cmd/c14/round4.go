// Round 4 of the C14 harness: the CONTENT of the values a history and a pipeline are made of.
//
//	twin-*    two different commits of one run whose hashes agree in their first (or last) d hex digits (d = 4, 7, 8; thorough
//	          also 9): the generator searches a nonce for the commit messages (birthday search for two commits that are not
//	          related, a search against every other commit of a long chain, a plain search with few digits for a parent and
//	          its child).  Shapes: siblings on the arms of a merge, two merges of the same parents, a merge commit and an
//	          ordinary commit, two roots, a parent and its child, an arbitrary pair of a random DAG, the tip / a middle commit of a
//	          chain of 129..1000 commits and any earlier commit.  The nonce is part of the input (field commits), a replay does
//	          not search.
//	time-*    committer times in the future of the wall clock (constants around 2^31, 2^32, the years 2100 and 9999, and
//	          times taken relative to time.Now(): one hour .. eleven years ahead) on the tip, on a side commit, on the root, on
//	          every commit; times before 1970; author time different from the committer time (the author in the future, the
//	          committer in the past and the other way round); zone offsets +14:00, -12:00, +05:30, +05:45, -09:30, +-00:01.
//	name-*    byte content of the item and entity names: pairs of names that a normalisation would make equal (case,
//	          leading / trailing / Unicode white space, tab, CR, NUL, BOM, invalid UTF-8 next to U+FFFD), names that are
//	          prefixes of each other, names at the decimal widths 9/10/11, 99/100/101, 999/1000/1001.
//	width-*   histories of 9, 10, 11, 99, 100, 101, 999, 1000, 1001 commits and pipelines of 9, 10, 11 items.
//	pair-*    two or more of the above at once, together with the knobs of the earlier rounds (hibernation distance, merges,
//	          injected failures, PrintActions, same-named items, special values).
package main

import (
	"crypto/sha1"
	"encoding/binary"
	"fmt"
	"io"
	"strconv"
	"strings"
	"time"

	"gopkg.in/src-d/go-git.v4/plumbing"
	"gopkg.in/src-d/go-git.v4/plumbing/object"
	hercules "gopkg.in/src-d/hercules.v10"
	. "verifharness/lib"
	"verifharness/synth"
)

// ---------------------------------------------------------------------------------------------
// names

// nameStyle is the style of the case that is being run (emit sets it; cases are run one after the other).
var nameStyle int

const numNameStyles = 13

// styled writes the name number k of a family (prefix "e": entities, "it" / "n": items).  Style 0 is prefix + k.  In the
// styles 1..8 the numbers 2m and 2m+1 get names that a plausible normalisation (case folding, trimming, sanitising invalid
// UTF-8, dropping a BOM or control characters) maps to the same string; both occur in one pipeline.
func styled(prefix string, k int) string {
	if nameStyle == 0 || k < 0 {
		return prefix + strconv.Itoa(k)
	}
	b := prefix + strconv.Itoa(k/2)
	odd := k%2 == 1
	pick := func(even, oddName string) string {
		if odd {
			return oddName
		}
		return even
	}
	switch nameStyle {
	case 1: // case
		return pick(b, strings.ToUpper(prefix)+strconv.Itoa(k/2))
	case 2: // trailing blank
		return pick(b, b+" ")
	case 3: // leading blank / tab
		return pick(" "+b, "\t"+b)
	case 4: // invalid UTF-8 next to the replacement character as real content
		return pick(b+"\xff", b+"\ufffd")
	case 5: // a byte order mark
		return pick(b, "\ufeff"+b)
	case 6: // NUL / CR
		return pick(b+"\x00", b+"\r")
	case 7: // Unicode white space: NBSP, ideographic space
		return pick(b+"\u00a0", b+"\u3000")
	case 8: // a lone lead byte / an overlong form
		return pick(b+"\xc3", b+"\xc0\xaf")
	case 9: // every name is a prefix of the next one
		if k < 100 {
			return prefix + strings.Repeat("1", k)
		}
		return "x" + prefix + strconv.Itoa(k)
	case 10: // decimal widths 9 / 10 / 11
		return prefix + strconv.Itoa(k+6)
	case 11: // 99 / 100 / 101
		return prefix + strconv.Itoa(k+96)
	case 12: // 999 / 1000 / 1001
		return prefix + strconv.Itoa(k+996)
	default: // line separator U+2028 / LF inside the name
		return pick(b+"\u2028", b+"\n")
	}
}

var styledRev = map[int]map[string]int{}

// styledEntities: entity name -> number, for the style in force
func styledEntities() map[string]int {
	if m, ok := styledRev[nameStyle]; ok {
		return m
	}
	m := map[string]int{}
	for e := 3; e < 1400; e++ {
		m[styled("e", e)] = e
	}
	styledRev[nameStyle] = m
	return m
}

// missStyled recognises Run's "did not return" error for styled names: the item (as the trace names it) and the entity
func missStyled(resolved []hercules.PipelineItem, msg string) (string, int, bool) {
	for _, it := range resolved {
		b := it.(based).b()
		for _, e := range b.spec.Provides {
			if msg == b.Name()+": Consume() did not return "+entName(e) {
				return b.spec.nameAtom(), e, true
			}
		}
	}
	return "", 0, false
}

// ---------------------------------------------------------------------------------------------
// commit hashes that share digits

// sharedAbbrev counts the commits whose first d hex digits are shared with another commit of the list
func sharedAbbrev(commits []*object.Commit, d int) int {
	seen := map[string]int{}
	for _, c := range commits {
		seen[c.Hash.String()[:d]]++
	}
	k := 0
	for _, n := range seen {
		if n > 1 {
			k += n
		}
	}
	return k
}

const noncePlaceholder = "00000000"

// varHasher computes the hash of a commit object whose message ends with an eight-digit nonce
type varHasher struct {
	buf []byte
	off int
}

func newVarHasher(cm *object.Commit) *varHasher {
	o := &plumbing.MemoryObject{}
	if err := cm.Encode(o); err != nil {
		panic(err)
	}
	rd, _ := o.Reader()
	body, _ := io.ReadAll(rd)
	if !strings.HasSuffix(string(body), noncePlaceholder) {
		panic("c14 harness: the encoded commit does not end with the nonce")
	}
	buf := append([]byte(fmt.Sprintf("commit %d\x00", len(body))), body...)
	v := &varHasher{buf: buf, off: len(buf) - 8}
	if v.hash(0) != [20]byte(cm.Hash) {
		panic("c14 harness: commit hash computed by hand differs from go-git's")
	}
	return v
}

const hexDigits = "0123456789abcdef"

func (v *varHasher) hash(i uint32) [20]byte {
	for k := 0; k < 8; k++ {
		v.buf[v.off+7-k] = hexDigits[(i>>(4*uint(k)))&15]
	}
	return sha1.Sum(v.buf)
}

// hkey: the first d hex digits of a hash (d > 0) or the last -d (d < 0)
func hkey(h [20]byte, d int) uint64 {
	if d < 0 {
		return binary.BigEndian.Uint64(h[12:]) & (1<<(4*uint(-d)) - 1)
	}
	return binary.BigEndian.Uint64(h[:8]) >> (64 - 4*uint(d))
}

func descendantsOf(cs []commitSpec, a int) map[int]bool {
	pos := map[int]int{}
	for i, c := range cs {
		pos[c.ID] = i
	}
	d := map[int]bool{a: true}
	for i := a + 1; i < len(cs); i++ {
		for _, p := range cs[i].Parents {
			if j, ok := pos[p]; ok && d[j] {
				d[i] = true
			}
		}
	}
	return d
}

func extAll(cs []commitSpec) {
	for i := range cs {
		if !cs[i].Ext {
			cs[i].Ext, cs[i].ATime = true, cs[i].Time
		}
	}
}

// makeTwins searches nonces so that the hashes of the commits at the positions a < b of cs agree in d digits (hkey).  b
// not a descendant of a: birthday search over both messages; otherwise only b's message varies.  The descendants of the two
// commits are hashed afterwards, by the repository builder, like any other commit.
func makeTwins(cs []commitSpec, a, b, d int, budget uint32) bool {
	extAll(cs)
	dep := descendantsOf(cs, a)[b]
	cs[b].Nonce = noncePlaceholder
	if !dep {
		cs[a].Nonce = noncePlaceholder
	}
	_, commits := synth.BuildRepo(synthSpecs(cs[:b+1]))
	vb := newVarHasher(commits[b])
	if dep {
		target := hkey([20]byte(commits[a].Hash), d)
		for i := uint32(0); i < budget; i++ {
			if hkey(vb.hash(i), d) == target {
				cs[b].Nonce = fmt.Sprintf("%08x", i)
				return true
			}
		}
		cs[b].Nonce = ""
		return false
	}
	va := newVarHasher(commits[a])
	ma, mb := map[uint64]uint32{}, map[uint64]uint32{}
	for i := uint32(0); i < budget; i++ {
		ka := hkey(va.hash(i), d)
		if j, ok := mb[ka]; ok {
			cs[a].Nonce, cs[b].Nonce = fmt.Sprintf("%08x", i), fmt.Sprintf("%08x", j)
			return true
		}
		ma[ka] = i
		kb := hkey(vb.hash(i), d)
		if j, ok := ma[kb]; ok {
			cs[a].Nonce, cs[b].Nonce = fmt.Sprintf("%08x", j), fmt.Sprintf("%08x", i)
			return true
		}
		mb[kb] = i
	}
	cs[a].Nonce, cs[b].Nonce = "", ""
	return false
}

// makeTwinOfAny searches a nonce for the commit at position b so that its hash agrees in d digits with ANY commit that is not
// one of its descendants; returns the position of that commit (-1: budget exhausted)
func makeTwinOfAny(cs []commitSpec, b, d int, budget uint32) int {
	extAll(cs)
	cs[b].Nonce = noncePlaceholder
	_, commits := synth.BuildRepo(synthSpecs(cs))
	desc := descendantsOf(cs, b)
	targets := map[uint64]int{}
	for i, cm := range commits {
		if !desc[i] {
			targets[hkey([20]byte(cm.Hash), d)] = i
		}
	}
	vb := newVarHasher(commits[b])
	for i := uint32(0); i < budget; i++ {
		if a, ok := targets[hkey(vb.hash(i), d)]; ok {
			cs[b].Nonce = fmt.Sprintf("%08x", i)
			return a
		}
	}
	cs[b].Nonce = ""
	return -1
}

// ---------------------------------------------------------------------------------------------
// time

var farFuture = []int64{1<<31 - 1, 1 << 31, 1<<31 + 1, 4102444800, 1<<32 - 1, 1 << 32, 1<<32 + 1, 253402300799}

var zoneMinutes = []int{840, -720, 330, 345, -570, 1, -1, 60, -60, 0}

const numTimeModes = 9

var timeModeNames = []string{"future-tip", "future-side", "all-future", "future-root", "pre-1970", "author", "zones", "mix", "future-merge"}

// decorateTimes rewrites the times of a history (the shapes keep the equal / decreasing / skewed times of randomTimes)
func decorateTimes(c *Config, cs []commitSpec, mode int) {
	r := c.Rng
	n := len(cs)
	now := time.Now().Unix()
	fut := func() int64 {
		switch r.Intn(4) {
		case 0:
			return farFuture[r.Intn(len(farFuture))]
		case 1:
			return now + int64(1+r.Intn(48))*3600 // hours ahead of the wall clock
		case 2:
			return now + int64(2+r.Intn(400))*86400
		default:
			return now + int64(1+r.Intn(11))*365*86400
		}
	}
	switch mode {
	case 0:
		cs[n-1].Time = fut()
	case 1:
		cs[r.Intn(n)].Time = fut()
	case 2:
		base, step := fut(), int64([]int{3600, -3600, 0, 1}[r.Intn(4)])
		for i := range cs {
			cs[i].Time = base + int64(i)*step
		}
	case 3:
		cs[0].Time = fut()
	case 4:
		all := r.Intn(2) == 0
		for i := range cs {
			if all || r.Intn(3) == 0 {
				cs[i].Time = -int64(1 + r.Intn(1000000000))
			}
		}
	case 8: // a merge commit (or the last commit) dated ahead
		k := n - 1
		for i := range cs {
			if len(cs[i].Parents) >= 2 && r.Intn(2) == 0 {
				k = i
			}
		}
		cs[k].Time = fut()
	}
	for i := range cs {
		cs[i].Ext, cs[i].ATime = true, cs[i].Time
	}
	if mode == 5 || mode == 7 {
		// author time != committer time; the newest author time is not the newest committer time
		for i := range cs {
			cs[i].ATime = cs[i].Time + []int64{1, -1, 86400, -86400, 100000000, -100000000, 0}[r.Intn(7)]
		}
		k := r.Intn(n)
		if r.Intn(2) == 0 {
			cs[k].ATime = fut() // written long ago by an author whose clock ran ahead
		} else {
			cs[k].ATime, cs[k].Time = cs[k].Time, fut() // committed "in the future", authored in the past
		}
	}
	if mode == 6 || mode == 7 {
		for i := range cs {
			cs[i].CTZ, cs[i].ATZ = zoneMinutes[r.Intn(len(zoneMinutes))], zoneMinutes[r.Intn(len(zoneMinutes))]
		}
	}
	if mode == 7 && r.Intn(2) == 0 {
		cs[r.Intn(n)].Time = fut()
	}
}

// ---------------------------------------------------------------------------------------------
// streams

func withIDs(shape [][]int) []commitSpec {
	cs := make([]commitSpec, len(shape))
	for i, ps := range shape {
		cs[i] = commitSpec{ID: i, Time: baseTime + int64(i)*100, Parents: append([]int{}, ps...)}
	}
	return cs
}

// twinShape: a small history and the positions of the two commits that are to share their digits
func twinShape(c *Config, k int) (string, []commitSpec, int, int) {
	r := c.Rng
	switch k {
	case 0: // siblings: R - {X*, Y*} - M - T, arms of 1..3 commits, 2..3 arms
		arms, l := 2+r.Intn(2), 1+r.Intn(3)
		shape := [][]int{{}}
		var tips []int
		var pick []int
		for a := 0; a < arms; a++ {
			prev := 0
			at := r.Intn(l)
			for j := 0; j < l; j++ {
				shape = append(shape, []int{prev})
				prev = len(shape) - 1
				if j == at {
					pick = append(pick, prev)
				}
			}
			tips = append(tips, prev)
		}
		shape = append(shape, tips)
		shape = append(shape, []int{len(shape) - 1})
		return "sib", withIDs(shape), pick[0], pick[1]
	case 1: // two merges of the same parents, merged again
		return "merges", withIDs([][]int{{}, {0}, {0}, {1, 2}, {1, 2}, {3, 4}, {5}}), 3, 4
	case 2: // a merge commit and an ordinary commit next to it
		return "merge-plain", withIDs([][]int{{}, {0}, {0}, {1, 2}, {1}, {3, 4}}), 3, 4
	case 3: // two roots
		return "roots", withIDs([][]int{{}, {}, {0}, {1}, {2, 3}, {4}}), 0, 1
	case 4: // parent and child (the two replays are adjacent in the plan), few digits only
		n := 2 + r.Intn(4)
		cs := linearShape(n)
		b := 1 + r.Intn(n-1)
		return "child", stamp(c, cs, tAsc), b - 1, b
	case 5: // a commit on a side branch and the commit after the merge
		return "across", withIDs([][]int{{}, {0}, {0}, {2}, {1, 3}, {4}}), 2, 5
	}
	// an arbitrary pair of a random DAG
	for {
		cs := randomDag(c, 10)
		if len(cs) >= 3 {
			a := r.Intn(len(cs) - 1)
			return "dag", cs, a, a + 1 + r.Intn(len(cs)-1-a)
		}
	}
}

func r4Pipeline(c *Config) []itemSpec {
	r := c.Rng
	switch r.Intn(4) {
	case 0:
		return shuffled(c, richPipeline(c, 1+r.Intn(6), r.Intn(4) == 0))
	case 1:
		return shuffled(c, samePipeline(c, r.Intn(9)))
	}
	return pickPipeline(c)
}

func r4Dist(c *Config) int { return []int{0, 0, 1, 1, 2, 3, 5}[c.Rng.Intn(7)] }

func round4Streams(c *Config) {
	r := c.Rng
	none := injection{Kind: "none"}
	thorough := c.Tier == "thorough"

	// ---- twins ----
	digits := func() int {
		d := []int{4, 7, 7, 7, 8, 8, -7, -8, 2, 1}[r.Intn(10)]
		if thorough && r.Intn(16) == 0 {
			d = 9
		}
		return d
	}
	for i := c.Count(120, 1500); i > 0; i-- {
		name, cs, a, b := twinShape(c, r.Intn(7))
		d := digits()
		if descendantsOf(cs, a)[b] {
			// only b's message is free: 16^d attempts
			d = []int{4, 4, 4, 5, -4, 3}[r.Intn(6)]
		}
		if r.Intn(3) == 0 {
			cs = stamp(c, cs, tRand)
		}
		timed := r.Intn(4) == 0
		mode := r.Intn(numTimeModes)
		if timed {
			decorateTimes(c, cs, mode)
		}
		if !makeTwins(cs, a, b, d, 40000000) {
			continue
		}
		its := r4Pipeline(c)
		dist := r4Dist(c)
		in := caseIn{Kind: fmt.Sprintf("twin-%s-%d", name, d), Dist: dist, Items: its, Inj: none, Commits: cs,
			PA: r.Intn(5) == 0, Twins: [][3]int{{cs[a].ID, cs[b].ID, d}}}
		if timed {
			in.Kind = fmt.Sprintf("pair-twin-%s-%d-%s", name, d, timeModeNames[mode])
		}
		if r.Intn(4) == 0 {
			in.Inj = richInjection(c, its, len(cs), dist)
		}
		if r.Intn(6) == 0 {
			in.Names = 1 + r.Intn(numNameStyles)
		}
		emit(c, in)
	}
	// long chains: the tip (or a commit in the middle) shares seven digits with some earlier commit (2^28 / n attempts)
	chains := []int{257, 513}
	if thorough {
		chains = []int{129, 257, 513, 1000, 1001, 4097}
	}
	for k, n := range chains {
		cs := stamp(c, linearShape(n), []timeMode{tAsc, tDesc, tRand}[k%3])
		b := n - 1
		if k%2 == 1 {
			b = n/2 + r.Intn(n/2)
		}
		a := makeTwinOfAny(cs, b, 7, 1<<31)
		if a < 0 {
			continue
		}
		one := []itemSpec{{Name: 0, Provides: []int{3}, Leaf: true, Copy: r.Intn(2) == 0, Hib: r.Intn(2) == 0}}
		emit(c, caseIn{Kind: fmt.Sprintf("twin-chain-%d", n), Dist: r.Intn(3), Items: one, Inj: none, Commits: cs,
			Twins: [][3]int{{cs[a].ID, cs[b].ID, 7}}})
	}
	// a scale history with a twin: a side branch merged back every p commits, 10^3 commits
	{
		cs := stamp(c, periodShape(1000, []int{7, 16, 33}[r.Intn(3)], 1), tRand)
		b := len(cs) - 1 - r.Intn(50)
		if a := makeTwinOfAny(cs, b, 7, 1<<31); a >= 0 {
			emit(c, caseIn{Kind: "twin-scale-period", Dist: r.Intn(3), Items: chain3(c), Inj: none, Commits: cs,
				Twins: [][3]int{{cs[a].ID, cs[b].ID, 7}}})
		}
	}

	// ---- time ----
	for i := c.Count(700, 16000); i > 0; i-- {
		var cs []commitSpec
		if r.Intn(4) == 0 {
			cs = reuseHistory(c)
		} else {
			cs = smallHistory(c)
		}
		mode := r.Intn(numTimeModes)
		decorateTimes(c, cs, mode)
		its := r4Pipeline(c)
		dist := r4Dist(c)
		in := caseIn{Kind: "time-" + timeModeNames[mode], Dist: dist, Items: its, Inj: none, Commits: cs, PA: r.Intn(5) == 0}
		if r.Intn(3) == 0 {
			in.Inj = richInjection(c, its, len(cs), dist)
		}
		if r.Intn(8) == 0 {
			in.Names = 1 + r.Intn(numNameStyles)
			in.Kind = "pair-" + in.Kind + "-names"
		}
		emit(c, in)
	}
	// the wall clock, exactly: every commit one second .. one minute ahead of / behind time.Now()
	for _, off := range []int64{-60, -1, 2, 5, 60, 3600} {
		cs := linearShape(3)
		now := time.Now().Unix()
		for i := range cs {
			cs[i].Time = now + off + int64(i)
		}
		extAll(cs)
		emit(c, caseIn{Kind: "time-now", Dist: 0, Items: fixedPipeline(0, c), Inj: none, Commits: cs})
	}
	// one Pipeline object on several selections of a history with decorated times (the summary of the second run must not
	// remember the first)
	for i := c.Count(60, 1500); i > 0; i-- {
		cs, sets := selections(c, []string{"sides", "mid", "sub", "grow"}[r.Intn(4)])
		if len(sets) == 0 {
			continue
		}
		mode := r.Intn(numTimeModes)
		decorateTimes(c, cs, mode)
		its := resolvablePipeline(c, func() []itemSpec { return r4Pipeline(c) })
		in := caseIn{Kind: "pair-reuse-time-" + timeModeNames[mode], Items: its, Inj: none, Commits: cs}
		for k, set := range sets {
			sel := idsIn(cs, set)
			if len(sel) == 0 {
				continue
			}
			in.Runs = append(in.Runs, runSpec{Mode: []int{0, 0, 1, 3}[r.Intn(4)], Dist: r4Dist(c), PA: r.Intn(4) == 0,
				Dump: k == 0 || r.Intn(2) == 0, Inj: none, Sel: sel})
		}
		if len(in.Runs) == 0 {
			continue
		}
		emit(c, in)
	}

	// ---- names ----
	for i := c.Count(500, 12000); i > 0; i-- {
		var its []itemSpec
		switch r.Intn(3) {
		case 0:
			its = samePipeline(c, r.Intn(9))
		case 1:
			its = richPipeline(c, 2+r.Intn(8), r.Intn(3) == 0)
		default:
			its = withProbe(c, richPipeline(c, 2+r.Intn(5), false))
		}
		its = shuffled(c, its)
		cs := smallHistory(c)
		dist := r4Dist(c)
		style := 1 + r.Intn(numNameStyles)
		in := caseIn{Kind: fmt.Sprintf("name-%d", style), Dist: dist, Items: its, Inj: richInjection(c, its, len(cs), dist),
			Commits: cs, PA: r.Intn(5) == 0, Names: style}
		if r.Intn(5) == 0 {
			in.Specials = pickSpecials(c, its, len(cs))
			in.Kind = "pair-" + in.Kind + "-special"
		}
		emit(c, in)
	}

	// ---- decimal widths ----
	widths := []int{9, 10, 11, 99, 100, 101, 999, 1000, 1001}
	for k, n := range widths {
		var cs []commitSpec
		if k%2 == 0 {
			cs = stamp(c, linearShape(n), tRand)
		} else {
			cs = stamp(c, periodShape(n, 3+r.Intn(6), 1), tAsc)
		}
		nit := []int{9, 10, 11}[k%3]
		if n > 101 {
			nit = 3
		}
		its := resolvablePipeline(c, func() []itemSpec { return shuffled(c, richPipeline(c, nit, k%2 == 1)) })
		in := caseIn{Kind: fmt.Sprintf("width-%d", n), Dist: []int{0, 1, 9, 10, 11}[r.Intn(5)], Items: its, Inj: none, Commits: cs,
			PA: n <= 101, Names: []int{0, 10, 11, 12}[r.Intn(4)]}
		if n <= 101 && r.Intn(2) == 0 {
			in.Inj = injection{Kind: "err", Item: its[len(its)-1].Name, K: n - 1}
		}
		emit(c, in)
	}
}

// round4Corpus (C14_ONLY=corpusgen): the expensive witnesses of corpus/C14 - a parent and its child that share six digits
func round4Corpus(c *Config) {
	none := injection{Kind: "none"}
	for _, d := range []int{6, -6} {
		cs := stamp(c, linearShape(3), tAsc)
		if makeTwins(cs, 1, 2, d, 1<<31) {
			emit(c, caseIn{Kind: fmt.Sprintf("twin-child-%d", d), Dist: 1, Items: fixedPipeline(0, c), Inj: none, Commits: cs,
				Twins: [][3]int{{1, 2, d}}})
		}
	}
}
