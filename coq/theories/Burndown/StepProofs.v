(* What the replay of one commit on one branch does, path by path: the file of every path goes from the
   old version's lines to the new version's lines (kept lines keep their values, inserted lines get the value
   t of the commit) and the global history receives exactly the reports of the inserted and deleted lines.
   Valid in normal and in merge mode (t carries the mark there and eff/effs vanish). *)
From Coq Require Import List ZArith Lia Bool.
From Herc Require Import Burndown.Base Burndown.Dense Burndown.Lifetimes Burndown.LifetimesFacts Burndown.Analysis
  Burndown.SparseFacts Burndown.AnalysisFacts Burndown.Replay Burndown.HunkProofs Burndown.LinearProofs.
Import ListNotations.
Open Scope Z_scope.

Lemma handle_changes_app cf author : forall l1 l2 b s,
  handle_changes cf author (l1 ++ l2) b s =
  match handle_changes cf author l1 b s with
  | Ok (b1, s1) => handle_changes cf author l2 b1 s1
  | e => e
  end.
Proof.
  induction l1 as [|ch l1 IH]; intros l2 b s; [reflexivity|]. cbn [app handle_changes].
  destruct (match ch with CInsert p n => _ | CDelete p n => _ | CModify p o n d => _ end) as [[b1 s1]| |]; auto.
Qed.

Lemma map_const_repeat {A B} (x : B) (l : list A) : map (fun _ => x) l = repeat x (length l).
Proof. induction l as [|a l IH]; [reflexivity|]. cbn. rewrite IH. reflexivity. Qed.

Section Path.
  Variable cf : cfg.
  Variable A : list (list bool).
  Variable last : option Z.
  Variable c : Z.
  Notation o := (old_alive A last).
  Notation n := (aliveb A c).
  Variable ov : line -> Z.
  Variable author : Z.

  Definition pgood (ex : bool) (al : line -> bool) (vf : line -> Z) (files : list (Z * file)) (p : Z) (seq : list line) : Prop :=
    if ex then exists hd, aget files p = Some (mkFile (map vf (filter al seq)) hd) else aget files p = None.

  Lemma old_not_exists seq : old_exists A last seq = false -> forall l, In l seq -> o l = false.
  Proof.
    unfold old_exists, old_alive. destruct last as [l0|]; [|reflexivity]. intros E l Hin.
    unfold path_exists in E. destruct (aliveb A l0 l) eqn:Ea; auto. unfold aliveb in Ea.
    apply andb_prop in Ea. destruct Ea as [Ea _].
    assert (existsb (fun l => ancb A l0 (l_born l)) seq = true) by (apply existsb_exists; eauto). congruence.
  Qed.
  Lemma new_not_exists seq : path_exists A c seq = false -> forall l, In l seq -> n l = false.
  Proof.
    intros E l Hin. unfold path_exists in E. destruct (aliveb A c l) eqn:Ea; auto. unfold aliveb in Ea.
    apply andb_prop in Ea. destruct Ea as [Ea _].
    assert (existsb (fun l => ancb A c (l_born l)) seq = true) by (apply existsb_exists; eauto). congruence.
  Qed.

  Lemma cntI_zero seq : (forall l, In l seq -> negb (o l) && n l = false) -> cntI o n seq = 0.
  Proof.
    intros Hz. unfold cntI, count. rewrite (filter_ext_in _ (fun _ => false)) by exact Hz.
    clear. induction seq; cbn; auto.
  Qed.
  Lemma deadv_nil seq : (forall l, In l seq -> o l && negb (n l) = false) -> deadv o n ov seq = [].
  Proof.
    intros Hz. unfold deadv. rewrite (filter_ext_in _ (fun _ => false)) by exact Hz.
    clear. induction seq; cbn; auto.
  Qed.

  Lemma pack_tick b : (if c_people cf =? 0 then b_tick b else pack cf author (b_tick b)) = pack cf author (b_tick b).
  Proof. unfold pack. destruct (c_people cf =? 0); reflexivity. Qed.

  Definition pflag (seq : list line) : bool :=
    match old_exists A last seq, path_exists A c seq with
    | false, true => true
    | true, true => 0 <? cntI o n seq + Z.of_nat (length (deadv o n ov seq))
    | _, _ => false
    end.

  Lemma KR_gh t f a a' b0 b0' : s_gh a = s_gh a' -> s_gh b0 = s_gh b0' -> KR cf t f a b0 -> KR cf t f a' b0'.
  Proof. unfold KR. intros -> ->. auto. Qed.

  Lemma path_step b s p seq b' s' :
    pgood (old_exists A last seq) o ov (b_files b) p seq ->
    (old_exists A last seq = true -> path_exists A c seq = true) ->
    handle_changes cf author (change_of_path A last c p seq) b s = Ok (b', s') ->
    pgood (path_exists A c seq) n (nv (pack cf author (b_tick b)) o ov) (b_files b') p seq /\
    (forall p', p' <> p -> aget (b_files b') p' = aget (b_files b) p') /\
    b_tick b' = b_tick b /\
    (forall P, wsum P (s_gh s') = wsum P (s_gh s) +
               eff cf P (pack cf author (b_tick b)) (pack cf author (b_tick b)) (cntI o n seq) +
               effs cf P (pack cf author (b_tick b)) (deadv o n ov seq)) /\
    (forall T, gh_ok T (s_gh s) ->
       (is_mark (pack cf author (b_tick b)) = false -> 0 <= tp cf (pack cf author (b_tick b)) <= T) ->
       (is_mark (pack cf author (b_tick b)) = false -> forall l, In l seq -> o l = true -> is_mark (ov l) = false ->
          0 <= tp cf (ov l) <= tp cf (pack cf author (b_tick b))) ->
       gh_ok T (s_gh s')) /\
    b_merged b' = (if (b_tick b =? mark) && touched A last c seq then aset (b_merged b) p true else b_merged b) /\
    b_mauthor b' = b_mauthor b /\
    ((is_mark (pack cf author (b_tick b)) = false -> forall l, In l seq -> o l = true -> is_mark (ov l) = false) ->
     KR cf (pack cf author (b_tick b)) (pflag seq) s s').
  Proof.
    set (t := pack cf author (b_tick b)).
    intros Hg Hmono E. unfold change_of_path in E. unfold touched, pflag.
    destruct (old_exists A last seq) eqn:Eold, (path_exists A c seq) eqn:Enew.
    - (* both exist *)
      destruct Hg as [hd Hf]. cbn [pgood] in *.
      destruct (forallb (fun l => match lstatus A last c l with LDel | LIns => false | _ => true end) seq) eqn:Esame.
      + (* nothing changed *)
        cbn [handle_changes] in E. injection E as <- <-.
        assert (Hon : forall l, In l seq -> o l = n l).
        { intros l Hin. rewrite forallb_forall in Esame. specialize (Esame l Hin). unfold lstatus in Esame.
          destruct (o l), (n l); auto; discriminate. }
        split.
        { exists hd. rewrite Hf. f_equal. f_equal. rewrite (filter_ext_in _ _ seq Hon).
          apply map_ext_in. intros l Hin. apply filter_In in Hin. destruct Hin as [Hin Hn].
          unfold nv. rewrite (Hon l Hin), Hn. reflexivity. }
        assert (Ec0 : cntI o n seq = 0) by (apply cntI_zero; intros l Hin; rewrite (Hon l Hin); destruct (n l); reflexivity).
        assert (Ed0 : deadv o n ov seq = []) by (apply deadv_nil; intros l Hin; rewrite (Hon l Hin); destruct (n l); reflexivity).
        split; [auto|]. split; [auto|]. split; [|split; [auto|split; [rewrite andb_false_r; reflexivity|split; [reflexivity|]]]].
        { intros P. rewrite Ec0, Ed0, eff_0. unfold effs. cbn. lia. }
        intros _. rewrite Ec0, Ed0. cbn. apply KR_refl.
      + (* a modification *)
        cbn [handle_changes] in E.
        destruct (handle_modification cf author b s p _ _ _) as [[b1 s1]| |] eqn:E1; try discriminate.
        injection E as <- <-. unfold handle_modification in E1.
        set (b0 := if b_tick b =? mark then with_merged b (aset (b_merged b) p true) else b) in *.
        assert (Hb0 : b_files b0 = b_files b /\ b_tick b0 = b_tick b) by (unfold b0; destruct (b_tick b =? mark); auto).
        destruct Hb0 as [Hb0f Hb0t]. rewrite Hb0f, Hf, Hb0t in E1.
        set (f0 := mkFile (map ov (filter o seq)) hd) in *. cbn [f_vals] in E1.
        destruct (negb (Z.of_nat (length (f_vals f0)) =? _)); [discriminate|].
        fold t in E1. unfold hunks in E1.
        rewrite hm_flat0 in E1 by (apply hunks3_ok; lia).
        destruct (run_hunks cf t (hunks3 o n seq 0 0 0) 0 f0 s) as [[f2 s2]| |] eqn:E2; try discriminate.
        destruct (negb (Z.of_nat (length (f_vals f2)) =? _)); [discriminate|].
        injection E1 as <- <-.
        destruct (run_hunks_spec cf t o n ov seq 0 0 0 [] [] [] f0 s f2 s2) as (R1 & R2 & R3); auto; try lia.
        cbn [app Z.to_nat repeat] in R1.
        split.
        { exists hd. unfold with_files. cbn [b_files]. rewrite aget_aset, Z.eqb_refl. f_equal.
          destruct f2 as [v2 h2]. cbn [f_vals f_hist] in *. subst. reflexivity. }
        split.
        { intros p' Hne. unfold with_files. cbn [b_files]. rewrite aget_aset.
          destruct (Z.eqb_spec p p'); [congruence|reflexivity]. }
        split; [exact Hb0t|]. split.
        { intros P. rewrite R3. cbn [app]. replace (0 + cntI o n seq) with (cntI o n seq) by lia. reflexivity. }
        split; [|split].
        { intros T Hok HtT Hvals. apply (run_hunks_ok cf t T HtT _ _ _ _ _ _ E2); auto.
          intros Hm v Hin Hmv. unfold f0 in Hin. cbn [f_vals] in Hin. apply in_map_iff in Hin.
          destruct Hin as (l & <- & Hl). apply filter_In in Hl. apply Hvals; tauto. }
        { unfold with_files. cbn [b_merged negb]. rewrite andb_true_r. unfold b0. destruct (b_tick b =? mark); reflexivity. }
        split.
        { unfold with_files. cbn [b_mauthor]. unfold b0. destruct (b_tick b =? mark); reflexivity. }
        intros Hnm. eapply KR_ext; [|apply (run_hunks_KR cf t _ _ _ _ _ _ E2)].
        { rewrite (tflag_hunks3 o n ov) by lia. reflexivity. }
        intros Hm v Hin. unfold f0 in Hin. cbn [f_vals] in Hin. apply in_map_iff in Hin.
        destruct Hin as (l & <- & Hl). apply filter_In in Hl. apply Hnm; tauto.
    - (* the path disappears: excluded *)
      specialize (Hmono eq_refl). discriminate.
    - (* a new path *)
      cbn [pgood] in Hg. cbn [handle_changes] in E.
      destruct (handle_insertion cf author b s p _) as [[b1 s1]| |] eqn:E1; try discriminate.
      injection E as <- <-. unfold handle_insertion in E1. rewrite Hg in E1.
      set (hs := if c_files cf then match aget (s_names s) p with
                   | Some h => (Some h, s)
                   | None => (Some (s_next s), with_fhs (with_names s (aset (s_names s) p (s_next s)) (s_next s + 1)) (aset (s_fhs s) (s_next s) []))
                   end else (None, s)) in *.
      assert (Hgh : s_gh (snd hs) = s_gh s).
      { unfold hs. destruct (c_files cf); [|reflexivity]. destruct (aget (s_names s) p); reflexivity. }
      destruct hs as [hd s0]. cbn [snd] in Hgh. rewrite pack_tick in E1. fold t in E1.
      destruct (update_time cf hd s0 t t _) as [s2| |] eqn:E2; try discriminate.
      assert (Ho : forall l, In l seq -> o l = false) by (apply old_not_exists; auto).
      set (b2 := with_files b (aset (b_files b) p (mkFile (repeat t (Z.to_nat (Z.of_nat (length (content A c seq))))) hd))) in *.
      assert (Hb1 : b_files b1 = b_files b2 /\ b_tick b1 = b_tick b /\ s_gh s1 = s_gh s2 /\
                    b_merged b1 = (if (b_tick b =? mark) && true then aset (b_merged b) p true else b_merged b) /\
                    b_mauthor b1 = b_mauthor b).
      { destruct (b_tick b =? mark); injection E1 as <- <-; auto 6. }
      destruct Hb1 as (Hb1f & Hb1t & Hs1 & Hb1m & Hb1a). rewrite Hb1f. unfold b2, with_files. cbn [b_files].
      split.
      { cbn [pgood]. exists hd. rewrite aget_aset, Z.eqb_refl. f_equal. f_equal. rewrite Nat2Z.id.
        unfold content. rewrite <- map_const_repeat. apply map_ext_in. intros l Hin.
        apply filter_In in Hin. unfold nv. rewrite (Ho l (proj1 Hin)). reflexivity. }
      split.
      { intros p' Hne. rewrite aget_aset. destruct (Z.eqb_spec p p'); [congruence|reflexivity]. }
      split; [exact Hb1t|]. split.
      { intros P. rewrite Hs1, (update_time_gh cf P _ _ _ _ _ _ E2), Hgh.
        rewrite deadv_nil by (intros l Hin; rewrite (Ho l Hin); reflexivity).
        assert (Ecnt : cntI o n seq = Z.of_nat (length (content A c seq))).
        { unfold cntI, count, content. f_equal. f_equal. apply filter_ext_in. intros l Hin. rewrite (Ho l Hin). reflexivity. }
        rewrite Ecnt. unfold effs. cbn. lia. }
      split; [|split; [exact Hb1m|split; [exact Hb1a|]]].
      { intros T Hok HtT _. rewrite Hs1. eapply update_time_ok; eauto; [|rewrite Hgh; exact Hok].
        intros Hm _. specialize (HtT Hm). lia. }
      intros _. apply (KR_gh t true s0 s s2 s1); auto. eapply update_time_KR; eauto.
    - (* absent before and after *)
      cbn [pgood] in *. cbn [handle_changes] in E. injection E as <- <-.
      assert (Ho : forall l, In l seq -> o l = false) by (apply old_not_exists; auto).
      assert (Hn : forall l, In l seq -> n l = false) by (apply new_not_exists; auto).
      split; auto. split; auto. split; auto. split; [|split; [auto|split; [rewrite andb_false_r; reflexivity|split; [reflexivity|intros _; apply KR_refl]]]]. intros P.
      rewrite cntI_zero by (intros l Hin; rewrite (Hn l Hin); apply andb_false_r).
      rewrite deadv_nil by (intros l Hin; rewrite (Ho l Hin); reflexivity).
      rewrite eff_0. unfold effs. cbn. lia.
  Qed.

  Definition merged_after (tick : Z) (paths : list (Z * list line)) (m0 : list (Z * bool)) : list (Z * bool) :=
    fold_left (fun m pl => if (tick =? mark) && touched A last c (snd pl) then aset m (fst pl) true else m) paths m0.

  (* all paths of the history *)
  Lemma paths_step : forall paths b s b' s',
    NoDup (map fst paths) ->
    (forall pl, In pl paths -> pgood (old_exists A last (snd pl)) o ov (b_files b) (fst pl) (snd pl)) ->
    (forall pl, In pl paths -> old_exists A last (snd pl) = true -> path_exists A c (snd pl) = true) ->
    handle_changes cf author (flat_map (fun pl => change_of_path A last c (fst pl) (snd pl)) paths) b s = Ok (b', s') ->
    (forall pl, In pl paths ->
       pgood (path_exists A c (snd pl)) n (nv (pack cf author (b_tick b)) o ov) (b_files b') (fst pl) (snd pl)) /\
    (forall p', ~ In p' (map fst paths) -> aget (b_files b') p' = aget (b_files b) p') /\
    b_tick b' = b_tick b /\
    (forall P, wsum P (s_gh s') = wsum P (s_gh s) +
       eff cf P (pack cf author (b_tick b)) (pack cf author (b_tick b)) (sum_z (map (fun pl => cntI o n (snd pl)) paths)) +
       effs cf P (pack cf author (b_tick b)) (flat_map (fun pl => deadv o n ov (snd pl)) paths)) /\
    (forall T, gh_ok T (s_gh s) ->
       (is_mark (pack cf author (b_tick b)) = false -> 0 <= tp cf (pack cf author (b_tick b)) <= T) ->
       (is_mark (pack cf author (b_tick b)) = false -> forall pl l, In pl paths -> In l (snd pl) -> o l = true ->
          is_mark (ov l) = false -> 0 <= tp cf (ov l) <= tp cf (pack cf author (b_tick b))) ->
       gh_ok T (s_gh s')) /\
    b_merged b' = merged_after (b_tick b) paths (b_merged b) /\ b_mauthor b' = b_mauthor b /\
    ((is_mark (pack cf author (b_tick b)) = false -> forall pl l, In pl paths -> In l (snd pl) -> o l = true -> is_mark (ov l) = false) ->
     KR cf (pack cf author (b_tick b)) (existsb (fun pl => pflag (snd pl)) paths) s s').
  Proof.
    induction paths as [|[p seq] paths IH]; intros b s b' s' Hnd Hg Hmono E.
    - cbn in E. injection E as <- <-. split; [intros ? []|]. split; auto. split; auto. split; [|split; [auto|split; [auto|split; [auto|intros _; apply KR_refl]]]].
      intros P. cbn [map flat_map sum_z fold_right]. rewrite eff_0. unfold effs. cbn. lia.
    - cbn [flat_map fst snd] in E. rewrite handle_changes_app in E.
      destruct (handle_changes cf author (change_of_path A last c p seq) b s) as [[b1 s1]| |] eqn:E1; try discriminate.
      inversion Hnd as [|? ? Hnotin Hnd']; subst.
      destruct (path_step b s p seq b1 s1 (Hg (p, seq) (or_introl eq_refl)) (Hmono (p, seq) (or_introl eq_refl)) E1)
        as (P1 & P2 & P3 & P4 & P5 & P6 & P7 & P8).
      assert (Hg1 : forall pl, In pl paths -> pgood (old_exists A last (snd pl)) o ov (b_files b1) (fst pl) (snd pl)).
      { intros pl Hin. pose proof (Hg pl (or_intror Hin)) as Hpl. unfold pgood in *.
        assert (Hne : fst pl <> p).
        { intros Eq. apply Hnotin. rewrite <- Eq. apply in_map. exact Hin. }
        rewrite (P2 (fst pl) Hne). exact Hpl. }
      assert (Hm1 : forall pl, In pl paths -> old_exists A last (snd pl) = true -> path_exists A c (snd pl) = true).
      { intros pl Hin. apply Hmono. right; auto. }
      destruct (IH b1 s1 b' s' Hnd' Hg1 Hm1 E) as (Q1 & Q2 & Q3 & Q4 & Q5 & Q6 & Q7 & Q8).
      rewrite P3 in Q1, Q3, Q4, Q5, Q6, Q8.
      split.
      { intros pl [<-|Hin]; [|apply Q1; auto]. cbn [fst snd]. unfold pgood in *.
        rewrite (Q2 p Hnotin). exact P1. }
      split.
      { intros p' Hn. cbn [map fst] in Hn. rewrite Q2 by (intros Hin; apply Hn; right; exact Hin).
        apply P2. intros ->. apply Hn. left; reflexivity. }
      split; [lia|]. split.
      { intros P. rewrite Q4, P4. cbn [map flat_map snd]. rewrite sum_z_cons, effs_app, <- eff_add. lia. }
      split; [|split; [rewrite Q6, P6; reflexivity|split; [congruence|]]].
      2:{ intros Hnm. cbn [existsb snd]. eapply KR_trans.
          - apply P8. intros Hm l Hl. apply (Hnm Hm (p, seq) l (or_introl eq_refl) Hl).
          - apply Q8. intros Hm pl l Hpl. apply (Hnm Hm pl l (or_intror Hpl)). }
      intros T Hok HtT Hvals. apply Q5; auto.
      + apply (P5 T Hok HtT). intros Hm l Hl Ho Hmv. exact (Hvals Hm (p, seq) l (or_introl eq_refl) Hl Ho Hmv).
      + intros Hm pl l Hpl Hl Ho Hmv. apply (Hvals Hm pl l (or_intror Hpl) Hl Ho Hmv).
  Qed.
End Path.
