(* C01: replay the harness trace.
   PROPFAIL  = the matrices the real pipeline returned differ from the ground truth computed by the
               extracted Coq functions of Burndown/Lifetimes.v (every cell), a negative cell, a last row
               that does not sum to the lines at HEAD, wrong per-file / per-developer matrices or
               ownership; for linear arbitrary-edit histories wrong row sums (Burndown/Linear.v).
   MISMATCH  = the abstract analysis model (Burndown/Analysis.v, run along the plan the pipeline used)
               disagrees with the implementation on the sparse histories, the dense result or the final
               files of the root branch. *)
open C01_model
open Conv

(* a 10^5-line blob is a list of 4*10^5 bytes and the extracted / List functions are not tail recursive: the driver
   re-executes itself once under a larger stack limit (stdin has not been touched yet) *)
let () =
  if (try Sys.getenv "VERIF_BIGSTACK" <> "1" with Not_found -> true) then begin
    Unix.putenv "VERIF_BIGSTACK" "1";
    (try Unix.execv "/bin/sh"
           [| "/bin/sh"; "-c"; "ulimit -s 4194304 2>/dev/null || ulimit -s unlimited 2>/dev/null; exec \"$0\" \"$@\""; Sys.executable_name |]
     with _ -> ())
  end

let zi = z_of_int
let iz = int_of_z
let ints s = List.map int_of_sx (list_of_sx s)

(* ---------- parsing ---------- *)
let parse_hist (s : sx) : hist * string list =
  let parents = List.map (fun p -> List.map zi (ints p)) (args (field "parents" s)) in
  let ticks = List.map (fun x -> zi (int_of_sx x)) (args (field "ticks" s)) in
  let authors = List.map (fun x -> zi (int_of_sx x)) (args (field "authors" s)) in
  let names = ref [] in
  let paths = List.mapi (fun i p ->
    match p with
    | L (A name :: ls) ->
        names := name :: !names;
        (zi i, List.map (fun l -> match ints l with
            | [id; b; k] -> { l_id = zi id; l_born = zi b; l_killer = zi k }
            | _ -> failwith "line") ls)
    | _ -> failwith "path") (args (field "paths" s)) in
  ({ h_parents = parents; h_ticks = ticks; h_authors = authors; h_paths = paths }, List.rev !names)

let parse_action (s : sx) : action =
  let a = List.map (fun x -> zi (int_of_sx x)) (args s) in
  match tag s, a with
  | "emerge", [b] -> AEmerge b
  | "commit", [c; b] -> ACommit (c, b)
  | "fork", b :: bs -> AFork (b, bs)
  | "merge", bs -> AMerge bs
  | "delete", [b] -> ADelete b
  | "hibernate", bs -> AHibernate bs
  | "boot", bs -> ABoot bs
  | t, _ -> failwith ("action " ^ t)

let matrix_of_sx (rows : sx list) : int list list = List.map ints rows
let show_row r = "[" ^ String.concat " " (List.map string_of_int r) ^ "]"
let show_matrix m = String.concat ";" (List.map show_row m)
let zmatrix (m : z list list) : int list list = List.map (List.map iz) m

(* first differing cell of two matrices *)
let diff_matrix (what : string) (got : int list list) (want : int list list) : string option =
  if List.length got <> List.length want then
    Some (Printf.sprintf "%s: %d rows, ground truth has %d (got %s want %s)" what (List.length got) (List.length want)
            (show_matrix got) (show_matrix want))
  else begin
    let res = ref None in
    List.iteri (fun s (g, w) ->
      if !res = None then begin
        if List.length g <> List.length w then
          res := Some (Printf.sprintf "%s: row %d has %d bands, ground truth has %d" what s (List.length g) (List.length w))
        else
          List.iteri (fun b (x, y) ->
            if !res = None && x <> y then
              res := Some (Printf.sprintf "%s: cell sample=%d band=%d is %d, ground truth %d" what s b x y))
            (List.combine g w)
      end) (List.combine got want);
    !res
  end

(* sparse histories, normalised: sorted by key *)
let norm_inner (l : (int * int) list) = List.sort compare l
let norm_sparse (l : (int * (int * int) list) list) = List.sort compare (List.map (fun (t, r) -> (t, norm_inner r)) l)
let sparse_of_sx (items : sx list) : (int * (int * int) list) list =
  norm_sparse (List.map (fun e -> match e with
    | L (t :: cells) -> (int_of_sx t, List.map (fun c -> match ints c with [a; b] -> (a, b) | _ -> failwith "cell") cells)
    | _ -> failwith "sparse") items)
let sparse_of_model (h : (z * (z * z) list) list) =
  norm_sparse (List.map (fun (t, r) -> (iz t, List.map (fun (a, b) -> (iz a, iz b)) r)) h)
let show_sparse l =
  String.concat " " (List.map (fun (t, r) ->
    Printf.sprintf "%d:{%s}" t (String.concat "," (List.map (fun (a, b) -> Printf.sprintf "%d:%d" a b) r))) l)

let rec index_of x = function [] -> -1 | y :: r -> if x = y then 0 else let i = index_of x r in if i < 0 then -1 else i + 1

let pclass_name = function
  | PEmptyHistory -> "empty-history" | PTicksCorruption -> "ticks" | PIndex -> "index" | PMark -> "mark"
  | PNilFile -> "nil" | PExists -> "exists" | PIntegrity -> "integrity" | PUnmodelled -> "unmodelled" | POther -> "other"


(* ---------- native ground truth for large histories ----------
   The extracted oracle of Lifetimes.v (znth into lists, ancestor bit vectors as bool lists, one pass over all
   lines per cell) is cubic in practice; histories of 10^3 .. 10^4 commits and matrices of hundreds of rows are
   judged by the functions below instead: the same definitions (conflict_free, single_head, last_event,
   truth_cell as "alive at the end of sample s and born in band b") on arrays, the matrix built with one
   difference array per band.  Every small case of a run computes both and the driver stops if they differ
   (self_check), so the native code is tied to the extracted definitions on thousands of histories per run. *)
type nline = { nl_id : int; nl_born : int; nl_killer : int }
type nhist = {
  nn : int;
  nparents : int list array;
  nticks : int array;
  nauthors : int array;
  npaths : nline array array;       (* path index -> its line sequence *)
  nlens_ok : bool;                  (* ticks / authors have one entry per commit *)
}

let nhist_of_sx (s : sx) : nhist * string list =
  let parents = Array.of_list (List.map ints (args (field "parents" s))) in
  let ticks = Array.of_list (List.map int_of_sx (args (field "ticks" s))) in
  let authors = Array.of_list (List.map int_of_sx (args (field "authors" s))) in
  let names = ref [] in
  let paths = Array.of_list (List.map (fun p -> match p with
      | L (A name :: ls) ->
          names := name :: !names;
          Array.of_list (List.map (fun l -> match ints l with
              | [id; b; k] -> { nl_id = id; nl_born = b; nl_killer = k }
              | _ -> failwith "line") ls)
      | _ -> failwith "path") (args (field "paths" s))) in
  let n = Array.length parents in
  ({ nn = n; nparents = parents; nticks = ticks; nauthors = authors; npaths = paths;
     nlens_ok = (Array.length ticks = n && Array.length authors = n) }, List.rev !names)

(* ancestor-or-self sets as byte-packed bit rows *)
let nancs (h : nhist) : Bytes.t array =
  let w = (h.nn + 7) / 8 in
  let rows = Array.make h.nn Bytes.empty in
  for c = 0 to h.nn - 1 do
    let r = Bytes.make w '\000' in
    List.iter (fun p ->
      if p >= 0 && p < c then begin
        let rp = rows.(p) in
        for i = 0 to w - 1 do
          Bytes.unsafe_set r i (Char.unsafe_chr (Char.code (Bytes.unsafe_get r i) lor Char.code (Bytes.unsafe_get rp i)))
        done end) h.nparents.(c);
    Bytes.set r (c lsr 3) (Char.chr (Char.code (Bytes.get r (c lsr 3)) lor (1 lsl (c land 7))));
    rows.(c) <- r
  done; rows
let nanc (a : Bytes.t array) c x =
  c >= 0 && c < Array.length a && x >= 0 && x < Array.length a && Char.code (Bytes.get a.(c) (x lsr 3)) land (1 lsl (x land 7)) <> 0

let rec distinct_strings (l : string list) = match l with [] -> true | x :: r -> not (List.mem x r) && distinct_strings r
let rec distinct_ints = function [] -> true | x :: r -> not (List.mem x r) && distinct_ints r

let nconflict_free (h : nhist) (a : Bytes.t array) : bool =
  let n = h.nn in
  let ok = ref (n >= 1 && h.nlens_ok) in
  if !ok then begin
    if h.nticks.(0) <> 0 then ok := false;
    for c = 0 to n - 1 do
      if h.nticks.(c) < 0 || h.nauthors.(c) < 0 || not (distinct_ints h.nparents.(c)) then ok := false;
      List.iter (fun p -> if not (p >= 0 && p < c && h.nticks.(p) <= h.nticks.(c)) then ok := false) h.nparents.(c)
    done;
    (* ticks do not decrease from an ancestor to a descendant *)
    if !ok then
      for c = 0 to n - 1 do
        for x = 0 to c do if nanc a c x && h.nticks.(x) > h.nticks.(c) then ok := false done
      done;
    let seen = Hashtbl.create 1024 in
    Array.iter (Array.iter (fun l ->
      if Hashtbl.mem seen l.nl_id then ok := false else Hashtbl.add seen l.nl_id ();
      let b = l.nl_born and k = l.nl_killer in
      if not (b >= 0 && b < n) then ok := false
      else if k <> -1 then
        if not (k >= 0 && k < n && nanc a k b && k <> b && List.length h.nparents.(k) <= 1 && h.nticks.(b) <= h.nticks.(k)) then ok := false)) h.npaths
  end; !ok

let nsingle_head (h : nhist) (a : Bytes.t array) : bool =
  let ok = ref (h.nn >= 1) in
  for c = 0 to h.nn - 1 do if not (nanc a (h.nn - 1) c) then ok := false done; !ok
let nhas_line (h : nhist) = Array.exists (fun p -> Array.length p > 0) h.npaths
let ntick h c = if c >= 0 && c < h.nn then h.nticks.(c) else 0
let nlast_event (h : nhist) : int =
  let m = ref 0 in
  Array.iter (Array.iter (fun l ->
    m := max !m (ntick h l.nl_born); if l.nl_killer >= 0 then m := max !m (ntick h l.nl_killer))) h.npaths; !m

(* the ground-truth matrix of the lines selected by keep: a line born at tick tb and killed at tick td is alive
   at the end of sample s iff tb <= (s+1)*S-1 < td, i.e. tb/S <= s < td/S; it sits in band tb/G *)
let ntruth (h : nhist) g s (keep : int -> nline -> bool) : int list list =
  let last = nlast_event h in
  let rows = last / s + 1 and bands = last / g + 1 in
  let d = Array.make_matrix bands (rows + 1) 0 in
  Array.iteri (fun pi p -> Array.iter (fun l ->
    if keep pi l then begin
      let tb = ntick h l.nl_born in
      let b = tb / g in
      let from = tb / s in
      let upto = if l.nl_killer >= 0 then min rows (ntick h l.nl_killer / s) else rows in
      if from < upto then begin
        d.(b).(from) <- d.(b).(from) + 1;
        d.(b).(upto) <- d.(b).(upto) - 1
      end
    end) p) h.npaths;
  for b = 0 to bands - 1 do for r = 1 to rows do d.(b).(r) <- d.(b).(r) + d.(b).(r - 1) done done;
  List.init rows (fun r -> List.init bands (fun b -> d.(b).(r)))

let nalive_at_head (h : nhist) (a : Bytes.t array) (l : nline) =
  nanc a (h.nn - 1) l.nl_born && not (l.nl_killer >= 0 && nanc a (h.nn - 1) l.nl_killer)
let nlines_at_head h a =
  let k = ref 0 in Array.iter (Array.iter (fun l -> if nalive_at_head h a l then incr k)) h.npaths; !k
(* developer -> lines of path pi alive at HEAD, developers without a line omitted, sorted *)
let nownership h a pi : (int * int) list =
  let t = Hashtbl.create 8 in
  Array.iter (fun l -> if nalive_at_head h a l then begin
    let d = h.nauthors.(l.nl_born) in
    Hashtbl.replace t d (1 + try Hashtbl.find t d with Not_found -> 0) end) h.npaths.(pi);
  List.sort compare (Hashtbl.fold (fun d k acc -> (d, k) :: acc) t [])
let npaths_with_lines h = List.filter (fun pi -> Array.length h.npaths.(pi) > 0) (List.init (Array.length h.npaths) (fun i -> i))

(* ---------- path events (kinds *-pathdel) ----------
   (rpd (names (id name)...) (events (commit id name|-)...)): the line sequences of rhist are keyed by FILE IDENTITY; an identity
   appears in the tree of commit c under  nwhere c  (absent before its first birth in the ancestry, then its initial name, then what
   its latest event in the ancestry of c says).  npd_ok = the domain conditions D1-D3 of harness/cmd/c01/pathdel.go and of
   Burndown/PathDel.v (conflict_free_pd; the extracted function is compared with this one on every case without renames). *)
type npd = {
  pd_name0 : string array;                    (* identity index -> initial name *)
  pd_events : (int * int * string) list;      (* commit, identity index, new name ("" = deleted) *)
}
let npd_of_sx (s : sx) (ids : string list) : npd =
  let name0 = Array.of_list (List.map (fun id ->
    let e = List.find_opt (fun x -> match x with L [A i; _] -> i = id | _ -> false) (args (field "names" s)) in
    match e with Some (L [_; A n]) -> n | _ -> id) ids) in
  let rec idx x i = function [] -> failwith ("rpd: unknown identity " ^ x) | y :: r -> if x = y then i else idx x (i + 1) r in
  { pd_name0 = name0;
    pd_events = List.map (fun e -> match e with
      | L [c; A id; A n] -> (int_of_sx c, idx id 0 ids, (if n = "-" then "" else n))
      | _ -> failwith "rpd event") (args (field "events" s)) }
let nborn_in (h : nhist) a pi c = Array.exists (fun l -> nanc a c l.nl_born) h.npaths.(pi)
let nwhere (h : nhist) a (pd : npd) pi c : string =
  if not (nborn_in h a pi c) then "" else begin
    let best = ref (-1) and name = ref pd.pd_name0.(pi) in
    List.iter (fun (d, i, n) -> if i = pi && nanc a c d && d > !best then (best := d; name := n)) pd.pd_events;
    !name end
let nalive_at a c (l : nline) = nanc a c l.nl_born && not (l.nl_killer >= 0 && nanc a c l.nl_killer)
let npd_ok (h : nhist) a (pd : npd) : bool =
  let ok = ref true in
  let comparable x y = nanc a x y || nanc a y x in
  List.iter (fun (d, pi, n) ->
    if not (d >= 0 && d < h.nn && pi >= 0 && pi < Array.length h.npaths) then ok := false
    else begin
      (match h.nparents.(d) with
       | [p] ->
           if nwhere h a pd pi p = "" then ok := false;
           Array.iter (fun l ->
             if l.nl_born = d then ok := false;
             (* D2: births and kills of the file are comparable with the event *)
             if not (comparable d l.nl_born) then ok := false;
             if l.nl_killer >= 0 && not (comparable d l.nl_killer) then ok := false;
             if n = "" then begin
               (* D1: a deletion kills exactly the lines alive in the parent; nothing of the file happens later *)
               if nalive_at a p l && l.nl_killer <> d then ok := false;
               if not (nanc a d l.nl_born) then ok := false;
               if l.nl_killer >= 0 && not (nanc a d l.nl_killer) then ok := false
             end else begin
               (* an exact rename: the commit neither kills nor adds a line of the file, which is not empty *)
               if l.nl_killer = d then ok := false
             end) h.npaths.(pi);
           if n <> "" && not (Array.exists (fun l -> nalive_at a p l) h.npaths.(pi)) then ok := false
       | _ -> ok := false);
      List.iter (fun (d2, pi2, _) -> if pi2 = pi && d2 <> d && not (comparable d d2) then ok := false;
                                     if pi2 = pi && d2 = d && not (List.length (List.filter (fun (x, y, _) -> x = d && y = pi) pd.pd_events) = 1) then ok := false) pd.pd_events
    end) pd.pd_events;
  (* D3 and "no line lives in an absent file" *)
  for c = 0 to h.nn - 1 do
    let seen = Hashtbl.create 8 in
    Array.iteri (fun pi p ->
      let w = nwhere h a pd pi c in
      if w = "" then (if Array.exists (fun l -> nalive_at a c l) p then ok := false)
      else if Hashtbl.mem seen w then ok := false else Hashtbl.add seen w ()) h.npaths
  done;
  !ok

(* The mechanism of the known finding, decided on the executed plan: walk the plan with the set of names whose flag
   deletions[name] is set (handleDeletion sets it; handleInsertion and handleRename clear it for the new name; the map is shared
   by all branches) and report whether some merge-mode replay (the same commit in the neighbouring commit action) deletes a path
   whose flag is not set: that replay books the deletion of the lines a second time, at tick 0. *)
let nflag_unset_hit (h : nhist) a (pd : npd) (plan : action list) : bool =
  let acts = Array.of_list (List.filter (function AHibernate _ | ABoot _ -> false | _ -> true) plan) in
  let n = Array.length acts in
  let commit_at i = if i >= 0 && i < n then (match acts.(i) with ACommit (c, _) -> Some (int_of_z c) | _ -> None) else None in
  let last : (int, int option) Hashtbl.t = Hashtbl.create 8 in
  let flags : (string, unit) Hashtbl.t = Hashtbl.create 8 in
  let hit = ref false in
  let npaths = Array.length h.npaths in
  Array.iteri (fun i act ->
    match act with
    | AEmerge b -> Hashtbl.replace last (int_of_z b) None
    | AFork (b, bs) ->
        let l = (try Hashtbl.find last (int_of_z b) with Not_found -> None) in
        List.iter (fun b' -> Hashtbl.replace last (int_of_z b') l) bs
    | ADelete b -> Hashtbl.remove last (int_of_z b)
    | ACommit (cz, bz) ->
        let c = int_of_z cz and b = int_of_z bz in
        if c >= 0 && c < h.nn then begin
          let merge_mode = (commit_at (i - 1) = Some c) || (commit_at (i + 1) = Some c) in
          let old_name pi = (match (try Hashtbl.find last b with Not_found -> None) with
                             | None -> "" | Some o -> nwhere h a pd pi o) in
          let olds = Array.init npaths old_name and news = Array.init npaths (fun pi -> nwhere h a pd pi c) in
          let in_arr x arr = x <> "" && Array.exists (fun y -> y = x) arr in
          let lasto = (try Hashtbl.find last b with Not_found -> None) in
          (* a moved file is followed only when its content is unchanged (RenameAnalysis pairs equal hashes; the blobs of these
             histories are too small or too different for its similarity stage): otherwise the step is a deletion + an insertion *)
          let same_content pi = (match lasto with
            | None -> false
            | Some o -> Array.for_all (fun l -> nalive_at a o l = nalive_at a c l) h.npaths.(pi)) in
          for pi = 0 to npaths - 1 do
            let o = olds.(pi) and w = news.(pi) in
            let moved = o <> "" && w <> "" && o <> w in
            (* ... and only onto a name that is free in the old tree (else the tree diff says: w modified, o deleted) *)
            if o <> "" && (w = "" || (moved && (not (same_content pi) || in_arr w olds))) && not (in_arr o news) then begin
              (* the path o is deleted *)
              if merge_mode && not (Hashtbl.mem flags o) then hit := true;
              Hashtbl.replace flags o ()
            end;
            if w <> "" && w <> o && not (in_arr w olds) then
              (* inserted, or renamed to w *)
              Hashtbl.remove flags w
          done;
          Hashtbl.replace last b (Some c)
        end
    | _ -> ()) acts;
  !hit

(* what the judgement of one history case needs, from the extracted oracle or from the native one *)
type truth = {
  t_cfree : bool; t_hasline : bool; t_single : bool; t_n : int;
  t_tick : int -> int;
  t_project : unit -> int list list;
  t_file : int -> int list list;
  t_dev : int -> int list list;
  t_lines_at_head : unit -> int;
  t_ownership : int -> (int * int) list;
  t_paths_with_lines : int list;
  t_authors : int list;
}
let native_truth (nh : nhist) g s : truth =
  let a = nancs nh in
  { t_cfree = nconflict_free nh a; t_hasline = nhas_line nh; t_single = nsingle_head nh a; t_n = nh.nn;
    t_tick = ntick nh;
    t_project = (fun () -> ntruth nh g s (fun _ _ -> true));
    t_file = (fun pi -> ntruth nh g s (fun p _ -> p = pi));
    t_dev = (fun d -> ntruth nh g s (fun _ l -> nh.nauthors.(l.nl_born) = d));
    t_lines_at_head = (fun () -> nlines_at_head nh a);
    t_ownership = (fun pi -> nownership nh a pi);
    t_paths_with_lines = npaths_with_lines nh;
    t_authors = Array.to_list nh.nauthors }

(* ---------- one conflict-free-history case ---------- *)
let extracted_truth (h : hist) g s : truth =
  let gz = zi g and sz = zi s in
  { t_cfree = conflict_free h; t_hasline = has_line h; t_single = single_head h; t_n = List.length h.h_parents;
    t_tick = (fun c -> iz (tick_of h (zi c)));
    t_project = (fun () -> zmatrix (truth_project h gz sz));
    t_file = (fun pi -> zmatrix (truth_file h gz sz (zi pi)));
    t_dev = (fun d -> zmatrix (truth_dev h gz sz (zi d)));
    t_lines_at_head = (fun () -> iz (lines_at_head h));
    t_ownership = (fun pi -> List.sort compare (List.map (fun (d, k) -> (iz d, iz k))
                                (truth_ownership h (zi pi) (List.sort_uniq compare h.h_authors))));
    t_paths_with_lines = List.map iz (paths_with_lines h);
    t_authors = List.map iz h.h_authors }

(* both oracles on a small case: the native one must agree with the extracted one on everything it is used for *)
let self_check id (e : truth) (n : truth) ~applied ~files ~people ~devs =
  let bad what = failwith (Printf.sprintf "case %d: self-check of the native ground truth failed (%s)" id what) in
  if e.t_cfree <> n.t_cfree then bad "conflict_free";
  if e.t_hasline <> n.t_hasline then bad "has_line";
  if e.t_cfree then begin
    if e.t_single <> n.t_single then bad "single_head";
    if e.t_paths_with_lines <> n.t_paths_with_lines then bad "paths_with_lines";
    if applied then begin
      if e.t_project () <> n.t_project () then bad "truth_project";
      if e.t_single && e.t_lines_at_head () <> n.t_lines_at_head () then bad "lines_at_head";
      if files then List.iter (fun pi ->
        if e.t_file pi <> n.t_file pi then bad "truth_file";
        if e.t_single && e.t_ownership pi <> n.t_ownership pi then bad "truth_ownership") e.t_paths_with_lines;
      if people then List.iter (fun d -> if d >= 0 && e.t_dev d <> n.t_dev d then bad "truth_dev") devs
    end
  end;
  count "native_oracle_self_checked"

let hist_case id (c : sx) =
  let g = int_of_sx (List.hd (args (field "g" c))) and s = int_of_sx (List.hd (args (field "s" c))) in
  let files = bool_of_sx (List.hd (args (field "files" c))) in
  let people = bool_of_sx (List.hd (args (field "people" c))) in
  let flag name def = match field_opt name c with Some f -> bool_of_sx (List.hd (args f)) | None -> def in
  let scale = flag "scale" false in
  (match field_opt "enc" c with Some f -> count ("line_rendering_" ^ atom (List.hd (args f))) | None -> ());
  (match field_opt "nenc" c with Some f -> count ("name_rendering_" ^ atom (List.hd (args f))) | None -> ());
  (match field_opt "modes" c with Some _ -> count "executable_and_regular_entries" | None -> ());
  let model = flag "model" true in
  let (nh, ids) = nhist_of_sx (field "rhist" c) in
  let ntr = native_truth nh g s in
  (* path events (kinds *-pathdel): the sequences are keyed by file identity, the outputs and the model by path NAME *)
  let pdo = match field_opt "rpd" c with Some x -> Some (npd_of_sx x ids) | None -> None in
  let a0 = match pdo with Some _ -> nancs nh | None -> [||] in
  let has_merge = Array.exists (fun ps -> List.length ps > 1) nh.nparents in
  let has_events = (match pdo with Some pd -> pd.pd_events <> [] | None -> false) in
  let has_renames = (match pdo with Some pd -> List.exists (fun (_, _, n) -> n <> "") pd.pd_events | None -> false) in
  (* the known finding (marker [path-deleted-on-a-branch]): the executed plan replays, in merge mode, the deletion of a path
     whose flag deletions[name] is not set at that moment (nflag_unset_hit below); decided once the plan is known *)
  let known_shape = ref false in
  let propfail id m = propfail id (if !known_shape then "[path-deleted-on-a-branch] " ^ m else m) in
  let names = match pdo with
    | None -> ids
    | Some pd ->
        let all = Array.to_list pd.pd_name0 @ List.filter_map (fun (_, _, n) -> if n = "" then None else Some n) pd.pd_events in
        List.rev (List.fold_left (fun acc n -> if List.mem n acc then acc else n :: acc) [] all) in
  (* a plain file: no event, and nobody else ever has its name - its per-file matrix and ownership are judged *)
  let plain pi = match pdo with
    | None -> true
    | Some pd ->
        let n = pd.pd_name0.(pi) in
        not (List.exists (fun (_, i, _) -> i = pi) pd.pd_events) &&
        not (List.exists (fun (_, _, n') -> n' = n) pd.pd_events) &&
        (let k = ref 0 in Array.iter (fun n' -> if n' = n then incr k) pd.pd_name0; !k = 1) in
  (* round 4: a file that is only RENAMED (any number of times), and a new file created on a name that a rename gave up, are judged
     too, under the name they have at HEAD (single head): the lines follow their file through the renames.  Excluded stay the
     identities that are deleted and every identity one of whose names was held by a file at the moment it was deleted (hercules
     drops fileHistories[name] there and the property gives no ground truth for a path that changes identity that way). *)
  let deleted_names = match pdo with
    | None -> []
    | Some pd -> List.filter_map (fun (d, i, n) ->
        if n <> "" then None
        else (match (if d >= 0 && d < nh.nn then nh.nparents.(d) else []) with [p] -> Some (nwhere nh a0 pd i p) | _ -> None)) pd.pd_events in
  (* D4: when an identity takes a name (at its creation, by a rename) no commit concurrent with that commit has another identity
     under that name - else the replay of a merge commit on that branch sees the path "modified" instead of "moved away + created" *)
  let takes_ok = match pdo with
    | None -> true
    | Some pd when ntr.t_cfree ->
        let np = Array.length nh.npaths in
        let takes = ref (List.filter_map (fun (d, i, n) -> if n <> "" && d >= 0 && d < nh.nn then Some (d, i, n) else None) pd.pd_events) in
        for q = 0 to np - 1 do
          (* creation: the births without an ancestor that has the identity *)
          Array.iter (fun l -> let b = l.nl_born in
            if b >= 0 && b < nh.nn && not (List.exists (fun p -> nborn_in nh a0 q p) nh.nparents.(b)) && not (List.mem (b, q, pd.pd_name0.(q)) !takes)
            then takes := (b, q, pd.pd_name0.(q)) :: !takes) nh.npaths.(q)
        done;
        List.for_all (fun (n, q, nm) ->
          let ok = ref true in
          for p = 0 to np - 1 do
            if p <> q then
              for c = 0 to nh.nn - 1 do
                if not (nanc a0 c n) && not (nanc a0 n c) && nwhere nh a0 pd p c = nm then ok := false
              done
          done; !ok) !takes
    | Some _ -> true in
  if pdo <> None && not takes_ok then count "pathdel_name_taken_while_in_use_on_a_concurrent_branch";
  (* every commit concurrent with a rename of the identity, and each of its parents, already has the identity (under its old name): no
     branch receives the file by the replay of a merge commit under a name the rename may already have given up (docs/C01.md, round 4, F27) *)
  let renames_seen_by_all pi = match pdo with
    | None -> true
    | Some pd -> List.for_all (fun (d, i, n) ->
        i <> pi || n = "" || not (d >= 0 && d < nh.nn) ||
        (let ok = ref true in
         for c = 0 to nh.nn - 1 do
           if not (nanc a0 c d) && not (nanc a0 d c)
              && not (nborn_in nh a0 pi c && List.for_all (fun p -> p >= 0 && p < nh.nn && nborn_in nh a0 pi p) nh.nparents.(c)) then ok := false
         done; !ok)) pd.pd_events in
  let judged_name pi : string option = match pdo with
    | None -> Some (List.nth ids pi)
    | Some pd ->
        if plain pi then Some pd.pd_name0.(pi)
        else begin
          let mine = pd.pd_name0.(pi) :: List.filter_map (fun (_, i, n) -> if i = pi && n <> "" then Some n else None) pd.pd_events in
          if ntr.t_cfree && ntr.t_single && takes_ok
             && not (List.exists (fun (_, i, n) -> i = pi && n = "") pd.pd_events)
             && not (List.exists (fun n -> List.mem n deleted_names) mine)
          then (let w = nwhere nh a0 pd pi (nh.nn - 1) in if w = "" then None else Some w)
          else None
        end in
  let pi_of_name p =
    let r = ref (-1) in
    for pi = Array.length nh.npaths - 1 downto 0 do if judged_name pi = Some p then r := pi done; !r in
  (* known findings F28 / F27 (docs/C01.md, round 4): the per-file tables of a file that is renamed back to a name it had before, resp. of a
     renamed file one of whose renames is concurrent with a commit that does not have the file yet, are judged like all others; a PROPFAIL
     about such a file (and only about it) starts with the tag of the finding *)
  let ftag p = match pdo with
    | None -> ""
    | Some pd ->
        let pi = pi_of_name p in
        if pi < 0 || plain pi then ""
        else begin
          let mine = pd.pd_name0.(pi) :: List.filter_map (fun (_, i, n) -> if i = pi && n <> "" then Some n else None) pd.pd_events in
          if not (distinct_strings mine) then "[renamed-back-to-earlier-name] "
          else if not (renames_seen_by_all pi) then "[rename-consumed-before-merge-replay] "
          else ""
        end in
  (* the extracted history is needed by the extracted oracle (small cases) and by the analysis model *)
  let hopt = if scale && not model then None else Some (fst (parse_hist (field "rhist" c))) in
  let tr = if scale then ntr else (match hopt with Some h -> extracted_truth h g s | None -> ntr) in
  if scale then count "judged_by_native_ground_truth";
  let obs = List.hd (args (field "obs" c)) in
  let pd_ok = (match pdo with Some pd -> tr.t_cfree && npd_ok nh a0 pd | None -> true) in
  if tr.t_cfree && not pd_ok then count "pathdel_outside_domain";
  if pdo <> None && tr.t_cfree && pd_ok then (count "pathdel_in_domain"; if has_events && has_merge then count "pathdel_with_event_and_merge");
  let cfree = tr.t_cfree && pd_ok in
  let hasline = tr.t_hasline in
  let single = tr.t_single in
  let n = tr.t_n in
  if not cfree then begin
    count "hist_outside_domain";
    if not scale then self_check id tr ntr ~applied:false ~files ~people ~devs:[]
  end else begin
    count "hist_in_domain";
    if single then count "single_head" else count "multi_head";
    match tag obs with
    | "panic" | "error" ->
        let cls = atom (List.hd (args obs)) in
        if (not hasline) && tag obs = "panic" && cls = "empty-history" then
          propfail id "pipeline panics 'empty history': no text line in any analysed commit"
        else propfail id (Printf.sprintf "pipeline %s (%s) on a conflict-free history" (tag obs) cls)
    | "ok" ->
        let plan = List.map parse_action (args (field "plan" obs)) in
        (match pdo with
         | Some pd when cfree && has_events && has_merge && nflag_unset_hit nh a0 pd plan ->
             known_shape := true; count "pathdel_merge_mode_deletion_with_flag_unset"
         | _ -> ());
        let planned = List.sort_uniq compare (List.filter_map (function ACommit (cm, _) -> Some (iz cm) | _ -> None) plan) in
        let first_tick0 = (match List.filter_map (function ACommit (cm, _) -> Some cm | _ -> None) plan with
                           | cm :: _ -> tr.t_tick (iz cm) = 0 | [] -> false) in
        let dict = ints (L (args (field "dict" obs))) in
        if List.length planned <> n then (count "commits_dropped_by_planner"; if not scale then self_check id tr ntr ~applied:false ~files ~people ~devs:[])
        else if not first_tick0 then (count "first_planned_commit_not_tick0"; if not scale then self_check id tr ntr ~applied:false ~files ~people ~devs:[])
        else if not hasline then (count "no_line"; if not scale then self_check id tr ntr ~applied:false ~files ~people ~devs:[])
        else begin
          count "oracle_applied";
          if not scale then self_check id tr ntr ~applied:true ~files ~people ~devs:dict;
          let global = matrix_of_sx (args (field "global" obs)) in
          (* (a) every cell of the project matrix *)
          let want = tr.t_project () in
          if List.length want >= 100 then count "matrices_of_100_rows_or_more";
          (match diff_matrix "project matrix" global want with
           | Some m -> propfail id m
           | None -> ());
          (* (b) no negative cell *)
          if List.exists (List.exists (fun v -> v < 0)) global then propfail id "negative cell in the project matrix";
          (* (c) last row = lines at HEAD *)
          if single && global <> [] then begin
            let lastrow = List.nth global (List.length global - 1) in
            let sum = List.fold_left (+) 0 lastrow in
            if sum <> tr.t_lines_at_head () then
              propfail id (Printf.sprintf "last row sums to %d, HEAD has %d lines" sum (tr.t_lines_at_head ()))
          end;
          (* (d) per-file matrices and ownership *)
          if files then begin
            count "files_checked";
            let fh = List.map (fun e -> match e with L (A p :: rows) -> (p, matrix_of_sx rows) | _ -> failwith "fhist") (args (field "fhist" obs)) in
            let wantpaths = List.filter_map judged_name tr.t_paths_with_lines in
            List.iter (fun pi -> if not (plain pi) && judged_name pi <> None then count "renamed_or_name_reusing_files_judged") tr.t_paths_with_lines;
            List.iter (fun (p, _) -> if not (List.mem p wantpaths) && (pdo = None || not (List.mem p names)) then
                                       propfail id ("file matrix for a path without lines: " ^ p)) fh;
            List.iter (fun p ->
              match List.assoc_opt p fh with
              | None -> propfail id (ftag p ^ "no file matrix for path " ^ p)
              | Some m ->
                  let w = tr.t_file (pi_of_name p) in
                  (match diff_matrix ("file matrix " ^ p) m w with Some t -> propfail id (ftag p ^ t) | None -> ());
                  if List.exists (List.exists (fun v -> v < 0)) m then propfail id (ftag p ^ "negative cell in the file matrix " ^ p)) wantpaths;
            if single then begin
              let ow = List.map (fun e -> match e with
                  | L (A p :: cells) -> (p, List.sort compare (List.map (fun cl -> match ints cl with [d; k] -> (d, k) | _ -> failwith "owner") cells))
                  | _ -> failwith "owner") (args (field "owner" obs)) in
              List.iter (fun p ->
                let truth_ow = tr.t_ownership (pi_of_name p) in
                let want =
                  if people then
                    (* developer d of the history has people index i where dict[i] = d *)
                    List.sort compare (List.map (fun (d, k) -> (index_of d dict, k)) truth_ow)
                  else begin
                    let tot = List.fold_left (fun a (_, k) -> a + k) 0 truth_ow in
                    if tot > 0 then [(-1, tot)] else []
                  end in
                match List.assoc_opt p ow with
                | None -> propfail id (ftag p ^ "no ownership entry for path " ^ p)
                | Some got ->
                    if got <> want then
                      propfail id (Printf.sprintf "%sownership of %s: got %s, ground truth %s" (ftag p) p
                        (String.concat "," (List.map (fun (a, b) -> Printf.sprintf "%d:%d" a b) got))
                        (String.concat "," (List.map (fun (a, b) -> Printf.sprintf "%d:%d" a b) want)))) wantpaths
            end
          end;
          (* (e) per-developer matrices *)
          if people then begin
            count "people_checked";
            let ph = List.map (fun e -> match e with L (i :: rows) -> (int_of_sx i, matrix_of_sx rows) | _ -> failwith "phist") (args (field "phist" obs)) in
            List.iteri (fun i d ->
              match List.assoc_opt i ph with
              | None -> propfail id (Printf.sprintf "no matrix for developer index %d" i)
              | Some m ->
                  let w = tr.t_dev d in
                  (match diff_matrix (Printf.sprintf "developer matrix %d (dev%d)" i d) m w with Some t -> propfail id t | None -> ());
                  if List.exists (List.exists (fun v -> v < 0)) m then propfail id (Printf.sprintf "negative cell in developer matrix %d" i)) dict
          end;
          (* ---------- fine correspondence with the abstract analysis ---------- *)
          (match hopt with
          | None -> count "model_not_stepped_large_case"
          | Some _ when not model -> count "model_not_stepped_large_case"
          | Some _ when has_renames -> count "model_not_stepped_rename_not_modelled"
          | Some h ->
          let gz = zi g and sz = zi s in
          if not (plan_okb h plan) then mismatch id "the run plan is rejected by plan_okb (a commit is not replayed on exactly its ancestry)"
          else begin
            count "plan_ok";
            (* hypotheses of C01_global_sparse / C01_matrix hold for this case *)
            if List.for_all (fun t -> iz t < 16383) h.h_ticks then count "covered_by_C01_global_sparse";
            if merge_freeb plan then count "plans_without_merge";
            if single && not (master_all h plan) then mismatch id "single head but the master branch does not hold every commit";
            let npeople = if people then List.length dict else 0 in
            let cf = { c_people = zi npeople; c_files = files } in
            let aidx = List.map (fun d -> zi (if people then index_of (iz d) dict else 0)) h.h_authors in
            let model_run = match pdo with
              | None -> run_hist cf h aidx plan
              | Some pd ->
                  (* the Gallina history with path deletions; its domain predicate must agree with the native one *)
                  let gpd = { pd_h = h;
                              pd_names = Array.to_list (Array.mapi (fun i n -> (zi i, zi (index_of n names))) pd.pd_name0);
                              pd_dels = List.map (fun (d, i, _) -> (zi i, zi d)) pd.pd_events } in
                  if not (conflict_free_pd gpd) then
                    failwith (Printf.sprintf "case %d: conflict_free_pd (extracted) rejects a history the native npd_ok accepts" id);
                  count "pathdel_model_stepped";
                  run_hist_pd cf gpd aidx plan in
            match model_run with
            | Panic cls | Err cls -> mismatch id ("model run fails: " ^ pclass_name cls)
            | Ok w ->
                count "model_run";
                let sp = field "sparse" obs in
                let sh = w.w_shared in
                let cmp what got want =
                  if got <> want then mismatch id (Printf.sprintf "sparse %s: impl %s model %s" what (show_sparse got) (show_sparse want)) in
                cmp "global history" (sparse_of_sx (args (field "gh" sp))) (sparse_of_model sh.s_gh);
                if files then
                  List.iter (fun e -> match e with
                    | L (A p :: items) ->
                        let hd = aget sh.s_names (zi (index_of p names)) in
                        (match hd with
                         | None -> mismatch id ("file history of " ^ p ^ " absent from the model")
                         | Some hd -> cmp ("file history " ^ p) (sparse_of_sx items) (sparse_of_model (aget_d [] sh.s_fhs hd)))
                    | _ -> failwith "fh") (args (field "fh" sp));
                if people then begin
                  List.iter (fun e -> match e with
                    | L (i :: items) -> cmp ("people history " ^ atom i) (sparse_of_sx items) (sparse_of_model (aget_d [] sh.s_phs (zi (int_of_sx i))))
                    | _ -> failwith "ph") (args (field "ph" sp));
                  List.iter (fun e -> match e with
                    | L (i :: cells) ->
                        let got = norm_inner (List.map (fun cl -> match ints cl with [a; b] -> (a, b) | _ -> failwith "mx") cells) in
                        let want = norm_inner (List.map (fun (a, b) -> (iz a, iz b)) (aget_d [] sh.s_mx (zi (int_of_sx i)))) in
                        if got <> want then mismatch id ("interaction matrix row " ^ atom i)
                    | _ -> failwith "mx") (args (field "mx" sp))
                end;
                (* dense result of the model's Finalize on its master branch *)
                (match master w with
                 | None -> mismatch id "model: no live branch"
                 | Some (_, lb) ->
                     (match finalize cf gz sz lb.lb_state sh with
                      | Ok fin ->
                          if zmatrix fin.fin_global <> global then mismatch id "model Finalize: project matrix differs";
                          if people then begin
                            let ph = List.map (fun e -> match e with L (_ :: rows) -> matrix_of_sx rows | _ -> failwith "phist") (args (field "phist" obs)) in
                            if List.map zmatrix fin.fin_people <> ph then mismatch id "model Finalize: developer matrices differ"
                          end
                      | Panic cls | Err cls -> mismatch id ("model Finalize fails: " ^ pclass_name cls)));
                (* final files of the root branch (branch 1) when it is still alive *)
                (match aget w.w_branches (zi 1), field_opt "final" obs with
                 | Some lb, Some fin ->
                     count "final_files_compared";
                     let got = List.sort compare (List.map (fun e -> match e with L (A p :: vs) -> (p, List.map int_of_sx vs) | _ -> failwith "final") (args fin)) in
                     let want = List.sort compare (List.map (fun (p, f) -> (List.nth names (iz p), List.map iz f.f_vals)) lb.lb_state.b_files) in
                     if got <> want then mismatch id "final files of the root branch differ from the model"
                 | _ -> ())
          end)
        end
    | t -> failwith ("obs " ^ t)
  end

(* ---------- long linear histories, written as deltas ----------
   (dlinear (step tick when (set name bytes)... (del name)...)...): per step the files that change.  The number of
   text lines of a blob is the extracted count_lines (once per changed blob); the row-sum law of linear_rows_ok is
   evaluated on arrays (native_rows_ok), which every small linear case checks against the extracted function. *)
let native_rows_ok (ticks : int array) (totals : int array) (s : int) (m : int list list) : bool =
  let n = Array.length ticks in
  (* lines_at e: the total after the last step of the leading run of steps with tick <= e (0 when there is none) *)
  let lines_at e = let cur = ref 0 in (try for i = 0 to n - 1 do if ticks.(i) <= e then cur := totals.(i) else raise Exit done with Exit -> ()); !cur in
  let r = List.length m in
  let ok = ref true in
  List.iteri (fun sr row -> if List.fold_left (+) 0 row <> lines_at ((sr + 1) * s - 1) then ok := false) m;
  let last = Array.fold_left max 0 ticks in
  for x = 0 to last / s do
    if not (x < r || lines_at ((x + 1) * s - 1) = lines_at (r * s - 1)) then ok := false
  done; !ok

(* ---------- one linear arbitrary-edit case ---------- *)
let linear_case id (c : sx) =
  let s = int_of_sx (List.hd (args (field "s" c))) in
  let steps = List.map (fun st -> match st with
      | L (_ :: t :: fs) -> (zi (int_of_sx t), List.map (fun f -> match f with L [_; bytes] -> List.map zi (ints bytes) | _ -> failwith "file") fs)
      | _ -> failwith "step") (args (field "rlinear" c)) in
  let obs = List.hd (args (field "obs" c)) in
  count "linear";
  match tag obs with
  | "panic" | "error" ->
      let cls = atom (List.hd (args obs)) in
      if (not (has_text steps)) && cls = "empty-history" then
        propfail id "pipeline panics 'empty history': no text line in any analysed commit"
      else propfail id (Printf.sprintf "pipeline %s (%s) on a linear history" (tag obs) cls)
  | "ok" ->
      let global = matrix_of_sx (args (field "global" obs)) in
      let gm = List.map (List.map zi) global in
      if not (nonneg_matrix gm) then propfail id "negative cell on a linear history";
      let ok = linear_rows_ok steps (zi s) gm in
      (* self-check of the array form used for the long linear histories *)
      let nticks = Array.of_list (List.map (fun (t, _) -> iz t) steps) in
      let ntotals = Array.of_list (List.map (fun (_, fs) -> iz (step_lines fs)) steps) in
      if native_rows_ok nticks ntotals s global <> ok then
        failwith (Printf.sprintf "case %d: self-check of the native row-sum law failed" id);
      if not ok then
        propfail id ("row sums differ from the number of text lines alive at the sample: " ^ show_matrix global);
      count "linear_checked"
  | t -> failwith ("obs " ^ t)

let dlinear_case id (c : sx) =
  let s = int_of_sx (List.hd (args (field "s" c))) in
  let steps = args (field "dlinear" c) in
  let n = List.length steps in
  let ticks = Array.make n 0 and totals = Array.make n 0 in
  let cur : (string, int) Hashtbl.t = Hashtbl.create 16 in
  let flips = ref 0 in
  List.iteri (fun i st -> match st with
    | L (_ :: t :: _ :: changes) ->
        ticks.(i) <- int_of_sx t;
        List.iter (fun ch -> match ch with
          | L [A "set"; A name; bytes] ->
              let data = List.map zi (ints bytes) in
              let k = iz (count_lines data) in
              if (match Hashtbl.find_opt cur name with Some old -> old > 0 && k = 0 && data <> [] | None -> false) then incr flips;
              Hashtbl.replace cur name k
          | L [A "del"; A name] -> Hashtbl.remove cur name
          | _ -> failwith "dlinear change") changes;
        totals.(i) <- Hashtbl.fold (fun _ k acc -> acc + k) cur 0
    | _ -> failwith "dlinear step") steps;
  let obs = List.hd (args (field "obs" c)) in
  count "linear"; count "linear_delta_form";
  if !flips > 0 then count "linear_with_text_to_binary_flip";
  if n >= 1000 then count "linear_1000_steps_or_more";
  let has_text = Array.exists (fun k -> k > 0) totals in
  match tag obs with
  | "panic" | "error" ->
      let cls = atom (List.hd (args obs)) in
      if (not has_text) && cls = "empty-history" then
        propfail id "pipeline panics 'empty history': no text line in any analysed commit"
      else propfail id (Printf.sprintf "pipeline %s (%s) on a linear history" (tag obs) cls)
  | "ok" ->
      let global = matrix_of_sx (args (field "global" obs)) in
      if List.exists (List.exists (fun v -> v < 0)) global then propfail id "negative cell on a linear history";
      if List.length global >= 100 then count "matrices_of_100_rows_or_more";
      if not (native_rows_ok ticks totals s global) then
        propfail id (Printf.sprintf "row sums differ from the number of text lines alive at the sample (%d rows)" (List.length global));
      count "linear_checked"
  | t -> failwith ("obs " ^ t)

let () =
  iter_cases (fun id c ->
    match field_opt "rhist" c, field_opt "dlinear" c with
    | Some _, _ -> hist_case id c
    | None, Some _ -> dlinear_case id c
    | None, None -> linear_case id c)
