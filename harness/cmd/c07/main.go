// Harness for C07: drives the real burndown.File.Merge (file level) and the real
// leaves.BurndownAnalysis.Fork/Merge (analysis level) with generated scenarios and records what they do.
//
// File-level case:      (case n (kind K) (nt b) (base len t0 (t p i d)...) (day d) (mode m)
//
//	                          (copies (c (t p i d)...) | (nil) ...) (obs ...))
//	base = NewFile(t0, len) + Updates; copy j = clone of base (mode) + its own Updates; (nil) = a nil *File;
//	then copies[0].Merge(day, copies[1:]...).
//
// Analysis-level case:  (case n (kind K) (nt b) (people P) (track b) (setup ops...) (probe b path)
//
//	                          (copies (b ops...) ...) (obs ...))
//	base analysis + setup ops; Fork(len(copies)); ops per branch; branches[0].Merge(branches[1:]).
package main

import (
	"fmt"
	"io"
	"log"
	"sort"
	"strings"
	"time"

	"gopkg.in/src-d/hercules.v10/leaves"
	"gopkg.in/src-d/hercules.v10/verifapi"
	. "verifharness/lib"
)

const mark = verifapi.TreeMergeMark
const treeEnd = 4294967295
const authorMissing = (1 << 18) - 2

// ---------------------------------------------------------------- file level

type uop struct{ t, p, i, d int }

func (o uop) sx() Sx { return L(I(o.t), I(o.p), I(o.i), I(o.d)) }

func parseUop(s Sx) uop {
	return uop{s.List[0].Int(), s.List[1].Int(), s.List[2].Int(), s.List[3].Int()}
}

type fcase struct {
	kind    string
	n, t0   int
	baseOps []uop
	day     int
	mode    int
	copies  []*[]uop // nil = a nil *File
	nt      bool     // set by runFile: at least two copies and at least one line
}

func (fc *fcase) fields() []Sx {
	b := []Sx{I(fc.n), I(fc.t0)}
	for _, o := range fc.baseOps {
		b = append(b, o.sx())
	}
	cs := make([]Sx, len(fc.copies))
	for j, c := range fc.copies {
		if c == nil {
			cs[j] = T("nil")
			continue
		}
		xs := make([]Sx, len(*c))
		for k, o := range *c {
			xs[k] = o.sx()
		}
		cs[j] = T("c", xs...)
	}
	return []Sx{T("kind", A(fc.kind)), T("nt", B(fc.nt)), T("base", b...), T("day", I(fc.day)), T("mode", I(fc.mode)), T("copies", cs...)}
}

func parseFcase(s Sx) *fcase {
	fc := &fcase{}
	k, _ := s.Field("kind")
	fc.kind = k.Args()[0].Atom
	b, _ := s.Field("base")
	fc.n, fc.t0 = b.Args()[0].Int(), b.Args()[1].Int()
	for _, o := range b.Args()[2:] {
		fc.baseOps = append(fc.baseOps, parseUop(o))
	}
	d, _ := s.Field("day")
	fc.day = d.Args()[0].Int()
	m, _ := s.Field("mode")
	fc.mode = m.Args()[0].Int()
	cs, _ := s.Field("copies")
	for _, c := range cs.Args() {
		if c.Tag() == "nil" {
			fc.copies = append(fc.copies, nil)
			continue
		}
		ops := []uop{}
		for _, o := range c.Args() {
			ops = append(ops, parseUop(o))
		}
		fc.copies = append(fc.copies, &ops)
	}
	return fc
}

func nodesOf(f *verifapi.File) Sx {
	var xs []Sx
	f.ForEach(func(line, value int) {
		if value == -1 {
			value = treeEnd
		}
		xs = append(xs, L(I(line), I(value)))
	})
	return T("nodes", xs...)
}

func flatOf(f *verifapi.File) Sx {
	return T("flat", Ints(f.VerifFlatten()).List...)
}

// files longer than this are observed in compact form: run-length encoded lines, aggregated callback log
const compactAbove = 300

// rleOf is the run-length encoding of the real flatten() output: (rle (value count) ...)
func rleOf(lines []int) Sx {
	var xs []Sx
	for i := 0; i < len(lines); {
		e := i
		for e < len(lines) && lines[e] == lines[i] {
			e++
		}
		xs = append(xs, L(I(lines[i]), I(e-i)))
		i = e
	}
	return T("rle", xs...)
}

func sameInts(a, b []int) bool {
	if len(a) != len(b) {
		return false
	}
	for i := range a {
		if a[i] != b[i] {
			return false
		}
	}
	return true
}

func panicClass(msg string) string {
	switch {
	case strings.Contains(msg, "nil file"):
		return "nil"
	case strings.Contains(msg, "lines number mismatch"):
		return "length"
	case strings.Contains(msg, "previousTime cannot be TreeMergeMark"):
		return "prevmark"
	}
	return "other"
}

func runFile(fc *fcase) []Sx {
	var log []Sx
	big := false
	logsum := map[[4]int]int{}
	upd := func(k int) verifapi.Updater {
		return func(cur, prev, delta int) {
			if big {
				logsum[[4]int{k, cur, prev, delta}]++
				return
			}
			log = append(log, L(I(k), I(cur), I(prev), I(delta)))
		}
	}
	var files []*verifapi.File
	if len(fc.copies) == 0 || fc.copies[0] == nil {
		return []Sx{T("setup-panic", A("no-self"))}
	}
	msg, p := Catch(func() {
		alloc := verifapi.NewAllocator()
		base := verifapi.NewFile(fc.t0, fc.n, alloc, upd(0), upd(1))
		for _, o := range fc.baseOps {
			base.Update(o.t, o.p, o.i, o.d)
		}
		// all clones first, then the edits (the base itself may be copy 0)
		for j, c := range fc.copies {
			if c == nil {
				files = append(files, nil)
				continue
			}
			var f *verifapi.File
			switch fc.mode {
			case 0:
				f = base.CloneDeep(verifapi.NewAllocator())
			case 1:
				f = base.CloneShallow(alloc.Clone())
			case 2:
				f = base.CloneDeep(alloc)
			default:
				if j == 0 {
					f = base
				} else {
					f = base.CloneDeep(alloc)
				}
			}
			files = append(files, f)
		}
		for j, c := range fc.copies {
			if c != nil {
				for _, o := range *c {
					files[j].Update(o.t, o.p, o.i, o.d)
				}
			}
		}
	})
	if p {
		return []Sx{T("setup-panic", A(panicClass(msg)))}
	}
	big = files[0].Len() > compactAbove
	pre := make([]Sx, len(files))
	preFlat := make([][]int, len(files))
	for j, f := range files {
		if f == nil {
			pre[j] = T("nil")
		} else if big {
			preFlat[j] = f.VerifFlatten()
			pre[j] = T("copy", nodesOf(f), rleOf(preFlat[j]))
		} else {
			pre[j] = T("copy", nodesOf(f), flatOf(f))
		}
	}
	fc.nt = len(files) >= 2 && files[0].Len() >= 1
	log = nil
	msg, p = Catch(func() { files[0].Merge(fc.day, files[1:]...) })
	res := T("ok")
	if p {
		res = T("panic", A(panicClass(msg)))
	}
	obs := []Sx{T("pre", pre...), T("res", res)}
	if big {
		obs = append([]Sx{T("big", I(1))}, obs...)
	}
	// the state afterwards (also after a panic: a refused merge must leave the file alone)
	var post []Sx
	msg, p = Catch(func() {
		if big {
			post = append(post, T("self", nodesOf(files[0]), rleOf(files[0].VerifFlatten()), T("len", I(files[0].Len())), T("count", I(files[0].Nodes()))))
			same := true
			for j, f := range files[1:] {
				if f != nil && !sameInts(f.VerifFlatten(), preFlat[j+1]) {
					same = false
				}
			}
			post = append(post, T("others-same", B(same)))
			return
		}
		post = append(post, T("self", nodesOf(files[0]), flatOf(files[0]), T("len", I(files[0].Len())), T("count", I(files[0].Nodes()))))
		others := []Sx{}
		for _, f := range files[1:] {
			if f == nil {
				others = append(others, T("nil"))
			} else {
				others = append(others, flatOf(f))
			}
		}
		post = append(post, T("others", others...))
	})
	if p {
		post = []Sx{T("observe-panic")}
	}
	if big {
		// the callback log as a multiset: (k current previous delta count), sorted
		keys := make([][4]int, 0, len(logsum))
		for k := range logsum {
			keys = append(keys, k)
		}
		sort.Slice(keys, func(i, j int) bool {
			for x := 0; x < 4; x++ {
				if keys[i][x] != keys[j][x] {
					return keys[i][x] < keys[j][x]
				}
			}
			return false
		})
		var xs []Sx
		for _, k := range keys {
			xs = append(xs, L(I(k[0]), I(k[1]), I(k[2]), I(k[3]), I(logsum[k])))
		}
		return append(obs, T("post", post...), T("logsum", xs...))
	}
	obs = append(obs, T("post", post...), T("log", log...))
	return obs
}

// watchdog: a case normally takes microseconds; code that loops forever (e.g. a tree read through the wrong
// allocator) must not stall the check.  The stuck goroutine cannot be stopped, so after a few hangs the
// remaining generated cases are skipped.
var hangs int

func guarded(run func() []Sx) []Sx {
	ch := make(chan []Sx, 1)
	go func() { ch <- run() }()
	select {
	case obs := <-ch:
		return obs
	case <-time.After(20 * time.Second):
		hangs++
		return []Sx{T("hang")}
	}
}

func emitFile(c *Config, fc *fcase) {
	if hangs >= 3 {
		return
	}
	obs := guarded(func() []Sx { return runFile(fc) })
	c.Emit(append(fc.fields(), T("obs", obs...))...)
}

// value generators
var tickSet = []int{1, 2, 3, 5, 8, 100, 16382}
var authorSet = []int{0, 1, 2, authorMissing}

func biasedLen(c *Config, max int) int {
	switch c.Rng.Intn(6) {
	case 0:
		return c.Rng.Intn(3)
	case 1, 2:
		return c.Rng.Intn(8)
	default:
		return c.Rng.Intn(max + 1)
	}
}

type valgen struct {
	authors bool
	c       *Config
}

func (g valgen) unmarked() int {
	t := tickSet[g.c.Rng.Intn(len(tickSet))]
	if g.c.Rng.Intn(3) == 0 {
		t = 1 + g.c.Rng.Intn(3) // many ties
	}
	if g.authors {
		return authorSet[g.c.Rng.Intn(len(authorSet))]<<14 | t
	}
	return t
}

func (g valgen) marked() int {
	if g.authors {
		return authorSet[g.c.Rng.Intn(len(authorSet))]<<14 | mark
	}
	return mark
}

func (g valgen) day() int {
	r := g.c.Rng.Intn(100)
	switch {
	case r < 3:
		return g.marked()
	case r < 5:
		return []int{-1, -5, 1 << 32, 1<<32 + 6, 1<<33 + 16383, -16384, 4294967295, 4294967294}[g.c.Rng.Intn(8)]
	}
	t := []int{4, 9, 200, 16382, 1}[g.c.Rng.Intn(5)]
	if g.authors {
		return authorSet[g.c.Rng.Intn(len(authorSet))]<<14 | t
	}
	return t
}

// a random valid Update on a file of length *n
func randOp(c *Config, n *int, val int) uop {
	pos := c.Rng.Intn(*n + 1)
	if c.Rng.Intn(3) == 0 && *n > 0 {
		pos = c.Rng.Intn(minInt(*n, 3) + 1)
	}
	ins, del := 0, 0
	switch c.Rng.Intn(3) {
	case 0:
		ins = 1 + c.Rng.Intn(4)
	case 1:
		del = c.Rng.Intn(*n - pos + 1)
		if del > 6 {
			del = 1 + c.Rng.Intn(6)
		}
	default:
		ins = 1 + c.Rng.Intn(3)
		del = c.Rng.Intn(minInt(*n-pos, 5) + 1)
	}
	*n += ins - del
	return uop{val, pos, ins, del}
}

func minInt(a, b int) int {
	if a < b {
		return a
	}
	return b
}

// bring a file of length *n to length target
func equalise(c *Config, n *int, target int, val int) []uop {
	if *n < target {
		o := uop{val, c.Rng.Intn(*n + 1), target - *n, 0}
		*n = target
		return []uop{o}
	}
	if *n > target {
		d := *n - target
		o := uop{val, c.Rng.Intn(*n - d + 1), 0, d}
		*n = target
		return []uop{o}
	}
	return nil
}

func randFile(c *Config, kind string) *fcase {
	g := valgen{authors: c.Rng.Intn(10) < 6, c: c}
	fc := &fcase{kind: kind, mode: c.Rng.Intn(4)}
	fc.n = biasedLen(c, 40)
	fc.t0 = g.unmarked()
	n := fc.n
	for k := c.Rng.Intn(5); k > 0; k-- {
		fc.baseOps = append(fc.baseOps, randOp(c, &n, g.unmarked()))
	}
	target := n
	if c.Rng.Intn(2) == 0 {
		target = biasedLen(c, 40)
	}
	fc.day = g.day()
	ncopies := 2 + c.Rng.Intn(4)
	// replacements that the merge commit makes in every copy (all-marked columns)
	type rep struct{ p, k int }
	var shared []rep
	if target > 0 {
		for k := c.Rng.Intn(4); k > 0; k-- {
			p := c.Rng.Intn(target)
			shared = append(shared, rep{p, 1 + c.Rng.Intn(minInt(target-p, 4))})
		}
	}
	allMarked := c.Rng.Intn(25) == 0
	clen := make([]int, ncopies)
	cmv := make([]int, ncopies)
	for j := 0; j < ncopies; j++ {
		clen[j] = target
		ops := []uop{}
		m := n
		for k := c.Rng.Intn(5); k > 0; k-- {
			ops = append(ops, randOp(c, &m, g.unmarked()))
		}
		ops = append(ops, equalise(c, &m, target, g.unmarked())...)
		mv := g.marked()
		cmv[j] = mv
		if allMarked && target > 0 {
			ops = append(ops, uop{mv, 0, target, target})
		}
		for _, r := range shared {
			if c.Rng.Intn(5) > 0 {
				ops = append(ops, uop{mv, r.p, r.k, r.k})
			}
		}
		if target > 0 {
			for k := c.Rng.Intn(3); k > 0; k-- {
				p := c.Rng.Intn(target)
				w := 1 + c.Rng.Intn(minInt(target-p, 3))
				if c.Rng.Intn(4) == 0 {
					// insert here, delete elsewhere
					q := c.Rng.Intn(target + 1)
					ops = append(ops, uop{mv, p, w, 0})
					ops = append(ops, uop{mv, q, 0, w})
				} else {
					ops = append(ops, uop{mv, p, w, w})
				}
			}
		}
		fc.copies = append(fc.copies, &ops)
	}
	switch kind {
	case "unequal", "nil":
		// spoil: one or two copies get another length, or an other copy is missing
		spoil := func() {
			j := c.Rng.Intn(ncopies)
			if fc.copies[j] == nil {
				return
			}
			ops := *fc.copies[j]
			if c.Rng.Intn(2) == 0 || clen[j] == 0 {
				k := 1 + c.Rng.Intn(3)
				ops = append(ops, uop{g.unmarked(), c.Rng.Intn(clen[j] + 1), k, 0})
				clen[j] += k
			} else {
				// a deletion may hit marked lines: it has to be one of the merge commit's own edits
				d := 1 + c.Rng.Intn(minInt(clen[j], 3))
				ops = append(ops, uop{cmv[j], c.Rng.Intn(clen[j] - d + 1), 0, d})
				clen[j] -= d
			}
			fc.copies[j] = &ops
		}
		if kind == "unequal" || c.Rng.Intn(3) == 0 {
			spoil()
			if c.Rng.Intn(4) == 0 {
				spoil()
			}
		}
		if kind == "nil" {
			fc.copies[1+c.Rng.Intn(ncopies-1)] = nil
			if c.Rng.Intn(4) == 0 {
				fc.copies[1+c.Rng.Intn(ncopies-1)] = nil
			}
		}
	}
	return fc
}

// exhaustive small scope: every tuple of per-line arrays over a 5-value alphabet
func exhaustive(c *Config, length, ncopies int, days []int) {
	alpha := []int{1, 2, 1<<14 | 1, mark, 1<<14 | mark}
	const filler = 7
	cells := length * ncopies
	total := 1
	for i := 0; i < cells; i++ {
		total *= len(alpha)
	}
	for code := 0; code < total; code++ {
		x := code
		fc := &fcase{kind: fmt.Sprintf("exh-%dx%d", ncopies, length), n: length, t0: filler, mode: code % 4,
			day: days[code%len(days)]}
		for j := 0; j < ncopies; j++ {
			arr := make([]int, length)
			for i := range arr {
				arr[i] = alpha[x%len(alpha)]
				x /= len(alpha)
			}
			ops := []uop{}
			for i := 0; i < length; {
				e := i
				for e < length && arr[e] == arr[i] {
					e++
				}
				ops = append(ops, uop{arr[i], i, e - i, e - i})
				i = e
			}
			fc.copies = append(fc.copies, &ops)
		}
		emitFile(c, fc)
	}
}

// ---------------------------------------------------------------- scale family (file level)
//
// A few LARGE files (10^3 .. 10^5 lines, thorough 10^6) whose copies differ at chosen places only: the head, the
// tail (last 1..7 lines), around every power of two, around the boundaries and in the remainder of an even split
// into w parts (w = 2..64), in periodic stripes, tails marked in every copy.  Every copy is the base file
// (one common value) with replacement Updates laid down left to right, so the case format is the ordinary one.

type span struct{ pos, n int }

// normalise sorts the spans, clips them to [0,n) and makes them disjoint.
func normalise(n int, sp []span) []span {
	sort.Slice(sp, func(i, j int) bool { return sp[i].pos < sp[j].pos })
	var out []span
	end := 0
	for _, s := range sp {
		if s.pos < end {
			s.n -= end - s.pos
			s.pos = end
		}
		if s.pos+s.n > n {
			s.n = n - s.pos
		}
		if s.pos < 0 || s.n <= 0 {
			continue
		}
		out = append(out, s)
		end = s.pos + s.n
	}
	return out
}

func singles(from, to int) []span {
	var sp []span
	for i := from; i < to; i++ {
		sp = append(sp, span{i, 1})
	}
	return sp
}

var splitWidths = []int{2, 3, 4, 5, 6, 7, 8, 10, 12, 16, 32, 64}

func scaleSpans(c *Config, n int, shape string) []span {
	var sp []span
	switch shape {
	case "head":
		sp = singles(0, 1+c.Rng.Intn(7))
	case "tail":
		sp = singles(n-1-c.Rng.Intn(7), n)
	case "tail-run":
		r := 1 + c.Rng.Intn(7)
		sp = []span{{n - r, r}}
	case "pow2", "pow2-marked":
		for p := 1; p <= n; p *= 2 {
			sp = append(sp, span{p - 1, 1}, span{p, 1})
		}
	case "split", "split-marked":
		// the boundaries of an even split into w parts and the remainder n - w*(n/w)
		for _, w := range splitWidths {
			ch := n / w
			if ch == 0 {
				continue
			}
			for i := 1; i <= w; i++ {
				sp = append(sp, span{i*ch - 1, 1}, span{i * ch, 1})
			}
			sp = append(sp, singles(w*ch, n)...)
		}
	case "period":
		ps := []int{255, 256, 257, 1023, 1024, 1025, 4095, 4096, 4097}
		if n <= 5000 {
			ps = []int{2, 3, 4, 5, 7, 8, 9, 15, 16, 17, 31, 32, 33, 63, 64, 65}
		}
		p := ps[c.Rng.Intn(len(ps))]
		for i := p; i < n; i += 2 * p {
			sp = append(sp, span{i, p})
		}
		sp = append(sp, span{n - 1, 1})
	case "dense":
		sp = singles(0, n)
	default: // "all": everything that is cheap
		sp = append(sp, scaleSpans(c, n, "head")...)
		sp = append(sp, scaleSpans(c, n, "tail")...)
		sp = append(sp, scaleSpans(c, n, "pow2")...)
		sp = append(sp, scaleSpans(c, n, "split")...)
	}
	return normalise(n, sp)
}

// scaleFile builds one large case.  cell decides the value of copy j on a span (common = leave the line alone).
func scaleFile(c *Config, n int, shape string, ncopies int) *fcase {
	g := valgen{authors: c.Rng.Intn(4) > 0, c: c}
	common := 3
	if g.authors {
		common = 1<<14 | 3
	}
	fc := &fcase{kind: fmt.Sprintf("scale-%s", shape), n: n, t0: common, mode: c.Rng.Intn(4), day: g.day()}
	for fc.day&mark == mark || fc.day < 0 || fc.day >= 1<<32-1 {
		fc.day = g.day()
	}
	cmv := make([]int, ncopies)
	for j := range cmv {
		cmv[j] = g.marked()
	}
	spans := scaleSpans(c, n, shape)
	allMarkedTail := 0
	switch shape {
	case "tail-marked":
		// the last r lines carry the mark in every copy, the lines before them differ
		allMarkedTail = 1 + c.Rng.Intn(9)
		spans = normalise(n, append(singles(n-allMarkedTail-3, n-allMarkedTail), span{n - allMarkedTail, allMarkedTail}))
	case "tail-append":
		// one branch appended r lines, the merge commit is replayed in the receiver: marks there
		spans = normalise(n, []span{{n - 1 - c.Rng.Intn(7), 8}})
	case "tail-older":
		spans = normalise(n, []span{{n - 1 - c.Rng.Intn(3), 4}})
	}
	ops := make([][]uop, ncopies)
	for _, s := range spans {
		giver := 1 + c.Rng.Intn(ncopies-1)
		everywhere := strings.HasSuffix(shape, "-marked") && c.Rng.Intn(10) < 7
		for j := 0; j < ncopies; j++ {
			v := common
			switch {
			case everywhere && allMarkedTail == 0:
				v = cmv[j] // the mark in every copy: the line is stamped with the merge tick and reported
			case allMarkedTail > 0 && s.pos >= n-allMarkedTail:
				v = cmv[j]
			case shape == "tail-append":
				v = cmv[j]
				if j == giver || j > 0 && c.Rng.Intn(4) == 0 {
					v = g.unmarked()
				}
			case shape == "tail-older":
				v = g.unmarked()
			default:
				switch r := c.Rng.Intn(20); {
				case r < 7:
				case r < 14:
					v = g.unmarked()
				default:
					v = cmv[j]
				}
			}
			if v != common {
				ops[j] = append(ops[j], uop{v, s.pos, s.n, s.n})
			}
		}
	}
	for j := 0; j < ncopies; j++ {
		o := ops[j]
		fc.copies = append(fc.copies, &o)
	}
	return fc
}

func scaleFamily(c *Config) {
	sizes := []int{255, 256, 257, 1000, 4097, 32767, 32768, 32769, 32775, 40009, 65535, 65536, 65537, 100003}
	shapes := []string{"head", "tail", "tail-run", "tail-append", "tail-older", "tail-marked", "pow2", "pow2-marked", "split", "split-marked", "period", "all"}
	if c.Thorough() {
		sizes = append(sizes, 1023, 1024, 1025, 8191, 8193, 16383, 16384, 16385, 32770, 32771, 32772, 32773, 32774, 32783,
			50001, 131071, 131073, 262147)
	}
	for _, n := range sizes {
		for _, sh := range shapes {
			reps := 1
			if c.Thorough() {
				reps = 3
			}
			for r := 0; r < reps; r++ {
				emitFile(c, scaleFile(c, n, sh, 2+c.Rng.Intn(3)))
			}
		}
	}
	// every line differs: many tree nodes
	dense := []int{301, 1000}
	if c.Thorough() {
		dense = append(dense, 4099, 32768, 32769)
	}
	for _, n := range dense {
		emitFile(c, scaleFile(c, n, "dense", 2+c.Rng.Intn(2)))
	}
	if c.Thorough() {
		for _, sh := range []string{"tail", "tail-append", "tail-marked", "all"} {
			emitFile(c, scaleFile(c, 1000007, sh, 2+c.Rng.Intn(2)))
		}
	}
}

// ---------------------------------------------------------------- analysis level

type aop struct {
	kind string
	a    []int
}

func (o aop) sx() Sx {
	xs := make([]Sx, len(o.a))
	for i, v := range o.a {
		xs[i] = I(v)
	}
	return T(o.kind, xs...)
}

func parseAop(s Sx) aop {
	o := aop{kind: s.Tag()}
	for _, a := range s.Args() {
		o.a = append(o.a, a.Int())
	}
	return o
}

type acase struct {
	kind     string
	nt       bool
	people   int
	track    bool
	setup    []aop
	probeB   int
	probeP   int
	branches [][]aop
}

func (ac *acase) fields() []Sx {
	su := make([]Sx, len(ac.setup))
	for i, o := range ac.setup {
		su[i] = o.sx()
	}
	bs := make([]Sx, len(ac.branches))
	for j, ops := range ac.branches {
		xs := make([]Sx, len(ops))
		for k, o := range ops {
			xs[k] = o.sx()
		}
		bs[j] = T("b", xs...)
	}
	return []Sx{T("kind", A(ac.kind)), T("nt", B(ac.nt)), T("people", I(ac.people)), T("track", B(ac.track)),
		T("setup", su...), T("probe", I(ac.probeB), I(ac.probeP)), T("copies", bs...)}
}

func parseAcase(s Sx) *acase {
	ac := &acase{}
	k, _ := s.Field("kind")
	ac.kind = k.Args()[0].Atom
	if nt, ok := s.Field("nt"); ok {
		ac.nt = nt.Args()[0].Int() != 0
	}
	p, _ := s.Field("people")
	ac.people = p.Args()[0].Int()
	t, _ := s.Field("track")
	ac.track = t.Args()[0].Int() != 0
	su, _ := s.Field("setup")
	for _, o := range su.Args() {
		ac.setup = append(ac.setup, parseAop(o))
	}
	pr, _ := s.Field("probe")
	ac.probeB, ac.probeP = pr.Args()[0].Int(), pr.Args()[1].Int()
	cs, _ := s.Field("copies")
	for _, b := range cs.Args() {
		ops := []aop{}
		for _, o := range b.Args() {
			ops = append(ops, parseAop(o))
		}
		ac.branches = append(ac.branches, ops)
	}
	return ac
}

func pname(p int) string { return fmt.Sprintf("f%03d", p) }

func punname(s string) int {
	var p int
	fmt.Sscanf(s, "f%d", &p)
	return p
}

func applyAna(an *leaves.BurndownAnalysis, o aop) {
	a := o.a
	switch o.kind {
	case "u": // path author tick pos ins del
		an.VerifC07File(pname(a[0])).Update(an.VerifC07Pack(a[1], a[2]), a[3], a[4], a[5])
	case "new": // path author tick len
		an.VerifC07NewFile(pname(a[0]), a[1], a[2], a[3])
	case "drop":
		an.VerifC07DropFile(pname(a[0]))
	case "tick":
		an.VerifC07NewTick(a[0])
	case "begin": // author
		an.VerifC07BeginMerge(a[0])
	case "mu": // path pos ins del     (handleModification while replaying a merge commit)
		tick, author := an.VerifC07State()
		an.VerifC07FlagMerged(pname(a[0]), true)
		an.VerifC07File(pname(a[0])).Update(an.VerifC07Pack(author, tick), a[1], a[2], a[3])
	case "mnew": // path len           (handleInsertion while replaying a merge commit)
		tick, author := an.VerifC07State()
		an.VerifC07NewFile(pname(a[0]), author, tick, a[1])
		an.VerifC07FlagMerged(pname(a[0]), true)
	case "mdrop": // path              (handleDeletion while replaying a merge commit)
		an.VerifC07DropFile(pname(a[0]))
		an.VerifC07FlagMerged(pname(a[0]), false)
	case "flag": // path val
		an.VerifC07FlagMerged(pname(a[0]), a[1] != 0)
	case "end": // tick
		an.VerifC07SetTick(a[0])
	default:
		panic("unknown analysis op " + o.kind)
	}
}

func branchSx(an *leaves.BurndownAnalysis) Sx {
	fl := an.VerifC07Flatten()
	names := make([]string, 0, len(fl))
	for n := range fl {
		names = append(names, n)
	}
	sort.Strings(names)
	fs := make([]Sx, len(names))
	for i, n := range names {
		fs[i] = L(append([]Sx{I(punname(n))}, Ints(fl[n]).List...)...)
	}
	return T("files", fs...)
}

func mergedSx(an *leaves.BurndownAnalysis) Sx {
	mf := an.VerifC07MergedFiles()
	names := make([]string, 0, len(mf))
	for n := range mf {
		names = append(names, n)
	}
	sort.Strings(names)
	xs := make([]Sx, len(names))
	for i, n := range names {
		xs[i] = L(I(punname(n)), B(mf[n]))
	}
	return T("merged", xs...)
}

func histSx(tag string, h [][3]int64) Sx {
	xs := make([]Sx, len(h))
	for i, e := range h {
		xs[i] = L(I64(e[0]), I64(e[1]), I64(e[2]))
	}
	return T(tag, xs...)
}

func runAna(ac *acase) []Sx {
	var base *leaves.BurndownAnalysis
	var brs []*leaves.BurndownAnalysis
	var forked []Sx
	msg, p := Catch(func() {
		base = leaves.VerifC07New(ac.people, ac.track)
		for _, o := range ac.setup {
			applyAna(base, o)
		}
		brs = base.VerifC07Fork(len(ac.branches))
		forked = []Sx{T("base", branchSx(base))}
		for _, b := range brs {
			forked = append(forked, T("b", branchSx(b)))
		}
		for j, ops := range ac.branches {
			for _, o := range ops {
				applyAna(brs[j], o)
			}
		}
	})
	if p || len(brs) == 0 {
		return []Sx{T("setup-panic", A(panicClass(msg)))}
	}
	pre := make([]Sx, len(brs))
	for j, b := range brs {
		tick, author := b.VerifC07State()
		pre[j] = T("b", branchSx(b), mergedSx(b), T("tick", I(tick)), T("author", I(author)))
	}
	obs := []Sx{T("forked", forked...), T("pre", pre...), T("day", I(brs[0].VerifC07MergeTick())), histSx("hist0", brs[0].VerifC07GlobalHistory())}
	msg, p = Catch(func() { brs[0].VerifC07Merge(brs[1:]) })
	if p {
		return append(obs, T("res", T("panic", A(panicClass(msg)))))
	}
	obs = append(obs, T("res", T("ok")))
	post := make([]Sx, len(brs))
	msg, p = Catch(func() {
		for j, b := range brs {
			post[j] = T("b", branchSx(b))
		}
	})
	if p {
		return append(obs, T("post", T("observe-panic")))
	}
	obs = append(obs, T("post", post...), histSx("hist1", brs[0].VerifC07GlobalHistory()))
	// isolation probe: one more line in one branch must not show up in any other
	if ac.probeB >= 0 && ac.probeB < len(brs) {
		var after []Sx
		msg, p = Catch(func() {
			f := brs[ac.probeB].VerifC07File(pname(ac.probeP))
			if f == nil {
				after = []Sx{T("absent")}
				return
			}
			f.Update(77, 0, 1, 0)
			for _, b := range brs {
				g := b.VerifC07File(pname(ac.probeP))
				if g == nil {
					after = append(after, T("nil"))
				} else {
					after = append(after, flatOf(g))
				}
			}
		})
		if p {
			after = []Sx{T("probe-panic")}
		}
		obs = append(obs, T("probed", after...))
	}
	return obs
}

func emitAna(c *Config, ac *acase) {
	if hangs >= 3 {
		return
	}
	obs := guarded(func() []Sx { return runAna(ac) })
	c.Emit(append(ac.fields(), T("obs", obs...))...)
}

func randAna(c *Config, kind string) *acase {
	return randAnaN(c, kind, 1+c.Rng.Intn(4), 2+c.Rng.Intn(3))
}

// randAnaN: npaths files, nb branches (the scale family asks for many of either)
func randAnaN(c *Config, kind string, npaths, nb int) *acase {
	ac := &acase{kind: kind, track: c.Rng.Intn(2) == 0}
	if c.Rng.Intn(2) == 0 {
		ac.people = 3
	}
	author := func() int {
		if ac.people == 0 {
			return authorMissing
		}
		if c.Rng.Intn(6) == 0 {
			return authorMissing
		}
		return c.Rng.Intn(ac.people)
	}
	tickNow := 1 + c.Rng.Intn(3)
	baseLen := make([]int, npaths) // -1 = absent
	ac.setup = append(ac.setup, aop{"tick", []int{tickNow}})
	for p := 0; p < npaths; p++ {
		baseLen[p] = -1
		if c.Rng.Intn(5) > 0 {
			baseLen[p] = biasedLen(c, 12)
			ac.setup = append(ac.setup, aop{"new", []int{p, author(), tickNow, baseLen[p]}})
		}
	}
	randU := func(ops *[]aop, p int, n *int, tick int) {
		o := randOp(c, n, 0)
		*ops = append(*ops, aop{"u", []int{p, author(), tick, o.p, o.i, o.d}})
	}
	for k := c.Rng.Intn(4) + npaths/4; k > 0; k-- {
		p := c.Rng.Intn(npaths)
		if baseLen[p] >= 0 {
			if c.Rng.Intn(2) == 0 {
				tickNow++
				ac.setup = append(ac.setup, aop{"tick", []int{tickNow}})
			}
			randU(&ac.setup, p, &baseLen[p], tickNow)
		}
	}
	lens := make([][]int, nb)
	ac.branches = make([][]aop, nb)
	for j := 0; j < nb; j++ {
		lens[j] = append([]int{}, baseLen...)
		t := tickNow
		for k := c.Rng.Intn(4) + npaths/4; k > 0; k-- {
			p := c.Rng.Intn(npaths)
			if c.Rng.Intn(2) == 0 {
				t += 1 + c.Rng.Intn(2) // equal ticks across branches are frequent
				ac.branches[j] = append(ac.branches[j], aop{"tick", []int{t}})
			}
			switch {
			case lens[j][p] >= 0 && c.Rng.Intn(8) == 0:
				ac.branches[j] = append(ac.branches[j], aop{"drop", []int{p}})
				lens[j][p] = -1
			case lens[j][p] >= 0:
				randU(&ac.branches[j], p, &lens[j][p], t)
			case c.Rng.Intn(2) == 0:
				lens[j][p] = biasedLen(c, 12)
				ac.branches[j] = append(ac.branches[j], aop{"new", []int{p, author(), t, lens[j][p]}})
			}
		}
	}
	// the merge commit, replayed on every branch
	mergeAuthor := author()
	mergeTick := tickNow + 10 + c.Rng.Intn(5)
	switch c.Rng.Intn(80) {
	case 0, 1:
		mergeTick = mark
	case 2:
		// around the 14 tick bits: packPersonWithTick masks the tick when people are tracked
		mergeTick = []int{16382, 16384, 16385, 32767, 32768, 1 << 20}[c.Rng.Intn(6)]
	}
	for j := 0; j < nb; j++ {
		a := mergeAuthor
		if c.Rng.Intn(12) == 0 {
			a = author()
		}
		ac.branches[j] = append(ac.branches[j], aop{"begin", []int{a}})
	}
	touched := false
	for p := 0; p < npaths; p++ {
		switch r := c.Rng.Intn(10); {
		case r < 6: // modified by the merge commit: the same final length everywhere
			target := biasedLen(c, 12)
			var shared [][2]int
			if target > 0 {
				for k := c.Rng.Intn(3); k > 0; k-- {
					q := c.Rng.Intn(target)
					shared = append(shared, [2]int{q, 1 + c.Rng.Intn(minInt(target-q, 3))})
				}
			}
			holders := 0
			for j := 0; j < nb; j++ {
				if lens[j][p] < 0 {
					if c.Rng.Intn(2) == 0 {
						ac.branches[j] = append(ac.branches[j], aop{"mnew", []int{p, target}})
						lens[j][p] = target
						holders++
					}
					continue
				}
				holders++
				for _, o := range equalise(c, &lens[j][p], target, 0) {
					ac.branches[j] = append(ac.branches[j], aop{"mu", []int{p, o.p, o.i, o.d}})
				}
				for _, s := range shared {
					if c.Rng.Intn(5) > 0 {
						ac.branches[j] = append(ac.branches[j], aop{"mu", []int{p, s[0], s[1], s[1]}})
					}
				}
				if c.Rng.Intn(3) > 0 || len(shared) == 0 {
					// at least a flag (mu with no change is a no-op Update but still flags the file)
					if target > 0 && c.Rng.Intn(2) == 0 {
						q := c.Rng.Intn(target)
						ac.branches[j] = append(ac.branches[j], aop{"mu", []int{p, q, 1, 1}})
					} else {
						ac.branches[j] = append(ac.branches[j], aop{"flag", []int{p, 1}})
					}
				}
			}
			if holders >= 2 && target > 0 {
				touched = true
			}
		case r < 8: // deleted by the merge commit (sometimes with a contradicting flag)
			for j := 0; j < nb; j++ {
				if lens[j][p] >= 0 && c.Rng.Intn(6) > 0 {
					ac.branches[j] = append(ac.branches[j], aop{"mdrop", []int{p}})
					lens[j][p] = -1
				} else if c.Rng.Intn(4) == 0 {
					ac.branches[j] = append(ac.branches[j], aop{"flag", []int{p, c.Rng.Intn(2)}})
				}
			}
			// a false flag wins only if nobody says true; make the survivors agree in length for that case
			target := -1
			for j := 0; j < nb; j++ {
				if lens[j][p] >= 0 {
					if target < 0 {
						target = lens[j][p]
					}
					for _, o := range equalise(c, &lens[j][p], target, 0) {
						ac.branches[j] = append(ac.branches[j], aop{"mu", []int{p, o.p, o.i, o.d}})
					}
				}
			}
		default: // untouched by the merge commit
		}
	}
	if kind == "ana-bad" {
		// one holder of a flagged file ends up with another length
		for tries := 0; tries < 20; tries++ {
			j, p := c.Rng.Intn(nb), c.Rng.Intn(npaths)
			if lens[j][p] >= 0 {
				ac.branches[j] = append(ac.branches[j], aop{"mu", []int{p, c.Rng.Intn(lens[j][p] + 1), 1 + c.Rng.Intn(2), 0}})
				break
			}
		}
	}
	for j := 0; j < nb; j++ {
		t := mergeTick
		if c.Rng.Intn(12) == 0 {
			t = mergeTick + 1
		}
		ac.branches[j] = append(ac.branches[j], aop{"end", []int{t}})
	}
	ac.nt = touched
	ac.probeB, ac.probeP = -1, 0
	if c.Rng.Intn(2) == 0 && ac.people != 0 || c.Rng.Intn(2) == 0 {
		ac.probeB, ac.probeP = c.Rng.Intn(nb), c.Rng.Intn(npaths)
	}
	return ac
}

// anaBig: one tracked file of n lines; a branch appends / rewrites its last r lines in a regular commit, the
// merge commit is replayed in the other branches (marks at the very end of a long file), any branch may be the
// receiver of Merge.
func anaBig(c *Config, n int) *acase {
	ac := &acase{kind: "ana-big", nt: true, track: c.Rng.Intn(2) == 0, probeB: -1}
	if c.Rng.Intn(3) > 0 {
		ac.people = 3
	}
	author := func() int {
		if ac.people == 0 {
			return authorMissing
		}
		return c.Rng.Intn(ac.people)
	}
	ac.setup = []aop{{"tick", []int{1}}, {"new", []int{0, author(), 1, n}}}
	nb := 2 + c.Rng.Intn(2)
	giver := c.Rng.Intn(nb)
	r := 1 + c.Rng.Intn(7)
	del := 0
	if c.Rng.Intn(2) == 0 {
		del = r
	}
	ma := author()
	for j := 0; j < nb; j++ {
		var ops []aop
		if j == giver {
			// the giver's tree already equals the merge commit: nothing is flagged there
			ops = append(ops, aop{"tick", []int{3}}, aop{"u", []int{0, author(), 3, n - del, r, del}}, aop{"begin", []int{ma}})
		} else {
			if c.Rng.Intn(2) == 0 {
				ops = append(ops, aop{"tick", []int{2}}, aop{"u", []int{0, author(), 2, c.Rng.Intn(5), 1, 1}})
			}
			ops = append(ops, aop{"begin", []int{ma}}, aop{"mu", []int{0, n - del, r, del}})
		}
		ops = append(ops, aop{"end", []int{9}})
		ac.branches = append(ac.branches, ops)
	}
	return ac
}

func scaleAna(c *Config) {
	// many files
	for _, np := range []int{64, 257} {
		emitAna(c, randAnaN(c, "ana-scale", np, 2+c.Rng.Intn(2)))
	}
	// many branches
	for _, nb := range []int{8, 9, 17, 33} {
		emitAna(c, randAnaN(c, "ana-scale", 1+c.Rng.Intn(3), nb))
	}
	sizes := []int{32771}
	if c.Thorough() {
		sizes = []int{32767, 32768, 32769, 32775, 40009, 65537}
		for _, np := range []int{1000} {
			emitAna(c, randAnaN(c, "ana-scale", np, 2))
		}
		for _, nb := range []int{64, 65, 129} {
			emitAna(c, randAnaN(c, "ana-scale", 2, nb))
		}
	}
	for _, n := range sizes {
		emitAna(c, anaBig(c, n))
		emitAna(c, anaBig(c, n))
	}
}

// exhaustive small scope at the analysis level: one path, nb branches, every combination of
// (file absent | present) x (not flagged | flagged true | flagged true with a marked line | flagged false)
func exhaustiveAna(c *Config, nb int) {
	const opts = 8
	total := 1
	for j := 0; j < nb; j++ {
		total *= opts
	}
	for code := 0; code < total; code++ {
		x := code
		ac := &acase{kind: fmt.Sprintf("ana-exh-%d", nb), people: 3 * (code % 2), track: code%3 == 0, probeB: code % nb, probeP: 0}
		held, flagged := 0, false
		ac.setup = []aop{{"tick", []int{1}}}
		for j := 0; j < nb; j++ {
			o := x % opts
			x /= opts
			present, flag := o%2 == 1, o/2
			if present || flag == 2 {
				held++
			}
			if flag == 1 || flag == 2 {
				flagged = true
			}
			ops := []aop{}
			if present {
				ops = append(ops, aop{"tick", []int{2 + j%2}}, aop{"new", []int{0, j % 3, 2 + j%2, 2}})
			}
			ops = append(ops, aop{"begin", []int{1}})
			switch flag {
			case 1:
				ops = append(ops, aop{"flag", []int{0, 1}})
			case 2:
				if present {
					ops = append(ops, aop{"mu", []int{0, 1, 1, 1}})
				} else {
					ops = append(ops, aop{"mnew", []int{0, 2}})
				}
			case 3:
				ops = append(ops, aop{"flag", []int{0, 0}})
			}
			ops = append(ops, aop{"end", []int{9}})
			ac.branches = append(ac.branches, ops)
		}
		ac.nt = held >= 2 && flagged
		emitAna(c, ac)
	}
}

// ---------------------------------------------------------------- main

func main() {
	log.SetOutput(io.Discard) // log.Panic prints before it panics
	c := Setup()
	defer c.Close()
	if c.Replay != "" {
		for _, s := range c.ReplayCases() {
			if _, isPipe := s.Field("commits"); isPipe {
				continue // a case of the pipeline-level stream (harness c07p)
			}
			if _, isAna := s.Field("people"); isAna {
				emitAna(c, parseAcase(s))
			} else {
				emitFile(c, parseFcase(s))
			}
		}
		return
	}
	days := []int{3, 2<<14 | 3, 1<<14 | 1}
	// exhaustive small scopes
	exhaustive(c, 1, 2, days)
	exhaustive(c, 1, 3, days)
	exhaustive(c, 1, 4, days)
	exhaustive(c, 2, 2, days)
	exhaustive(c, 2, 3, days)
	if c.Thorough() {
		exhaustive(c, 1, 5, days)
		exhaustive(c, 3, 2, days)
	}
	scaleFamily(c)
	scaleAna(c)
	exhaustiveAna(c, 2)
	exhaustiveAna(c, 3)
	if c.Thorough() {
		exhaustiveAna(c, 4)
	}
	for i := c.Count(12000, 300000); i > 0; i-- {
		emitFile(c, randFile(c, "rand"))
	}
	for i := c.Count(1000, 20000); i > 0; i-- {
		emitFile(c, randFile(c, "unequal"))
	}
	for i := c.Count(1000, 20000); i > 0; i-- {
		emitFile(c, randFile(c, "nil"))
	}
	for i := c.Count(8000, 200000); i > 0; i-- {
		emitAna(c, randAna(c, "ana"))
	}
	for i := c.Count(800, 20000); i > 0; i-- {
		emitAna(c, randAna(c, "ana-bad"))
	}
}
