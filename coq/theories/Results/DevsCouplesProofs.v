(* C17 - round trips of DevsResult and CouplesResult through their message images. *)
From Coq Require Import List ZArith Bool Lia Permutation.
From Herc Require Import Results.PB Results.MapProofs Results.SparseProofs.
Import ListNotations.
Open Scope Z_scope.

(* ---------------------------------------------------------------- through the wire *)
Lemma wire_roundtrip {M B R : Type} (marshal : M -> B) (unmarshal : B -> option M)
  (Hwire : forall m, unmarshal (marshal m) = Some m) (encode : R -> res M) (decode : M -> res R) :
  forall r, bind (serialize_with marshal encode r) (deserialize_with unmarshal decode) = bind (encode r) decode.
Proof.
  intros r. unfold serialize_with, deserialize_with. destruct (encode r) as [m| |]; cbn [bind]; try reflexivity.
  rewrite Hwire. reflexivity.
Qed.

(* ---------------------------------------------------------------- devs *)
Lemma stats_i32_wrap : forall s, stats_i32 s = true -> wrap_stats s = s.
Proof.
  intros [a r c] H. unfold stats_i32 in H. cbn [ls_added ls_removed ls_changed] in H.
  apply andb_true_iff in H. destruct H as [H H3]. apply andb_true_iff in H. destruct H as [H1 H2].
  unfold wrap_stats. cbn [ls_added ls_removed ls_changed].
  rewrite !wrap_i32_id by assumption. reflexivity.
Qed.

Lemma dev_tick_roundtrip : forall d, dev_tick_ok d = true -> unwrap_dev_tick (wrap_dev_tick d) = d.
Proof.
  intros [c s langs] H. unfold dev_tick_ok in H. cbn [dt_commits dt_stats dt_langs] in H.
  apply andb_true_iff in H. destruct H as [H H4]. apply andb_true_iff in H. destruct H as [H H3].
  apply andb_true_iff in H. destruct H as [H1 H2].
  unfold unwrap_dev_tick, wrap_dev_tick. cbn [dt_commits dt_stats dt_langs].
  rewrite wrap_i32_id by exact H1. rewrite stats_i32_wrap by exact H2.
  assert (Hs : msorted name_compare langs) by (apply (msortedb_sorted name_compare name_compare_ok); exact H4).
  rewrite (map_id_in (fun l => (fst l, wrap_stats (snd l)))).
  - rewrite (map_of_list_id name_compare name_compare_ok langs Hs).
    rewrite (map_of_list_id name_compare name_compare_ok langs Hs). reflexivity.
  - intros [n st] Hin. cbn [fst snd]. rewrite forallb_forall in H3. specialize (H3 _ Hin). cbn [snd] in H3.
    rewrite stats_i32_wrap by exact H3. reflexivity.
Qed.

Lemma dev_key_bounds : forall d, dev_key_ok d = true -> 0 <= d < 2147483648.
Proof.
  intros d H. apply andb_true_iff in H. destruct H as [H1 H2].
  apply Z.leb_le in H1. apply Z.ltb_lt in H2. lia.
Qed.

Lemma dev_to_pb_spec : forall d, 0 <= d < 2147483648 ->
  dev_to_pb d = (if d =? author_missing then -1 else d).
Proof.
  intros d H. unfold dev_to_pb. destruct (d =? author_missing).
  - reflexivity.
  - apply wrap_i32_small. exact H.
Qed.

Lemma dev_key_roundtrip : forall d, dev_key_ok d = true -> dev_of_pb (dev_to_pb d) = d.
Proof.
  intros d H. apply dev_key_bounds in H. rewrite dev_to_pb_spec by exact H. unfold dev_of_pb.
  destruct (d =? author_missing) eqn:E.
  - apply Z.eqb_eq in E. symmetry. exact E.
  - destruct (d =? -1) eqn:E2; [apply Z.eqb_eq in E2; lia | reflexivity].
Qed.

Lemma dev_to_pb_inj : forall a b, dev_key_ok a = true -> dev_key_ok b = true -> dev_to_pb a = dev_to_pb b -> a = b.
Proof.
  intros a b Ha Hb H. rewrite <- (dev_key_roundtrip a Ha), <- (dev_key_roundtrip b Hb), H. reflexivity.
Qed.

Definition enc_dev (d : Z * dev_tick) : Z * dev_tick := (dev_to_pb (fst d), wrap_dev_tick (snd d)).
Definition dec_dev (d : Z * dev_tick) : Z * dev_tick := (dev_of_pb (fst d), unwrap_dev_tick (snd d)).

Lemma devs_of_tick_roundtrip : forall dd,
  msortedb Z.compare dd = true ->
  forallb (fun d => dev_key_ok (fst d) && dev_tick_ok (snd d)) dd = true ->
  map_of_list Z.compare (map dec_dev (map_of_list Z.compare (map enc_dev dd))) = dd.
Proof.
  intros dd Hs Hr. rewrite forallb_forall in Hr.
  assert (Hs' : msorted Z.compare dd) by (apply (msortedb_sorted Z.compare Zcompare_ok); exact Hs).
  apply (map_of_list_roundtrip Z.compare Z.compare Zcompare_ok Zcompare_ok); [exact Hs' | |].
  - intros [k d] Hin. specialize (Hr _ Hin). cbn [fst snd] in Hr. apply andb_true_iff in Hr. destruct Hr as [Hk Hd].
    unfold dec_dev, enc_dev. cbn [fst snd]. rewrite dev_key_roundtrip by exact Hk.
    rewrite dev_tick_roundtrip by exact Hd. reflexivity.
  - intros x y Hx Hy Hf. unfold enc_dev in Hf. cbn [fst] in Hf.
    pose proof (Hr _ Hx) as Hrx. pose proof (Hr _ Hy) as Hry.
    apply andb_true_iff in Hrx. apply andb_true_iff in Hry. destruct Hrx as [Hkx _]. destruct Hry as [Hky _].
    apply (msorted_key_eq Z.compare Zcompare_ok dd); try assumption.
    apply dev_to_pb_inj; assumption.
Qed.

Definition enc_tick (t : Z * list (Z * dev_tick)) : Z * list (Z * dev_tick) :=
  (wrap_i32 (fst t), map_of_list Z.compare (map enc_dev (snd t))).
Definition dec_tick (t : Z * list (Z * dev_tick)) : Z * list (Z * dev_tick) :=
  (fst t, map_of_list Z.compare (map dec_dev (snd t))).

(* decode (encode r) = r *)
Theorem devs_roundtrip : forall r, shape_devs r = true -> in_range_devs r = true ->
  decode_devs (encode_devs r) = r.
Proof.
  intros [ticks names ts] Hshape Hrange.
  unfold shape_devs in Hshape. unfold in_range_devs in Hrange. cbn [dv_ticks] in Hshape, Hrange.
  apply andb_true_iff in Hshape. destruct Hshape as [Hs Hs2].
  rewrite forallb_forall in Hs2, Hrange.
  unfold decode_devs, encode_devs. cbn [dm_ticks dm_index dm_tick_size dv_ticks dv_names dv_tick_size].
  f_equal.
  change (map_of_list Z.compare (map dec_tick (map_of_list Z.compare (map enc_tick ticks))) = ticks).
  assert (Hs' : msorted Z.compare ticks) by (apply (msortedb_sorted Z.compare Zcompare_ok); exact Hs).
  apply (map_of_list_roundtrip Z.compare Z.compare Zcompare_ok Zcompare_ok); [exact Hs' | |].
  - intros [t dd] Hin. pose proof (Hs2 _ Hin) as H2. pose proof (Hrange _ Hin) as Hr. cbn [fst snd] in H2, Hr.
    apply andb_true_iff in H2. destruct H2 as [H2 _]. apply andb_true_iff in Hr. destruct Hr as [Ht Hr].
    unfold dec_tick, enc_tick. cbn [fst snd]. rewrite wrap_i32_id by exact Ht.
    rewrite devs_of_tick_roundtrip by assumption. reflexivity.
  - intros x y Hx Hy Hf. unfold enc_tick in Hf. cbn [fst] in Hf.
    pose proof (Hrange _ Hx) as Hrx. pose proof (Hrange _ Hy) as Hry.
    apply andb_true_iff in Hrx. apply andb_true_iff in Hry. destruct Hrx as [Hkx _]. destruct Hry as [Hky _].
    rewrite !wrap_i32_id in Hf by assumption.
    apply (msorted_key_eq Z.compare Zcompare_ok ticks); assumption.
Qed.

(* ---------------------------------------------------------------- couples *)
Lemma csr_rows_map_to_csr : forall m, dim_ok m = true -> csr_rows (map_to_csr m) = len m.
Proof.
  intros m H. apply dim_ok_lt in H. pose proof (len_nonneg m).
  unfold map_to_csr, csr_of_rows. cbn [csr_rows]. apply wrap_i32_small. lia.
Qed.

Lemma nat_ltb_false_le : forall a b, (a <=? b)%nat = true -> (b <? a)%nat = false.
Proof. intros a b H. apply Nat.leb_le in H. apply Nat.ltb_ge. exact H. Qed.

(* decode (encode r) = r except that PeopleFiles is cut to the developers that have a name *)
Theorem couples_roundtrip : forall r, shape_couples r = true -> in_range_couples r = true ->
  bind (encode_couples r) decode_couples = Ok (normalise_couples r).
Proof.
  intros [pm pf fm fl files names] Hshape Hrange.
  unfold shape_couples in Hshape. unfold in_range_couples in Hrange.
  cbn [cp_people_matrix cp_people_files cp_files_matrix cp_files_lines cp_files cp_names] in Hshape, Hrange.
  apply andb_true_iff in Hshape. destruct Hshape as [Hshape Hspm]. apply andb_true_iff in Hshape. destruct Hshape as [Hshape Hsfm].
  apply andb_true_iff in Hshape. destruct Hshape as [Hlen Hfl].
  apply andb_true_iff in Hrange. destruct Hrange as [Hrange Hdpm]. apply andb_true_iff in Hrange. destruct Hrange as [Hrange Hdfm].
  apply andb_true_iff in Hrange. destruct Hrange as [Hrange Hrfl]. apply andb_true_iff in Hrange. destruct Hrange as [Hrange Hrpf].
  apply andb_true_iff in Hrange. destruct Hrange as [Hrfm Hrpm].
  unfold encode_couples. cbn [cp_people_matrix cp_people_files cp_files_matrix cp_files_lines cp_files cp_names].
  rewrite (nat_ltb_false_le _ _ Hlen). cbn [bind].
  unfold decode_couples.
  cbn [cm_files_index cm_files_matrix cm_people_index cm_people_matrix cm_people_files cm_files_lines].
  rewrite !csr_rows_map_to_csr by assumption.
  pose proof (len_nonneg fm). pose proof (len_nonneg pm).
  destruct ((len fm <? 0) || (len pm <? 0)) eqn:E1;
    [apply orb_true_iff in E1; destruct E1 as [E1|E1]; apply Z.ltb_lt in E1; lia|].
  assert (Hpfl : length (map (map wrap_i32) (firstn (length names) pf)) = length names).
  { rewrite map_length, firstn_length. apply Nat.leb_le in Hlen. lia. }
  rewrite Hpfl, Nat.ltb_irrefl, map_length, Hfl. cbn [negb].
  rewrite !csr_maps_roundtrip by assumption. cbn [bind].
  unfold normalise_couples. cbn [cp_people_matrix cp_people_files cp_files_matrix cp_files_lines cp_files cp_names].
  rewrite Nat.sub_diag. cbn [repeat]. rewrite app_nil_r.
  f_equal. f_equal.
  - apply map_id_in. intros row Hrow. apply map_id_in. intros v Hv.
    rewrite forallb_forall in Hrpf. specialize (Hrpf _ Hrow). rewrite forallb_forall in Hrpf.
    apply wrap_i32_id. apply Hrpf. exact Hv.
  - apply map_id_in. intros v Hv. rewrite forallb_forall in Hrfl. apply wrap_i32_id. apply Hrfl. exact Hv.
Qed.
