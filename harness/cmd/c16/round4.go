// Round-4 streams of the C16 harness: the CONTENT of the values a commit list is made of, and pairs of features.
//
// A commit carries more than the author's name and e-mail: a committer signature (name, e-mail, time, zone) and the
// author's time.  The property speaks about AUTHOR identities only, so nothing of that may change PeopleDict,
// ReversedPeopleDict or the resolved indices: in the kinds cmt-* / seq-cmt / *-cmt every commit item of the case is
// (name email committer-name committer-e-mail author-time committer-time) and the model is run on (name, e-mail) alone.
//
//	cmt-exh        every list of <= 2 commits over 9 author signatures {a,b,""} x {e,"",a} x 6 committers (the author, another
//	               author of the alphabet, a stranger, the zero Signature, name only, e-mail only), both modes; times before 1970,
//	               0, equal, decreasing, in the future, zones with non-zero offsets
//	cmt-dense / cmt-attr / cmt-mm   random lists over the old pools; committer = author / the author of ANOTHER commit of the list
//	               (same or other case) / a stranger / zero / the author's name only / e-mail only / name and e-mail swapped;
//	               cmt-mm: with a .mailmap whose entries name committers and authors
//	cmt-scale      10^4 commits (scale-few list), the committer of commit i is the author of commit i+1
//	seq-cmt        2..3 stages on ONE Detector whose commits carry foreign committers
//	shape-exh1/2, shape-rand, shape-mm   e-mails and names with SYNTACTIC SHAPE that a "canonicaliser" would rewrite: GitHub no-reply
//	               addresses with and without the numeric id, plus-addressing, gmail dots, googlemail, upper-case domains, trailing
//	               dots, mailto:, quotes, comments, look-alike domains; names as login / full name / "Last, First" / with titles,
//	               suffixes, [bot]; 2..3 persons whose variants cross.  Both members of every pair that a normalisation would make
//	               equal occur in one case with different names, one of which belongs to another developer
//	prefix         two names / e-mails that agree in their first (last) k bytes, k = 1, 2, 4, 7, 8, 15, 16, 31, 32, 63, 64, 255, 256
//	bytes-exh, bytes-rand, bytes-mm   byte content: one base name / e-mail in variants that differ only by a BOM, CR, CRLF, NUL,
//	               NBSP, U+2028, U+3000, U+FFFD next to an invalid byte, overlong forms, a surrogate, a lone continuation byte,
//	               leading / trailing / inner blanks, case; all ordered pairs of variants (exh), random lists (rand), inside
//	               .mailmap lines (mm; without the Unicode spaces, see docs)
//	width-many / width-chain   9, 10, 11, 99, 100, 101, 999, 1000, 1001 developers named by unpadded decimal numbers; ONE developer with
//	               that many unpadded numbered names and e-mails (sorted descriptions: "n10" < "n9")
//	mm-kind        the tree entry ".mailmap" regular / executable / symlink / submodule x blob = empty, BOM only, white space only,
//	               BOM + entry, CRLF, lone CR, NUL, no final newline, a link target
package main

import (
	"fmt"
	"strings"

	. "verifharness/lib"
)

var r4times = []int64{0, -86400 * 365, 1500000000, 4102444800, 1500000000, 1499990000, -1, 1<<31 - 1, 1 << 31, 1 << 32, 951782400}

func r4time(k int) int64 { return r4times[((k%len(r4times))+len(r4times))%len(r4times)] }

// committerFor: the committer of commit i of sigs, way w
func committerFor(c *Config, sigs []sig, i, w int) (string, string) {
	s := sigs[i]
	switch w {
	case 1, 2: // the author of another commit of the list
		o := sigs[c.Rng.Intn(len(sigs))]
		if w == 2 {
			return mixCase(c, o.name), mixCase(c, o.email)
		}
		return o.name, o.email
	case 3:
		return "import bot", "bot@ci.x"
	case 4:
		return "", ""
	case 5:
		return s.name, ""
	case 6:
		return "", s.email
	case 7:
		return s.email, s.name
	}
	return s.name, s.email
}

func randomExtras(c *Config, sigs []sig) []cextra {
	ex := make([]cextra, len(sigs))
	style := c.Rng.Intn(3) // 0: mixed, 1: all foreign, 2: mostly the author
	for i := range sigs {
		w := c.Rng.Intn(8)
		if style == 1 && w == 0 {
			w = 1
		} else if style == 2 && c.Rng.Intn(3) != 0 {
			w = 0
		}
		n, e := committerFor(c, sigs, i, w)
		ex[i] = cextra{n, e, r4time(c.Rng.Intn(64)), r4time(c.Rng.Intn(64))}
		if w == 4 && c.Rng.Intn(2) == 0 {
			ex[i].cw = 0 // the zero Signature
		}
	}
	return ex
}

func cmtExhaustive(c *Config) {
	var authors []sig
	for _, n := range []string{"a", "b", ""} {
		for _, m := range []string{"e", "", "a"} {
			authors = append(authors, sig{n, m})
		}
	}
	type item struct {
		s sig
		x cextra
	}
	var alpha []item
	for i, a := range authors {
		cms := []sig{a, {"b", "e"}, {"c", "c@"}, {"", ""}, {"a", ""}, {"", "e"}}
		for j, cm := range cms {
			x := cextra{cm.name, cm.email, r4time(i + j), r4time(i + 2*j + 1)}
			if j == 3 && i%2 == 0 {
				x.cw = 0
			}
			alpha = append(alpha, item{a, x})
		}
	}
	for _, exact := range []bool{false, true} {
		for _, a := range alpha {
			emitCase(c, "cmt-exh", &gcase{exact: exact, sigs: []sig{a.s}, extra: []cextra{a.x}})
		}
		for i, a := range alpha {
			for j, b := range alpha {
				if (i+j)%2 == 0 || c.Thorough() {
					emitCase(c, "cmt-exh", &gcase{exact: exact, sigs: []sig{a.s, b.s}, extra: []cextra{a.x, b.x}})
				}
			}
		}
	}
}

func mmSafe(s string) bool { return s != "" && !strings.ContainsAny(s, "<>|\n#") && strings.TrimSpace(s) == s }

func cmtRandom(c *Config) {
	n := c.Count(1800, 25000)
	for i := 0; i < n; i++ {
		exact := c.Rng.Intn(3) == 0
		var sigs []sig
		kind := "cmt-dense"
		switch c.Rng.Intn(4) {
		case 0:
			sigs = randomSigs(c, 1+c.Rng.Intn(10), 5, 5, false)
		case 1:
			sigs = randomSigs(c, 1+c.Rng.Intn(16), 9, 8, false)
		case 2:
			sigs, kind = attrSigs(c, 1+c.Rng.Intn(10)), "cmt-attr"
		default:
			sigs, kind = shapeSigs(c, 1+c.Rng.Intn(8)), "cmt-shape"
		}
		g := &gcase{exact: exact, sigs: sigs, extra: randomExtras(c, sigs)}
		if kind == "cmt-dense" && c.Rng.Intn(3) == 0 {
			// a mailmap that names committers and authors
			var lines []string
			for q := 1 + c.Rng.Intn(3); q > 0; q-- {
				k := c.Rng.Intn(len(sigs))
				l := mline{fromE: fmt.Sprintf("old%d@x", c.Rng.Intn(3))}
				if x := g.extra[k]; mmSafe(x.cemail) && c.Rng.Intn(2) == 0 {
					l.fromE = x.cemail // the committer's address is mapped to somebody
					l.toN, l.toE = pick(c, namePool, 5), fmt.Sprintf("new%d@x", c.Rng.Intn(2))
				} else if mmSafe(sigs[k].email) && c.Rng.Intn(2) == 0 {
					l.fromE = sigs[k].email // the author's address is mapped to the committer
					l.toN, l.toE = x.cname, x.cemail
				} else {
					l.toN, l.toE = x.cname, x.cemail // somebody is mapped to the committer
				}
				if (l.toN != "" && !mmSafe(l.toN)) || (l.toE != "" && !mmSafe(l.toE)) || (l.toN == "" && l.toE == "") {
					continue
				}
				lines = append(lines, l.render())
			}
			if len(lines) > 0 {
				txt := mmText(c, lines)
				g.mailmap, g.runs, kind = &txt, 2, "cmt-mm"
			}
		}
		emitCase(c, kind, g)
	}
	// 10^4 commits, the committer of commit i is the author of commit i+1
	for _, exact := range []bool{false, true} {
		few := fewSigs(10000, 17, 15)
		ex := make([]cextra, len(few))
		for i := range few {
			o := few[(i+1)%len(few)]
			ex[i] = cextra{o.name, o.email, r4time(i), r4time(i / 3)}
		}
		emitCase(c, "cmt-scale", &gcase{exact: exact, sigs: few, extra: ex})
	}
}

func seqCmt(c *Config) {
	n := c.Count(500, 8000)
	for i := 0; i < n; i++ {
		nst := 2 + c.Rng.Intn(2)
		var stages []*stage
		for k := 0; k < nst; k++ {
			s := &stage{exact: c.Rng.Intn(3) == 0, init: c.Rng.Intn(3) == 0, pre: c.Rng.Intn(4) == 0}
			if c.Rng.Intn(5) == 0 {
				s.how = 1
			}
			if k > 0 && c.Rng.Intn(3) == 0 {
				// the list of the previous stage with authors and committers exchanged
				p := stages[k-1]
				for j, g := range p.sigs {
					s.sigs = append(s.sigs, sig{p.extra[j].cname, p.extra[j].cemail})
					s.extra = append(s.extra, cextra{g.name, g.email, p.extra[j].cw, p.extra[j].aw})
				}
			} else {
				s.sigs = randomSigs(c, 1+c.Rng.Intn(8), 6, 6, false)
				s.extra = randomExtras(c, s.sigs)
			}
			stages = append(stages, s)
		}
		emitSeq(c, "seq-cmt", stages)
	}
}

// ---- syntactic shape ----

type person struct {
	login string
	ids   []string
	names []string
}

var persons = []person{
	{"alice", []string{"4242", "17"}, []string{"Alice", "alice", "Alice Liddell", "alice liddell", "Liddell, Alice", "A. Liddell", "Alice Liddell (work)",
		"Dr. Alice Liddell", "Alice  Liddell", "alice-liddell", "Alice Liddell via GitHub", "Alice Liddell, PhD", "'Alice'", "\"Alice\"", "=?UTF-8?Q?Alice?=", "alice[bot]", "Alic", "Alice2"}},
	{"bob", []string{"583231", "4242"}, []string{"Bob", "bob", "Bob Smith", "Smith, Bob", "bob.smith", "BOB SMITH", "Bob Smith Jr.", "bobsmith", "Bobby", "bob[bot]", "Bo", "bob1"}},
	{"octocat", []string{"583231", "1"}, []string{"The Octocat", "octocat", "Octocat", "GitHub", "dependabot[bot]", "root", "unknown", "(no author)", "nobody", "octocat@users.noreply.github.com", "octo", "octocats"}},
}

// shapedMails: the addresses one login may commit with
func shapedMails(p person) []string {
	l := p.login
	res := []string{
		l + "@users.noreply.github.com",
		p.ids[0] + "+" + l + "@users.noreply.github.com",
		p.ids[1] + "+" + l + "@users.noreply.github.com",
		p.ids[0] + "+" + l + "@USERS.NOREPLY.GITHUB.COM",
		p.ids[0] + "+" + strings.ToUpper(l[:1]) + l[1:] + "@users.noreply.github.com",
		"+" + l + "@users.noreply.github.com",
		p.ids[0] + "+@users.noreply.github.com",
		p.ids[0] + "+" + l + "+x@users.noreply.github.com",
		l + "+" + p.ids[0] + "@users.noreply.github.com",
		p.ids[0] + "+" + l + "@users.noreply.github.com.evil.x",
		p.ids[0] + "+" + l + "@xusers.noreply.github.com",
		p.ids[0] + "+" + l + "@noreply.github.com",
		l + "@example.com",
		l + "+git@example.com",
		l + "+hercules@example.com",
		l + "@Example.COM",
		l + "@example.com.",
		l + "@corp.example.com",
		l + "@gmail.com",
		l[:2] + "." + l[2:] + "@gmail.com",
		l + "+work@gmail.com",
		l + "@googlemail.com",
		"mailto:" + l + "@example.com",
		"\"" + l + "\"@example.com",
		l + "@example.com (" + l + ")",
		l + " at example dot com",
		l + "%example.com@relay.x",
		l + "@localhost",
		l + "@[127.0.0.1]",
		l + "@example.co",
		"m" + l + "@example.com",
		l,
	}
	return res
}

var sharedMails = []string{"noreply@github.com", "@users.noreply.github.com", "users.noreply.github.com", "none@none", "root@localhost", "", "devnull@localhost", "unknown"}

// shapeSigs: commits of 2..3 persons; the names cross between the persons a quarter of the time
func shapeSigs(c *Config, n int) []sig {
	np := 2 + c.Rng.Intn(2)
	nm := 2 + c.Rng.Intn(4) // how many of the address shapes of a person are in use
	off := c.Rng.Intn(32)
	res := make([]sig, n)
	for i := range res {
		p := persons[c.Rng.Intn(np)]
		ms := shapedMails(p)
		em := ms[(off+c.Rng.Intn(nm))%len(ms)]
		if c.Rng.Intn(3) == 0 {
			em = ms[c.Rng.Intn(12)] // the no-reply family
		}
		if c.Rng.Intn(12) == 0 {
			em = sharedMails[c.Rng.Intn(len(sharedMails))]
		}
		q := p
		if c.Rng.Intn(4) == 0 {
			q = persons[c.Rng.Intn(np)]
		}
		nmv := q.names[c.Rng.Intn(len(q.names))]
		if c.Rng.Intn(3) == 0 {
			nmv = q.names[c.Rng.Intn(3)]
		}
		if c.Rng.Intn(6) == 0 {
			nmv, em = mixCase(c, nmv), mixCase(c, em)
		}
		res[i] = sig{nmv, em}
	}
	return res
}

func shapeStreams(c *Config) {
	a, b := persons[0], persons[1]
	ma := shapedMails(a)
	all := append(append([]string{}, ma...), sharedMails...)
	for _, exact := range []bool{false, true} {
		for _, m := range all {
			for _, nm := range []string{"Alice", "alice liddell", ""} {
				emit(c, "shape-exh1", exact, []sig{{nm, m}})
			}
		}
		// every ordered pair of address shapes of ONE login, under a third commit that gives the short name to somebody else:
		// (Alice, corp) (N1, m1) (N2, m2) with N1, N2 in {Alice Liddell / Alice, Alice / Alice, Alice / Bob}
		for i, m1 := range all {
			for j, m2 := range all {
				for k, ns := range [][2]string{{"Alice Liddell", "Alice"}, {"Alice", "Alice"}, {"Alice", "Bob"}} {
					if !c.Thorough() && (i+2*j+k)%3 != 0 {
						continue
					}
					emit(c, "shape-exh2", exact, []sig{{"Alice", "alice@corp.example.com"}, {"Bob", "bob@example.com"}, {ns[0], m1}, {ns[1], m2}})
				}
			}
		}
	}
	_ = b
	n := c.Count(2000, 30000)
	for i := 0; i < n; i++ {
		exact := c.Rng.Intn(3) == 0
		sigs := shapeSigs(c, 1+c.Rng.Intn(12))
		if c.Rng.Intn(4) != 0 {
			emit(c, "shape-rand", exact, sigs)
			continue
		}
		// a .mailmap that does by hand what a canonicaliser would do: the shaped address belongs to "Name <login@corp>"
		var lines []string
		for q := 1 + c.Rng.Intn(3); q > 0; q-- {
			p := persons[c.Rng.Intn(3)]
			ms := shapedMails(p)
			from := ms[c.Rng.Intn(len(ms))]
			if !mmSafe(from) {
				continue
			}
			l := mline{toN: p.names[c.Rng.Intn(3)], toE: p.login + "@corp.example.com", fromE: from}
			if c.Rng.Intn(3) == 0 {
				l.toN = ""
			}
			lines = append(lines, l.render())
		}
		if len(lines) == 0 {
			emit(c, "shape-rand", exact, sigs)
			continue
		}
		emitMM(c, "shape-mm", false, sigs, mmText(c, lines))
	}
	// common prefixes and suffixes of k bytes
	base := strings.Repeat("abcdefghijklmnopqrstuvwxyz0123456789", 8)
	for _, k := range []int{1, 2, 4, 7, 8, 15, 16, 31, 32, 63, 64, 255, 256} {
		pre := base[:k]
		for _, exact := range []bool{false, true} {
			// e-mails that agree in the first / last k bytes, names that do; the third commit repeats the first in other case
			emit(c, "prefix", exact, []sig{{"n1", pre + "X@x.org"}, {"n2", pre + "Y@x.org"}, {"n3", strings.ToUpper(pre) + "x@X.org"}, {"n2", "other@x"}})
			emit(c, "prefix", exact, []sig{{"n1", "x@" + pre}, {"n2", "y@" + pre}, {"n3", "y@" + pre + "z"}, {"n1", "z@z"}})
			emit(c, "prefix", exact, []sig{{pre + " One", "a@x"}, {pre + " Two", "b@x"}, {pre, "c@x"}, {pre + " one", "d@x"}})
			emit(c, "prefix", exact, []sig{{"One " + pre, "a@x"}, {"Two " + pre, "b@x"}, {pre, "c@x"}, {"two " + pre, "d@x"}})
		}
	}
}

// ---- byte content ----

// byteVariants: strings that differ from s only in bytes a sanitiser / trimmer / normaliser would touch
func byteVariants(s string, unicodeSpaces bool) []string {
	mid := len(s) / 2
	res := []string{
		s,
		strings.ToUpper(s),
		"\xef\xbb\xbf" + s, // BOM
		s + "\xef\xbb\xbf",
		"\xef\xbb\xbf",
		s + "\r", s + "\r\n", s + "\n", "\r" + s, s[:mid] + "\r" + s[mid:],
		s + "\x00", "\x00" + s, s[:mid] + "\x00" + s[mid:],
		" " + s, s + " ", s[:mid] + " " + s[mid:], "\t" + s, s + "\t",
		s + "\xff", s + "\xef\xbf\xbd", "\xff" + s, "\xef\xbf\xbd" + s, s[:mid] + "\xff" + s[mid:], s[:mid] + "\xef\xbf\xbd" + s[mid:],
		s + "\xc3", s + "\xc0\xaf", s + "\xed\xa0\x80", s + "\x80", s + "\xe4\xb8", s + "\xf4\x90\x80\x80",
		s + "\xef\xbf\xbd\xef\xbf\xbd", s + "\xff\xff", s + "\xc3\xa9", s + "\xc3\x89", s + "e\xcc\x81",
	}
	if unicodeSpaces {
		res = append(res, s+"\xc2\xa0", "\xc2\xa0"+s, s[:mid]+"\xc2\xa0"+s[mid:], s+"\xe2\x80\xa8", "\xe3\x80\x80"+s, s+"\xe3\x80\x80", s+"\xc2\x85",
			s+"\xe2\x80\x8b", s+"\xe2\x80\x8d", "\xc2\xad"+s)
	}
	return res
}

func byteStreams(c *Config) {
	ev := byteVariants("ab@x", true)
	nv := byteVariants("bo", true)
	for _, exact := range []bool{false, true} {
		for i, e1 := range ev {
			for j, e2 := range ev {
				if !c.Thorough() && (i+j)%2 != 0 && i != 0 && j != 0 {
					continue
				}
				// the same name twice: what a collapse of the e-mails would hide shows in the description; and two names of
				// which the first belongs to somebody else
				emit(c, "bytes-exh", exact, []sig{{"zed", "z@z"}, {"zed", e1}, {"yo", e2}})
			}
		}
		for i, n1 := range nv {
			for j, n2 := range nv {
				if !c.Thorough() && (i+j)%2 != 0 && i != 0 && j != 0 {
					continue
				}
				emit(c, "bytes-exh", exact, []sig{{n1, "p@x"}, {n2, "q@x"}, {n1, "r@x"}})
			}
		}
	}
	n := c.Count(1500, 20000)
	evm := byteVariants("ab@x", false)
	nvm := byteVariants("bo", false)
	for i := 0; i < n; i++ {
		exact := c.Rng.Intn(3) == 0
		k := 1 + c.Rng.Intn(8)
		sigs := make([]sig, k)
		ne, nn := 2+c.Rng.Intn(5), 2+c.Rng.Intn(5)
		oe, on := c.Rng.Intn(len(ev)), c.Rng.Intn(len(nv))
		withMM := c.Rng.Intn(5) == 0
		pe, pn := ev, nv
		if withMM {
			pe, pn = evm, nvm
		}
		for j := range sigs {
			sigs[j] = sig{pn[(on+c.Rng.Intn(nn))%len(pn)], pe[(oe+c.Rng.Intn(ne))%len(pe)]}
			switch c.Rng.Intn(8) {
			case 0:
				sigs[j].name = pick(c, namePool, 5)
			case 1:
				sigs[j].email = pick(c, mailPool, 5)
			case 2:
				sigs[j].email = pe[c.Rng.Intn(len(pe))]
			}
		}
		if !withMM {
			emit(c, "bytes-rand", exact, sigs)
			continue
		}
		var lines []string
		for q := 1 + c.Rng.Intn(3); q > 0; q-- {
			l := mline{fromE: pe[c.Rng.Intn(len(pe))], toE: pe[c.Rng.Intn(len(pe))]}
			if c.Rng.Intn(2) == 0 {
				l.toN = pn[c.Rng.Intn(len(pn))]
			}
			if c.Rng.Intn(3) == 0 {
				l.fromN = pn[c.Rng.Intn(len(pn))]
			}
			if strings.Contains(l.fromE+l.toE+l.toN+l.fromN, "\n") {
				continue
			}
			lines = append(lines, l.render())
		}
		txt := strings.Join(lines, "\n")
		switch c.Rng.Intn(4) {
		case 0:
			txt = "\xef\xbb\xbf" + txt
		case 1:
			txt = strings.Replace(txt, "\n", "\r\n", -1) + "\r\n"
		}
		emitMM(c, "bytes-mm", false, sigs, txt)
	}
}

// ---- decimal widths ----

func widthStreams(c *Config) {
	widths := []int{9, 10, 11, 99, 100, 101}
	if c.Thorough() {
		widths = append(widths, 999, 1000, 1001)
	}
	for wi, d := range widths {
		for _, exact := range []bool{false, true} {
			// d developers "<i>" <i@x>, each seen again in the opposite order under a second name "dev<i>"
			var sigs []sig
			for i := 1; i <= d; i++ {
				sigs = append(sigs, sig{fmt.Sprintf("%d", i), fmt.Sprintf("%d@x", i)})
			}
			for i := d; i >= 1; i-- {
				sigs = append(sigs, sig{fmt.Sprintf("Dev%d", i), fmt.Sprintf("%d@X", i)})
			}
			emitScale(c, "width-many", &gcase{exact: exact, sigs: sigs}, false)
			if d > 101 {
				continue // a chain of 2000 parts costs the model minutes (scale-chain covers the size)
			}
			// ONE developer with the names n1..nd and the e-mails 1@x..d@x (ascending, descending)
			sigs = nil
			for i := 1; i <= d; i++ {
				sigs = append(sigs, sig{fmt.Sprintf("n%d", i), fmt.Sprintf("%d@x", i)})
				if i < d {
					sigs = append(sigs, sig{fmt.Sprintf("N%d", i+1), fmt.Sprintf("%d@X", i)})
				}
			}
			if (wi+d)%2 == 1 {
				for i, j := 0, len(sigs)-1; i < j; i, j = i+1, j-1 {
					sigs[i], sigs[j] = sigs[j], sigs[i]
				}
			}
			emitScale(c, "width-chain", &gcase{exact: exact, sigs: sigs}, false)
		}
	}
	if !c.Thorough() {
		// quick: one case on each side of 1000
		for _, d := range []int{999, 1001} {
			var sigs []sig
			for i := 1; i <= d; i++ {
				sigs = append(sigs, sig{fmt.Sprintf("%d", i), fmt.Sprintf("%d@x", i)})
			}
			sigs = append(sigs, sig{"1000", "1@x"}, sig{"1", "1000@X"})
			emitScale(c, "width-many", &gcase{sigs: sigs}, false)
		}
	}
}

// ---- the kind of the tree entry and of the blob ----

func mmKindStreams(c *Config) {
	blobs := []string{"", "\xef\xbb\xbf", " \n\t\n", "\n", "\xef\xbb\xbfA <a@x> <k@x>", "\xef\xbb\xbf\nA <a@x> <k@x>\n", "A <a@x> <k@x>\r\nB <b@x> <j@x>\r\n",
		"A <a@x> <k@x>\rB <b@x> <j@x>", "A <a@x> <k@x>\x00", "\x00", "A <a@x> <k@x>", "\n\nA <a@x> <k@x>\n\n", "../.mailmap-real", "docs/.mailmap",
		"<a@x> <k@x>\n", "A <a@x> Kay <k@x>\n# B <b@x> <j@x>\n"}
	lists := [][]sig{{{"Kay", "k@x"}}, {{"Kay", "K@x"}, {"jay", "j@x"}, {"A", "other@x"}}, {{"b", "b@x"}, {"kay", "k@x"}, {"x", "a@x"}}}
	for mode := 0; mode < 4; mode++ {
		for _, b := range blobs {
			for li, l := range lists {
				txt := b
				emitCase(c, "mm-kind", &gcase{exact: false, sigs: l, mailmap: &txt, runs: 2, mmMode: mode})
				if li == 1 {
					emitCase(c, "mm-kind", &gcase{exact: true, sigs: l, mailmap: &txt, runs: 2, mmMode: mode})
				}
			}
		}
	}
}

func round4Streams(c *Config) {
	cmtExhaustive(c)
	cmtRandom(c)
	seqCmt(c)
	shapeStreams(c)
	byteStreams(c)
	widthStreams(c)
	mmKindStreams(c)
}
