(* BlobCache.Consume in BOTH submodule modes: a change list all of whose blobs are AVAILABLE - the object is in the
   store, or the entry is a submodule entry and (the mode is lenient, or the path is registered in the parsed
   .gitmodules of the commit that is being consumed) - is never refused, whatever the rotating cache holds.
   [integral_b] is the executable form of that domain (extracted: the replay driver uses it to decide when an error or
   a panic of the implementation is a violation of "every blob referenced by a reported change is available, submodule
   entries as empty placeholders"); it is stated over the environment alone (store, mode flag, .gitmodules of THIS
   commit): nothing a previous commit left behind may matter. *)
From Coq Require Import List NArith Bool.
From Herc Require Import TreeDiff.Model.
Import ListNotations.
Open Scope N_scope.

Definition has_object (b : benv) (e : entry) : bool :=
  match b_store b (e_hash e) with Some _ => true | None => false end.

Definition sub_entry (e : entry) : bool := e_mode e =? mode_submodule.

(* the path is a submodule name of the commit's .gitmodules (false when the file is missing or unreadable) *)
Definition registered (b : benv) (e : entry) : bool :=
  match b_modules b with Some names => path_mem (e_path e) names | None => false end.

Definition modules_readable (b : benv) : bool :=
  match b_modules b with Some _ => true | None => false end.

(* a blob that must be loaded: the To side of an insertion, both sides of a modification *)
Definition available (b : benv) (e : entry) : bool :=
  has_object b e || (sub_entry e && (negb (b_fail_missing b) || registered b e)).

(* the From side of a deletion: a vanished object gets a placeholder; only an unreadable .gitmodules (strict mode,
   submodule entry) is an error *)
Definition deletable (b : benv) (e : entry) : bool :=
  has_object b e || negb (sub_entry e) || negb (b_fail_missing b) || modules_readable b.

Definition change_integral (b : benv) (c : change) : bool :=
  match c_from c, c_to c with
  | None, None => false
  | None, Some t => available b t
  | Some fr, None => deletable b fr
  | Some fr, Some t => available b t && available b fr
  end.

Definition integral_b (b : benv) (cs : list change) : bool := forallb (change_integral b) cs.

Lemma available_loads : forall b e, available b e = true ->
  exists cb, load (e_hash e) (get_blob b e) = Some cb.
Proof.
  intros b e H. unfold available, has_object, sub_entry, registered in H. unfold get_blob.
  destruct (b_store b (e_hash e)) as [d|]; simpl in *.
  - eauto.
  - destruct (e_mode e =? mode_submodule); simpl in *; try discriminate.
    destruct (b_fail_missing b); simpl in *.
    + destruct (b_modules b) as [names|]; try discriminate. rewrite H. simpl. eauto.
    + eauto.
Qed.

Lemma deletable_not_other : forall b e, deletable b e = true -> get_blob b e <> GOther.
Proof.
  intros b e H. unfold deletable, has_object, sub_entry, modules_readable in H. unfold get_blob.
  destruct (b_store b (e_hash e)) as [d|]; simpl in *; try discriminate.
  destruct (e_mode e =? mode_submodule); simpl in *; try discriminate.
  destruct (b_fail_missing b); simpl in *; try discriminate.
  destruct (b_modules b) as [names|]; try discriminate.
  destruct (path_mem (e_path e) names); discriminate.
Qed.

Lemma bc_step_total_strict : forall b lg old acc c, change_integral b c = true ->
  exists acc', bc_step b lg old acc c = Ok acc'.
Proof.
  intros b lg old [cache newc] c H. unfold change_integral in H. unfold bc_step.
  destruct c as [[fr|] [t|]]; simpl in *.
  - apply andb_true_iff in H. destruct H as [HT HF].
    destruct (available_loads b t HT) as [cb LT]. rewrite LT.
    destruct (aget old (e_hash fr)); eauto.
    destruct (available_loads b fr HF) as [cb1 LF]. rewrite LF. eauto.
  - destruct (aget old (e_hash fr)); eauto.
    pose proof (deletable_not_other b fr H) as HN.
    destruct (get_blob b fr); eauto. contradiction.
  - destruct (available_loads b t H) as [cb LT]. rewrite LT. eauto.
  - discriminate.
Qed.

Theorem cache_no_refusal_strict : forall b s cs, integral_b b cs = true ->
  exists r, bc_consume b s cs = Ok r.
Proof.
  intros b s cs HI. unfold bc_consume.
  assert (HL : forall acc, exists acc', bc_loop b (bc_log s) (bc_cache s) acc cs = Ok acc').
  { unfold integral_b in HI. induction cs as [|c r IH]; intro acc; simpl.
    - eauto.
    - simpl in HI. apply andb_true_iff in HI. destruct HI as [HC HR].
      destruct (bc_step_total_strict b (bc_log s) (bc_cache s) acc c HC) as [acc1 S].
      rewrite S. apply IH. exact HR. }
  destruct (HL ([], [])) as [[cache newc] L]. rewrite L. eauto.
Qed.

(* the domain is not empty in strict mode, and a submodule that the commit's .gitmodules does not list is outside it *)
Example integral_b_strict_example :
  let b := mkB (fun h => if h =? 1 then Some [65] else None) true (Some [[108; 105; 98]]) in
  integral_b b [mkC None (Some (mkE [108; 105; 98] 9 mode_submodule)); mkC (Some (mkE [97] 1 33188)) None] = true /\
  integral_b b [mkC None (Some (mkE [46; 99; 105] 9 mode_submodule))] = false.
Proof. vm_compute. split; reflexivity. Qed.
